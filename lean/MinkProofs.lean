import MinkProofs.TablesOk
import MinkProofs.Numbering
import MinkProofs.C07
import MinkProofs.C08
import MinkProofs.SortLemmas
import MinkProofs.C02
