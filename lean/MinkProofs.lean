import MinkProofs.TablesOk
import MinkProofs.Numbering
import MinkProofs.C07
import MinkProofs.C08
