/-
  MinkModel.Wire — what travels in one direction of an invocation along the shared parameter
  walk: the reference encoder (the Mink marshalling rule: bundle of small values first,
  members largest first; every other data parameter a discrete buffer; embedded objects and
  object parameters as object arguments) and the decoder every skeleton / stub return path
  implements by walking the same event list.
-/
import MinkModel.Walk
namespace Mink

/-- a value of one parameter as it crosses the boundary:
    `data img objs` — byte image (object fields blank) plus the embedded objects in
    `objects()` order; `obj o` — one object (none = null); `objs l` — a fixed object array -/
inductive PVal
  | data (img : List Nat) (objs : List (Option Nat))
  | obj (o : Option Nat)
  | objs (l : List (Option Nat))
  deriving DecidableEq, Repr, Inhabited

/-- a payload slot of the argument array -/
inductive PSlot
  | buf (bytes : List Nat)
  | obj (o : Option Nat)
  deriving DecidableEq, Repr, Inhabited

def PVal.img : PVal → List Nat
  | .data i _ => i
  | _ => []

/-- number of embedded objects the walk attaches to a discrete struct parameter -/
def MParam.nEmb (p : MParam) : Nat :=
  match p.vkind with
  | .bigStruct s | .smallStruct s => s.objects.length
  | _ => 0

/-- slots one discrete parameter contributes to the payload of its own direction -/
def encodeParam (p : MParam) (v : PVal) : List PSlot :=
  match p.vkind, v with
  | .obj _, .obj o => [.obj o]
  | .objArr _ _, .objs l => l.map PSlot.obj
  | .unreachable, _ => []
  | _, .data img objs => .buf img :: objs.map PSlot.obj
  | _, _ => []

def encodeBundle (ms : List BMember) (v : Nat → PVal) : PSlot :=
  .buf (ms.flatMap fun m => (v m.name).img)

/-- the payload of direction `d`, in event (= argument array) order -/
def encodeDir (d : Dir) (v : Nat → PVal) : List Ev → List PSlot
  | [] => []
  | .inBundle ms :: es => (if d == .inp then [encodeBundle ms v] else []) ++ encodeDir d v es
  | .outBundle ms :: es => (if d == .out then [encodeBundle ms v] else []) ++ encodeDir d v es
  | .single p :: es => (if p.dir == d then encodeParam p (v p.name) else []) ++ encodeDir d v es

/-- cut a buffer into consecutive pieces of the given sizes; `none` if the length differs -/
def splitBySizes : List Nat → List Nat → Option (List (List Nat))
  | [], [] => some []
  | [], _ :: _ => none
  | n :: ns, bytes =>
    if bytes.length < n then none
    else (splitBySizes ns (bytes.drop n)).map (fun r => bytes.take n :: r)

def allObjs : List PSlot → Option (List (Option Nat))
  | [] => some []
  | .obj o :: r => (allObjs r).map (o :: ·)
  | .buf _ :: _ => none

/-- read one discrete parameter from the front of the slot list; returns the value and the
    remaining slots -/
def decodeParam (p : MParam) (slots : List PSlot) : Option (PVal × List PSlot) :=
  match p.vkind with
  | .obj _ =>
    match slots with
    | .obj o :: r => some (.obj o, r)
    | _ => none
  | .objArr _ n =>
    if slots.length < n then none
    else (allObjs (slots.take n)).map fun l => (.objs l, slots.drop n)
  | .unreachable => none
  | _ =>
    match slots with
    | .buf img :: r =>
      if r.length < p.nEmb then none
      else (allObjs (r.take p.nEmb)).map fun l => (.data img l, r.drop p.nEmb)
    | _ => none

/-- bundle members carry no objects of their own on the wire: their handles (if any) stay
    inside the byte image — see C03 -/
def decodeBundle (ms : List BMember) (slots : List PSlot) : Option (List (Nat × PVal) × List PSlot) :=
  match slots with
  | .buf bytes :: r =>
    (splitBySizes (ms.map (·.size)) bytes).map fun pieces =>
      ((ms.zip pieces).map fun (m, pc) => (m.name, PVal.data pc []), r)
  | _ => none

/-- walk the same event list and rebuild the values of direction `d` -/
def decodeDir (d : Dir) : List Ev → List PSlot → Option (List (Nat × PVal))
  | [], [] => some []
  | [], _ :: _ => none
  | .inBundle ms :: es, slots =>
    if d == .inp then
      match decodeBundle ms slots with
      | some (vs, r) => (decodeDir d es r).map (vs ++ ·)
      | none => none
    else decodeDir d es slots
  | .outBundle ms :: es, slots =>
    if d == .out then
      match decodeBundle ms slots with
      | some (vs, r) => (decodeDir d es r).map (vs ++ ·)
      | none => none
    else decodeDir d es slots
  | .single p :: es, slots =>
    if p.dir == d then
      match decodeParam p slots with
      | some (v, r) => (decodeDir d es r).map ((p.name, v) :: ·)
      | none => none
    else decodeDir d es slots

end Mink
