/-
  MinkModel.Basic — abstract syntax of an IDL file set, mirroring idlc_ast/src/ast.rs.
  Identifiers are `Nat` ids (the protocol layer interns strings); file ids are `Nat` too.
  The model is import-free (core Lean only) so that the driver links as a lean_exe.
-/
namespace Mink

/-- ast.rs:225 `Primitive` (same ten in mir.rs:60). -/
inductive Prim
  | u8 | u16 | u32 | u64 | i8 | i16 | i32 | i64 | f32 | f64
  deriving DecidableEq, Repr, Inhabited

/-- ast.rs:241 `Primitive::size`, mir.rs:76. -/
def Prim.size : Prim → Nat
  | .u8 | .i8 => 1
  | .u16 | .i16 => 2
  | .u32 | .i32 | .f32 => 4
  | .u64 | .i64 | .f64 => 8

/-- ast.rs:251: every primitive is aligned to its size. -/
def Prim.align (p : Prim) : Nat := p.size

inductive Dir | inp | out
  deriving DecidableEq, Repr, Inhabited

/-- ast.rs:207 `Type`. -/
inductive Ty
  | buffer
  | prim (p : Prim)
  | iface                -- the keyword `interface` (generic object)
  | custom (n : Nat)     -- a name: struct or interface
  deriving DecidableEq, Repr, Inhabited

/-- `Value`/`Reference` versus `Array(_, None | Some n)` (ast.rs:138-156). -/
inductive Arr
  | none
  | unbounded
  | bounded (n : Nat)
  deriving DecidableEq, Repr, Inhabited

structure Field where
  name : Nat
  ty : Ty
  count : Nat            -- NonZeroU16: 1 ≤ count ≤ 65535
  deriving DecidableEq, Repr, Inhabited

structure Struct where
  name : Nat
  fields : List Field
  deriving DecidableEq, Repr, Inhabited

structure Param where
  dir : Dir
  ty : Ty
  arr : Arr
  name : Nat
  deriving DecidableEq, Repr, Inhabited

structure Const where
  name : Nat
  ty : Prim
  value : Nat            -- interned literal text
  rangeOk : Bool := true -- `Primitive::new(type, text).is_ok()` (MinkModel.Literal), set by the protocol layer
  deriving DecidableEq, Repr, Inhabited

structure Method where
  name : Nat
  params : List Param
  optional : Bool
  hasDoc : Bool
  deriving DecidableEq, Repr, Inhabited

inductive Member
  | const (c : Const)
  | error (n : Nat)
  | func (m : Method)
  deriving DecidableEq, Repr, Inhabited

structure Iface where
  name : Nat
  base : Option Nat
  members : List Member
  deriving DecidableEq, Repr, Inhabited

inductive Node
  | incl (path : Nat) (hasDir : Bool)   -- hasDir: the include string has a directory part
  | const (c : Const)
  | struct (s : Struct)
  | iface (i : Iface)
  deriving DecidableEq, Repr, Inhabited

structure File where
  id : Nat
  nodes : List Node
  parseOk : Bool := true     -- false: the text is not admitted by the grammar / literal checks
  deriving DecidableEq, Repr, Inhabited

/-- Stages at which the pipeline can refuse (main.rs:129-160 order). `backend` stands for a
    fatal path inside code generation (counts.rs `u8` arithmetic). -/
inductive Stage
  | parse | incl | symbols | params | cycles | structs | mir | ifaces | backend | fuel
  deriving DecidableEq, Repr, Inhabited

def Stage.toString : Stage → String
  | .parse => "parse" | .incl => "include" | .symbols => "symbols" | .params => "params"
  | .cycles => "cycles" | .structs => "structs" | .mir => "mir" | .ifaces => "ifaces"
  | .backend => "backend" | .fuel => "fuel"

end Mink
