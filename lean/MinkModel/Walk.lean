/-
  MinkModel.Walk — the shared parameter walk: `PackedPrimitives::new` (serialization.rs:97),
  `Param::new` (functions.rs:102-143), the visitor dispatch (functions.rs:45-100) and the
  argument counter (counts.rs).
-/
import MinkModel.Order
namespace Mink

def MParam.isPrimValue (p : MParam) : Bool :=
  match p.ty, p.arr with
  | .prim _, .none => true
  | _, _ => false

def MParam.isSmallStructValue (p : MParam) : Bool :=
  match p.ty, p.arr with
  | .struct true _, .none => true
  | _, _ => false

/-- the parameters `PackedPrimitives` collects (visit_*_primitive / visit_*_small_struct) -/
def MParam.isSmallValue (p : MParam) : Bool := p.isPrimValue || p.isSmallStructValue

/-- a bundle member (`Pair`, serialization.rs:30): ident, size, index among the smalls of its
    direction in declaration order, and whether it is a struct -/
structure BMember where
  name : Nat
  size : Nat
  nth : Nat
  isStruct : Bool
  deriving DecidableEq, Repr, Inhabited

def MParam.dataSize (p : MParam) : Nat := p.ty.fieldSize

def collectSmall (d : Dir) : List MParam → Nat → List BMember
  | [], _ => []
  | p :: ps, k =>
    if p.dir == d && p.isSmallValue then
      ⟨p.name, p.dataSize, k, p.isSmallStructValue⟩ :: collectSmall d ps (k+1)
    else collectSmall d ps k

/-- `sort_by(|a, b| b.cmp(a))`: stable, descending by size; sizes range over 1..16 -/
def sortBundle (ms : List BMember) : List BMember :=
  bucketsFrom (fun m => 16 - m.size) ms 17 0

/-- `PackedPrimitives::new`: declaration order (NOT the sorted order), then the stable sort -/
def bundle (d : Dir) (ps : List MParam) : List BMember := sortBundle (collectSmall d ps 0)

def bundleSize (ms : List BMember) : Nat := (ms.map (·.size)).sum

inductive Ev
  | inBundle (ms : List BMember)
  | outBundle (ms : List BMember)
  | single (p : MParam)
  deriving Inhabited

/-- functions.rs:110-119: parameters that stay discrete -/
def keep (inB outB : Bool) (p : MParam) : Bool :=
  !(inB && p.dir == .inp && p.isSmallValue) && !(outB && p.dir == .out && p.isSmallValue)

/-- `visit_params_with_bundling` (functions.rs:152): sort, bundle, `Param::new`.
    The output bundle is inserted before the first discrete parameter `p` with `p >= me`
    where `me` is an `out` data array, i.e. `cmp p me ≠ Less`, i.e. rank p ≥ 1. -/
def events (ps : List MParam) : List Ev :=
  let ib := bundle .inp ps
  let ob := bundle .out ps
  let inB := decide (ib.length > 1)
  let outB := decide (ob.length > 1)
  let rest := (sortParams ps).filter (keep inB outB)
  let pre := rest.takeWhile (fun p => p.rank < 1)
  let post := rest.dropWhile (fun p => p.rank < 1)
  (if inB then [Ev.inBundle ib] else []) ++ pre.map Ev.single
    ++ (if outB then [Ev.outBundle ob] else []) ++ post.map Ev.single

/-- which `ParameterVisitor` method the dispatch of functions.rs:45-100 calls -/
inductive VKind
  | primBuf (p : Prim) | untypedBuf | structBuf (s : MStruct)
  | prim (p : Prim) | bigStruct (s : MStruct) | smallStruct (s : MStruct)
  | obj (t : Option Nat) | objArr (t : Option Nat) (n : Nat)
  | unreachable                     -- `unreachable!()` / `cnt.unwrap()` on None
  deriving Inhabited

def MParam.vkind (p : MParam) : VKind :=
  match p.arr, p.ty with
  | .none, .buffer => .untypedBuf
  | .none, .prim q => .prim q
  | .none, .iface t => .obj t
  | .none, .struct false s => .bigStruct s
  | .none, .struct true s => .smallStruct s
  | _, .prim q => .primBuf q
  | .bounded n, .iface t => .objArr t n
  | .unbounded, .iface _ => .unreachable
  | _, .struct _ s => .structBuf s
  | _, .buffer => .unreachable

/-! ### the counter (counts.rs), in unbounded `Nat`; `fitsU8` says when the `u8` arithmetic
    of the real code neither panics (debug) nor wraps (release) -/

structure Counts where
  bi : Nat := 0
  bo : Nat := 0
  oi : Nat := 0
  oo : Nat := 0
  deriving DecidableEq, Repr, Inhabited

def Counts.total (c : Counts) : Nat := c.bi + c.bo + c.oi + c.oo

def bufOf (p : MParam) : Nat :=
  match p.vkind with
  | .primBuf _ | .untypedBuf | .structBuf _ | .bigStruct _ => 1
  | _ => 0

def objOf (p : MParam) : Nat :=
  match p.vkind with
  | .bigStruct s => s.objects.length
  | .obj _ => 1
  | .objArr _ n => n
  | _ => 0

def dirParams (d : Dir) (ps : List MParam) : List MParam := ps.filter (fun p => p.dir == d)

/-- `Counter::new`: per direction, one buffer per discrete data parameter, plus one if the
    direction has any small value (`has_bundled_*`), objects of big structs, single objects
    and array lengths. Objects of *small* structs are not counted. -/
def countDir (d : Dir) (ps : List MParam) : Nat × Nat :=
  let qs := dirParams d ps
  let bufs := (qs.map bufOf).sum + (if qs.any MParam.isSmallValue then 1 else 0)
  let objs := (qs.map objOf).sum
  (bufs, objs)

def counts (ps : List MParam) : Counts :=
  let i := countDir .inp ps
  let o := countDir .out ps
  { bi := i.1, bo := o.1, oi := i.2, oo := o.2 }

/-- `ObjectCounts_pack` (object.h:60) -/
def Counts.pack (c : Counts) : Nat := c.bi ||| (c.bo <<< 4) ||| (c.oi <<< 8) ||| (c.oo <<< 12)

def Counts.fits15 (c : Counts) : Bool := c.bi ≤ 15 && c.bo ≤ 15 && c.oi ≤ 15 && c.oo ≤ 15

/-! ### slot sections: 0 = BI, 1 = BO, 2 = OI, 3 = OO -/

def Dir.bufSec : Dir → Nat | .inp => 0 | .out => 1
def Dir.objSec : Dir → Nat | .inp => 2 | .out => 3

/-- slots one discrete parameter occupies in the argument array, as the C/C++/Rust visitors
    emit them (DESIGN Appendix A): data params one buffer slot, followed *immediately* by one
    object slot per embedded object (big structs: `objects()`; small structs alone: the stub
    and skeleton visitors of small structs call the big-struct code path) -/
def MParam.slots (p : MParam) : List Nat :=
  match p.vkind with
  | .obj _ => [p.dir.objSec]
  | .objArr _ n => List.replicate n p.dir.objSec
  | .bigStruct s | .smallStruct s => p.dir.bufSec :: List.replicate s.objects.length p.dir.objSec
  | .unreachable => []
  | _ => [p.dir.bufSec]

def Ev.slots : Ev → List Nat
  | .inBundle _ => [0]
  | .outBundle _ => [1]
  | .single p => p.slots

def slotSections (ps : List MParam) : List Nat := (events ps).flatMap Ev.slots

end Mink
