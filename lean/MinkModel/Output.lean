/-
  MinkModel.Output — which files a run writes (main.rs:162-258, idlc_codegen_rust/src/
  generator.rs:19-72, idlc_codegen_java/src/generator.rs:20-91) and the order of effects:
  every fallible stage and the whole generation precede the first `open`.
-/
import MinkModel.Pipeline
namespace Mink

inductive Backend | c | cpp | rust | java
  deriving DecidableEq, Repr, Inhabited

/-- a keyed file set with `HashMap::insert` semantics (a later insert under an existing key
    replaces the content); content is abstract: the list of declaration ids emitted into it -/
abbrev FileSet := List (Nat × List Nat)

def FileSet.insert (fs : FileSet) (k : Nat) (v : List Nat) : FileSet :=
  if fs.any (fun e => e.1 == k) then fs.map (fun e => if e.1 == k then (k, v) else e) else fs ++ [(k, v)]

def FileSet.appendTo (fs : FileSet) (k : Nat) (v : List Nat) : FileSet :=
  fs.map (fun e => if e.1 == k then (e.1, e.2 ++ v) else e)

/-- the multi-file generators: `base` is the file-level module (`<stem>.rs` lower-cased /
    `<stem>.java`), `key i` the file name derived from interface `i` (`to_lowercase()` for
    Rust, the name itself for Java). Top-level constants and structs go to the base file, an
    interface whose key equals the base is appended to it, any other interface is inserted
    under its key. -/
def multiFiles (key : Nat → Nat) (base : Nat) : List MNode → FileSet → FileSet
  | [], fs => fs
  | .const c :: ns, fs => multiFiles key base ns (fs.appendTo base [c.name])
  | .struct _ s :: ns, fs => multiFiles key base ns (fs.appendTo base [s.name])
  | .iface (l :: _) :: ns, fs =>
    if key l.name == base then multiFiles key base ns (fs.appendTo base [l.name])
    else multiFiles key base ns (fs.insert (key l.name) [l.name])
  | _ :: ns, fs => multiFiles key base ns fs

/-- Rust: the base module is dropped when it only holds the banner (`content != prologue`);
    Java: the base always has content (the wrapper interface) -/
def writtenFiles (b : Backend) (key : Nat → Nat) (base : Nat) (named : Nat) (mir : List MNode) : List Nat :=
  match b with
  | .c | .cpp => [named]
  | .rust => ((multiFiles key base mir [(base, [])]).filter (fun e => !e.2.isEmpty)).map (·.1)
  | .java => (multiFiles key base mir [(base, [])]).map (·.1)

/-- idlc_codegen_java/src/globals.rs:19: `emit_struct` is `unimplemented!` for a struct node of
    the compiled file with a *direct* field of interface type (the documented unsupported
    construct); nested object-bearing structs are only named, not expanded -/
def javaSupported (mir : List MNode) : Bool :=
  mir.all fun
    | .struct _ s => s.fields.all (fun f => !f.ty.isIface)
    | _ => true

/-- the abstract output directory: name ↦ content version -/
abbrev OutDir := List (Nat × Nat)

/-- `main`: all passes, then code generation, then — only on success — the write loop.
    `gen` stands for the content produced for a file name in this run. -/
def runMain (compiled : Except Stage (List MNode)) (b : Backend) (key : Nat → Nat) (base named : Nat)
    (gen : Nat → Nat) (dir : OutDir) : Nat × OutDir :=
  match compiled with
  | .error _ => (101, dir)
  | .ok mir =>
    let files := writtenFiles b key base named mir
    (0, (dir.filter (fun e => !files.contains e.1)) ++ files.map (fun f => (f, gen f)))

end Mink

namespace Mink

/-! ### the write loop with an operating system that can refuse to open a file
    (main.rs: `OpenOptions::new()…open(path).unwrap()` per file, in the order of the file list) -/

/-- writes the files in order; the first one that cannot be opened ends the run with exit
    status 101 (the `unwrap` panics), the files before it stay written -/
def writeLoop (canOpen : Nat → Bool) (gen : Nat → Nat) : List Nat → OutDir → Nat × OutDir
  | [], dir => (0, dir)
  | f :: fs, dir =>
    if canOpen f then writeLoop canOpen gen fs ((dir.filter (fun e => e.1 != f)) ++ [(f, gen f)])
    else (101, dir)

/-- `main` with fallible opens: all passes and the whole generation come first -/
def runMainIO (compiled : Except Stage (List MNode)) (b : Backend) (key : Nat → Nat) (base named : Nat)
    (gen : Nat → Nat) (canOpen : Nat → Bool) (dir : OutDir) : Nat × OutDir :=
  match compiled with
  | .error _ => (101, dir)
  | .ok mir => writeLoop canOpen gen (writtenFiles b key base named mir) dir

end Mink
