/-
  MinkModel.Mir — the MIR of idlc_mir/src/mir.rs: expanded types, Small/Big classification,
  `StructInner::objects`, and the numbering walk `parse_interface`.
-/
import MinkModel.Basic
namespace Mink

/-- Symbol table gathered by `IDLStore::gather_symbols_from_ast` (idl_store.rs:155-193).
    Association lists in insertion order; `origin` is the id of the defining file. -/
structure Symbols where
  structs : List (Struct × Nat) := []
  ifaces : List (Iface × Nat) := []
  consts : List (Nat × Nat) := []
  deriving Repr, Inhabited

def Symbols.ifaceLookup (sy : Symbols) (n : Nat) : Option Iface :=
  (sy.ifaces.find? (fun p => p.1.name == n)).map (·.1)

/-- `struct_lookup`: real structs and the object-struct shadow entry of every interface
    (`Struct::new_object`: two `uint64` fields, ast.rs:65). Field names 0/1 are never
    compared with user field names inside one struct, so their ids do not matter. -/
def objectShadow (name : Nat) : Struct :=
  { name := name, fields := [⟨0, .prim .u64, 1⟩, ⟨1, .prim .u64, 1⟩] }

def Symbols.structLookup (sy : Symbols) (n : Nat) : Option Struct :=
  match sy.structs.find? (fun p => p.1.name == n) with
  | some p => some p.1
  | none => (sy.ifaceLookup n).map (fun i => objectShadow i.name)

mutual
  /-- mir.rs:106 `Type`; `struct small s` folds `Struct::Small/Big` into a flag. -/
  inductive MTy
    | buffer
    | prim (p : Prim)
    | struct (small : Bool) (s : MStruct)
    | iface (n : Option Nat)
  /-- mir.rs:177 `StructInner` (ident + fields; `origin` does not influence anything modelled). -/
  inductive MStruct
    | mk (name : Nat) (fields : List MField)
  /-- mir.rs:114 `StructField`. -/
  inductive MField
    | mk (name : Nat) (ty : MTy) (count : Nat)
end

instance : Inhabited MTy := ⟨.buffer⟩
instance : Inhabited MStruct := ⟨.mk 0 []⟩

def MStruct.name : MStruct → Nat | .mk n _ => n
def MStruct.fields : MStruct → List MField | .mk _ fs => fs
def MField.name : MField → Nat | .mk n _ _ => n
def MField.ty : MField → MTy | .mk _ t _ => t
def MField.count : MField → Nat | .mk _ _ c => c

/-- `BUNDLED_SIZE_MAX` (mir.rs:156). -/
def bundledSizeMax : Nat := 16

mutual
  /-- mir.rs:185 `StructInner::size` = Σ field sizes. -/
  def MStruct.size : MStruct → Nat
    | .mk _ fs => sizeFields fs
  def sizeFields : List MField → Nat
    | [] => 0
    | f :: fs => f.size + sizeFields fs
  /-- mir.rs:119 `StructField::size` (unbounded `Nat`; the `usize` wrap-around is in C16). -/
  def MField.size : MField → Nat
    | .mk _ t c => t.fieldSize * c
  def MTy.fieldSize : MTy → Nat
    | .prim p => p.size
    | .struct _ s => s.size
    | .iface _ => 16
    | .buffer => 0          -- unreachable!() in the code: no field can have this type
end

mutual
  /-- number of struct nodes in the expanded tree (fuel for the BFS below) -/
  def MStruct.nodes : MStruct → Nat
    | .mk _ fs => 1 + nodesFields fs
  def nodesFields : List MField → Nat
    | [] => 0
    | f :: fs => f.nodesF + nodesFields fs
  def MField.nodesF : MField → Nat
    | .mk _ t _ => t.nodesT
  def MTy.nodesT : MTy → Nat
    | .struct _ s => s.nodes
    | _ => 0
end

/-- the field loop of `Type::new` / `parse_struct`, with the type expansion abstracted -/
def mapFieldsWith (f : Ty → Except Stage MTy) : List Field → Except Stage (List MField)
  | [] => .ok []
  | fl :: fs =>
    match f fl.ty with
    | .error e => .error e
    | .ok t =>
      match mapFieldsWith f fs with
      | .error e => .error e
      | .ok r => .ok (.mk fl.name t fl.count :: r)

/-- mir.rs:627 `Type::new`, fuelled: the real recursion follows struct names through the
    symbol table and does not terminate on cyclic containment. -/
def expandTy (sy : Symbols) : Nat → Ty → Except Stage MTy
  | _, .prim p => .ok (.prim p)
  | _, .buffer => .ok .buffer
  | _, .iface => .ok (.iface none)
  | 0, .custom _ => .error .fuel
  | fuel+1, .custom n =>
    match sy.ifaceLookup n with
    | some i => .ok (.iface (some i.name))
    | none =>
      match sy.structLookup n with
      | none => .error .mir
      | some s =>
        match mapFieldsWith (expandTy sy fuel) s.fields with
        | .error e => .error e
        | .ok fields =>
          let st := MStruct.mk s.name fields
          .ok (.struct (decide (st.size ≤ bundledSizeMax)) st)

/-! ### `StructInner::objects` (mir.rs:189-216) -/

/-- the `parents` hash map, keyed by struct *value*; two expansions of one named struct are
    equal values and distinct names give distinct values, so the key is the struct name.
    `insert` overwrites. Entry: child ↦ (parent, field ident in the parent). -/
abbrev Parents := List (Nat × (Nat × Nat))

def Parents.insert (ps : Parents) (child : Nat) (v : Nat × Nat) : Parents :=
  (child, v) :: ps.filter (fun e => e.1 != child)

def Parents.get (ps : Parents) (child : Nat) : Option (Nat × Nat) :=
  (ps.find? (fun e => e.1 == child)).map (·.2)

/-- the path reconstruction loop (mir.rs:203-209), before `reverse` -/
def climb (ps : Parents) : Nat → Nat → List Nat → List Nat
  | 0, _, acc => acc
  | fuel+1, cur, acc =>
    match ps.get cur with
    | some (parent, pid) => climb ps fuel parent (acc ++ [pid])
    | none => acc

structure BfsSt where
  queue : List MStruct
  parents : Parents
  objects : List (List Nat × Option Nat)

/-- one pass over the fields of the dequeued node -/
def bfsFields (node : Nat) : List MField → BfsSt → BfsSt
  | [], st => st
  | .mk fid (.struct _ s) _ :: fs, st =>
      bfsFields node fs { st with parents := st.parents.insert s.name (node, fid), queue := st.queue ++ [s] }
  | .mk fid (.iface i) _ :: fs, st =>
      let path := (climb st.parents (st.parents.length + 1) node [fid]).reverse
      bfsFields node fs { st with objects := st.objects ++ [(path, i)] }
  | _ :: fs, st => bfsFields node fs st

def bfs : Nat → BfsSt → BfsSt
  | 0, st => st
  | fuel+1, st =>
    match st.queue with
    | [] => st
    | n :: q => bfs fuel (bfsFields n.name n.fields { st with queue := q })

def MStruct.objects (s : MStruct) : List (List Nat × Option Nat) :=
  (bfs (s.nodes + 1) { queue := [s], parents := [], objects := [] }).objects

def MStruct.containsInterfaces (s : MStruct) : Bool := !s.objects.isEmpty

/-! ### MIR interface, params, numbering -/

structure MParam where
  dir : Dir
  ty : MTy
  arr : Arr
  name : Nat
  deriving Inhabited

structure MFunc where
  name : Nat
  params : List MParam
  id : Nat
  optional : Bool
  hasDoc : Bool
  deriving Inhabited

inductive MMember
  | const (c : Const)
  | error (name : Nat) (value : Int)
  | func (f : MFunc)
  deriving Inhabited

/-- an interface with its base chain resolved: leaf first, then its base, … (the `Rc<Interface>`
    chain of mir.rs:228, as a list of levels) -/
structure MLevel where
  name : Nat
  members : List MMember
  deriving Inhabited

abbrev MIface := List MLevel

def errorCodeStart : Int := 10      -- mir.rs:36
def maxOpCode : Nat := 0x3fff       -- mir.rs:38

def expandParams (sy : Symbols) (fuel : Nat) : List Param → Except Stage (List MParam)
  | [] => .ok []
  | p :: ps =>
    match expandTy sy fuel p.ty with
    | .error e => .error e
    | .ok t =>
      match expandParams sy fuel ps with
      | .error e => .error e
      | .ok r => .ok (⟨p.dir, t, p.arr, p.name⟩ :: r)

/-- the member loop of `parse_interface` (mir.rs:494-532), threading (error_code, op_code).
    The bound is tested *after* the function was pushed with the current id (mir.rs:525). -/
def numberMembers (sy : Symbols) (fuel : Nat) :
    List Member → Int → Nat → Except Stage (List MMember × Int × Nat)
  | [], e, o => .ok ([], e, o)
  | .const c :: ms, e, o =>
    match numberMembers sy fuel ms e o with
    | .error x => .error x
    | .ok (r, e', o') => .ok (.const c :: r, e', o')
  | .error n :: ms, e, o =>
    match numberMembers sy fuel ms (e + 1) o with
    | .error x => .error x
    | .ok (r, e', o') => .ok (.error n e :: r, e', o')
  | .func m :: ms, e, o =>
    match expandParams sy fuel m.params with
    | .error x => .error x
    | .ok ps =>
      if o > maxOpCode then .error .mir
      else
        match numberMembers sy fuel ms e (o + 1) with
        | .error x => .error x
        | .ok (r, e', o') => .ok (.func ⟨m.name, ps, o, m.optional, m.hasDoc⟩ :: r, e', o')

/-- `parse_interface` (mir.rs:472): bases first (recursion through `iface_lookup`), fuelled. -/
def numberIface (sy : Symbols) (tfuel : Nat) :
    Nat → Iface → Int → Nat → Except Stage (MIface × Int × Nat)
  | 0, _, _, _ => .error .fuel
  | fuel+1, i, e, o =>
    let base : Except Stage (MIface × Int × Nat) :=
      match i.base with
      | none => .ok ([], e, o)
      | some b =>
        match sy.ifaceLookup b with
        | none => .error .mir          -- `.unwrap()` on a missing base
        | some bi => numberIface sy tfuel fuel bi e o
    match base with
    | .error x => .error x
    | .ok (mb, e1, o1) =>
      match numberMembers sy tfuel i.members e1 o1 with
      | .error x => .error x
      | .ok (r, e', o') => .ok (⟨i.name, r⟩ :: mb, e', o')

inductive MNode
  | incl (path : Nat)
  | const (c : Const)
  | struct (small : Bool) (s : MStruct)
  | iface (i : MIface)
  deriving Inhabited

/-- `parse_to_mir` (mir.rs:541): over the main file's nodes; counters reset per interface. -/
def parseToMir (sy : Symbols) (fuel : Nat) : List Node → Except Stage (List MNode)
  | [] => .ok []
  | n :: ns =>
    let head : Except Stage MNode :=
      match n with
      | .incl p _ => .ok (.incl p)
      | .const c => .ok (.const c)
      | .struct s =>
        -- parse_struct: every field through Type::new
        match mapFieldsWith (expandTy sy fuel) s.fields with
        | .error e => .error e
        | .ok fields =>
          let st := MStruct.mk s.name fields
          .ok (.struct (decide (st.size ≤ bundledSizeMax)) st)
      | .iface i =>
        match numberIface sy fuel fuel i errorCodeStart 0 with
        | .error e => .error e
        | .ok (mi, _, _) => .ok (.iface mi)
    match head with
    | .error e => .error e
    | .ok h =>
      match parseToMir sy fuel ns with
      | .error e => .error e
      | .ok r => .ok (h :: r)

/-! ### flattened views -/

def MLevel.funcs (l : MLevel) : List MFunc :=
  l.members.filterMap fun | .func f => some f | _ => none

def MLevel.errors (l : MLevel) : List (Nat × Int) :=
  l.members.filterMap fun | .error n v => some (n, v) | _ => none

/-- ancestor-first flattened (owner, function) list -/
def MIface.flatFuncs : MIface → List (Nat × MFunc)
  | [] => []
  | l :: bases => MIface.flatFuncs bases ++ l.funcs.map (fun f => (l.name, f))

def MIface.flatErrors : MIface → List (Nat × Nat × Int)
  | [] => []
  | l :: bases => MIface.flatErrors bases ++ l.errors.map (fun e => (l.name, e.1, e.2))

end Mink
