/-
  MinkModel.Passes — the validators: symbol gathering (idl_store.rs:155-193), duplicate
  parameters (functions.rs), struct/interface cycle graphs (cycles.rs), the struct verifier
  (struct_verifier.rs) and the interface verifier (idlc_mir_passes/interface_verifier.rs).
-/
import MinkModel.Graph
import MinkModel.Walk
namespace Mink

/-! ### symbols -/

def Symbols.hasStructName (sy : Symbols) (n : Nat) : Bool :=
  sy.structs.any (fun p => p.1.name == n) || sy.ifaces.any (fun p => p.1.name == n)

/-- `gather_symbols_from_ast`: structs and interfaces share the `Symbol::Struct` namespace
    (every interface inserts an object-struct shadow entry first); constants have their own. -/
def gatherSymbols (file : Nat) : List Node → Symbols → Except Stage Symbols
  | [], sy => .ok sy
  | .incl _ _ :: ns, sy => gatherSymbols file ns sy
  | .struct s :: ns, sy =>
    if sy.hasStructName s.name then .error .symbols
    else gatherSymbols file ns { sy with structs := sy.structs ++ [(s, file)] }
  | .iface i :: ns, sy =>
    if sy.hasStructName i.name then .error .symbols
    else gatherSymbols file ns { sy with ifaces := sy.ifaces ++ [(i, file)] }
  | .const c :: ns, sy =>
    if sy.consts.any (fun p => p.1 == c.name) then .error .symbols
    else gatherSymbols file ns { sy with consts := sy.consts ++ [(c.name, file)] }

/-! ### functions.rs: duplicate parameter names, interfaces of the main file only -/

def hasDup : List Nat → Bool
  | [] => false
  | x :: xs => xs.contains x || hasDup xs

def Iface.dupParams (i : Iface) : Bool :=
  i.members.any fun
    | .func m => hasDup (m.params.map (·.name))
    | _ => false

def functionsPass (nodes : List Node) : Except Stage Unit :=
  if nodes.any (fun | .iface i => i.dupParams | _ => false) then .error .params else .ok ()

/-! ### cycles.rs -/

/-- `visit_iface_recurse` -/
def visitIfaceRec (sy : Symbols) : Nat → Iface → Graph → Except Stage Graph
  | 0, _, _ => .error .fuel
  | fuel+1, i, g =>
    if g.hasCycle then .ok g
    else
      match i.base with
      | none => .ok g
      | some b =>
        match sy.ifaceLookup b with
        | none => .error .cycles
        | some bi => visitIfaceRec sy fuel bi (g.addEdge i.name bi.name)

/-- the field loop of `visit_struct_recurse`, with the recursive call abstracted -/
def structFieldsWith (sy : Symbols) (f : Struct → Graph → Except Stage Graph) (owner : Nat) :
    List Field → Graph → Except Stage Graph
  | [], g => .ok g
  | fl :: fs, g =>
    match fl.ty with
    | .custom c =>
      match sy.structLookup c with
      | none => .error .cycles
      | some cs =>
        match f cs (g.addEdge owner cs.name) with
        | .error e => .error e
        | .ok g' => structFieldsWith sy f owner fs g'
    | _ => structFieldsWith sy f owner fs g

/-- `visit_struct_recurse`: the cycle test is at the head of each call only -/
def visitStructRec (sy : Symbols) : Nat → Struct → Graph → Except Stage Graph
  | 0, _, _ => .error .fuel
  | fuel+1, s, g =>
    if g.hasCycle then .ok g
    else structFieldsWith sy (visitStructRec sy fuel) s.name s.fields g

/-- the parameter loop of `visit_param_structs`: every parameter whose type names a struct
    makes that struct a node of the struct graph and is walked like a struct of the file -/
def cycParamStructs (sy : Symbols) (fuel : Nat) : List Param → Graph → Except Stage Graph
  | [], g => .ok g
  | p :: ps, g =>
    match p.ty with
    | .custom c =>
      match sy.structLookup c with
      | none => cycParamStructs sy fuel ps g          -- an interface name: nothing to do
      | some cs =>
        match visitStructRec sy fuel cs (g.addNode cs.name) with
        | .error e => .error e
        | .ok g' => cycParamStructs sy fuel ps g'
    | _ => cycParamStructs sy fuel ps g

def memberParamStructs (sy : Symbols) (fuel : Nat) : List Member → Graph → Except Stage Graph
  | [], g => .ok g
  | .func m :: ms, g =>
    match cycParamStructs sy fuel m.params g with
    | .error e => .error e
    | .ok g' => memberParamStructs sy fuel ms g'
  | _ :: ms, g => memberParamStructs sy fuel ms g

/-- `visit_param_structs`: the interface and its ancestors, as long as the interface graph
    built so far has no cycle -/
def visitParamStructs (sy : Symbols) (fuel : Nat) (ig : Graph) : Nat → Iface → Graph → Except Stage Graph
  | 0, _, _ => .error .fuel
  | k+1, i, sg =>
    if ig.hasCycle then .ok sg
    else
      match memberParamStructs sy fuel i.members sg with
      | .error e => .error e
      | .ok sg' =>
        match i.base with
        | none => .ok sg'
        | some b =>
          match sy.ifaceLookup b with
          | none => .ok sg'
          | some bi => visitParamStructs sy fuel ig k bi sg'

/-- `Cycles::run_pass`: walk the main file's nodes, then both toposorts -/
def cyclesPass (sy : Symbols) (fuel : Nat) (nodes : List Node) : Except Stage (List Nat) :=
  let rec walk : List Node → Graph → Graph → Except Stage (Graph × Graph)
    | [], sg, ig => .ok (sg, ig)
    | .iface i :: ns, sg, ig =>
      match visitIfaceRec sy fuel i ig with
      | .error e => .error e
      | .ok ig' =>
        match visitParamStructs sy fuel (ig'.addNode i.name) fuel i sg with
        | .error e => .error e
        | .ok sg' => walk ns sg' (ig'.addNode i.name)
    | .struct s :: ns, sg, ig =>
      match visitStructRec sy fuel s sg with
      | .error e => .error e
      | .ok sg' => walk ns (sg'.addNode s.name) ig
    | _ :: ns, sg, ig => walk ns sg ig
  match walk nodes {} {} with
  | .error e => .error e
  | .ok (sg, ig) =>
    match ig.toposort with
    | .error _ => .error .cycles
    | .ok _ =>
      match sg.toposort with
      | .error _ => .error .cycles
      | .ok order => .ok order

/-! ### struct_verifier.rs -/

abbrev SizeStore := List (Nat × Nat × Nat)     -- name ↦ (size, alignment)

def SizeStore.get (st : SizeStore) (n : Nat) : Option (Nat × Nat) :=
  (st.find? (fun e => e.1 == n)).map (·.2)

def ifaceSize : Nat := 16      -- ast.rs:215
def ifaceAlign : Nat := 16     -- ast.rs:220

/-- (size, alignment) of one field's element type (struct_verifier.rs:67-72); `none` models
    `store.get(..).unwrap()` on a missing entry and `unreachable!()` -/
def fieldSA (store : SizeStore) (f : Field) : Option (Nat × Nat) :=
  match f.ty with
  | .prim p => some (p.size, p.align)
  | .custom c => store.get c
  | .iface => some (ifaceSize, ifaceAlign)
  | .buffer => none

/-- `usize` on the 64-bit hosts the compiler is built for: `checked_mul` / `checked_add`
    (struct_verifier.rs, fix 32d1f86) refuse a struct whose running size reaches this -/
def usizeLimit : Nat := 2 ^ 64

/-- the field loop of `StructVerifier::run_pass` (struct_verifier.rs:51-90):
    threads (size, alignment, seen field names) -/
def verifyFields (store : SizeStore) : List Field → Nat → Nat → List Nat → Except Stage (Nat × Nat)
  | [], size, al, _ => .ok (size, al)
  | f :: fs, size, al, seen =>
    if seen.contains f.name then .error .structs
    else
      match fieldSA store f with
      | none => .error .structs       -- `.unwrap()` / `unreachable!()`
      | some (isz, ial) =>
        if size % ial != 0 then .error .structs
        -- `i_size.checked_mul(count).and_then(|m| size.checked_add(m))`: `StructTooLarge`
        else if usizeLimit ≤ size + isz * f.count then .error .structs
        else verifyFields store fs (size + isz * f.count) (max al ial) (f.name :: seen)

def structVerifier (sy : Symbols) : List Nat → SizeStore → Except Stage SizeStore
  | [], store => .ok store
  | n :: ns, store =>
    match sy.structLookup n with
    | none => .error .structs
    | some s =>
      match verifyFields store s.fields 0 0 [] with
      | .error e => .error e
      | .ok (size, al) =>
        -- `size % alignment`: a field-less struct would divide by zero (the grammar has `struct_field+`)
        if al == 0 || size % al != 0 then .error .structs
        else structVerifier sy ns (store ++ [(n, size, al)])

/-! ### interface_verifier.rs -/

structure ArgFlags where
  arrIn : Bool := false
  valIn : Bool := false
  arrOut : Bool := false
  valOut : Bool := false

/-- the per-parameter checks, exactly as coded: arrays of object-bearing structs (either
    class, either direction), bounded data arrays, unbounded object arrays and a second
    object array of one direction are refused -/
def checkParam (p : MParam) (fl : ArgFlags) : Except Stage ArgFlags :=
  match p.dir, p.arr with
  | .inp, .none =>
    match p.ty with
    | .iface _ => .ok { fl with valIn := true }
    | _ => .ok fl
  | .out, .none =>
    match p.ty with
    | .iface _ => .ok { fl with valOut := true }
    | _ => .ok fl
  | d, a =>
    let bounded := match a with | .bounded _ => true | _ => false
    match p.ty with
    | .iface _ =>
      if !bounded then .error .ifaces
      else
        match d with
        | .inp => if fl.arrIn then .error .ifaces else .ok { fl with arrIn := true }
        | .out => if fl.arrOut then .error .ifaces else .ok { fl with arrOut := true }
    | .struct _ s =>
      if s.containsInterfaces then .error .ifaces
      else if bounded then .error .ifaces
      else .ok fl
    | .prim _ => if bounded then .error .ifaces else .ok fl
    | .buffer => .ok fl

def checkParams : List MParam → ArgFlags → Except Stage ArgFlags
  | [], fl => .ok fl
  | p :: ps, fl =>
    match checkParam p fl with
    | .error e => .error e
    | .ok fl' => checkParams ps fl'

def checkFunc (f : MFunc) : Except Stage Unit :=
  match checkParams f.params {} with
  | .error e => .error e
  | .ok fl =>
    if (fl.arrIn && fl.valIn) || (fl.arrOut && fl.valOut) then .error .ifaces
    -- `argument_counts` / MAX_ARGS_PER_CLASS: each class must fit its 4-bit field
    else if !(counts f.params).fits15 then .error .ifaces
    else .ok ()

/-- names seen so far: (consts+errors, functions); iteration is leaf level first, then bases
    (`for from in src`), members in declaration order -/
def verifyMembers : List MMember → List Nat → List Nat → Except Stage (List Nat × List Nat)
  | [], cs, fs => .ok (cs, fs)
  | .const c :: ms, cs, fs =>
    if cs.contains c.name then .error .ifaces else verifyMembers ms (c.name :: cs) fs
  | .error n _ :: ms, cs, fs =>
    if cs.contains n then .error .ifaces else verifyMembers ms (n :: cs) fs
  | .func f :: ms, cs, fs =>
    if fs.contains f.name then .error .ifaces
    -- duplicate parameter names of any method of the chain (interface_verifier.rs; the AST pass
    -- `Functions` sees the compiled file only)
    else if !(decide ((f.params.map (·.name)).Nodup)) then .error .ifaces
    else
      match checkFunc f with
      | .error e => .error e
      | .ok () => verifyMembers ms cs (f.name :: fs)

def verifyIface : MIface → List Nat → List Nat → Except Stage Unit
  | [], _, _ => .ok ()
  | l :: bases, cs, fs =>
    match verifyMembers l.members cs fs with
    | .error e => .error e
    | .ok (cs', fs') => verifyIface bases cs' fs'

def interfaceVerifier : List MNode → Except Stage Unit
  | [] => .ok ()
  | .iface i :: ns =>
    match verifyIface i [] [] with
    | .error e => .error e
    | .ok () => interfaceVerifier ns
  | _ :: ns => interfaceVerifier ns

end Mink
