/-
  MinkModel.Skel — what a generated skeleton checks before it runs the implementation
  (idlc_codegen_{c,cpp,rust}/src/interface/functions/invoke.rs `emit`, interface/mod.rs):
  dispatch on the method id, the counts word, the size of every fixed-size slot.
-/
import MinkModel.Walk
namespace Mink

/-- size guard pushed for an event (C: `a[i].b.size != N`; Rust: early return), if any:
    bundles (summed member size), a lone primitive, a struct passed by value -/
def Ev.fixedSize : Ev → Option Nat
  | .inBundle ms => some (bundleSize ms)
  | .outBundle ms => some (bundleSize ms)
  | .single p =>
    match p.vkind with
    | .prim q => some q.size
    | .bigStruct s | .smallStruct s => some s.size
    | _ => none

/-- (slot index, required size) of every guard, slot indices counted along the walk -/
def guardsFrom : Nat → List Ev → List (Nat × Nat)
  | _, [] => []
  | i, e :: es =>
    (match e.fixedSize with | some n => [(i, n)] | none => []) ++ guardsFrom (i + e.slots.length) es

def guards (ps : List MParam) : List (Nat × Nat) := guardsFrom 0 (events ps)

structure Envelope where
  op : Nat
  k : Nat
  size : Nat → Nat          -- size field of slot i as delivered by the transport

/-- the per-case guard: `k != pack(..) || a[i].b.size != N || …` -/
def skelServes (f : MFunc) (env : Envelope) : Bool :=
  env.k == (counts f.params).pack && (guards f.params).all (fun g => env.size g.1 == g.2)

inductive Outcome
  | invalid            -- Object_ERROR_INVALID (2): unknown op / optional method not provided
  | refused            -- a non-zero generic error from a failed guard
  | served
  deriving DecidableEq, Repr

/-- C and C++ dispatch on `ObjectOp_methodID(op)` (low 16 bits); Rust matches the whole word -/
def methodId (mask : Bool) (op : Nat) : Nat := if mask then op % 65536 else op

def dispatch (mask : Bool) (i : MIface) (implemented : Nat → Bool) (env : Envelope) : Outcome :=
  match i.flatFuncs.find? (fun of => of.2.id == methodId mask env.op) with
  | none => .invalid
  | some of =>
    if of.2.optional && !implemented of.2.id then .invalid
    else if skelServes of.2 env then .served
    else .refused

end Mink
