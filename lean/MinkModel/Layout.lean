/-
  MinkModel.Layout — the C (SysV x86-64) layout algorithm for an emitted struct, and the
  packed layout the compiler assumes (`StructInner::size`, offsets = prefix sums).
-/
import MinkModel.Basic
namespace Mink

/-- one member as the target compiler sees it: element size, element alignment, count -/
structure LField where
  size : Nat
  align : Nat
  count : Nat
  deriving DecidableEq, Repr

def roundUp (x a : Nat) : Nat := if x % a = 0 then x else x + (a - x % a)

/-- natural layout: each member at the next multiple of its alignment -/
def cOffsetsFrom : Nat → List LField → List Nat × Nat
  | off, [] => ([], off)
  | off, f :: fs =>
    let o := roundUp off f.align
    let (rest, fin) := cOffsetsFrom (o + f.size * f.count) fs
    (o :: rest, fin)

def maxAlign : List LField → Nat
  | [] => 1
  | f :: fs => max f.align (maxAlign fs)

/-- (member offsets, sizeof) under the natural layout -/
def cLayout (fs : List LField) : List Nat × Nat :=
  let (offs, fin) := cOffsetsFrom 0 fs
  (offs, roundUp fin (maxAlign fs))

/-- packed layout: offsets are the summed sizes of the members before -/
def packedOffsetsFrom : Nat → List LField → List Nat × Nat
  | off, [] => ([], off)
  | off, f :: fs =>
    let (rest, fin) := packedOffsetsFrom (off + f.size * f.count) fs
    (off :: rest, fin)

def packedLayout (fs : List LField) : List Nat × Nat := packedOffsetsFrom 0 fs

/-- the struct verifier's rule, on the same data with the verifier's (possibly stricter)
    alignments `valign`: every member offset divisible by its alignment, the total divisible by
    the largest alignment -/
def verifierOkFrom : Nat → List (LField × Nat) → Bool
  | _, [] => true
  | off, (f, va) :: fs => off % va == 0 && verifierOkFrom (off + f.size * f.count) fs

end Mink
