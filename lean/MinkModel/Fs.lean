/-
  MinkModel.Fs — include resolution and the depth-first loader of idl_store.rs:42-153,195-217
  over an abstract file system. The two oracle tables are read from the real file system by
  the harness: `lookup d name` = canonical file of `d/name` if it exists; `rel d path` =
  canonical file of `d/path` for include strings with a directory part.
-/
import MinkModel.Passes
namespace Mink

structure FsModel where
  files : List File
  dirOf : List (Nat × Nat)                 -- file id ↦ directory id of its canonical path
  lookup : List (Nat × Nat × Nat)          -- (dir, name) ↦ file
  rel : List (Nat × Nat × Nat)             -- (dir, path) ↦ file
  deriving Repr, Inhabited

def FsModel.file (fs : FsModel) (id : Nat) : Option File := fs.files.find? (fun f => f.id == id)

def FsModel.dir (fs : FsModel) (file : Nat) : Nat :=
  match fs.dirOf.find? (fun e => e.1 == file) with
  | some e => e.2
  | none => 0

def FsModel.lookupIn (fs : FsModel) (d name : Nat) : Option Nat :=
  (fs.lookup.find? (fun e => e.1 == d && e.2.1 == name)).map (·.2.2)

def FsModel.relFrom (fs : FsModel) (d path : Nat) : Option Nat :=
  (fs.rel.find? (fun e => e.1 == d && e.2.1 == path)).map (·.2.2)

/-- `change_to_canonical` (idl_store.rs:101-143). `searchPath` = `-I` directories in command
    line order followed by the directory of the main input (main.rs:121-129). Include strings
    that are themselves keys of the store (absolute canonical paths) are not modelled. -/
def FsModel.resolve (fs : FsModel) (searchPath : List Nat) (current path : Nat) (hasDir : Bool) : Option Nat :=
  if hasDir then fs.relFrom (fs.dir current) path
  else searchPath.findSome? (fun d => fs.lookupIn d path)

structure Store where
  loaded : List Nat := []                  -- keys of `ast_store`, in load order
  symbols : Symbols := {}
  graph : Graph := {}
  current : Option Nat := none
  cycle : Bool := false
  edges : List (Nat × Nat × Nat) := []     -- observed (includer, include string, target)
  deriving Repr, Inhabited

/-- `get_or_insert` + `insert_canonical`: parse on first load, gather symbols, store -/
def File.constsInRange (f : File) : Bool :=
  f.nodes.all fun
    | .const c => c.rangeOk
    | .iface i => i.members.all (fun | .const c => c.rangeOk | _ => true)
    | _ => true

def Store.load (fs : FsModel) (ub : Bool) (st : Store) (id : Nat) : Except Stage (Store × File) :=
  match fs.file id with
  | none => .error .incl
  | some f =>
    if st.loaded.contains id then .ok (st, f)
    else if !f.parseOk then .error .parse
    -- pst.rs:302-308: without --allow-undefined-behavior an out-of-range literal is fatal
    else if !ub && !f.constsInRange then .error .parse
    else
      match gatherSymbols id f.nodes st.symbols with
      | .error e => .error e
      | .ok sy => .ok ({ st with loaded := st.loaded ++ [id], symbols := sy }, f)

/-- `walk_all` restricted to what `IDLStore` overrides (`visit_include`), with the include
    visitor abstracted (keeps the recursion on the fuel structural) -/
def walkNodesWith (vi : Nat → Bool → Store → Except Stage Store) : List Node → Store → Except Stage Store
  | [], st => .ok st
  | .incl path hasDir :: ns, st =>
    match vi path hasDir st with
    | .error e => .error e
    | .ok st' => walkNodesWith vi ns st'
  | _ :: ns, st => walkNodesWith vi ns st

/-- `visit_include` (idl_store.rs:47-63); the recursive `walk_all(self, &inc_ast)` first sets
    `current` (`visit_root_ident`) and then visits the included file's own includes -/
def visitInclude (fs : FsModel) (ub : Bool) (sp : List Nat) : Nat → Nat → Bool → Store → Except Stage Store
  | 0, _, _, _ => .error .fuel
  | fuel+1, path, hasDir, st =>
    match st.current with
    | none => .error .incl                    -- `self.current.take().unwrap()` after a cycle
    | some cur =>
      match fs.resolve sp cur path hasDir with
      | none => .error .incl
      | some target =>
        let g := st.graph.addEdge cur target
        let st := { st with current := none, graph := g, edges := st.edges ++ [(cur, path, target)] }
        if g.hasCycle then .ok { st with cycle := true }
        else
          match st.load fs ub target with
          | .error e => .error e
          | .ok (st1, f) =>
            match walkNodesWith (visitInclude fs ub sp fuel) f.nodes { st1 with current := some f.id } with
            | .error e => .error e
            | .ok st2 => .ok { st2 with current := some cur }

def walkFile (fs : FsModel) (ub : Bool) (sp : List Nat) (fuel : Nat) (f : File) (st : Store) : Except Stage Store :=
  walkNodesWith (visitInclude fs ub sp fuel) f.nodes { st with current := some f.id }

/-- main.rs:131-133 + `check_includes`: load the main file, walk it, fail on a cycle -/
def loadAll (fs : FsModel) (ub : Bool) (sp : List Nat) (main : Nat) : Except Stage (Store × File) :=
  match ({} : Store).load fs ub main with
  | .error e => .error e
  | .ok (st, f) =>
    match walkFile fs ub sp (fs.files.length + 2) f st with
    | .error e => .error e
    | .ok st' => if st'.cycle then .error .incl else .ok (st', f)

end Mink
