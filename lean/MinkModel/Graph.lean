/-
  MinkModel.Graph — idlc_ast_passes/src/graph.rs: edge map + DFS `toposort`/`cycle`.
  `HashMap`/`HashSet` iteration order is modelled by the order of the lists (an arbitrary
  permutation: the theorems about `toposort` hold for every list order).
-/
import MinkModel.Basic
namespace Mink

structure Graph where
  adj : List (Nat × List Nat) := []
  deriving Repr, Inhabited

def Graph.keys (g : Graph) : List Nat := g.adj.map (·.1)

def Graph.succ (g : Graph) (n : Nat) : List Nat :=
  match g.adj.find? (fun e => e.1 == n) with
  | some e => e.2
  | none => []

/-- `entry(node).or_default()` -/
def Graph.addNode (g : Graph) (n : Nat) : Graph :=
  if g.adj.any (fun e => e.1 == n) then g else { adj := g.adj ++ [(n, [])] }

/-- `entry(from).or_default().insert(to)`; `to` does not become a key -/
def Graph.addEdge (g : Graph) (a b : Nat) : Graph :=
  let g := g.addNode a
  { adj := g.adj.map fun e => if e.1 == a then (e.1, if e.2.contains b then e.2 else e.2 ++ [b]) else e }

structure DfsSt where
  visited : List Nat := []
  rorder : List Nat := []     -- newest first; the real `order` is `rorder.reverse`
  deriving Repr, Inhabited

inductive DfsErr
  | cycle (c : List Nat)
  | fuel
  deriving Repr, Inhabited

/-- the loop `for neighbor in neighbors { self.toposort_recursive(neighbor, …)? }`, with the
    recursive call abstracted (keeps the recursion on the fuel structural, so that concrete
    graphs reduce in the kernel) -/
def visitListWith (f : Nat → List Nat → DfsSt → Except DfsErr DfsSt) :
    List Nat → List Nat → DfsSt → Except DfsErr DfsSt
  | [], _, st => .ok st
  | m :: ms, branch, st =>
    match f m branch st with
    | .error e => .error e
    | .ok st' => visitListWith f ms branch st'

/-- `toposort_recursive` (graph.rs:47-74) -/
def Graph.visit (g : Graph) : Nat → Nat → List Nat → DfsSt → Except DfsErr DfsSt
  | 0, _, _, _ => .error .fuel
  | fuel+1, n, branch, st =>
    if branch.contains n then .error (.cycle (branch ++ [n]))
    else if st.visited.contains n then .ok st
    else
      match visitListWith (Graph.visit g fuel) (g.succ n) (branch ++ [n]) { st with visited := n :: st.visited } with
      | .error e => .error e
      | .ok st' => .ok { st' with rorder := n :: st'.rorder }

def Graph.visitList (g : Graph) (fuel : Nat) : List Nat → List Nat → DfsSt → Except DfsErr DfsSt :=
  visitListWith (g.visit fuel)

/-- all node names occurring in the graph (keys and targets) -/
def Graph.allNodes (g : Graph) : List Nat := g.keys ++ g.adj.flatMap (·.2)

/-- `toposort` (graph.rs:31-45): the outer loop over keys is `visitList` with an empty branch
    (the `visited` test of the loop is repeated inside `visit`). Fuel: one more than the
    number of nodes is enough (a branch never repeats a node). -/
def Graph.toposort (g : Graph) : Except DfsErr (List Nat) :=
  match g.visitList (g.allNodes.length + 2) g.keys [] {} with
  | .error e => .error e
  | .ok st => .ok st.rorder.reverse

def Graph.hasCycle (g : Graph) : Bool :=
  match g.toposort with
  | .error _ => true
  | .ok _ => false

end Mink
