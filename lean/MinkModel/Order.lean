/-
  MinkModel.Order — `impl Ord for Param` (mir.rs:346-416) exactly as coded, the rank it
  induces, and the stable sort `params.sort()` of functions.rs:154.
-/
import MinkModel.Mir
namespace Mink

/-- what `Param::cmp` looks at: direction, whether the type is `Type::Interface`, `is_array()` -/
structure Shape where
  dir : Dir
  isIface : Bool
  isArr : Bool
  deriving DecidableEq, Repr, Inhabited

def MTy.isIface : MTy → Bool
  | .iface _ => true
  | _ => false

def Arr.isArray : Arr → Bool
  | .none => false
  | _ => true

def MParam.shape (p : MParam) : Shape := ⟨p.dir, p.ty.isIface, p.arr.isArray⟩

/-- mir.rs:346-416, arm by arm -/
def Shape.cmp (a b : Shape) : Ordering :=
  match a.dir, b.dir with
  | .inp, .out =>
    match a.isIface, b.isIface with
    | true, true => if a.isArr && !b.isArr then .gt else .lt
    | false, _ => .lt
    | true, false => .gt
  | .out, .inp =>
    match a.isIface, b.isIface with
    | true, true => if !a.isArr && b.isArr then .lt else .gt
    | false, true => .lt
    | _, _ => .gt
  | _, _ =>
    match a.isIface, b.isIface with
    | false, true => .lt
    | true, true =>
      if a.isArr && !b.isArr then .gt
      else if !a.isArr && b.isArr then .lt
      else .gt
    | true, false => .gt
    | false, false => .eq

/-- in-data 0 < out-data 1 < in-object 2 < out-object 3 < in-object-array 4 < out-object-array 5 -/
def Shape.rank (s : Shape) : Nat :=
  match s.isIface, s.isArr, s.dir with
  | true, false, .inp => 2
  | true, false, .out => 3
  | true, true, .inp => 4
  | true, true, .out => 5
  | false, _, .inp => 0
  | false, _, .out => 1

def MParam.rank (p : MParam) : Nat := p.shape.rank

/-- Stable sort by a key with finitely many values = concatenation of the key buckets in key
    order. `slice::sort` is a stable sort driven by `lt`; for a strict weak order its result is
    this list (the documented contract of `sort`). Structurally recursive, so concrete
    witnesses reduce in the kernel. -/
def bucketsFrom {α : Type} (key : α → Nat) (xs : List α) : Nat → Nat → List α
  | 0, _ => []
  | n+1, r => xs.filter (fun x => key x == r) ++ bucketsFrom key xs n (r+1)

def sortParams (ps : List MParam) : List MParam := bucketsFrom MParam.rank ps 6 0

end Mink
