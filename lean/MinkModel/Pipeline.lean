/-
  MinkModel.Pipeline — the pass pipeline of idlc/src/main.rs:129-160 (`cli`) and of
  idlc/src/lib.rs:15-40 (`lib`; the interface verifier was added there by the fix commit), and the backend fatal
  paths of counts.rs.
-/
import MinkModel.Fs
namespace Mink

inductive Entry | cli | lib
  deriving DecidableEq, Repr, Inhabited

structure Compiled where
  store : Store
  main : File
  structOrder : List Nat
  sizes : SizeStore
  mir : List MNode
  deriving Inhabited

/-- recursion-depth fuel: one more than the number of declared names bounds every chain
    of distinct names -/
def Symbols.fuel (sy : Symbols) : Nat := sy.structs.length + sy.ifaces.length + 2

/-- what `Counter::new` and the visitors do with `u8`: a debug build panics when a counter
    passes 255 or an object array is longer than 255; the walk panics on `cnt.unwrap()` -/
def backendOkFunc (f : MFunc) : Bool :=
  let c := counts f.params
  c.bi ≤ 255 && c.bo ≤ 255 && c.oi ≤ 255 && c.oo ≤ 255 &&
  f.params.all (fun p => match p.vkind with | .unreachable => false | _ => true)

def backendOk (mir : List MNode) : Bool :=
  mir.all fun
    | .iface i => i.flatFuncs.all (fun of => backendOkFunc of.2)
    | _ => true

/-- `ub` = `--allow-undefined-behavior`; the library entry point always passes `false` (lib.rs:22) -/
def compile (entry : Entry) (fs : FsModel) (incdirs : List Nat) (main : Nat) (ub : Bool := false) : Except Stage Compiled :=
  let ub := match entry with | .cli => ub | .lib => false
  let sp := match entry with
    | .cli => incdirs ++ [fs.dir main]       -- main.rs:127-128
    | .lib => incdirs                        -- lib.rs passes the caller's list unchanged
  match loadAll fs ub sp main with
  | .error e => .error e
  | .ok (st, f) =>
    match functionsPass f.nodes with
    | .error e => .error e
    | .ok () =>
      let fuel := st.symbols.fuel
      match cyclesPass st.symbols fuel f.nodes with
      | .error e => .error e
      | .ok order =>
        match structVerifier st.symbols order [] with
        | .error e => .error e
        | .ok sizes =>
          match parseToMir st.symbols fuel f.nodes with
          | .error e => .error e
          | .ok mir =>
            -- main.rs:158 and lib.rs (both entry points run the interface verifier)
            match interfaceVerifier mir with
            | .error e => .error e
            | .ok () =>
              if backendOk mir then .ok ⟨st, f, order, sizes, mir⟩ else .error .backend

end Mink
