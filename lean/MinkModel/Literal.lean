/-
  MinkModel.Literal — constant literals: the `value` rule of idl_grammar.pest:15, the range
  check `Primitive::new` (ast.rs:256-312: `from_str_radix` after `replace("0x", "")`, floats
  through `parse::<f32/f64>()` + `is_infinite`), over `List Char`.
-/
import MinkModel.Basic
namespace Mink

def digitVal (c : Char) : Option Nat :=
  if '0' ≤ c ∧ c ≤ '9' then some (c.toNat - '0'.toNat)
  else if 'a' ≤ c ∧ c ≤ 'f' then some (c.toNat - 'a'.toNat + 10)
  else if 'A' ≤ c ∧ c ≤ 'F' then some (c.toNat - 'A'.toNat + 10)
  else none

/-- value of a non-empty digit string in the radix; `none` on an invalid digit or `[]` -/
def digitStep (radix : Nat) (acc : Option Nat) (c : Char) : Option Nat :=
  match acc, digitVal c with
  | some a, some d => if d < radix then some (a * radix + d) else none
  | _, _ => none

def digitsVal (radix : Nat) : List Char → Option Nat
  | [] => none
  | cs => cs.foldl (digitStep radix) (some 0)

/-- `{integer}::from_str_radix` (core::num): a leading `+` is stripped, a leading `-` only for
    signed types; a lone sign is an error; then digits, with overflow detection -/
def fromStrRadix (signed : Bool) (bits : Nat) (radix : Nat) (s : List Char) : Option Int :=
  match s with
  | [] => none
  | ['+'] => none
  | ['-'] => none
  | c :: rest =>
    let (neg, ds) :=
      if c == '+' then (false, rest)
      else if c == '-' && signed then (true, rest)
      else (false, s)
    match digitsVal radix ds with
    | none => none
    | some v =>
      if signed then
        if neg then (if v ≤ 2 ^ (bits - 1) then some (-(v : Int)) else none)
        else (if v < 2 ^ (bits - 1) then some (v : Int) else none)
      else (if v < 2 ^ bits then some (v : Int) else none)

/-- `str::replace("0x", "")`: every occurrence, left to right, non-overlapping -/
def strip0x : List Char → List Char
  | '0' :: 'x' :: rest => strip0x rest
  | c :: rest => c :: strip0x rest
  | [] => []

def startsWith (p s : List Char) : Bool := p.isPrefixOf s

/-- the integer part of a decimal literal `-?D+(.D+)?` as `f32/f64::from_str` reads it;
    `none` when the text is not such a literal -/
def decimalIntPart (s : List Char) : Option Nat :=
  let s := match s with | '-' :: r => r | '+' :: r => r | r => r
  let ip := s.takeWhile (· != '.')
  let rest := s.dropWhile (· != '.')
  match digitsVal 10 ip with
  | none => none
  | some v =>
    match rest with
    | [] => some v
    | _ :: frac => if (digitsVal 10 frac).isSome then some v else none

/-- smallest magnitude that rounds to infinity: 2^128 − 2^103 (f32), 2^1024 − 2^970 (f64) -/
def infThreshold : Prim → Nat
  | .f32 => 2 ^ 128 - 2 ^ 103
  | _ => 2 ^ 1024 - 2 ^ 970

def Prim.isFloat : Prim → Bool | .f32 | .f64 => true | _ => false
def Prim.isSigned : Prim → Bool | .i8 | .i16 | .i32 | .i64 => true | _ => false
def Prim.bits (p : Prim) : Nat := 8 * p.size

/-- `Primitive::new(type, value).is_ok()` -/
def Prim.acceptsLiteral (p : Prim) (value : List Char) : Bool :=
  let radix := if startsWith ['0', 'x'] value || startsWith ['-', '0', 'x'] value then 16 else 10
  let v := strip0x value
  if p.isFloat then
    -- the *decimal* reading of the remaining text decides, whatever the radix was
    match decimalIntPart v with
    | none => false
    | some ip => decide (ip < infThreshold p)
  else (fromStrRadix p.isSigned p.bits radix v).isSome

/-- the mathematical value of an integer literal the range check accepted -/
def Prim.literalValue (p : Prim) (value : List Char) : Option Int :=
  let radix := if startsWith ['0', 'x'] value || startsWith ['-', '0', 'x'] value then 16 else 10
  fromStrRadix p.isSigned p.bits radix (strip0x value)

end Mink

namespace Mink

/-! ### per-language reading of an emitted integer literal (the text is carried verbatim:
    pst.rs:296-315, mir.rs:617-625, the four `emit_const`) -/

inductive Lang | c | cpp | rust | java
  deriving DecidableEq, Repr, Inhabited

/-- sign, radix prefix and digit string of an integer literal `-?0x H+ | -?D+` -/
def splitLiteral (s : List Char) : Bool × Bool × List Char :=
  let (neg, r) := match s with | '-' :: r => (true, r) | r => (false, r)
  match r with
  | '0' :: 'x' :: ds => (neg, true, ds)
  | ds => (neg, false, ds)

/-- the mathematical value of the IDL literal (decimal digits read in base ten, `0x` in
    base sixteen, optional minus sign) -/
def mathValue (s : List Char) : Option Int :=
  let (neg, hex, ds) := splitLiteral s
  match digitsVal (if hex then 16 else 10) ds with
  | none => none
  | some v => some (if neg then -(v : Int) else v)

/-- how the target language reads the same text: C, C++ and Java read a decimal literal with
    a leading `0` (and more digits) as octal; Rust reads it as decimal -/
def leadingZero : List Char → Bool
  | '0' :: _ :: _ => true
  | _ => false

def langRadix (l : Lang) (hex : Bool) (ds : List Char) : Nat :=
  if hex then 16
  else if l != .rust && leadingZero ds then 8
  else 10

def langValue (l : Lang) (s : List Char) : Option Int :=
  let (neg, hex, ds) := splitLiteral s
  match digitsVal (langRadix l hex ds) ds with
  | none => none                       -- e.g. `09` is not a valid octal literal: compile error
  | some v => some (if neg then -(v : Int) else v)

def hasLeadingZero (s : List Char) : Bool :=
  let (_, hex, ds) := splitLiteral s
  !hex && leadingZero ds

def Prim.lo (p : Prim) : Int := if p.isSigned then -(2 ^ (p.bits - 1) : Nat) else 0
def Prim.hi (p : Prim) : Int := if p.isSigned then (2 ^ (p.bits - 1) : Nat) - 1 else (2 ^ p.bits : Nat) - 1

end Mink
