/-
  MinkModel.Decls — order of definitions and uses in an emitted C / C++ unit. All four
  generators walk the node list of the compiled file in SOURCE order
  (idlc_codegen_c/src/generator.rs:30-47 and the others), so a name is defined in the output
  where it is declared in the input; C and C++ need the definition before the first use.
-/
import MinkModel.Pipeline
namespace Mink

/-- type names a top-level node uses: field types of a struct; base and parameter types of an
    interface (a reference of an interface to itself is fine: `typedef Object I;` comes first) -/
def Node.uses : Node → List Nat
  | .struct s => s.fields.filterMap fun f => match f.ty with | .custom n => some n | _ => none
  | .iface i =>
    (match i.base with | some b => [b] | none => []) ++
    (i.members.flatMap fun
      | .func m => m.params.filterMap fun p => match p.ty with
          | .custom n => if n == i.name then none else some n
          | _ => none
      | _ => [])
  | _ => []

def Node.defines : Node → Option Nat
  | .struct s => some s.name
  | .iface i => some i.name
  | _ => none

/-- every name used by a node of the file is defined by an earlier node of the same file or
    comes from an included file (`external`) -/
def definedBeforeUse (external : List Nat) : List Node → List Nat → Bool
  | [], _ => true
  | n :: ns, seen =>
    (n.uses.all fun u => seen.contains u || external.contains u) &&
    definedBeforeUse external ns (match n.defines with | some d => d :: seen | none => seen)

/-- the C++ interface class names exactly its direct base (after the fix 59e1ddd; before, all
    ancestors were listed without separators) -/
def cppBaseList (i : MIface) : List Nat :=
  match i with
  | _ :: b :: _ => [b.name]
  | _ => []

end Mink
