/-
  MinkModel.Conc — one object created from a Rust implementation through the generated
  conversion (`impl From<T> for I`): the wrapper of tests/src/object/wrapper.rs
  (`refs : AtomicUsize`, `inner : Mutex<Box<dyn II>>`), the handles (`Object`: retain on
  clone, release on drop, tests/src/object/mod.rs) and the generated skeleton arm
  (`(*cx).inner.lock()…and_then(|mut cx| cx.method(..))`, idlc_codegen_rust invoke.rs) as a
  transition system whose steps are the atomic actions of client threads.

  What is modelled: the reference count with its atomic read-modify-write steps, the mutex as a
  flag, the set of live handles with Rust's ownership discipline as guards (a handle is used by
  its owner or by the thread it is lent to; it is moved or dropped only by its owner while
  nobody uses or borrows it), the implementation's state as one counter `total` read at body
  entry and written at body exit (the shape of the bench's implementation), the drop of the
  implementation box by the thread whose `fetch_sub` returned 1.
  What is NOT modelled: weak-memory reorderings (every step is atomic and the steps of all
  threads are totally ordered, i.e. sequential consistency is assumed), panics/poisoning,
  re-entrant invocation from inside a body (self-deadlock in the real code), u64 wrap-around of
  the implementation's counter.
-/
namespace Mink.Conc

structure Handle where
  id : Nat
  owner : Option Nat        -- none: in flight between `send` and `recv`
  dest : Nat                -- the receiver while in flight
  lent : Option Nat         -- borrower during a scoped lend
  deriving DecidableEq, Repr

/-- an invocation in progress; `val` is unused while pending, the value read at entry while
    in the body, the value written while returning -/
structure Call where
  tid : Nat
  h : Nat
  delta : Nat
  val : Nat
  deriving DecidableEq, Repr

structure St where
  refs : Nat                    -- Wrapper::refs
  handles : List Handle         -- live handles
  pending : List Call           -- stub called, body not yet entered (unmarshalling, waiting for the mutex)
  inBody : List Call            -- method bodies executing
  returning : List Call         -- body left, outputs being written back
  lock : Bool                   -- Wrapper::inner is locked
  total : Nat                   -- the implementation's state
  log : List (Nat × Nat)        -- ghost: (seen, delta) of completed bodies, newest first
  droppers : List Nat           -- threads inside drop(handle) before their fetch_sub
  freeing : Option Nat          -- thread whose fetch_sub returned 1, before Box::from_raw is dropped
  finishing : List Nat          -- threads inside drop(handle) after their release
  drops : Nat                   -- ghost: how often the implementation value was dropped
  deriving Repr

inductive Act
  | clone (t h h' : Nat)
  | send (t h u : Nat)
  | recv (t h : Nat)
  | lend (t h u : Nat)
  | unlend (t h u : Nat)
  | call (t h delta : Nat)
  | enter (t h seen : Nat)
  | exit (t h wrote : Nat)
  | ret (t h total : Nat)
  | drop (t h : Nat)
  | fetchSub (t : Nat)          -- not observable in the bench's histories
  | implDrop (t : Nat)
  | dropped (t : Nat)
  deriving DecidableEq, Repr

/-- `From<T>`: Wrapper::new starts the count at one; the creating thread owns the handle -/
def init (t h : Nat) : St :=
  { refs := 1, handles := [⟨h, some t, 0, none⟩], pending := [], inBody := [], returning := [],
    lock := false, total := 0, log := [], droppers := [], freeing := none, finishing := [], drops := 0 }

def usable (t : Nat) (hd : Handle) : Bool := hd.owner == some t || hd.lent == some t

def findH (s : St) (h : Nat) : Option Handle := s.handles.find? (fun x => x.id == h)

def calls (s : St) : List Call := s.pending ++ (s.inBody ++ s.returning)

def inUse (s : St) (h : Nat) : Bool := (calls s).any (fun c => c.h == h)

def setH (s : St) (h : Nat) (f : Handle → Handle) : List Handle :=
  s.handles.map (fun x => if x.id == h then f x else x)

def findC (l : List Call) (t h : Nat) : Option Call := l.find? (fun c => c.tid == t && c.h == h)

def step (s : St) : Act → Option St
  | .clone t h h' =>
    match findH s h with
    | some hd =>
      if usable t hd && !(s.handles.any (fun x => x.id == h')) then
        some { s with refs := s.refs + 1, handles := ⟨h', some t, 0, none⟩ :: s.handles }
      else none
    | none => none
  | .send t h u =>
    match findH s h with
    | some hd =>
      if hd.owner == some t && hd.lent == none && !(inUse s h) then
        some { s with handles := setH s h (fun x => { x with owner := none, dest := u }) }
      else none
    | none => none
  | .recv t h =>
    match findH s h with
    | some hd =>
      if hd.owner == none && hd.dest == t then
        some { s with handles := setH s h (fun x => { x with owner := some t }) }
      else none
    | none => none
  | .lend t h u =>
    match findH s h with
    | some hd =>
      if hd.owner == some t && hd.lent == none then
        some { s with handles := setH s h (fun x => { x with lent := some u }) }
      else none
    | none => none
  | .unlend t h u =>
    match findH s h with
    | some hd =>
      if hd.owner == some t && hd.lent == some u && !((calls s).any (fun c => c.tid == u && c.h == h)) then
        some { s with handles := setH s h (fun x => { x with lent := none }) }
      else none
    | none => none
  | .call t h d =>
    match findH s h with
    | some hd =>
      if usable t hd then some { s with pending := ⟨t, h, d, 0⟩ :: s.pending } else none
    | none => none
  | .enter t h seen =>
    match findC s.pending t h with
    | some c =>
      -- Mutex::lock succeeds only on a free mutex; the body then reads the state
      if !s.lock && seen == s.total then
        some { s with lock := true, pending := s.pending.erase c,
                      inBody := { c with val := seen } :: s.inBody }
      else none
    | none => none
  | .exit t h wrote =>
    match findC s.inBody t h with
    | some c =>
      if wrote == c.val + c.delta then
        some { s with lock := false, total := wrote, inBody := s.inBody.erase c,
                      returning := { c with val := wrote } :: s.returning,
                      log := (c.val, c.delta) :: s.log }
      else none
    | none => none
  | .ret t h total =>
    match findC s.returning t h with
    | some c => if total == c.val then some { s with returning := s.returning.erase c } else none
    | none => none
  | .drop t h =>
    match findH s h with
    | some hd =>
      if hd.owner == some t && hd.lent == none && !(inUse s h) then
        some { s with handles := s.handles.erase hd, droppers := t :: s.droppers }
      else none
    | none => none
  | .fetchSub t =>
    -- wrapper.rs release: `match refs.fetch_sub(1) { 1 => drop(Box::from_raw(..)), 0 => unreachable!(), _ => {} }`
    if s.droppers.contains t && s.refs != 0 then
      if s.refs == 1 then
        some { s with refs := 0, droppers := s.droppers.erase t, freeing := some t }
      else
        some { s with refs := s.refs - 1, droppers := s.droppers.erase t, finishing := t :: s.finishing }
    else none
  | .implDrop t =>
    if s.freeing == some t then
      some { s with freeing := none, drops := s.drops + 1, finishing := t :: s.finishing }
    else none
  | .dropped t =>
    if s.finishing.contains t then some { s with finishing := s.finishing.erase t } else none

def run : St → List Act → Option St
  | s, [] => some s
  | s, a :: as =>
    match step s a with
    | some s' => run s' as
    | none => none

/-! ### observed histories: the `fetch_sub` is not an event of the bench; it is placed as late
    as the observed events allow (at the thread's `dropped`, or just before the `impl_drop` of
    the thread that saw the count reach zero) -/

def expand (s : St) : Act → List Act
  | .implDrop t =>
    ((s.droppers.filter (fun u => u != t)).map Act.fetchSub) ++
      (if s.droppers.contains t then [.fetchSub t] else []) ++ [.implDrop t]
  | .dropped t => (if s.droppers.contains t then [.fetchSub t] else []) ++ [.dropped t]
  | a => [a]

/-- replay an observed history; `Except.error i` = the i-th observed event is not a behaviour
    of the model -/
def replay : St → List Act → Nat → Except Nat St
  | s, [], _ => .ok s
  | s, a :: as, i =>
    match run s (expand s a) with
    | some s' => replay s' as (i + 1)
    | none => .error i

def quiescent (s : St) : Bool :=
  s.handles.isEmpty && s.droppers.isEmpty && s.freeing.isNone && s.finishing.isEmpty

end Mink.Conc
