/-
  MinkModel.Doc — idlc_codegen/src/marking.rs (`Marking::new`) over `List Char`.
  `str::lines()` splits at '\n' and drops one trailing '\r' per line; a final empty piece
  after a trailing '\n' is not a line.
-/
import MinkModel.Basic
namespace Mink

/-- split at '\n' (the last piece may be empty) -/
def splitNl : List Char → List (List Char)
  | [] => [[]]
  | c :: cs =>
    if c == '\n' then [] :: splitNl cs
    else match splitNl cs with
      | [] => [[c]]
      | l :: ls => (c :: l) :: ls

def dropTrailingCr (l : List Char) : List Char :=
  match l.reverse with
  | '\r' :: r => r.reverse
  | _ => l

/-- `str::lines()` -/
def strLines (s : List Char) : List (List Char) :=
  let ps := splitNl s
  let ps := if ps.getLast? == some [] then ps.dropLast else ps
  ps.map dropTrailingCr

inductive MarkStyle | slashes | javaBlock
  deriving DecidableEq, Repr

/-- `Marking::new(marking, style)`: C, C++ and Rust get `// line` lines, Java one `/* … */`
    block with `* line` lines; an empty marking gives the empty string -/
def renderMarking (st : MarkStyle) (marking : List Char) : List Char :=
  if marking.isEmpty then []
  else
    let body := (strLines marking).flatMap fun l =>
      (match st with | .slashes => ['/', '/'] | .javaBlock => ['*']) ++ [' '] ++ l ++ ['\n']
    (match st with | .slashes => [] | .javaBlock => ['/', '*', '\n']) ++ body ++
    (match st with | .slashes => [] | .javaBlock => ['*', '/', '\n']) ++ ['\n']

end Mink
