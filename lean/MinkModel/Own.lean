/-
  MinkModel.Own — reference-count effects of the generated marshalling code for object
  arguments. A counting object starts with one reference owned by its creator.
  * C stubs and skeletons copy `Object` values: no retain, no release.
  * C++ (tests/cpp/proxy_base.hpp): a proxy constructed from a raw object ADOPTS it (no retain);
    its destructor releases what it still holds; `extract()` gives the object up without
    releasing; `consume(o)` releases the old content and adopts `o`. The skeleton wraps every
    input slot in a proxy and extracts it after the call; it extracts output proxies into the
    slots. The stub passes `get()` (no effect) and `consume`s returned objects.
  * Rust: inputs are bit copies inside `ManuallyDrop` (never dropped: no effect); outputs are
    moved with `ManuallyDrop::take` / `transmute` (ownership transfer, no effect).
-/
import MinkModel.Basic
namespace Mink

inductive RcEv
  | retain (t : Nat)
  | release (t : Nat)
  deriving DecidableEq, Repr

/-- a proxy slot: the object it currently owns (none = empty / null) -/
abbrev Proxy := Option Nat

/-- proxy operations of proxy_base.hpp and the events they cause -/
inductive POp
  | adopt (t : Option Nat)       -- construct from a raw object / take ownership
  | extract                      -- give the object up, proxy becomes empty
  | consume (t : Option Nat)     -- release current content, adopt t
  | destroy                      -- destructor: release current content
  deriving DecidableEq, Repr

def releaseOf : Proxy → List RcEv
  | some t => [.release t]
  | none => []

def stepProxy (p : Proxy) : POp → Proxy × List RcEv
  | .adopt t => (t, [])
  | .extract => (none, [])
  | .consume t => (t, releaseOf p)
  | .destroy => (none, releaseOf p)

def runProxy : Proxy → List POp → Proxy × List RcEv
  | p, [] => (p, [])
  | p, op :: ops =>
    let (p1, e1) := stepProxy p op
    let (p2, e2) := runProxy p1 ops
    (p2, e1 ++ e2)

/-- C++ skeleton, one input object slot (invoke.rs visit_input_object): wrap, call, extract,
    scope exit -/
def cppSkelIn (t : Option Nat) : List POp := [.adopt t, .extract, .destroy]

/-- C++ skeleton, one output object (visit_output_object): empty proxy, the implementation
    stores its result (adopt), extract into the slot, scope exit -/
def cppSkelOut (produced : Option Nat) : List POp := [.adopt none, .consume produced, .extract, .destroy]

/-- C++ stub, one output object (implementation.rs visit_output_object): the caller's proxy
    `x` consumes the returned slot on success only -/
def cppStubOut (callerHeld returned : Option Nat) (ok : Bool) : List POp :=
  [.adopt callerHeld] ++ (if ok then [.consume returned] else [])

/-- net change of the reference count of token `t` caused by an event list -/
def net (t : Nat) : List RcEv → Int
  | [] => 0
  | .retain u :: es => (if u = t then 1 else 0) + net t es
  | .release u :: es => (if u = t then -1 else 0) + net t es

end Mink
