/-
  MinkModel.Own — reference-count effects of the generated marshalling code for object
  arguments. A counting object starts with one reference owned by its creator.
  * C stubs and skeletons copy `Object` values: no retain, no release.
  * C++ (tests/cpp/proxy_base.hpp): a proxy constructed from a raw object ADOPTS it (no retain);
    its destructor releases what it still holds; `extract()` gives the object up without
    releasing; `consume(o)` releases the old content and adopts `o`. The skeleton wraps every
    input slot in a proxy and extracts it after the call; it extracts output proxies into the
    slots. The stub passes `get()` (no effect) and `consume`s returned objects.
  * Rust: inputs are bit copies inside `ManuallyDrop` (never dropped: no effect); outputs are
    moved with `ManuallyDrop::take` / `transmute` (ownership transfer, no effect).
-/
import MinkModel.Basic
namespace Mink

inductive RcEv
  | retain (t : Nat)
  | release (t : Nat)
  deriving DecidableEq, Repr

/-- a proxy slot: the object it currently owns (none = empty / null) -/
abbrev Proxy := Option Nat

/-- proxy operations of proxy_base.hpp and the events they cause -/
inductive POp
  | adopt (t : Option Nat)       -- construct from a raw object / take ownership
  | extract                      -- give the object up, proxy becomes empty
  | consume (t : Option Nat)     -- release current content, adopt t
  | destroy                      -- destructor: release current content
  deriving DecidableEq, Repr

def releaseOf : Proxy → List RcEv
  | some t => [.release t]
  | none => []

def stepProxy (p : Proxy) : POp → Proxy × List RcEv
  | .adopt t => (t, [])
  | .extract => (none, [])
  | .consume t => (t, releaseOf p)
  | .destroy => (none, releaseOf p)

def runProxy : Proxy → List POp → Proxy × List RcEv
  | p, [] => (p, [])
  | p, op :: ops =>
    let (p1, e1) := stepProxy p op
    let (p2, e2) := runProxy p1 ops
    (p2, e1 ++ e2)

/-- C++ skeleton, one input object slot (invoke.rs visit_input_object): wrap, call, extract,
    scope exit -/
def cppSkelIn (t : Option Nat) : List POp := [.adopt t, .extract, .destroy]

/-- C++ skeleton, one output object (visit_output_object): empty proxy, the implementation
    stores its result (adopt), extract into the slot, scope exit -/
def cppSkelOut (produced : Option Nat) : List POp := [.adopt none, .consume produced, .extract, .destroy]

/-- C++ stub, one output object (implementation.rs visit_output_object): the caller's proxy
    `x` consumes the returned slot on success only -/
def cppStubOut (callerHeld returned : Option Nat) (ok : Bool) : List POp :=
  [.adopt callerHeld] ++ (if ok then [.consume returned] else [])

/-- net change of the reference count of token `t` caused by an event list -/
def net (t : Nat) : List RcEv → Int
  | [] => 0
  | .retain u :: es => (if u = t then 1 else 0) + net t es
  | .release u :: es => (if u = t then -1 else 0) + net t es

end Mink

namespace Mink

/-! ### a whole call: every object slot of a method, any stub language with any skeleton
    language (the 9 pairings of the bench) -/

inductive BLang | c | cpp | rust
  deriving DecidableEq, Repr

/-- one object slot of a call, however it travels (directly, as an element of an object array,
    as a field of a struct): its direction and the object in it (`none` = null). For an output
    slot the object is the one the implementation produced. -/
structure ObjSlot where
  dir : Dir
  tok : Option Nat
  deriving DecidableEq, Repr

/-- proxy operations the generated skeleton performs for one slot. C copies `Object` values
    and blanks struct fields; Rust wraps bit copies in `ManuallyDrop` and moves outputs with
    `take` / `transmute`: neither issues a count operation. -/
def skelOps : BLang → ObjSlot → List POp
  | .cpp, ⟨.inp, t⟩ => cppSkelIn t
  | .cpp, ⟨.out, t⟩ => cppSkelOut t
  | _, _ => []

/-- proxy operations the generated stub performs for one slot (`held` = what the caller's
    out-parameter held before the call; inputs are passed with `get()`: no effect) -/
def stubOps (ok : Bool) (held : Option Nat) : BLang → ObjSlot → List POp
  | .cpp, ⟨.out, t⟩ => cppStubOut held t ok
  | _, _ => []

/-- what the caller's out-parameter holds after the call, per language: C and Rust store the
    returned object on success and leave the variable alone on failure -/
def callerHolds (ok : Bool) (held : Option Nat) (stub : BLang) (s : ObjSlot) : Option Nat :=
  match stub with
  | .cpp => (runProxy none (stubOps ok held .cpp s)).1
  | _ => if ok then s.tok else held

/-- all count events of one call -/
def callEvents (stub skel : BLang) (ok : Bool) (slots : List ObjSlot) : List RcEv :=
  slots.flatMap fun s => (runProxy none (skelOps skel s)).2 ++ (runProxy none (stubOps ok none stub s)).2

end Mink
