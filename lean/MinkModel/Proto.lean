/-
  MinkModel.Proto — the line protocol: one whitespace-separated token line describing a case
  (bench/idl.py `case_tokens`), canonical fact lines out. Strings are interned to `Nat` ids
  here; the model proper never sees a string.
-/
import MinkModel.Pipeline
import MinkModel.Literal
import MinkModel.Output
import MinkModel.Wire
import MinkModel.Skel
import MinkModel.Conc
import MinkModel.DocRender
namespace Mink

structure PState where
  toks : List String
  names : Array String := #[]
  deriving Inhabited

abbrev P := StateT PState (Except String)

def P.next : P String := do
  let s ← get
  match s.toks with
  | [] => throw "unexpected end of input"
  | t :: ts => set { s with toks := ts }; pure t

def P.expect (w : String) : P Unit := do
  let t ← P.next
  if t != w then throw s!"expected '{w}', got '{t}'"

def P.nat : P Nat := do
  let t ← P.next
  match t.toNat? with
  | some n => pure n
  | none => throw s!"expected a number, got '{t}'"

def intern (w : String) : P Nat := do
  let s ← get
  match s.names.toList.idxOf? w with
  | some i => pure i
  | none => set { s with names := s.names.push w }; pure s.names.size

def P.ident : P Nat := do intern (← P.next)

def primOfString : String → Option Prim
  | "uint8" => some .u8 | "uint16" => some .u16 | "uint32" => some .u32 | "uint64" => some .u64
  | "int8" => some .i8 | "int16" => some .i16 | "int32" => some .i32 | "int64" => some .i64
  | "float32" => some .f32 | "float64" => some .f64
  | _ => none

def Prim.toString : Prim → String
  | .u8 => "uint8" | .u16 => "uint16" | .u32 => "uint32" | .u64 => "uint64"
  | .i8 => "int8" | .i16 => "int16" | .i32 => "int32" | .i64 => "int64"
  | .f32 => "float32" | .f64 => "float64"

/-- pst.rs `Type::from`: primitive name, the word `interface`, else a custom name -/
def fieldTy (w : String) : P Ty :=
  match primOfString w with
  | some p => pure (.prim p)
  | none => if w == "interface" then pure .iface else do pure (.custom (← intern w))

/-- pst.rs `ParamTypeIn/Out::from`: `buffer` wins over any array suffix -/
def paramTy (w : String) (a : Arr) : P (Ty × Arr) := do
  if w == "buffer" then pure (.buffer, .none)
  else pure (← fieldTy w, a)

def P.repeat {α : Type} (n : Nat) (p : P α) : P (List α) := do
  let mut out := []
  for _ in [0:n] do
    out := out ++ [← p]
  pure out

def pConst : P Const := do
  let t ← P.next
  let some p := primOfString t | throw s!"bad const type {t}"
  let n ← P.ident
  let w ← P.next
  let v ← intern w
  pure { name := n, ty := p, value := v, rangeOk := p.acceptsLiteral w.toList }

def pParam : P Param := do
  let d ← P.next
  let dir ← (match d with | "in" => pure Dir.inp | "out" => pure Dir.out | _ => throw s!"bad dir {d}")
  let t ← P.next
  let a ← P.next
  let arr := if a == "-" then Arr.none else if a == "*" then Arr.unbounded else Arr.bounded a.toNat!
  let (ty, arr) ← paramTy t arr
  let n ← P.ident
  pure ⟨dir, ty, arr, n⟩

def pMember : P Member := do
  match ← P.next with
  | "const" => pure (.const (← pConst))
  | "error" => pure (.error (← P.ident))
  | "method" =>
    let n ← P.ident
    let opt ← P.nat
    let doc ← P.nat
    let k ← P.nat
    let ps ← P.repeat k pParam
    pure (.func ⟨n, ps, opt == 1, doc == 1⟩)
  | w => throw s!"bad member {w}"

def hasDirPart (s : String) : Bool := s.toList.contains '/'

def pNode : P Node := do
  match ← P.next with
  | "include" =>
    let w ← P.next
    pure (.incl (← intern w) (hasDirPart w))
  | "const" => pure (.const (← pConst))
  | "struct" =>
    let n ← P.ident
    let k ← P.nat
    let fs ← P.repeat k (do
      let t ← P.next
      let ty ← fieldTy t
      let c ← P.nat
      let fname ← P.ident
      pure (⟨fname, ty, c⟩ : Field))
    pure (.struct ⟨n, fs⟩)
  | "interface" =>
    let n ← P.ident
    let b ← P.next
    let base ← (if b == "-" then pure none else do pure (some (← intern b)))
    let k ← P.nat
    let ms ← P.repeat k pMember
    pure (.iface ⟨n, base, ms⟩)
  | w => throw s!"bad node {w}"

def dirname (s : String) : String :=
  match (s.splitOn "/").dropLast with
  | [] => "."
  | parts => "/".intercalate parts

structure Case where
  fs : FsModel
  incdirs : List Nat
  main : Nat
  names : Array String
  deriving Inhabited

def pCase : P Case := do
  P.expect "case"
  let nf ← P.nat
  let mut files : List File := []
  let mut dirOf : List (Nat × Nat) := []
  for _ in [0:nf] do
    let kw ← P.next
    let path ← P.next
    let id ← intern path
    let d ← intern (dirname path)
    dirOf := dirOf ++ [(id, d)]
    if kw == "badfile" then
      files := files ++ [{ id := id, nodes := [], parseOk := false }]
    else
      let k ← P.nat
      let ns ← P.repeat k pNode
      files := files ++ [{ id := id, nodes := ns }]
  P.expect "main"
  let main ← P.ident
  P.expect "incdirs"
  let k ← P.nat
  let incdirs ← P.repeat k P.ident
  P.expect "lookup"
  let k ← P.nat
  let lookup ← P.repeat k (do pure ((← P.ident), (← P.ident), (← P.ident)))
  P.expect "rel"
  let k ← P.nat
  let rel ← P.repeat k (do pure ((← P.ident), (← P.ident), (← P.ident)))
  P.expect "end"
  let s ← get
  pure { fs := ⟨files, dirOf, lookup, rel⟩, incdirs := incdirs, main := main, names := s.names }

/-! ### `wire` requests: concrete argument values for one method -/

def hexDigit (c : Char) : Nat :=
  if '0' ≤ c ∧ c ≤ '9' then c.toNat - '0'.toNat
  else if 'a' ≤ c ∧ c ≤ 'f' then c.toNat - 'a'.toNat + 10
  else if 'A' ≤ c ∧ c ≤ 'F' then c.toNat - 'A'.toNat + 10 else 0

def parseHex : List Char → List Nat
  | a :: b :: r => (hexDigit a * 16 + hexDigit b) :: parseHex r
  | _ => []

def hexOf (bs : List Nat) : String :=
  String.ofList (bs.flatMap fun b => [Nat.digitChar (b / 16), Nat.digitChar (b % 16)])

def objOfTok (w : String) : Option Nat := if w == "-" then none else w.toNat?

def objText : Option Nat → String
  | none => "-"
  | some n => toString n

/-- (parameter name, kind letter, hex image, objects by path / in order) -/
structure ValSpec where
  name : String
  kind : String
  hex : String
  pathObjs : List (String × Option Nat)
  objs : List (Option Nat)
  deriving Inhabited

def pValSpec : P ValSpec := do
  let name ← P.next
  let kind ← P.next
  match kind with
  | "d" =>
    let hex ← P.next
    let k ← P.nat
    let pos ← P.repeat k (do let p ← P.next; let o ← P.next; pure (p, objOfTok o))
    pure ⟨name, kind, if hex == "-" then "" else hex, pos, []⟩
  | "o" =>
    let o ← P.next
    pure ⟨name, kind, "", [], [objOfTok o]⟩
  | "a" =>
    let k ← P.nat
    let os ← P.repeat k (do pure (objOfTok (← P.next)))
    pure ⟨name, kind, "", [], os⟩
  | w => throw s!"bad value kind {w}"

structure WireReq where
  case : Case
  iface : String
  method : String
  vals : List ValSpec
  deriving Inhabited

def pWire : P WireReq := do
  let c ← pCase
  let i ← P.next
  let m ← P.next
  let k ← P.nat
  let vs ← P.repeat k pValSpec
  pure ⟨c, i, m, vs⟩

def parseWire (line : String) : Except String WireReq :=
  let toks := (line.splitOn " ").filter (· != "")
  match pWire.run { toks := toks } with
  | .ok (c, _) => .ok c
  | .error e => .error e

def parseCase (line : String) : Except String Case :=
  let toks := (line.splitOn " ").filter (· != "")
  match pCase.run { toks := toks } with
  | .ok (c, _) => .ok c
  | .error e => .error e

/-! ### printing facts -/

def nm (names : Array String) (i : Nat) : String := names.getD i s!"#{i}"

def sortStrings (xs : List String) : List String := (xs.toArray.qsort (· < ·)).toList

def dedup (xs : List String) : List String :=
  xs.foldl (fun acc x => if acc.contains x then acc else acc ++ [x]) []

def objsText (names : Array String) (objs : List (List Nat × Option Nat)) : String :=
  ",".intercalate (objs.map fun (path, t) =>
    ".".intercalate (path.map (nm names)) ++ ":" ++ (match t with | some n => nm names n | none => "-"))

def structText (names : Array String) (small : Bool) (s : MStruct) : String :=
  s!"{nm names s.name} size={s.size} small={if small then 1 else 0} objs=[{objsText names s.objects}]"

def dirCh : Dir → String | .inp => "i" | .out => "o"

def optName (names : Array String) : Option Nat → String
  | some n => nm names n
  | none => "-"

def evText (names : Array String) : Ev → String
  | .inBundle _ => "IB"
  | .outBundle _ => "OB"
  | .single p =>
    let k := match p.vkind with
      | .primBuf q => s!"primbuf:{q.toString}"
      | .untypedBuf => "ubuf"
      | .structBuf s => s!"structbuf:{nm names s.name}"
      | .prim q => s!"prim:{q.toString}"
      | .bigStruct s => s!"big:{nm names s.name}"
      | .smallStruct s => s!"small:{nm names s.name}"
      | .obj t => s!"obj:{optName names t}"
      | .objArr t n => s!"objarr:{optName names t}:{n}"
      | .unreachable => "unreachable"
    s!"{dirCh p.dir}{k}({nm names p.name})"

def bundleText (names : Array String) (ms : List BMember) : String :=
  ",".intercalate (ms.map fun m => s!"{nm names m.name}:{m.size}:{m.nth}")

def paramStructs (names : Array String) (ps : List MParam) : List String :=
  ps.filterMap fun p => match p.ty with
    | .struct small s => some ("stype " ++ structText names small s)
    | _ => none

def ifaceFacts (names : Array String) (i : MIface) : List String :=
  match i with
  | [] => []
  | leaf :: _ =>
    let I := nm names leaf.name
    let ops := i.flatFuncs.map fun (o, f) => s!"op {I} {nm names o} {nm names f.name} {f.id}"
    let errs := i.flatErrors.map fun (o, n, v) => s!"err {I} {nm names o} {nm names n} {v}"
    let meths := i.flatFuncs.map fun (o, f) =>
      let c := counts f.params
      let ib := bundle .inp f.params
      let ob := bundle .out f.params
      s!"method {I} {nm names o} {nm names f.name} opt={if f.optional then 1 else 0} counts={c.bi},{c.bo},{c.oi},{c.oo} ibundle=[{bundleText names ib}]:{bundleSize ib} obundle=[{bundleText names ob}]:{bundleSize ob} events=[{" ".intercalate ((events f.params).map (evText names))}]"
    let st := i.flatFuncs.flatMap fun (_, f) => paramStructs names f.params
    -- model-only (not observable through the probe): slot sections along the walk
    let sl := i.flatFuncs.map fun (o, f) =>
      s!"#slots {I} {nm names o} {nm names f.name} {",".intercalate ((slotSections f.params).map toString)}"
    ops ++ errs ++ meths ++ st ++ sl

def mirFacts (names : Array String) (mir : List MNode) : List String :=
  mir.flatMap fun
    | .struct small s => ["struct " ++ structText names small s]
    | .iface i => ifaceFacts names i
    | _ => []

def storeFacts (names : Array String) (st : Store) : List String :=
  let loaded := "loaded " ++ " ".intercalate (sortStrings (st.loaded.map (nm names)))
  let edges := sortStrings (dedup (st.edges.map fun (a, p, t) => s!"#edge {nm names a} {nm names p} {nm names t}"))
  let topo := "toponodes " ++ " ".intercalate (sortStrings (dedup (st.graph.allNodes.map (nm names))))
  let syms := sortStrings (
    st.symbols.structs.map (fun (s, f) => s!"sym struct {nm names s.name} {nm names f}") ++
    st.symbols.ifaces.map (fun (i, f) => s!"sym iface {nm names i.name} {nm names f}") ++
    st.symbols.consts.map (fun (c, f) => s!"sym const {nm names c} {nm names f}"))
  [loaded, topo] ++ edges ++ syms

def internPure (names : Array String) (w : String) : Array String × Nat :=
  match names.toList.idxOf? w with
  | some i => (names, i)
  | none => (names.push w, names.size)

def basename (s : String) : String := ((s.splitOn "/").getLast?).getD s

def stemOf (s : String) : String :=
  let b := basename s
  if b.endsWith ".idl" then (b.dropEnd 4).toString else b

/-- file names written by the multi-file backends, through `Output.writtenFiles` with the
    key functions of the generators (`to_lowercase()` + `.rs`; name + `.java`) -/
def outputFacts (c : Case) (mir : List MNode) : List String :=
  let mainPath := nm c.names c.main
  let ifs := mir.filterMap fun | .iface (l :: _) => some l.name | _ => none
  let go (ext : String) (fold : String → String) (b : Backend) : String :=
    let (names1, baseId) := internPure c.names (fold (stemOf mainPath) ++ ext)
    let (names2, keys) := ifs.foldl (fun (acc : Array String × List (Nat × Nat)) i =>
      let (n', k) := internPure acc.1 (fold (nm c.names i) ++ ext)
      (n', acc.2 ++ [(i, k)])) (names1, [])
    let key := fun i => ((keys.find? (fun e => e.1 == i)).map (·.2)).getD i
    let files := writtenFiles b key baseId 0 mir
    " ".intercalate (sortStrings (files.map (nm names2)))
  [s!"files rust {go ".rs" String.toLower .rust}",
   if javaSupported mir then s!"files java {go ".java" id .java}" else "files java !panic"]

def facts (entry : Entry) (c : Case) (ub : Bool := false) : List String :=
  match compile entry c.fs c.incdirs c.main ub with
  | .error e => [s!"verdict reject {e.toString}"]
  | .ok r =>
    ["verdict accept"] ++ storeFacts c.names r.store ++
      sortStrings (r.sizes.map fun (n, sz, al) => s!"#layout {nm c.names n} {sz} {al}") ++
      sortStrings (dedup (mirFacts c.names r.mir)) ++ outputFacts c r.mir

def slotText : PSlot → String
  | .buf b => "buf:" ++ hexOf b
  | .obj o => "obj:" ++ objText o

def wireFacts (entry : Entry) (r : WireReq) : List String :=
  let c := r.case
  match compile entry c.fs c.incdirs c.main with
  | .error e => [s!"verdict reject {e.toString}"]
  | .ok comp =>
    let found := comp.mir.findSome? fun
      | .iface (l :: rest) =>
        if nm c.names l.name == r.iface then
          ((MIface.flatFuncs (l :: rest)).find? (fun of => nm c.names of.2.name == r.method)).map (·.2)
        else none
      | _ => none
    match (found : Option MFunc) with
    | none => ["bad-request no such method"]
    | some f =>
      let valOf (n : Nat) : PVal :=
        match r.vals.find? (fun (v : ValSpec) => v.name == nm c.names n), f.params.find? (fun (p : MParam) => p.name == n) with
        | some v, some p =>
          if v.kind == "o" then .obj (v.objs.headD none)
          else if v.kind == "a" then .objs v.objs
          else
            -- embedded objects in `objects()` order, looked up by their access path
            let paths : List (List Nat × Option Nat) :=
              match p.vkind with
              | .bigStruct s | .smallStruct s => s.objects
              | _ => []
            let objs := paths.map fun (path, _) =>
              let key := ".".intercalate (path.map (nm c.names))
              ((v.pathObjs.find? (fun e => e.1 == key)).map (·.2)).getD none
            .data (parseHex v.hex.toList) objs
        | _, _ => .data [] []
      let es := events f.params
      let cs := counts f.params
      [ "verdict accept",
        s!"op {f.id}",
        s!"counts {cs.bi},{cs.bo},{cs.oi},{cs.oo}",
        s!"sections {",".intercalate ((slotSections f.params).map toString)}",
        "req " ++ " ".intercalate ((encodeDir .inp valOf es).map slotText),
        "rep " ++ " ".intercalate ((encodeDir .out valOf es).map slotText) ]


/-! ### `skel` requests: would the generated skeleton serve this envelope? -/

structure SkelReq where
  case : Case
  iface : String
  mask : Bool
  op : Nat
  k : Nat
  sizes : List Nat
  deriving Inhabited

def pSkel : P SkelReq := do
  let c ← pCase
  let i ← P.next
  let m ← P.nat
  let op ← P.nat
  let k ← P.nat
  let n ← P.nat
  let sizes ← P.repeat n P.nat
  pure ⟨c, i, m == 1, op, k, sizes⟩

def parseSkel (line : String) : Except String SkelReq :=
  let toks := (line.splitOn " ").filter (· != "")
  match pSkel.run { toks := toks } with
  | .ok (c, _) => .ok c
  | .error e => .error e

def skelFacts (r : SkelReq) : List String :=
  let c := r.case
  match compile .cli c.fs c.incdirs c.main with
  | .error e => [s!"verdict reject {e.toString}"]
  | .ok comp =>
    let found : Option MIface := comp.mir.findSome? fun
      | .iface (l :: rest) => if nm c.names l.name == r.iface then some (l :: rest) else none
      | _ => none
    match found with
    | none => ["bad-request no such interface"]
    | some i =>
      let env : Envelope := ⟨r.op, r.k, fun n => r.sizes.getD n 0⟩
      let out := dispatch r.mask i (fun _ => false) env
      let fn := (MIface.flatFuncs i).find? (fun of => of.2.id == methodId r.mask r.op)
      [ "verdict accept",
        "outcome " ++ (match out with | .served => "served" | .refused => "refused" | .invalid => "invalid"),
        "guards " ++ (match fn with
          | some of => " ".intercalate ((guards of.2.params).map fun g => s!"{g.1}:{g.2}")
          | none => "") ]


/-! ### `conc` requests: is this observed history of one object a behaviour of `Conc`? -/

def parseAct (tok : String) : Option Conc.Act :=
  match tok.splitOn ":" with
  | k :: rest =>
    match rest.mapM String.toNat? with
    | none => none
    | some ns =>
      match k, ns with
      | "cl", [t, h, h'] => some (.clone t h h')
      | "sn", [t, h, u] => some (.send t h u)
      | "rc", [t, h] => some (.recv t h)
      | "ln", [t, h, u] => some (.lend t h u)
      | "ul", [t, h, u] => some (.unlend t h u)
      | "ca", [t, h, d] => some (.call t h d)
      | "en", [t, h, v] => some (.enter t h v)
      | "ex", [t, h, v] => some (.exit t h v)
      | "rt", [t, h, v] => some (.ret t h v)
      | "dr", [t, h] => some (.drop t h)
      | "id", [t] => some (.implDrop t)
      | "dd", [t] => some (.dropped t)
      | _, _ => none
  | [] => none

def concSummary (s : Conc.St) : String :=
  s!"refs={s.refs} handles={s.handles.length} bodies={s.inBody.length} lock={s.lock} total={s.total} " ++
  s!"completed={s.log.length} droppers={s.droppers.length} freeing={s.freeing.isSome} drops={s.drops} quiescent={Conc.quiescent s}"

/-- `conc <t0> <h0> <act>*` -/
def concFacts (toks : List String) : List String :=
  match toks with
  | t0 :: h0 :: rest =>
    match t0.toNat?, h0.toNat?, (rest.filter (· ≠ "")).mapM parseAct with
    | some t, some h, some acts =>
      match Conc.replay (Conc.init t h) acts 0 with
      | .ok s => [s!"ok events={acts.length} {concSummary s}"]
      | .error i => [s!"stuck {i} {(rest.filter (· ≠ "")).getD i "?"}"]
    | _, _, _ => ["bad-request conc tokens"]
  | _ => ["bad-request conc"]


/-! ### `doc` requests: the comment a documentation text is rendered to -/

def hexOfChars (l : List Char) : String :=
  String.ofList (l.flatMap fun c =>
    let n := c.toNat
    let d (k : Nat) : Char := if k < 10 then Char.ofNat (48 + k) else Char.ofNat (87 + k)
    [d (n / 16), d (n % 16)])

/-- `doc <rust|c|java> <hex bytes of the documentation window>` -/
def docFacts (toks : List String) : List String :=
  match toks with
  | [st, hx] =>
    let style := if st == "rust" then DocStyle.rust else if st == "java" then DocStyle.java else DocStyle.c
    let bytes := (parseHex hx.toList).map (fun (n : Nat) => Char.ofNat n)
    match renderDoc style trimEndAscii bytes with
    | some out => [s!"ok {hexOfChars out}"]
    | none => ["panic"]
  | _ => ["bad-request doc"]

end Mink
