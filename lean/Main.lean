import MinkModel
open Mink

/-- one request per line; the response is a block of lines terminated by a single `.` -/
def respond (line : String) : List String :=
  let line := line.trimAscii.toString
  match line.splitOn " " with
  | "facts" :: e :: rest =>
    -- `cli`, `cli-ub` (with --allow-undefined-behavior), `lib`
    let entry := if e == "lib" then Entry.lib else Entry.cli
    match parseCase (" ".intercalate rest) with
    | .error m => [s!"bad-request {m}"]
    | .ok c => facts entry c (e == "cli-ub")
  | "wire" :: e :: rest =>
    let entry := if e == "lib" then Entry.lib else Entry.cli
    match parseWire (" ".intercalate rest) with
    | .error m => [s!"bad-request {m}"]
    | .ok r => wireFacts entry r
  | "skel" :: rest =>
    match parseSkel (" ".intercalate rest) with
    | .error m => [s!"bad-request {m}"]
    | .ok r => skelFacts r
  | "conc" :: rest => concFacts rest
  | "doc" :: rest => docFacts rest
  | _ => ["bad-request unknown"]

partial def loop (h : IO.FS.Stream) (out : IO.FS.Stream) : IO Unit := do
  let line ← h.getLine
  if line.isEmpty then return ()
  for l in respond line do
    out.putStrLn l
  out.putStrLn "."
  out.flush
  loop h out

def main : IO Unit := do loop (← IO.getStdin) (← IO.getStdout)
