/-
  C03 (position of the output bundle) — `Param::new` inserts the bundled output buffer in front
  of the first discrete parameter that does not sort before an output buffer. Consequence,
  for every parameter list: in the argument walk the output bundle stands after every
  parameter of rank 0 (the input buffers) and before every parameter of rank >= 1 (output
  buffers, then objects), i.e. it is the FIRST output buffer, as the input bundle is the first
  input buffer (`in_bundle_first`).
-/
import MinkProofs.C03
import MinkProofs.SortLemmas
namespace Mink.C03

theorem pairwise_filter_of_pairwise {α : Type} {R : α → α → Prop} (p : α → Bool) {l : List α}
    (h : l.Pairwise R) : (l.filter p).Pairwise R := h.sublist List.filter_sublist

/-- in a list sorted by rank, everything behind the longest prefix of rank 0 has rank >= 1 -/
theorem dropWhile_rank {l : List MParam} (hs : l.Pairwise (fun a b => a.rank ≤ b.rank)) :
    ∀ p ∈ l.dropWhile (fun p => decide (p.rank < 1)), 1 ≤ p.rank := by
  induction l with
  | nil => intro p hp; cases hp
  | cons a l ih =>
    intro p hp
    rw [List.pairwise_cons] at hs
    by_cases ha : a.rank < 1
    · have : (a :: l).dropWhile (fun p => decide (p.rank < 1)) = l.dropWhile (fun p => decide (p.rank < 1)) := by
        simp [List.dropWhile, ha]
      rw [this] at hp
      exact ih hs.2 p hp
    · have : (a :: l).dropWhile (fun p => decide (p.rank < 1)) = a :: l := by
        simp [List.dropWhile, ha]
      rw [this] at hp
      rcases List.mem_cons.1 hp with rfl | hp
      · omega
      · have := hs.1 p hp; omega

theorem mem_takeWhile_sat {α : Type} (q : α → Bool) : ∀ (l : List α) (x : α), x ∈ l.takeWhile q → q x = true
  | [], x, h => by cases h
  | a :: l, x, h => by
    by_cases ha : q a = true
    · rw [List.takeWhile_cons_of_pos ha] at h
      rcases List.mem_cons.1 h with rfl | h
      · exact ha
      · exact mem_takeWhile_sat q l x h
    · rw [List.takeWhile_cons_of_neg ha] at h; cases h

theorem out_bundle_position (ps : List MParam) (h : 2 ≤ (bundle .out ps).length) :
    ∃ pre post, events ps = pre ++ [Ev.outBundle (bundle .out ps)] ++ post ∧
      (∀ e ∈ pre, (∃ ms, e = Ev.inBundle ms) ∨ ∃ p, e = Ev.single p ∧ p.rank < 1) ∧
      (∀ e ∈ post, ∃ p, e = Ev.single p ∧ 1 ≤ p.rank) := by
  have hout : decide ((bundle .out ps).length > 1) = true := by simp; omega
  have hsorted : (sortParams ps).Pairwise (fun a b => a.rank ≤ b.rank) := sorted_bucketsFrom MParam.rank ps 6 0
  let inB := decide ((bundle .inp ps).length > 1)
  let rest := (sortParams ps).filter (keep inB true)
  refine ⟨(if inB then [Ev.inBundle (bundle .inp ps)] else []) ++ (rest.takeWhile (fun p => decide (p.rank < 1))).map Ev.single,
          (rest.dropWhile (fun p => decide (p.rank < 1))).map Ev.single, ?_, ?_, ?_⟩
  · simp only [events, hout, if_true]
    rfl
  · intro e he
    simp only [List.mem_append, List.mem_map] at he
    rcases he with he | ⟨p, hp, rfl⟩
    · left
      split at he
      · simp at he; exact ⟨_, he⟩
      · cases he
    · right
      refine ⟨p, rfl, ?_⟩
      have := mem_takeWhile_sat _ _ p hp
      simpa using this
  · intro e he
    simp only [List.mem_map] at he
    obtain ⟨p, hp, rfl⟩ := he
    exact ⟨p, rfl, dropWhile_rank (pairwise_filter_of_pairwise _ hsorted) p hp⟩

end Mink.C03
