/-
  C18 — Java proxies and skeletons agree with each other and with the wire model (partial).
  The Java proxy partitions its arguments into four arrays (bi, boSizes/bo, oi, oo) instead of
  one argument array; the model of what it must put there is the reference payload of
  MinkModel.Wire. Proved: the lengths of the four arrays are the counts of the C-family
  backends, and the Java skeleton's decoding along the same walk inverts the proxy's encoding
  (C01.decode_encode). That the generated Java code implements this payload is tied by
  executing it (javac + java against the stand-in runtime).
-/
import MinkProofs.C01
import MinkProofs.Counts
namespace Mink.C18
open Mink

def isBuf : PSlot → Bool | .buf _ => true | .obj _ => false
def isObj : PSlot → Bool | .buf _ => false | .obj _ => true

theorem countP_map_obj (l : List (Option Nat)) :
    (l.map PSlot.obj).countP isBuf = 0 ∧ (l.map PSlot.obj).countP isObj = l.length := by
  induction l with
  | nil => exact ⟨rfl, rfl⟩
  | cons o l ih => simp [List.countP_cons, isBuf, isObj, ih.1, ih.2]

/-- the payload of one discrete parameter has one buffer slot per buffer-section slot and one
    object slot per object-section slot of the walk -/
theorem encodeParam_classes (p : MParam) (v : PVal) (h : C01.ShapeOk p v) :
    (encodeParam p v).countP isBuf = p.slots.count p.dir.bufSec ∧
    (encodeParam p v).countP isObj = p.slots.count p.dir.objSec := by
  unfold C01.ShapeOk at h
  unfold encodeParam MParam.slots
  have hne : ∀ d : Dir, d.bufSec ≠ d.objSec := by intro d; cases d <;> decide
  cases hk : p.vkind with
  | obj t =>
    simp only [hk] at h ⊢; obtain ⟨o, rfl⟩ := h
    simp [isBuf, isObj, List.count_cons, (hne p.dir).symm]
  | objArr t n =>
    simp only [hk] at h ⊢; obtain ⟨l, rfl, hl⟩ := h
    have := countP_map_obj l
    simp [this.1, this.2, hl, List.count_replicate, (hne p.dir).symm]
  | unreachable => simp only [hk] at h
  | primBuf q =>
    simp only [hk] at h ⊢; obtain ⟨img, objs, rfl, ho⟩ := h
    have := countP_map_obj objs
    simp [MParam.nEmb, hk] at ho
    simp [List.countP_cons, isBuf, isObj, this.1, this.2, ho, List.count_cons, hne p.dir]
  | untypedBuf =>
    simp only [hk] at h ⊢; obtain ⟨img, objs, rfl, ho⟩ := h
    have := countP_map_obj objs
    simp [MParam.nEmb, hk] at ho
    simp [List.countP_cons, isBuf, isObj, this.1, this.2, ho, List.count_cons, hne p.dir]
  | structBuf s =>
    simp only [hk] at h ⊢; obtain ⟨img, objs, rfl, ho⟩ := h
    have := countP_map_obj objs
    simp [MParam.nEmb, hk] at ho
    simp [List.countP_cons, isBuf, isObj, this.1, this.2, ho, List.count_cons, hne p.dir]
  | prim q =>
    simp only [hk] at h ⊢; obtain ⟨img, objs, rfl, ho⟩ := h
    have := countP_map_obj objs
    simp [MParam.nEmb, hk] at ho
    simp [List.countP_cons, isBuf, isObj, this.1, this.2, ho, List.count_cons, hne p.dir]
  | bigStruct s =>
    simp only [hk] at h ⊢; obtain ⟨img, objs, rfl, ho⟩ := h
    have := countP_map_obj objs
    simp [MParam.nEmb, hk] at ho
    simp [List.countP_cons, isBuf, isObj, this.1, this.2, ho, List.count_cons, List.count_replicate, hne p.dir, (hne p.dir).symm]
  | smallStruct s =>
    simp only [hk] at h ⊢; obtain ⟨img, objs, rfl, ho⟩ := h
    have := countP_map_obj objs
    simp [MParam.nEmb, hk] at ho
    simp [List.countP_cons, isBuf, isObj, this.1, this.2, ho, List.count_cons, List.count_replicate, hne p.dir, (hne p.dir).symm]

/-- slots of the other direction do not show up in the sections of this direction -/
theorem slots_other_dir (p : MParam) (d : Dir) (h : p.dir ≠ d) :
    p.slots.count d.bufSec = 0 ∧ p.slots.count d.objSec = 0 := by
  rcases p with ⟨pd, t, a, n⟩
  cases d <;> cases pd <;> simp at h <;> cases a <;> cases t <;>
    simp [MParam.slots, MParam.vkind, Dir.bufSec, Dir.objSec, List.count_cons, List.count_replicate] <;>
    (try (rename_i sm _; cases sm <;> simp [MParam.slots, MParam.vkind, Dir.bufSec, Dir.objSec, List.count_cons, List.count_replicate]))

/-- **partition lengths along any event list**: the payload of direction `d` has exactly as many
    buffer (object) slots as the walk has slots in the buffer (object) section of `d` -/
theorem encodeDir_classes (d : Dir) (v : Nat → PVal) (es : List Ev) (h : ∀ e ∈ es, C01.EvOk d v e) :
    (encodeDir d v es).countP isBuf = (es.flatMap Ev.slots).count d.bufSec ∧
    (encodeDir d v es).countP isObj = (es.flatMap Ev.slots).count d.objSec := by
  induction es with
  | nil => exact ⟨rfl, rfl⟩
  | cons e es ih =>
    obtain ⟨i1, i2⟩ := ih (fun x hx => h x (by simp [hx]))
    have he := h e (by simp)
    cases e with
    | inBundle ms =>
      cases d <;> simp [encodeDir, Ev.slots, encodeBundle, List.countP_cons, isBuf, isObj, Dir.bufSec, Dir.objSec,
        List.count_cons, List.countP_append, List.count_append, i1, i2] <;> omega
    | outBundle ms =>
      cases d <;> simp [encodeDir, Ev.slots, encodeBundle, List.countP_cons, isBuf, isObj, Dir.bufSec, Dir.objSec,
        List.count_cons, List.countP_append, List.count_append, i1, i2] <;> omega
    | single p =>
      simp only [encodeDir, List.flatMap_cons, Ev.slots, List.countP_append, List.count_append]
      by_cases hd : p.dir = d
      · subst hd
        obtain ⟨c1, c2⟩ := encodeParam_classes p (v p.name) (he rfl)
        simp only [beq_self_eq_true, if_true]
        rw [c1, c2, i1, i2]
        exact ⟨rfl, rfl⟩
      · have hb : (p.dir == d) = false := by simp [hd]
        obtain ⟨z1, z2⟩ := slots_other_dir p d hd
        simp only [hb, Bool.false_eq_true, if_false, List.countP_nil]
        rw [z1, z2, i1, i2]
        exact ⟨by omega, by omega⟩

/-- **C18 (partition)**: the proxy's `bi` and `oi` arrays (request) and the skeleton's `bo` and
    `oo` arrays (reply) have exactly the lengths the counts of the C-family prescribe — for
    every method without an object-bearing small struct passed by value -/
theorem java_partition_lengths (ps : List MParam) (v : Nat → PVal) (hns : NoSmallObj ps)
    (hi : ∀ e ∈ events ps, C01.EvOk .inp v e) (ho : ∀ e ∈ events ps, C01.EvOk .out v e) :
    (encodeDir .inp v (events ps)).countP isBuf = (counts ps).bi ∧
    (encodeDir .inp v (events ps)).countP isObj = (counts ps).oi ∧
    (encodeDir .out v (events ps)).countP isBuf = (counts ps).bo ∧
    (encodeDir .out v (events ps)).countP isObj = (counts ps).oo := by
  obtain ⟨a, b, c, d⟩ := counts_eq_sections ps hns
  obtain ⟨i1, i2⟩ := encodeDir_classes .inp v (events ps) hi
  obtain ⟨o1, o2⟩ := encodeDir_classes .out v (events ps) ho
  simp only [slotSections] at a b c d
  simp only [Dir.bufSec, Dir.objSec] at i1 i2 o1 o2
  exact ⟨by rw [i1, a], by rw [i2, c], by rw [o1, b], by rw [o2, d]⟩

end Mink.C18
