/-
  C02 — Invocation envelope is canonical: op, counts and BI/BO/OI/OO section order.
  The unrestricted statement is FALSE of model and code alike; this file carries the full
  statement, its refutation from concrete witnesses (replayed on the real compiler by the
  check), the partial theorem with explicit decidable exclusions, and non-vacuity examples.
-/
import MinkProofs.SortLemmas
import MinkModel.Passes
namespace Mink.C02
open Mink

/-- objects embedded in a struct value parameter -/
def embObjs (p : MParam) : Nat :=
  match p.vkind with
  | .bigStruct s | .smallStruct s => s.objects.length
  | _ => 0

def NoEmb (ps : List MParam) : Prop := ∀ p ∈ ps, embObjs p = 0

/-- `in` object array together with a single `out` object (ranks 4 and 3) -/
def NoArrVsOut (ps : List MParam) : Prop := ∀ a ∈ ps, ∀ b ∈ ps, ¬ (a.rank = 3 ∧ b.rank = 4)

instance (ps : List MParam) : Decidable (NoEmb ps) := by unfold NoEmb; infer_instance
instance (ps : List MParam) : Decidable (NoArrVsOut ps) := by unfold NoArrVsOut; infer_instance

/-- the section each rank ought to land in -/
def secOfRank : Nat → Nat | 0 => 0 | 1 => 1 | 2 => 2 | 3 => 3 | 4 => 2 | _ => 3

/-- **full statement (section order)**: every stub's argument array is BI* BO* OI* OO* -/
def SectionsStatement : Prop := ∀ ps : List MParam, (slotSections ps).Pairwise (· ≤ ·)

/-- **full statement (counts)**: the counts word states how many slots of each class exist -/
def CountsStatement : Prop := ∀ ps : List MParam,
  (counts ps).bi = (slotSections ps).count 0 ∧ (counts ps).bo = (slotSections ps).count 1 ∧
  (counts ps).oi = (slotSections ps).count 2 ∧ (counts ps).oo = (slotSections ps).count 3

/-- **(bound)**: a method that passes the interface verifier has every count ≤ 15 (the check
    `argument_counts` added by the fix; before it nothing bounded the counts) -/
def BoundStatement : Prop := ∀ f : MFunc, checkFunc f = .ok () → (counts f.params).fits15 = true

/-! ### witnesses (names are arbitrary ids) -/

/-- `method f(in I[2] a, out I b)` -/
def wOoBeforeOi : List MParam := [⟨.inp, .iface none, .bounded 2, 0⟩, ⟨.out, .iface none, .none, 1⟩]

/-- `struct OB { uint64 a; uint64 b; interface o; }` (big, one object) -/
def sOB : MStruct := .mk 10 [.mk 11 (.prim .u64) 1, .mk 12 (.prim .u64) 1, .mk 13 (.iface none) 1]
/-- `method g(in OB ob, out uint32 r)`: the object slot follows the struct buffer, before BO -/
def wEmbedded : List MParam := [⟨.inp, .struct false sOB, .none, 0⟩, ⟨.out, .prim .u32, .none, 1⟩]

/-- `struct SO { interface o; }` (16 bytes: small) alone: two slots, counted as one -/
def sSO : MStruct := .mk 20 [.mk 21 (.iface none) 1]
def wSmallObj : List MParam := [⟨.inp, .struct true sSO, .none, 0⟩]

/-- 17 `in buffer` parameters -/
def w17 : List MParam := (List.range 17).map fun k => ⟨.inp, .buffer, .none, k⟩

theorem sections_refuted : ¬ SectionsStatement := by
  intro h; exact absurd (h wOoBeforeOi) (by decide)

theorem sections_refuted_embedded : ¬ (slotSections wEmbedded).Pairwise (· ≤ ·) := by decide

example : slotSections wOoBeforeOi = [3, 2, 2] := by decide
example : slotSections wEmbedded = [0, 2, 1] := by decide

theorem counts_refuted : ¬ CountsStatement := by
  intro h; exact absurd (h wSmallObj).2.2.1 (by decide)

example : slotSections wSmallObj = [0, 2] ∧ counts wSmallObj = ⟨1, 0, 0, 0⟩ := by decide

theorem bound_holds : BoundStatement := by
  intro f h
  unfold checkFunc at h
  split at h
  · simp at h
  · split at h
    · simp at h
    · split at h
      · simp at h
      · rename_i hf; simpa using hf

/-- why the bound matters: the counts word of a 17-buffer method would overflow into the BO
    nibble and read as (1,1,0,0); such a method is now refused -/
example : (counts w17).pack = 17 ∧ 17 % 16 = 1 ∧ (17 / 16) % 16 = 1 := by decide
example : (match checkFunc ⟨0, w17, 0, false, false⟩ with | .ok _ => true | .error _ => false) = false := by decide

/-! ### partial theorem: section order -/

theorem rank_le_five (p : MParam) : p.rank ≤ 5 := by
  rcases p with ⟨d, t, a, n⟩
  cases d <;> cases t <;> cases a <;> simp [MParam.rank, MParam.shape, Shape.rank, MTy.isIface, Arr.isArray]

theorem slots_sec (p : MParam) (h : embObjs p = 0) : ∀ s ∈ p.slots, s = secOfRank p.rank := by
  rcases p with ⟨d, t, a, n⟩
  cases t with
  | buffer => cases d <;> cases a <;>
      simp_all [MParam.slots, MParam.vkind, MParam.rank, MParam.shape, Shape.rank, MTy.isIface,
        Arr.isArray, Dir.bufSec, secOfRank]
  | prim q => cases d <;> cases a <;>
      simp_all [MParam.slots, MParam.vkind, MParam.rank, MParam.shape, Shape.rank, MTy.isIface,
        Arr.isArray, Dir.bufSec, Dir.objSec, secOfRank]
  | iface i => cases d <;> cases a <;>
      simp_all [MParam.slots, MParam.vkind, MParam.rank, MParam.shape, Shape.rank, MTy.isIface,
        Arr.isArray, Dir.bufSec, Dir.objSec, secOfRank, List.mem_replicate]
  | struct small s => cases d <;> cases a <;> cases small <;>
      simp_all [embObjs, MParam.slots, MParam.vkind, MParam.rank, MParam.shape, Shape.rank, MTy.isIface,
        Arr.isArray, Dir.bufSec, Dir.objSec, secOfRank, List.mem_replicate]

theorem secOfRank_mono {a b : Nat} (hab : a ≤ b) (ha5 : a ≤ 5) (hb5 : b ≤ 5) (hx : ¬ (a = 3 ∧ b = 4)) :
    secOfRank a ≤ secOfRank b := by
  have : a = 0 ∨ a = 1 ∨ a = 2 ∨ a = 3 ∨ a = 4 ∨ a = 5 := by omega
  have : b = 0 ∨ b = 1 ∨ b = 2 ∨ b = 3 ∨ b = 4 ∨ b = 5 := by omega
  rcases ‹a = 0 ∨ _› with rfl | rfl | rfl | rfl | rfl | rfl <;>
  rcases ‹b = 0 ∨ _› with rfl | rfl | rfl | rfl | rfl | rfl <;>
  first | (simp [secOfRank]; done) | omega | (exact absurd ⟨rfl, rfl⟩ hx)

/-- Lemma A: a rank-sorted list without embedded objects and without the 3/4 clash has
    sorted sections -/
theorem slots_sorted_of_sorted (l : List MParam)
    (hs : l.Pairwise (fun a b => a.rank ≤ b.rank))
    (he : ∀ p ∈ l, embObjs p = 0)
    (hx : ∀ a ∈ l, ∀ b ∈ l, ¬ (a.rank = 3 ∧ b.rank = 4)) :
    (l.flatMap MParam.slots).Pairwise (· ≤ ·) := by
  induction l with
  | nil => simp
  | cons p t ih =>
    rw [List.flatMap_cons, List.pairwise_append]
    rw [List.pairwise_cons] at hs
    refine ⟨?_, ?_, ?_⟩
    · have hp := slots_sec p (he p (by simp))
      rw [List.pairwise_iff_forall_sublist]
      intro a b hab
      have ha := hp a (hab.subset (by simp))
      have hb := hp b (hab.subset (by simp))
      omega
    · exact ih hs.2 (fun q hq => he q (by simp [hq])) (fun a ha b hb => hx a (by simp [ha]) b (by simp [hb]))
    · intro a ha b hb
      rw [List.mem_flatMap] at hb
      obtain ⟨q, hq, hbq⟩ := hb
      have h1 := slots_sec p (he p (by simp)) a ha
      have h2 := slots_sec q (he q (by simp [hq])) b hbq
      rw [h1, h2]
      exact secOfRank_mono (hs.1 q hq) (rank_le_five p) (rank_le_five q) (hx p (by simp) q (by simp [hq]))

theorem assemble (A B x y : List Nat) (hA : A.Pairwise (· ≤ ·)) (hB : B.Pairwise (· ≤ ·))
    (hAB : ∀ a ∈ A, ∀ b ∈ B, a ≤ b) (hA0 : ∀ a ∈ A, a = 0) (hB1 : ∀ b ∈ B, 1 ≤ b)
    (hx : x = [] ∨ x = [0]) (hy : y = [] ∨ y = [1]) :
    (x ++ A ++ y ++ B).Pairwise (· ≤ ·) := by
  have hmid : (A ++ y ++ B).Pairwise (· ≤ ·) := by
    rcases hy with rfl | rfl
    · simpa using List.pairwise_append.2 ⟨hA, hB, hAB⟩
    · have h1B : (1 :: B).Pairwise (· ≤ ·) := List.pairwise_cons.2 ⟨hB1, hB⟩
      have : (A ++ (1 :: B)).Pairwise (· ≤ ·) := by
        refine List.pairwise_append.2 ⟨hA, h1B, ?_⟩
        intro a ha b hb
        rcases List.mem_cons.1 hb with rfl | hb
        · have := hA0 a ha; omega
        · exact hAB a ha b hb
      simpa using this
  rcases hx with rfl | rfl
  · simpa using hmid
  · have : (0 :: (A ++ y ++ B)).Pairwise (· ≤ ·) := List.pairwise_cons.2 ⟨fun b _ => Nat.zero_le b, hmid⟩
    simpa using this

/-- **C02 partial (section order)**: for every parameter list — any length, any mix, any
    order — without objects embedded in struct values and without the `in` object array /
    single `out` object mix, the argument array emitted along the shared walk is
    `BI* BO* OI* OO*`. Both exclusions are refuted above and are known findings. -/
theorem sections_sorted_partial (ps : List MParam) (he : NoEmb ps) (hx : NoArrVsOut ps) :
    (slotSections ps).Pairwise (· ≤ ·) := by
  simp only [slotSections, events]
  generalize hin : decide ((bundle .inp ps).length > 1) = inB
  generalize hout : decide ((bundle .out ps).length > 1) = outB
  generalize hrest : (sortParams ps).filter (keep inB outB) = rest
  have hmem : ∀ p ∈ rest, p ∈ ps := by
    intro p hp; rw [← hrest] at hp
    exact (mem_bucketsFrom (List.mem_filter.1 hp).1).1
  have hsorted : rest.Pairwise (fun a b => a.rank ≤ b.rank) := by
    rw [← hrest]; exact (sorted_bucketsFrom MParam.rank ps 6 0).filter _
  have hsplit : rest.takeWhile (fun p => p.rank < 1) ++ rest.dropWhile (fun p => p.rank < 1) = rest :=
    List.takeWhile_append_dropWhile
  generalize hpre : rest.takeWhile (fun p => decide (p.rank < 1)) = pre at *
  generalize hpost : rest.dropWhile (fun p => decide (p.rank < 1)) = post at *
  have hA := slots_sorted_of_sorted rest hsorted (fun p hp => he p (hmem p hp))
    (fun a ha b hb => hx a (hmem a ha) b (hmem b hb))
  rw [← hsplit, List.flatMap_append, List.pairwise_append] at hA
  obtain ⟨hApre, hApost, hAcross⟩ := hA
  have hpre0 : ∀ p ∈ pre, p.rank = 0 := by
    intro p hp; rw [← hpre] at hp
    have hall : (rest.takeWhile (fun p => decide (p.rank < 1))).all (fun p => decide (p.rank < 1)) = true := List.all_takeWhile
    have := List.all_eq_true.1 hall p hp
    simp at this; omega
  have hpreSec : ∀ s ∈ pre.flatMap MParam.slots, s = 0 := by
    intro s hs; rw [List.mem_flatMap] at hs
    obtain ⟨p, hp, hsp⟩ := hs
    have hpm : p ∈ rest := by rw [← hsplit]; simp [hp]
    have := slots_sec p (he p (hmem p hpm)) s hsp
    rw [this, hpre0 p hp]; rfl
  have hpost1 : ∀ p ∈ post, 1 ≤ p.rank := by
    intro p hp
    cases hpo : post with
    | nil => rw [hpo] at hp; simp at hp
    | cons q qs =>
      have hq : ¬ (q.rank < 1) := by
        have hne : rest.dropWhile (fun p : MParam => decide (p.rank < 1)) ≠ [] := by rw [hpost, hpo]; simp
        have h2 := List.head_dropWhile_not (fun p : MParam => decide (p.rank < 1)) (l := rest) hne
        simp only [hpost, hpo, List.head_cons] at h2
        simp at h2; omega
      rw [hpo] at hp
      rcases List.mem_cons.1 hp with rfl | hmem'
      · omega
      · have hsp : (q :: qs).Pairwise (fun a b => a.rank ≤ b.rank) := by
          have : (pre ++ post).Pairwise (fun a b => a.rank ≤ b.rank) := by rw [hsplit]; exact hsorted
          rw [hpo] at this
          exact (List.pairwise_append.1 this).2.1
        have := (List.pairwise_cons.1 hsp).1 p hmem'
        omega
  have hpostSec : ∀ s ∈ post.flatMap MParam.slots, 1 ≤ s := by
    intro s hs; rw [List.mem_flatMap] at hs
    obtain ⟨p, hp, hsp⟩ := hs
    have hpm : p ∈ rest := by rw [← hsplit]; simp [hp]
    have := slots_sec p (he p (hmem p hpm)) s hsp
    rw [this]
    have h1 := hpost1 p hp
    have := secOfRank_mono h1 (by omega) (rank_le_five p) (by omega)
    simpa [secOfRank] using this
  simp only [List.flatMap_append, List.flatMap_map]
  have e1 : (List.flatMap (fun p => (Ev.single p).slots) pre) = pre.flatMap MParam.slots := rfl
  have e2 : (List.flatMap (fun p => (Ev.single p).slots) post) = post.flatMap MParam.slots := rfl
  rw [e1, e2]
  have hx' : (List.flatMap Ev.slots (if inB = true then [Ev.inBundle (bundle .inp ps)] else [])) = [] ∨
      (List.flatMap Ev.slots (if inB = true then [Ev.inBundle (bundle .inp ps)] else [])) = [0] := by
    cases inB <;> simp [Ev.slots]
  have hy' : (List.flatMap Ev.slots (if outB = true then [Ev.outBundle (bundle .out ps)] else [])) = [] ∨
      (List.flatMap Ev.slots (if outB = true then [Ev.outBundle (bundle .out ps)] else [])) = [1] := by
    cases outB <;> simp [Ev.slots]
  exact assemble _ _ _ _ hApre hApost hAcross hpreSec hpostSec hx' hy'

/-- non-vacuity: a mixed signature inside the hypotheses, with all four sections -/
example :
    let ps : List MParam := [⟨.inp, .prim .u32, .none, 0⟩, ⟨.out, .iface none, .none, 1⟩,
      ⟨.inp, .prim .u8, .none, 2⟩, ⟨.inp, .iface none, .none, 3⟩, ⟨.out, .buffer, .none, 4⟩]
    NoEmb ps ∧ NoArrVsOut ps ∧ slotSections ps = [0, 1, 2, 3] := by decide

/-! ### the counts word -/

theorem pack_eq (x y z w : Nat) (hx : x < 16) (hy : y < 16) (hz : z < 16) (_hw : w < 16) :
    x ||| (y <<< 4) ||| (z <<< 8) ||| (w <<< 12) = x + 16 * y + 256 * z + 4096 * w := by
  have h1 : y <<< 4 + x = y <<< 4 ||| x := Nat.shiftLeft_add_eq_or_of_lt (by omega : x < 2^4) y
  have e1 : x ||| y <<< 4 = x + 16 * y := by
    rw [Nat.or_comm, ← h1, Nat.shiftLeft_eq]; omega
  have h2 : z <<< 8 + (x + 16 * y) = z <<< 8 ||| (x + 16 * y) :=
    Nat.shiftLeft_add_eq_or_of_lt (by omega : x + 16 * y < 2^8) z
  have e2 : (x + 16 * y) ||| z <<< 8 = x + 16 * y + 256 * z := by
    rw [Nat.or_comm, ← h2, Nat.shiftLeft_eq]; omega
  have h3 : w <<< 12 + (x + 16 * y + 256 * z) = w <<< 12 ||| (x + 16 * y + 256 * z) :=
    Nat.shiftLeft_add_eq_or_of_lt (by omega : x + 16 * y + 256 * z < 2^12) w
  rw [e1, e2, Nat.or_comm, ← h3, Nat.shiftLeft_eq]; omega

/-- `ObjectCounts_pack` is injective on counts that fit their nibbles: a counts word with
    every class ≤ 15 determines the four counts -/
theorem pack_injective (a b : Counts) (ha : a.fits15 = true) (hb : b.fits15 = true)
    (h : a.pack = b.pack) : a = b := by
  rcases a with ⟨a1, a2, a3, a4⟩; rcases b with ⟨b1, b2, b3, b4⟩
  simp only [Counts.fits15, Bool.and_eq_true, decide_eq_true_eq] at ha hb
  simp only [Counts.pack] at h
  rw [pack_eq _ _ _ _ (by omega) (by omega) (by omega) (by omega),
      pack_eq _ _ _ _ (by omega) (by omega) (by omega) (by omega)] at h
  have : a1 = b1 ∧ a2 = b2 ∧ a3 = b3 ∧ a4 = b4 := by omega
  obtain ⟨rfl, rfl, rfl, rfl⟩ := this; rfl

/-- the unpack macros of object.h recover the counts when they fit -/
theorem unpack_pack (c : Counts) (h : c.fits15 = true) :
    c.pack % 16 = c.bi ∧ (c.pack / 16) % 16 = c.bo ∧ (c.pack / 256) % 16 = c.oi ∧ (c.pack / 4096) % 16 = c.oo := by
  rcases c with ⟨a1, a2, a3, a4⟩
  simp only [Counts.fits15, Bool.and_eq_true, decide_eq_true_eq] at h
  simp only [Counts.pack]
  rw [pack_eq _ _ _ _ (by omega) (by omega) (by omega) (by omega)]
  omega

end Mink.C02
