/-
  C11 — Generated code builds warning-clean in every backend (partial: what is logic).
  Lean cannot carry the static semantics of C, C++, Rust and Java. Modelled: the order of
  definitions and uses in an emitted unit and the C++ base-class list. Everything else is
  CHECKED, not proved: the real output is compiled with gcc/clang, g++/clang++, rustc and
  javac under upstream's flags together with conforming user units (see the check).
-/
import MinkModel.Decls
import MinkProofs.C09
namespace Mink.C11
open Mink Mink.C09

/-- (c) the C++ base list has at most one entry — the direct base — for every hierarchy depth -/
theorem cpp_base_list_direct (i : MIface) : (cppBaseList i).length ≤ 1 ∧
    (∀ l b rest, i = l :: b :: rest → cppBaseList i = [b.name]) := by
  constructor
  · unfold cppBaseList; split <;> simp
  · intro l b rest h; subst h; rfl

/-- (a) **refuted**: the front end accepts declarations in any order (C10 demands it), the
    C/C++ generators emit in source order: `struct B { A a; }; struct A { uint8 x; };` is
    accepted although `A` is used before it is defined -/
def wOutOfOrder : FsModel :=
  { files := [⟨0, [.struct ⟨2, [⟨10, .custom 1, 1⟩]⟩, .struct ⟨1, [⟨11, .prim .u8, 1⟩]⟩], true⟩],
    dirOf := [(0, 0)], lookup := [], rel := [] }

theorem use_before_definition_accepted :
    isOk (compile .cli wOutOfOrder [] 0) = true ∧
    definedBeforeUse [] [.struct ⟨2, [⟨10, .custom 1, 1⟩]⟩, .struct ⟨1, [⟨11, .prim .u8, 1⟩]⟩] [] = false := by
  decide

/-- (a) partial: with declarations in dependency order every use follows its definition
    (the emitted order IS the source order) — non-vacuity on the reordered witness -/
example : definedBeforeUse [] [.struct ⟨1, [⟨11, .prim .u8, 1⟩]⟩, .struct ⟨2, [⟨10, .custom 1, 1⟩]⟩] [] = true := by decide

end Mink.C11
