/-
  C09 — Validation is sound: nothing that violates a language restriction is accepted.
  One soundness lemma per pass ("pass ok ⇒ its clause of the declarative spec"), composed
  along the driver; refutations (with concrete witnesses, replayed on the real compiler by
  the check) for the places where the pipeline never looks.
-/
import MinkModel.Pipeline
import MinkProofs.GraphLemmas
namespace Mink.C09
open Mink

/-! ### duplicate parameters (functions.rs) -/

theorem hasDup_false_nodup : ∀ (l : List Nat), hasDup l = false → l.Nodup
  | [], _ => List.nodup_nil
  | x :: xs, h => by
    simp only [hasDup, Bool.or_eq_false_iff] at h
    refine List.nodup_cons.2 ⟨?_, hasDup_false_nodup xs h.2⟩
    intro hm
    have : xs.contains x = true := List.contains_iff_mem.2 hm
    rw [this] at h; exact absurd h.1 (by simp)

/-- **(params)** the pass accepts only if every method of every main-file interface has
    pairwise distinct parameter names -/
theorem functionsPass_sound (ns : List Node) (h : functionsPass ns = .ok ()) :
    ∀ i, Node.iface i ∈ ns → ∀ m, Member.func m ∈ i.members → (m.params.map (·.name)).Nodup := by
  intro i hi m hm
  unfold functionsPass at h
  split at h
  · simp at h
  · rename_i hany
    have h1 : i.dupParams = false := by
      cases hd : i.dupParams with
      | false => rfl
      | true => exact absurd (List.any_eq_true.2 ⟨_, hi, by simpa using hd⟩) hany
    have h2 : hasDup (m.params.map (·.name)) = false := by
      cases hd : hasDup (m.params.map (·.name)) with
      | false => rfl
      | true =>
        have : i.dupParams = true := by
          simp only [Iface.dupParams]
          exact List.any_eq_true.2 ⟨_, hm, by simpa using hd⟩
        rw [h1] at this; cases this
    exact hasDup_false_nodup _ h2

/-! ### symbols (idl_store.rs:155-193) -/

def typeNames (sy : Symbols) : List Nat :=
  sy.structs.map (·.1.name) ++ sy.ifaces.map (·.1.name)

def constNames (sy : Symbols) : List Nat := sy.consts.map (·.1)

def Unique (sy : Symbols) : Prop := (typeNames sy).Nodup ∧ (constNames sy).Nodup

theorem not_hasStructName {sy : Symbols} {n : Nat} (h : sy.hasStructName n = false) : n ∉ typeNames sy := by
  simp only [Symbols.hasStructName, Bool.or_eq_false_iff, List.any_eq_false] at h
  simp only [typeNames, List.mem_append, List.mem_map, not_or, not_exists, not_and]
  refine ⟨fun p hp he => ?_, fun p hp he => ?_⟩
  · exact absurd (by simp [he] : (p.1.name == n) = true) (by simpa using h.1 p hp)
  · exact absurd (by simp [he] : (p.1.name == n) = true) (by simpa using h.2 p hp)

/-- **(top-level names)** loading a file keeps struct/interface names pairwise distinct and
    constant names pairwise distinct — across every file loaded so far -/
theorem gatherSymbols_unique (file : Nat) (ns : List Node) (sy sy' : Symbols)
    (hu : Unique sy) (h : gatherSymbols file ns sy = .ok sy') : Unique sy' := by
  induction ns generalizing sy with
  | nil => simp [gatherSymbols] at h; subst h; exact hu
  | cons n ns ih =>
    cases n with
    | incl p d => exact ih sy hu (by simpa [gatherSymbols] using h)
    | struct s =>
      simp only [gatherSymbols] at h
      split at h
      · simp at h
      · rename_i hn
        refine ih _ ?_ h
        have hnot := not_hasStructName (by simpa using hn)
        refine ⟨?_, hu.2⟩
        simp only [typeNames, List.map_append, List.map_cons, List.map_nil] at hnot ⊢
        have hu1 := hu.1
        simp only [typeNames] at hu1
        rw [List.append_assoc, List.nodup_append] at *
        simp only [List.mem_append, not_or] at hnot
        refine ⟨hu1.1, ?_, ?_⟩
        · simp only [List.singleton_append, List.nodup_cons]; exact ⟨hnot.2, hu1.2.1⟩
        · intro a ha b hb
          simp only [List.singleton_append, List.mem_cons] at hb
          rcases hb with rfl | hb
          · intro he; subst he; exact hnot.1 ha
          · exact hu1.2.2 a ha b hb
    | iface i =>
      simp only [gatherSymbols] at h
      split at h
      · simp at h
      · rename_i hn
        refine ih _ ?_ h
        have hnot := not_hasStructName (by simpa using hn)
        refine ⟨?_, hu.2⟩
        have hu1 := hu.1
        simp only [typeNames, List.map_append, List.map_cons, List.map_nil] at hnot hu1 ⊢
        rw [← List.append_assoc]
        rw [List.nodup_append]
        refine ⟨hu1, by simp, ?_⟩
        intro a ha b hb
        simp only [List.mem_singleton] at hb
        subst hb
        intro he; subst he; exact hnot ha
    | const c =>
      simp only [gatherSymbols] at h
      split at h
      · simp at h
      · rename_i hn
        refine ih _ ?_ h
        refine ⟨hu.1, ?_⟩
        simp only [constNames, List.map_append, List.map_cons, List.map_nil]
        rw [List.nodup_append]
        refine ⟨hu.2, by simp, ?_⟩
        intro a ha b hb
        simp only [List.mem_singleton] at hb
        subst hb
        intro he; subst he
        simp only [Bool.not_eq_true, List.any_eq_false] at hn
        simp only [constNames, List.mem_map] at ha
        obtain ⟨p, hp, hpe⟩ := ha
        exact absurd (by simp [hpe] : (p.1 == c.name) = true) (by simpa using hn p hp)

/-! ### struct verifier (struct_verifier.rs:44-95) -/

/-- what the verifier establishes for one struct relative to a size table: distinct field
    names, every field at an offset divisible by its alignment (offset = sum of the sizes of
    the fields before it: no padding), total size divisible by the largest alignment -/
inductive FieldsAligned (store : SizeStore) : List Field → Nat → Nat → List Nat → Nat → Nat → Prop
  | nil (size al seen) : FieldsAligned store [] size al seen size al
  | cons (f fs size al seen isz ial size' al') :
      f.name ∉ seen → fieldSA store f = some (isz, ial) → size % ial = 0 →
      size + isz * f.count < usizeLimit →
      FieldsAligned store fs (size + isz * f.count) (max al ial) (f.name :: seen) size' al' →
      FieldsAligned store (f :: fs) size al seen size' al'

theorem verifyFields_sound (store : SizeStore) (fs : List Field) (size al : Nat) (seen : List Nat)
    (size' al' : Nat) (h : verifyFields store fs size al seen = .ok (size', al')) :
    FieldsAligned store fs size al seen size' al' := by
  induction fs generalizing size al seen with
  | nil => simp [verifyFields] at h; obtain ⟨rfl, rfl⟩ := h; exact .nil _ _ _
  | cons f fs ih =>
    unfold verifyFields at h
    split at h
    · simp at h
    · rename_i hseen
      split at h
      · simp at h
      · rename_i isz ial hsa
        split at h
        · simp at h
        · rename_i hmod
          split at h
          · simp at h
          · rename_i hlim
            refine .cons f fs size al seen isz ial size' al' ?_ hsa ?_ (by omega) (ih _ _ _ h)
            · intro hm; exact hseen (List.contains_iff_mem.2 hm)
            · simpa using hmod

/-- **(fix 32d1f86)** the running size never leaves the machine word: every intermediate and
    the final size of an accepted struct is below `usizeLimit`, so the wrapping arithmetic of
    an optimised build and the checked arithmetic of a debug build compute the same numbers -/
theorem fieldsAligned_lt (store : SizeStore) (fs : List Field) (size al : Nat) (seen : List Nat)
    (size' al' : Nat) (h : FieldsAligned store fs size al seen size' al') (h0 : size < usizeLimit) :
    size ≤ size' ∧ size' < usizeLimit := by
  induction h with
  | nil => exact ⟨Nat.le_refl _, h0⟩
  | cons f fs size al seen isz ial size' al' _ _ _ hlt _ ih =>
    have := ih hlt
    omega

/-- **(alignment)** every struct the verifier walked satisfies the no-padding rule relative
    to the sizes of the structs verified before it (dependency order) -/
theorem structVerifier_sound (sy : Symbols) (order : List Nat) (store store' : SizeStore)
    (h : structVerifier sy order store = .ok store') :
    ∀ n ∈ order, ∃ s pre size al, sy.structLookup n = some s ∧
      FieldsAligned pre s.fields 0 0 [] size al ∧ al ≠ 0 ∧ size % al = 0 ∧ size < usizeLimit ∧
      (n, size, al) ∈ store' := by
  induction order generalizing store with
  | nil => intro n hn; simp at hn
  | cons m ms ih =>
    unfold structVerifier at h
    split at h
    · simp at h
    · rename_i s hs
      split at h
      · simp at h
      · rename_i size al hv
        split at h
        · simp at h
        · rename_i hok
          have hmono : ∀ (order : List Nat) (st st' : SizeStore), structVerifier sy order st = .ok st' → ∀ e ∈ st, e ∈ st' := by
            intro order
            induction order with
            | nil => intro st st' h e he; simp [structVerifier] at h; subst h; exact he
            | cons k ks ihk =>
              intro st st' h e he
              unfold structVerifier at h
              split at h
              · simp at h
              · split at h
                · simp at h
                · split at h
                  · simp at h
                  · exact ihk _ _ h e (by simp [he])
          intro n hn
          rcases List.mem_cons.1 hn with rfl | hn
          · simp only [Bool.or_eq_true, beq_iff_eq, bne_iff_ne, not_or] at hok
            refine ⟨s, store, size, al, hs, verifyFields_sound _ _ _ _ _ _ _ hv, ?_, ?_, ?_, ?_⟩
            · intro h0; exact hok.1 h0
            · exact Decidable.of_not_not hok.2
            · exact (fieldsAligned_lt _ _ _ _ _ _ _ (verifyFields_sound _ _ _ _ _ _ _ hv) (by decide)).2
            · exact hmono _ _ _ h _ (by simp)
          · exact ih _ h n hn

/-! ### interface verifier (interface_verifier.rs) -/

/-- the documented object-array and data-array rules for one method (README "Restriction"):
    no unbounded object arrays; no bounded data arrays; no arrays of structs that contain
    objects; per direction at most one object array, and not together with a single object -/
structure ParamRules (ps : List MParam) : Prop where
  objArrBounded : ∀ p ∈ ps, p.ty.isIface = true → p.arr ≠ .unbounded
  dataArrUnbounded : ∀ p ∈ ps, ∀ n, p.arr = .bounded n → p.ty.isIface = true ∨ p.ty = .buffer
  noObjStructArr : ∀ p ∈ ps, ∀ sm s, p.ty = .struct sm s → p.arr ≠ .none → s.containsInterfaces = false

def isObjArr (d : Dir) (p : MParam) : Bool := p.dir == d && p.ty.isIface && p.arr.isArray
def isObjVal (d : Dir) (p : MParam) : Bool := p.dir == d && p.ty.isIface && !p.arr.isArray

/-- flags after scanning a prefix: they record exactly whether an object array / a single
    object of each direction occurred -/
theorem checkParam_rules (p : MParam) (fl fl' : ArgFlags) (h : checkParam p fl = .ok fl') :
    ParamRules [p] ∧
    (fl'.arrIn = (fl.arrIn || isObjArr .inp p)) ∧ (fl'.valIn = (fl.valIn || isObjVal .inp p)) ∧
    (fl'.arrOut = (fl.arrOut || isObjArr .out p)) ∧ (fl'.valOut = (fl.valOut || isObjVal .out p)) ∧
    (isObjArr .inp p = true → fl.arrIn = false) ∧ (isObjArr .out p = true → fl.arrOut = false) := by
  rcases p with ⟨d, t, a, n⟩
  cases d <;> cases a <;> cases t <;>
    simp only [checkParam] at h <;>
    (try split at h) <;> (try split at h) <;> (try split at h) <;>
    (try (simp at h; done)) <;>
    (try (simp only [Except.ok.injEq] at h; subst h)) <;>
    (refine ⟨⟨?_, ?_, ?_⟩, ?_⟩ <;>
      simp_all [isObjArr, isObjVal, MTy.isIface, Arr.isArray])


theorem ParamRules.cons {p : MParam} {ps : List MParam} (h1 : ParamRules [p]) (h2 : ParamRules ps) :
    ParamRules (p :: ps) := by
  constructor
  · intro q hq; rcases List.mem_cons.1 hq with rfl | hq
    · exact h1.objArrBounded _ (by simp)
    · exact h2.objArrBounded _ hq
  · intro q hq; rcases List.mem_cons.1 hq with rfl | hq
    · exact h1.dataArrUnbounded _ (by simp)
    · exact h2.dataArrUnbounded _ hq
  · intro q hq; rcases List.mem_cons.1 hq with rfl | hq
    · exact h1.noObjStructArr _ (by simp)
    · exact h2.noObjStructArr _ hq

def b2n (b : Bool) : Nat := if b then 1 else 0

theorem checkParams_rules (ps : List MParam) (fl fl' : ArgFlags) (h : checkParams ps fl = .ok fl') :
    ParamRules ps ∧
    (fl'.arrIn = (fl.arrIn || ps.any (isObjArr .inp))) ∧ (fl'.valIn = (fl.valIn || ps.any (isObjVal .inp))) ∧
    (fl'.arrOut = (fl.arrOut || ps.any (isObjArr .out))) ∧ (fl'.valOut = (fl.valOut || ps.any (isObjVal .out))) ∧
    (b2n fl.arrIn + (ps.filter (isObjArr .inp)).length ≤ 1) ∧
    (b2n fl.arrOut + (ps.filter (isObjArr .out)).length ≤ 1) := by
  induction ps generalizing fl with
  | nil =>
    simp only [checkParams, Except.ok.injEq] at h; subst h
    refine ⟨⟨by simp, by simp, by simp⟩, by simp, by simp, by simp, by simp, ?_, ?_⟩ <;>
      (simp [b2n]; split <;> omega)
  | cons p ps ih =>
    unfold checkParams at h
    split at h
    · simp at h
    · rename_i fl1 h1
      obtain ⟨r1, a1, a2, a3, a4, a5, a6⟩ := checkParam_rules p fl fl1 h1
      obtain ⟨r2, b1, b2, b3, b4, b5, b6⟩ := ih fl1 h
      refine ⟨r1.cons r2, ?_, ?_, ?_, ?_, ?_, ?_⟩
      · rw [b1, a1]; simp [Bool.or_assoc]
      · rw [b2, a2]; simp [Bool.or_assoc]
      · rw [b3, a3]; simp [Bool.or_assoc]
      · rw [b4, a4]; simp [Bool.or_assoc]
      · cases hp : isObjArr .inp p with
        | false =>
          rw [a1, hp] at b5
          simpa [List.filter_cons, hp] using b5
        | true =>
          have hf := a5 hp
          rw [a1, hp, hf] at b5
          rw [hf]
          simp only [List.filter_cons, hp, if_true, List.length_cons]
          have e1 : b2n (false || true) = 1 := rfl
          have e0 : b2n false = 0 := rfl
          rw [e1] at b5; rw [e0]; omega
      · cases hp : isObjArr .out p with
        | false =>
          rw [a3, hp] at b6
          simpa [List.filter_cons, hp] using b6
        | true =>
          have hf := a6 hp
          rw [a3, hp, hf] at b6
          rw [hf]
          simp only [List.filter_cons, hp, if_true, List.length_cons]
          have e1 : b2n (false || true) = 1 := rfl
          have e0 : b2n false = 0 := rfl
          rw [e1] at b6; rw [e0]; omega

/-- the documented restrictions on one method's parameters, complete -/
structure MethodRules (ps : List MParam) : Prop where
  rules : ParamRules ps
  oneArrIn : (ps.filter (isObjArr .inp)).length ≤ 1
  oneArrOut : (ps.filter (isObjArr .out)).length ≤ 1
  noMixIn : ¬ (ps.any (isObjArr .inp) = true ∧ ps.any (isObjVal .inp) = true)
  noMixOut : ¬ (ps.any (isObjArr .out) = true ∧ ps.any (isObjVal .out) = true)
  fits : (counts ps).fits15 = true

/-- **(object-array rules)** a method passes the interface verifier only if it satisfies all
    documented parameter restrictions -/
theorem checkFunc_sound (f : MFunc) (h : checkFunc f = .ok ()) : MethodRules f.params := by
  unfold checkFunc at h
  split at h
  · simp at h
  · rename_i fl hfl
    obtain ⟨r, b1, b2, b3, b4, b5, b6⟩ := checkParams_rules f.params {} fl hfl
    split at h
    · simp at h
    · rename_i hmix
      split at h
      · simp at h
      · rename_i hfits
        simp only [Bool.or_eq_true, Bool.and_eq_true, not_or, not_and] at hmix
        simp only [Bool.false_or] at b1 b2 b3 b4
        refine ⟨r, by simpa [b2n] using b5, by simpa [b2n] using b6, ?_, ?_, by simpa using hfits⟩
        · rintro ⟨h1, h2⟩; rw [← b1, ← b2] at *; exact absurd h2 (by simpa using hmix.1 h1)
        · rintro ⟨h1, h2⟩; rw [← b3, ← b4] at *; exact absurd h2 (by simpa using hmix.2 h1)

/-! members: names -/

def MMember.constOrErrorName : MMember → Option Nat
  | .const c => some c.name
  | .error n _ => some n
  | .func _ => none

def MMember.funcOf : MMember → Option MFunc
  | .func f => some f
  | _ => none

@[simp] theorem fm_func_const (c : Const) (ms : List MMember) :
    (MMember.const c :: ms).filterMap MMember.funcOf = ms.filterMap MMember.funcOf := rfl
@[simp] theorem fm_func_error (n : Nat) (v : Int) (ms : List MMember) :
    (MMember.error n v :: ms).filterMap MMember.funcOf = ms.filterMap MMember.funcOf := rfl
@[simp] theorem fm_func_func (f : MFunc) (ms : List MMember) :
    (MMember.func f :: ms).filterMap MMember.funcOf = f :: ms.filterMap MMember.funcOf := rfl
@[simp] theorem fm_ce_const (c : Const) (ms : List MMember) :
    (MMember.const c :: ms).filterMap MMember.constOrErrorName = c.name :: ms.filterMap MMember.constOrErrorName := rfl
@[simp] theorem fm_ce_error (n : Nat) (v : Int) (ms : List MMember) :
    (MMember.error n v :: ms).filterMap MMember.constOrErrorName = n :: ms.filterMap MMember.constOrErrorName := rfl
@[simp] theorem fm_ce_func (f : MFunc) (ms : List MMember) :
    (MMember.func f :: ms).filterMap MMember.constOrErrorName = ms.filterMap MMember.constOrErrorName := rfl

theorem verifyMembers_sound (ms : List MMember) (cs fs cs' fs' : List Nat)
    (h : verifyMembers ms cs fs = .ok (cs', fs'))
    (hc : cs.Nodup) (hf : fs.Nodup) :
    cs'.Nodup ∧ fs'.Nodup ∧
    cs'.Perm (ms.filterMap MMember.constOrErrorName ++ cs) ∧
    fs'.Perm ((ms.filterMap MMember.funcOf).map (·.name) ++ fs) ∧
    (∀ f ∈ ms.filterMap MMember.funcOf, MethodRules f.params) := by
  induction ms generalizing cs fs with
  | nil =>
    simp only [verifyMembers, Except.ok.injEq, Prod.mk.injEq] at h
    obtain ⟨rfl, rfl⟩ := h
    simp [hc, hf]
  | cons m ms ih =>
    cases m with
    | const c =>
      simp only [verifyMembers] at h
      split at h
      · simp at h
      · rename_i hn
        have hn' : c.name ∉ cs := fun hm => hn (List.contains_iff_mem.2 hm)
        obtain ⟨a, b, c1, d, g⟩ := ih (c.name :: cs) fs h (List.nodup_cons.2 ⟨hn', hc⟩) hf
        refine ⟨a, b, ?_, by simpa using d, by simpa using g⟩
        simp only [fm_ce_const, fm_ce_error, List.cons_append]
        exact c1.trans List.perm_middle
    | error n v =>
      simp only [verifyMembers] at h
      split at h
      · simp at h
      · rename_i hn
        have hn' : n ∉ cs := fun hm => hn (List.contains_iff_mem.2 hm)
        obtain ⟨a, b, c1, d, g⟩ := ih (n :: cs) fs h (List.nodup_cons.2 ⟨hn', hc⟩) hf
        refine ⟨a, b, ?_, by simpa using d, by simpa using g⟩
        simp only [fm_ce_const, fm_ce_error, List.cons_append]
        exact c1.trans List.perm_middle
    | func fn =>
      simp only [verifyMembers] at h
      split at h
      · simp at h
      · rename_i hn
        have hn' : fn.name ∉ fs := fun hm => hn (List.contains_iff_mem.2 hm)
        split at h
        · simp at h
        rename_i hdup
        split at h
        · simp at h
        · rename_i hck
          obtain ⟨a, b, c1, d, g⟩ := ih cs (fn.name :: fs) h hc (List.nodup_cons.2 ⟨hn', hf⟩)
          refine ⟨a, b, by simpa using c1, ?_, ?_⟩
          · simp only [fm_func_func, List.map_cons, List.cons_append]
            exact d.trans List.perm_middle
          · intro f' hf'
            simp only [fm_func_func, List.mem_cons] at hf'
            rcases hf' with rfl | hf'
            · exact checkFunc_sound _ hck
            · exact g f' hf'

/-- **(parameter names, whole chain; fix 20276c0)** every method that passes the member walk
    has pairwise distinct parameter names -/
theorem verifyMembers_params_nodup (ms : List MMember) (cs fs cs' fs' : List Nat)
    (h : verifyMembers ms cs fs = .ok (cs', fs')) :
    ∀ f ∈ ms.filterMap MMember.funcOf, (f.params.map (·.name)).Nodup := by
  induction ms generalizing cs fs with
  | nil => intro f hf; cases hf
  | cons m ms ih =>
    cases m with
    | const c =>
      simp only [verifyMembers] at h
      split at h
      · simp at h
      · intro f hf; exact ih _ _ h f (by simpa using hf)
    | error n v =>
      simp only [verifyMembers] at h
      split at h
      · simp at h
      · intro f hf; exact ih _ _ h f (by simpa using hf)
    | func fn =>
      simp only [verifyMembers] at h
      split at h
      · simp at h
      split at h
      · simp at h
      rename_i hdup
      split at h
      · simp at h
      · intro f hf
        simp only [fm_func_func, List.mem_cons] at hf
        rcases hf with rfl | hf
        · simpa using hdup
        · exact ih _ _ h f hf

def chainConstErrNames : MIface → List Nat
  | [] => []
  | l :: bases => chainConstErrNames bases ++ l.members.filterMap MMember.constOrErrorName

def chainFuncNames : MIface → List Nat
  | [] => []
  | l :: bases => chainFuncNames bases ++ (l.members.filterMap MMember.funcOf).map (·.name)

/-- **(interface members)** an interface passes the verifier only if, over the whole
    flattened chain (own members and every ancestor's): constant-or-error names are pairwise
    distinct, method names are pairwise distinct, and every method obeys the parameter rules -/
theorem verifyIface_sound (i : MIface) (cs fs : List Nat) (h : verifyIface i cs fs = .ok ())
    (hc : cs.Nodup) (hf : fs.Nodup) :
    (chainConstErrNames i ++ cs).Nodup ∧ (chainFuncNames i ++ fs).Nodup ∧
    ∀ l ∈ i, ∀ f ∈ l.members.filterMap MMember.funcOf, MethodRules f.params := by
  induction i generalizing cs fs with
  | nil => simp [chainConstErrNames, chainFuncNames, hc, hf]
  | cons l bases ih =>
    unfold verifyIface at h
    split at h
    · simp at h
    · rename_i cs' fs' hm
      obtain ⟨a, b, c1, d, g⟩ := verifyMembers_sound _ _ _ _ _ hm hc hf
      obtain ⟨i1, i2, i3⟩ := ih cs' fs' h a b
      refine ⟨?_, ?_, ?_⟩
      · simp only [chainConstErrNames, List.append_assoc]
        exact ((List.Perm.append_left _ c1).nodup_iff).1 i1
      · simp only [chainFuncNames, List.append_assoc]
        exact ((List.Perm.append_left _ d).nodup_iff).1 i2
      · intro l' hl'
        rcases List.mem_cons.1 hl' with rfl | hl'
        · exact g
        · exact i3 l' hl'

theorem interfaceVerifier_sound (mir : List MNode) (h : interfaceVerifier mir = .ok ()) :
    ∀ i, MNode.iface i ∈ mir →
      (chainConstErrNames i).Nodup ∧ (chainFuncNames i).Nodup ∧
      ∀ l ∈ i, ∀ f ∈ l.members.filterMap MMember.funcOf, MethodRules f.params := by
  induction mir with
  | nil => intro i hi; simp at hi
  | cons n ns ih =>
    intro i hi
    cases n with
    | iface j =>
      simp only [interfaceVerifier] at h
      split at h
      · simp at h
      · rename_i hv
        rcases List.mem_cons.1 hi with he | hi
        · cases he
          simpa using verifyIface_sound i [] [] hv List.nodup_nil List.nodup_nil
        · exact ih h i hi
    | incl p =>
      rcases List.mem_cons.1 hi with he | hi
      · cases he
      · exact ih (by simpa [interfaceVerifier] using h) i hi
    | const c =>
      rcases List.mem_cons.1 hi with he | hi
      · cases he
      · exact ih (by simpa [interfaceVerifier] using h) i hi
    | struct sm s =>
      rcases List.mem_cons.1 hi with he | hi
      · cases he
      · exact ih (by simpa [interfaceVerifier] using h) i hi


/-! ### cycles (cycles.rs + graph.rs) -/

/-- **(cycles)** the cycle pass accepts only if neither of the two graphs it built (struct
    containment and inheritance, both grown from the declarations of the main file) has a
    cycle; holds for every iteration order of the hash tables -/
theorem toposort_sound (g : Graph) (order : List Nat) (h : g.toposort = .ok order) : ∀ x, ¬ Reach g x x :=
  (toposort_ok_acyclic g order h).1

/-! ### composition along the driver (main.rs:129-160, lib.rs) -/

def isOk {ε α : Type} : Except ε α → Bool
  | .ok _ => true
  | .error _ => false

/-- **C09 partial (what an accepted compilation guarantees)**, for both entry points and
    either setting of the undefined-behaviour flag:
    (1) every method of every main-file interface has distinct parameter names;
    (2) every struct reachable from a main-file struct satisfies the no-padding alignment rule
        relative to the structs it contains;
    (3) every main-file interface, flattened over its whole ancestor chain, has pairwise
        distinct constant-or-error names, pairwise distinct method names, and every method
        obeys all documented object-array / data-array restrictions. -/
theorem compile_sound (entry : Entry) (fs : FsModel) (inc : List Nat) (main : Nat) (ub : Bool) (r : Compiled)
    (h : compile entry fs inc main ub = .ok r) :
    (∀ i, Node.iface i ∈ r.main.nodes → ∀ m, Member.func m ∈ i.members → (m.params.map (·.name)).Nodup) ∧
    (∀ n ∈ r.structOrder, ∃ s pre size al, r.store.symbols.structLookup n = some s ∧
      FieldsAligned pre s.fields 0 0 [] size al ∧ al ≠ 0 ∧ size % al = 0 ∧ size < usizeLimit ∧
      (n, size, al) ∈ r.sizes) ∧
    (∀ i, MNode.iface i ∈ r.mir →
      (chainConstErrNames i).Nodup ∧ (chainFuncNames i).Nodup ∧
      ∀ l ∈ i, ∀ f ∈ l.members.filterMap MMember.funcOf, MethodRules f.params) := by
  unfold compile at h
  simp only at h
  repeat' split at h
  all_goals first | (simp at h; done) | skip
  all_goals (
    simp only [Except.ok.injEq] at h
    subst h
    refine ⟨functionsPass_sound _ (by assumption), structVerifier_sound _ _ _ _ (by assumption),
      interfaceVerifier_sound _ (by assumption)⟩)

/-! ### refutations: where the pipeline never looks (each witness is replayed on the real
    compiler by the check; see known_findings.jsonl) -/

/-- the full statement for structs: every *loaded* struct is aligned -/
def AllLoadedStructsAligned (r : Compiled) : Prop :=
  ∀ p ∈ r.store.symbols.structs, isOk (verifyFields [] p.1.fields 0 0 []) = true

/-- witness: `main.idl` = `include "inc.idl"  interface IM { method m(); };`,
    `inc.idl` = `struct ZMis { uint8 a; uint32 b; };` -/
def wIncludedStruct : FsModel :=
  { files := [⟨0, [.incl 5 false, .iface ⟨10, none, [.func ⟨11, [], false, false⟩]⟩], true⟩,
              ⟨1, [.struct ⟨20, [⟨21, .prim .u8, 1⟩, ⟨22, .prim .u32, 1⟩]⟩], true⟩],
    dirOf := [(0, 0), (1, 0)], lookup := [(0, 5, 1)], rel := [] }

theorem included_struct_unchecked :
    ∃ r, compile .cli wIncludedStruct [] 0 = .ok r ∧ ¬ AllLoadedStructsAligned r := by
  have h : isOk (compile .cli wIncludedStruct [] 0) = true := by decide
  match hc : compile .cli wIncludedStruct [] 0 with
  | .error _ => rw [hc] at h; cases h
  | .ok r =>
    refine ⟨r, rfl, ?_⟩
    intro hall
    have hs : r.store.symbols.structs.map (·.1.name) = [20] := by
      have : (match compile .cli wIncludedStruct [] 0 with
              | .ok r => r.store.symbols.structs.map (·.1.name) | .error _ => []) = [20] := by decide
      rw [hc] at this; exact this
    have hf : (r.store.symbols.structs.map fun p => isOk (verifyFields [] p.1.fields 0 0 [])) = [false] := by
      have : (match compile .cli wIncludedStruct [] 0 with
              | .ok r => r.store.symbols.structs.map (fun p => isOk (verifyFields [] p.1.fields 0 0 [])) | .error _ => []) = [false] := by decide
      rw [hc] at this; exact this
    match hl : r.store.symbols.structs with
    | [] => rw [hl] at hf; cases hf
    | p :: _ =>
      have := hall p (by rw [hl]; simp)
      rw [hl] at hf
      simp only [List.map_cons, List.cons.injEq] at hf
      rw [this] at hf; exact absurd hf.1 (by simp)

/-- witness: an included interface (not an ancestor of any main-file interface) with two
    methods of the same name is accepted -/
def wIncludedIface : FsModel :=
  { files := [⟨0, [.incl 5 false, .iface ⟨10, none, [.func ⟨11, [], false, false⟩]⟩], true⟩,
              ⟨1, [.iface ⟨30, none, [.func ⟨31, [], false, false⟩, .func ⟨31, [], false, false⟩]⟩], true⟩],
    dirOf := [(0, 0), (1, 0)], lookup := [(0, 5, 1)], rel := [] }

theorem included_iface_unchecked : isOk (compile .cli wIncludedIface [] 0) = true := by decide

/-- witness: base interface in an included file with `method b(in uint32 same, out uint8 same)` -/
def wDupParamIncluded : FsModel :=
  { files := [⟨0, [.incl 5 false, .iface ⟨10, some 30, [.func ⟨11, [], false, false⟩]⟩], true⟩,
              ⟨1, [.iface ⟨30, none, [.func ⟨31, [⟨.inp, .prim .u32, .none, 40⟩, ⟨.out, .prim .u8, .none, 40⟩], false, false⟩]⟩], true⟩],
    dirOf := [(0, 0), (1, 0)], lookup := [(0, 5, 1)], rel := [] }

/-- refused since fix 20276c0 (was accepted: the AST pass sees the compiled file only) -/
theorem dup_param_included_rejected : isOk (compile .cli wDupParamIncluded [] 0) = false := by decide

/-- witness: `const uint8 ZX = 1; struct ZX { uint8 a; };` -/
def wCrossKind : FsModel :=
  { files := [⟨0, [.const { name := 50, ty := .u8, value := 51 }, .struct ⟨50, [⟨52, .prim .u8, 1⟩]⟩], true⟩],
    dirOf := [(0, 0)], lookup := [], rel := [] }

theorem cross_kind_duplicate_accepted : isOk (compile .cli wCrossKind [] 0) = true := by decide

/-- non-vacuity of `compile_sound`: a two-file set with a hierarchy, a struct parameter and an
    object array is accepted -/
example :
    isOk (compile .cli
      { files := [⟨0, [.incl 5 false, .struct ⟨20, [⟨21, .prim .u32, 1⟩, ⟨22, .prim .u32, 1⟩]⟩,
                      .iface ⟨10, some 30, [.error 12, .func ⟨11, [⟨.inp, .custom 20, .none, 40⟩, ⟨.out, .iface, .bounded 2, 41⟩], false, false⟩]⟩], true⟩,
                  ⟨1, [.iface ⟨30, none, [.func ⟨31, [⟨.inp, .prim .u8, .none, 42⟩], false, false⟩]⟩], true⟩],
        dirOf := [(0, 0), (1, 0)], lookup := [(0, 5, 1)], rel := [] } [] 0) = true := by decide

end Mink.C09
