/-
  C17 — Constants reach every backend with their exact value and declared type.
-/
import MinkModel.Literal
import MinkModel.Generated.Tables
namespace Mink.C17
open Mink

/-- **(a)** every backend carrying the literal text verbatim evaluates it to the mathematical
    value when the literal has no leading zero (hex literals always) -/
theorem langValue_eq_mathValue (l : Lang) (s : List Char) (h : hasLeadingZero s = false) :
    langValue l s = mathValue s := by
  unfold langValue mathValue hasLeadingZero at *
  rcases hs : splitLiteral s with ⟨neg, hex, ds⟩
  rw [hs] at h
  simp only at h ⊢
  have hr : langRadix l hex ds = if hex then 16 else 10 := by
    unfold langRadix
    cases hex with
    | true => rfl
    | false =>
      simp only [Bool.not_false, Bool.true_and] at h
      simp [h]
  rw [hr]

/-- **(a, Rust)** Rust reads every admitted integer literal at its mathematical value -/
theorem rust_value (s : List Char) : langValue .rust s = mathValue s := by
  unfold langValue mathValue
  rcases splitLiteral s with ⟨neg, hex, ds⟩
  have hr : langRadix .rust hex ds = if hex then 16 else 10 := by
    unfold langRadix; cases hex <;> simp
  simp only [hr]

/-- **full statement is false**: `const uint8 K = 010;` is 10 in the IDL, 8 in C, C++, Java -/
theorem leading_zero_refuted :
    mathValue ['0', '1', '0'] = some 10 ∧ langValue .c ['0', '1', '0'] = some 8 ∧
    langValue .java ['0', '1', '0'] = some 8 ∧ langValue .rust ['0', '1', '0'] = some 10 := by decide

/-- `const uint8 K = 09;` is accepted (decimal 9) and does not compile as C/C++/Java -/
example : Prim.u8.acceptsLiteral ['0', '9'] = true ∧ langValue .c ['0', '9'] = none := by decide

/-! ### range check: the real `Primitive::new`, tabulated on the boundary set by the probe -/

def primOfIdx : Nat → Prim
  | 0 => .u8 | 1 => .u16 | 2 => .u32 | 3 => .u64 | 4 => .i8 | 5 => .i16 | 6 => .i32 | 7 => .i64
  | 8 => .f32 | _ => .f64

/-- E0: the model's range check agrees with the real one on every row of the boundary table
    (each type x {min-1, min, min+1, -1, 0, 1, max-1, max, max+1} x {decimal, hex, negative hex,
    leading zeros, fractional}) — regenerated from the code and re-checked on every run -/
theorem literal_table_ok : ∀ e ∈ Gen.literalTable, (primOfIdx e.1).acceptsLiteral e.2.1 = e.2.2 := by
  decide +kernel

/-- the range check accepts an integer literal exactly when its mathematical value lies in
    the declared type's range — on every boundary row (sign handling of unsigned types
    included: `-0` and `-1` are refused for `uintN`) -/
def inRangeSpec (p : Prim) (s : List Char) : Bool :=
  match mathValue s with
  | some v => decide (p.lo ≤ v ∧ v ≤ p.hi) && (p.isSigned || s.head? != some '-')
  | none => false

theorem accepts_iff_in_range_on_table : ∀ e ∈ Gen.literalTable,
    (primOfIdx e.1).isFloat = false → (primOfIdx e.1).acceptsLiteral e.2.1 = inRangeSpec (primOfIdx e.1) e.2.1 := by
  decide +kernel

end Mink.C17
