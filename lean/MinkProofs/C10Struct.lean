/-
  C10, struct side — the struct verifier refuses nothing but what the documented rule
  refuses: `verifyFields` decides `FieldsAligned` (distinct field names, every field at an
  offset divisible by its alignment, no running size at or beyond the machine word), and
  `structVerifier` accepts a dependency-first order as soon as every struct in it meets the
  rule relative to the structs before it.
-/
import MinkProofs.C09
namespace Mink.C10
open Mink Mink.C09

/-- **(converse of `verifyFields_sound`)** -/
theorem verifyFields_complete (st : SizeStore) (fs : List Field) (size al : Nat) (seen : List Nat) (size' al' : Nat)
    (h : FieldsAligned st fs size al seen size' al') : verifyFields st fs size al seen = .ok (size', al') := by
  induction h with
  | nil => rfl
  | cons f fs size al seen isz ial size' al' hseen hsa hmod hlim _ ih =>
    unfold verifyFields
    have h1 : seen.contains f.name = false := by
      cases hc : seen.contains f.name
      · rfl
      · exact absurd (List.contains_iff_mem.1 hc) hseen
    simp only [h1, hsa, hmod]
    have h2 : ¬ usizeLimit ≤ size + isz * f.count := by omega
    simp [h2, ih]

/-- the field loop decides the rule -/
theorem verifyFields_iff (st : SizeStore) (fs : List Field) (size al : Nat) (seen : List Nat) (size' al' : Nat) :
    verifyFields st fs size al seen = .ok (size', al') ↔ FieldsAligned st fs size al seen size' al' :=
  ⟨verifyFields_sound _ _ _ _ _ _ _, verifyFields_complete _ _ _ _ _ _ _⟩

/-- the rule determines the result: sizes and alignments are functions of the field list and
    the table -/
theorem fieldsAligned_unique (st : SizeStore) (fs : List Field) (size al : Nat) (seen : List Nat)
    (s1 a1 s2 a2 : Nat) (h1 : FieldsAligned st fs size al seen s1 a1) (h2 : FieldsAligned st fs size al seen s2 a2) :
    s1 = s2 ∧ a1 = a2 := by
  have e1 := verifyFields_complete _ _ _ _ _ _ _ h1
  have e2 := verifyFields_complete _ _ _ _ _ _ _ h2
  rw [e1] at e2
  simp only [Except.ok.injEq, Prod.mk.injEq] at e2
  exact e2

/-- **(struct verifier, completeness)** walking `order` from table `st`: if every name is a
    declared struct whose fields meet the rule relative to the table as extended by the
    structs before it, with a non-zero alignment dividing the size, the verifier accepts.
    The per-struct condition is stated through the verifier's own table by a function giving,
    for each position, size and alignment. -/
theorem structVerifier_complete (sy : Symbols) : ∀ (order : List Nat) (st : SizeStore)
    (sa : Nat → Nat × Nat),
    (∀ (k : Nat) (hk : k < order.length), ∃ s, sy.structLookup order[k] = some s ∧
      FieldsAligned (st ++ ((order.take k).map fun n => (n, (sa n).1, (sa n).2))) s.fields 0 0 []
        (sa order[k]).1 (sa order[k]).2 ∧ (sa order[k]).2 ≠ 0 ∧ (sa order[k]).1 % (sa order[k]).2 = 0) →
    structVerifier sy order st = .ok (st ++ order.map fun n => (n, (sa n).1, (sa n).2)) := by
  intro order
  induction order with
  | nil => intro st sa _; simp [structVerifier]
  | cons n ns ih =>
    intro st sa h
    obtain ⟨s, hs, hfa, hal, hsz⟩ := h 0 (by simp)
    simp only [List.getElem_cons_zero, List.take_zero, List.map_nil, List.append_nil] at hs hfa hal hsz
    unfold structVerifier
    simp only [hs, verifyFields_complete _ _ _ _ _ _ _ hfa]
    have hc : ((sa n).2 == 0 || (sa n).1 % (sa n).2 != 0) = false := by
      simp [hal, hsz]
    simp only [hc]
    have := ih (st ++ [(n, (sa n).1, (sa n).2)]) sa (by
      intro k hk
      obtain ⟨s', hs', hfa', r⟩ := h (k+1) (by simp; omega)
      refine ⟨s', by simpa using hs', ?_, by simpa using r⟩
      simpa [List.take_succ_cons, List.append_assoc] using hfa')
    simpa [List.append_assoc] using this

/-- non-vacuity: a chain of three structs, rule satisfied, accepted with the stated table -/
example :
    let sy : Symbols := { structs := [(⟨1, [⟨0, .prim .u64, 1⟩]⟩, 0), (⟨2, [⟨0, .custom 1, 2⟩, ⟨1, .prim .u32, 2⟩]⟩, 0),
                                      (⟨3, [⟨0, .iface, 1⟩, ⟨1, .custom 2, 1⟩, ⟨2, .prim .u8, 8⟩]⟩, 0)] }
    isOk (structVerifier sy [1, 2, 3] []) = true := by decide

end Mink.C10
