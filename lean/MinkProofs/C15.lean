/-
  C15 — Appending to an interface or file never disturbs existing methods' ABI.
-/
import MinkProofs.Numbering
import MinkModel.Walk
namespace Mink.C15
open Mink

/-- numbering a member list with something appended numbers the original members exactly as
    before: the result starts with the result for the original list (ids, error values,
    expanded parameter types), and the counters after the prefix are those of the original -/
theorem numberMembers_append (sy : Symbols) (tf : Nat) (ms extra : List Member) (e : Int) (o : Nat)
    (r' : List MMember) (e' : Int) (o' : Nat)
    (h : numberMembers sy tf (ms ++ extra) e o = .ok (r', e', o')) :
    ∃ r e1 o1 rx, numberMembers sy tf ms e o = .ok (r, e1, o1) ∧
      numberMembers sy tf extra e1 o1 = .ok (rx, e', o') ∧ r' = r ++ rx := by
  induction ms generalizing e o r' with
  | nil => exact ⟨[], e, o, r', rfl, by simpa using h, rfl⟩
  | cons m ms ih =>
    cases m with
    | const c =>
      simp only [List.cons_append] at h
      unfold numberMembers at h
      split at h
      · simp at h
      · rename_i r1 e1 o1 h1
        simp only [Except.ok.injEq, Prod.mk.injEq] at h
        obtain ⟨rfl, rfl, rfl⟩ := h
        obtain ⟨r, ea, oa, rx, p1, p2, rfl⟩ := ih _ _ _ h1
        exact ⟨.const c :: r, ea, oa, rx, by simp [numberMembers, p1], p2, rfl⟩
    | error n =>
      simp only [List.cons_append] at h
      unfold numberMembers at h
      split at h
      · simp at h
      · rename_i r1 e1 o1 h1
        simp only [Except.ok.injEq, Prod.mk.injEq] at h
        obtain ⟨rfl, rfl, rfl⟩ := h
        obtain ⟨r, ea, oa, rx, p1, p2, rfl⟩ := ih _ _ _ h1
        exact ⟨.error n e :: r, ea, oa, rx, by simp [numberMembers, p1], p2, rfl⟩
    | func mth =>
      simp only [List.cons_append] at h
      unfold numberMembers at h
      split at h
      · simp at h
      · rename_i ps hps
        split at h
        · simp at h
        · rename_i hle
          split at h
          · simp at h
          · rename_i r1 e1 o1 h1
            simp only [Except.ok.injEq, Prod.mk.injEq] at h
            obtain ⟨rfl, rfl, rfl⟩ := h
            obtain ⟨r, ea, oa, rx, p1, p2, rfl⟩ := ih _ _ _ h1
            refine ⟨.func ⟨mth.name, ps, o, mth.optional, mth.hasDoc⟩ :: r, ea, oa, rx, ?_, p2, rfl⟩
            simp [numberMembers, hps, hle, p1]

/-- **C15 (interface level)**: appending members at the end of an interface leaves every
    pre-existing member of that interface and of all its ancestors exactly as numbered before
    — op-codes, error values and expanded parameter lists (hence counts, bundles, events: they
    are functions of the `MFunc`) — and only adds new members after them. -/
theorem append_to_interface (sy : Symbols) (tf fuel : Nat) (i : Iface) (extra : List Member) (e : Int) (o : Nat)
    (mi' : MIface) (e' : Int) (o' : Nat)
    (h : numberIface sy tf (fuel+1) { i with members := i.members ++ extra } e o = .ok (mi', e', o')) :
    ∃ lvl bases e1 o1 rx,
      numberIface sy tf (fuel+1) i e o = .ok (lvl :: bases, e1, o1) ∧
      mi' = ⟨lvl.name, lvl.members ++ rx⟩ :: bases ∧
      MIface.flatFuncs mi' = MIface.flatFuncs (lvl :: bases) ++ (rx.filterMap fun | .func f => some (lvl.name, f) | _ => none) ∧
      MIface.flatErrors mi' = MIface.flatErrors (lvl :: bases) ++ (rx.filterMap fun | .error n v => some (lvl.name, n, v) | _ => none) := by
  unfold numberIface at h
  simp only at h
  split at h
  · simp at h
  · rename_i mb eb ob hb
    split at h
    · simp at h
    · rename_i r' e2 o2 hm
      simp only [Except.ok.injEq, Prod.mk.injEq] at h
      obtain ⟨rfl, rfl, rfl⟩ := h
      obtain ⟨r, ea, oa, rx, p1, _, rfl⟩ := numberMembers_append _ _ _ _ _ _ _ _ _ hm
      refine ⟨⟨i.name, r⟩, mb, ea, oa, rx, ?_, rfl, ?_, ?_⟩
      · unfold numberIface
        simp only [hb, p1]
      · simp only [MIface.flatFuncs, MLevel.funcs, List.filterMap_append, List.map_append, List.append_assoc]
        congr 2
        rw [List.map_filterMap]
        congr 1
        funext x; cases x <;> rfl
      · simp only [MIface.flatErrors, MLevel.errors, List.filterMap_append, List.map_append, List.append_assoc]
        congr 2
        rw [List.map_filterMap]
        congr 1
        funext x; cases x <;> rfl

/-- the per-method plan is a function of the numbered method alone -/
structure Plan where
  id : Nat
  counts : Counts
  inBundle : List BMember
  outBundle : List BMember
  sections : List Nat
  deriving DecidableEq

def planOf (f : MFunc) : Plan :=
  ⟨f.id, counts f.params, bundle .inp f.params, bundle .out f.params, slotSections f.params⟩

/-- **corollary**: old methods keep their whole plan (op-code, counts word, bundle layout, slot
    sections) in the appended revision -/
theorem plans_preserved (sy : Symbols) (tf fuel : Nat) (i : Iface) (extra : List Member) (e : Int) (o : Nat)
    (mi mi' : MIface) (e1 e' : Int) (o1 o' : Nat)
    (h0 : numberIface sy tf (fuel+1) i e o = .ok (mi, e1, o1))
    (h : numberIface sy tf (fuel+1) { i with members := i.members ++ extra } e o = .ok (mi', e', o')) :
    ∃ more, mi'.flatFuncs.map (fun of => (of.1, of.2.name, planOf of.2)) =
            mi.flatFuncs.map (fun of => (of.1, of.2.name, planOf of.2)) ++ more := by
  obtain ⟨lvl, bases, ea, oa, rx, p1, _, p3, _⟩ := append_to_interface sy tf fuel i extra e o mi' e' o' h
  rw [h0] at p1
  simp only [Except.ok.injEq, Prod.mk.injEq] at p1
  obtain ⟨rfl, _, _⟩ := p1
  exact ⟨_, by rw [p3, List.map_append]⟩

/-! ### adding declarations to a file: lookups of existing names are unaffected -/

/-- `sy'` extends `sy` with declarations of fresh names -/
structure Extends (sy sy' : Symbols) : Prop where
  iface : ∀ n i, sy.ifaceLookup n = some i → sy'.ifaceLookup n = some i
  struct : ∀ n s, sy.structLookup n = some s → sy'.structLookup n = some s
  ifaceNone : ∀ n, sy.ifaceLookup n = none → sy.structLookup n ≠ none → sy'.ifaceLookup n = none

theorem mapFieldsWith_congr (f g : Ty → Except Stage MTy) (fs : List Field) (r : List MField)
    (hfg : ∀ t r, f t = .ok r → g t = .ok r) (h : mapFieldsWith f fs = .ok r) : mapFieldsWith g fs = .ok r := by
  induction fs generalizing r with
  | nil => simpa [mapFieldsWith] using h
  | cons fl fs ih =>
    unfold mapFieldsWith at h ⊢
    split at h
    · simp at h
    · rename_i t ht
      split at h
      · simp at h
      · rename_i r1 hr1
        simp only [Except.ok.injEq] at h; subst h
        simp [hfg _ _ ht, ih _ hr1]

/-- **C15 (file level)**: a type that expanded successfully expands to the same MIR type
    after new structs, constants or interfaces were added anywhere in the include closure -/
theorem expandTy_extends (sy sy' : Symbols) (hx : Extends sy sy') (fuel : Nat) (t : Ty) (r : MTy)
    (h : expandTy sy fuel t = .ok r) : expandTy sy' fuel t = .ok r := by
  induction fuel generalizing t r with
  | zero =>
    cases t <;> simp_all [expandTy]
  | succ fuel ih =>
    cases t with
    | prim p => simpa [expandTy] using h
    | buffer => simpa [expandTy] using h
    | iface => simpa [expandTy] using h
    | custom n =>
      unfold expandTy at h ⊢
      split at h
      · rename_i i hi
        simp only [hx.iface _ _ hi]; exact h
      · rename_i hi
        split at h
        · simp at h
        · rename_i s hs
          have hn : sy'.ifaceLookup n = none := hx.ifaceNone n hi (by rw [hs]; simp)
          simp only [hn, hx.struct _ _ hs]
          split at h
          · simp at h
          · rename_i fields hf
            rw [mapFieldsWith_congr _ _ _ _ (fun t r => ih t r) hf]
            exact h

/-- non-vacuity: appending `method c()` and an error to a derived interface -/
example :
    let base : Iface := ⟨1, none, [.func ⟨10, [], false, false⟩, .error 20]⟩
    let leaf : Iface := ⟨2, some 1, [.func ⟨11, [], false, false⟩]⟩
    let leaf' : Iface := { leaf with members := leaf.members ++ [.error 21, .func ⟨12, [], false, false⟩] }
    let sy : Symbols := { ifaces := [(base, 0), (leaf, 0)] }
    (match numberIface sy 3 3 leaf errorCodeStart 0, numberIface sy 3 3 leaf' errorCodeStart 0 with
     | .ok (a, _, _), .ok (b, _, _) => (flatIds a, flatIds b, flatErrVals a, flatErrVals b)
     | _, _ => ([], [], [], [])) = ([0, 1], [0, 1, 2], [10], [10, 11]) := by decide

end Mink.C15
