/-
  C06, end to end — from the struct verifier's own verdict to the target layout.
  `C06.layout_is_packed` is stated over `verifierOkFrom` (the rule); here the rule is derived
  from what `verifyFields` / `structVerifier` (the model of struct_verifier.rs) establish, so
  that the chain is: accepted by the verifier ⇒ (`structVerifier_sound`) `FieldsAligned` ⇒
  rule ⇒ natural layout = packed layout and `sizeof` = the size the compiler assumes.
  The target's member alignments are a parameter `ta` (trusted: primitives aligned to their
  size, `Object` to 8, a nested struct to the largest alignment of its members — measured on
  every run by the compiled layout probes of the check); all that is used of it is that it is
  one of 1, 2, 4, 8, 16 and divides the alignment the verifier uses for the member.
-/
import MinkProofs.C06
namespace Mink.C06
open Mink Mink.C09

/-- the alignments that occur: powers of two up to 16 -/
def Pow2 (a : Nat) : Prop := a = 1 ∨ a = 2 ∨ a = 4 ∨ a = 8 ∨ a = 16

theorem Pow2.dvd_of_le {a b : Nat} (ha : Pow2 a) (hb : Pow2 b) (h : a ≤ b) : a ∣ b := by
  rcases ha with rfl | rfl | rfl | rfl | rfl <;> rcases hb with rfl | rfl | rfl | rfl | rfl <;> first | omega | decide

theorem Pow2.max {a b : Nat} (ha : Pow2 a) (hb : Pow2 b) : Pow2 (max a b) := by
  rcases Nat.le_total a b with h | h
  · rw [Nat.max_eq_right h]; exact hb
  · rw [Nat.max_eq_left h]; exact ha

theorem Pow2.pos {a : Nat} (ha : Pow2 a) : 0 < a := by
  rcases ha with rfl | rfl | rfl | rfl | rfl <;> omega

theorem prim_align_pow2 (p : Prim) : Pow2 p.align := by
  cases p <;> simp [Pow2, Prim.align, Prim.size]

/-- every alignment in the table is one of 1, 2, 4, 8, 16 -/
def StoreAligns (st : SizeStore) : Prop := ∀ e ∈ st, Pow2 e.2.2

theorem storeAligns_get {st : SizeStore} (h : StoreAligns st) {c : Nat} {v : Nat × Nat} (hg : st.get c = some v) : Pow2 v.2 := by
  unfold SizeStore.get at hg
  cases hf : st.find? (fun e => e.1 == c) with
  | none => simp [hf] at hg
  | some e =>
    simp only [hf, Option.map_some, Option.some.injEq] at hg
    subst hg
    exact h e (List.mem_of_find?_eq_some hf)

theorem fieldSA_pow2 {st : SizeStore} (h : StoreAligns st) {f : Field} {isz ial : Nat}
    (hs : fieldSA st f = some (isz, ial)) : Pow2 ial := by
  unfold fieldSA at hs
  split at hs
  · rename_i p _; simp only [Option.some.injEq, Prod.mk.injEq] at hs; rw [← hs.2]; exact prim_align_pow2 p
  · exact storeAligns_get h hs
  · simp only [Option.some.injEq, Prod.mk.injEq] at hs; rw [← hs.2]; simp [Pow2, ifaceAlign]
  · cases hs

/-- the member as the target compiler sees it -/
def lfield (st : SizeStore) (ta : Field → Nat) (f : Field) : LField × Nat :=
  match fieldSA st f with
  | some (isz, ial) => (⟨isz, ta f, f.count⟩, ial)
  | none => (⟨0, ta f, 0⟩, 1)

/-- what `FieldsAligned` gives, read off as the rule of `MinkModel.Layout`, together with the
    two facts about the accumulators: the final size is the packed total and the final
    alignment is 0 or a power of two bounding every member's -/
theorem rule_of_fieldsAligned (st : SizeStore) (ta : Field → Nat) (hst : StoreAligns st)
    (fs : List Field) (size al : Nat) (seen : List Nat) (size' al' : Nat)
    (h : FieldsAligned st fs size al seen size' al') (hal : al = 0 ∨ Pow2 al) :
    verifierOkFrom size (fs.map (lfield st ta)) = true ∧
    (packedOffsetsFrom size ((fs.map (lfield st ta)).map (·.1))).2 = size' ∧
    (al' = 0 ∨ Pow2 al') ∧ al ≤ al' ∧ (∀ f ∈ fs, (lfield st ta f).2 ≤ al') ∧ (fs ≠ [] → Pow2 al') := by
  induction h with
  | nil size al seen => simp [verifierOkFrom, packedOffsetsFrom, hal]
  | cons f fs size al seen isz ial size' al' _ hsa hmod _ _ ih =>
    have hp : Pow2 ial := fieldSA_pow2 hst hsa
    have hmax : Pow2 (max al ial) := by
      rcases hal with rfl | hal
      · rw [Nat.zero_max]; exact hp
      · exact hal.max hp
    obtain ⟨i1, i2, i3, i4, i5, _⟩ := ih (Or.inr hmax)
    have hl : lfield st ta f = (⟨isz, ta f, f.count⟩, ial) := by simp [lfield, hsa]
    have hpos : Pow2 al' := by
      rcases i3 with h0 | h
      · have := hmax.pos; omega
      · exact h
    refine ⟨?_, ?_, Or.inr hpos, by omega, ?_, fun _ => hpos⟩
    · simp only [List.map_cons, hl, verifierOkFrom, Bool.and_eq_true, beq_iff_eq]
      exact ⟨hmod, i1⟩
    · simp only [List.map_cons, hl, packedOffsetsFrom]
      exact i2
    · intro g hg
      rcases List.mem_cons.1 hg with rfl | hg
      · rw [hl]; show ial ≤ al'; omega
      · exact i5 g hg

theorem maxAlign_pow2_le (l : List LField) (b : Nat) (hb : Pow2 b) (h : ∀ x ∈ l, Pow2 x.align ∧ x.align ≤ b) :
    Pow2 (maxAlign l) ∧ maxAlign l ≤ b := by
  induction l with
  | nil => exact ⟨Or.inl rfl, hb.pos⟩
  | cons x xs ih =>
    obtain ⟨h1, h2⟩ := ih (fun y hy => h y (by simp [hy]))
    obtain ⟨h3, h4⟩ := h x (by simp)
    exact ⟨h3.max h1, by simp only [maxAlign]; omega⟩

/-- **C06, from the verifier's verdict**: the struct verifier accepted the field list
    (`verifyFields … = ok (size, al)`, `al ≠ 0`, `size % al = 0` — exactly the three tests of
    struct_verifier.rs) relative to a table of verified structs; the target aligns every member
    to a power of two that divides the verifier's alignment for it. Then the C / C++ /
    `#[repr(C)]` layout of the emitted struct has every member at the summed sizes of the
    members before it and `sizeof` equal to `size`, the number the compiler transmits, checks
    in skeletons and uses to decide bundling. -/
theorem verified_layout_is_packed (st : SizeStore) (ta : Field → Nat) (hst : StoreAligns st)
    (fs : List Field) (size al : Nat)
    (h : verifyFields st fs 0 0 [] = .ok (size, al)) (hal : al ≠ 0) (hsz : size % al = 0)
    (hta : ∀ f ∈ fs, Pow2 (ta f) ∧ ta f ∣ (lfield st ta f).2) :
    let lf := (fs.map (lfield st ta)).map (·.1)
    cLayout lf = packedLayout lf ∧ (cLayout lf).2 = size := by
  have hfa := verifyFields_sound _ _ _ _ _ _ _ h
  obtain ⟨r1, r2, r3, _, r5, _⟩ := rule_of_fieldsAligned st ta hst fs 0 0 [] size al hfa (Or.inl rfl)
  have hpal : Pow2 al := by rcases r3 with h0 | hp; exact absurd h0 hal; exact hp
  have hdiv : ∀ p ∈ fs.map (lfield st ta), p.1.align ∣ p.2 := by
    intro p hp
    obtain ⟨f, hf, rfl⟩ := List.mem_map.1 hp
    have := (hta f hf).2
    unfold lfield at this ⊢
    split <;> simp_all
  have hmx : Pow2 (maxAlign ((fs.map (lfield st ta)).map (·.1))) ∧ maxAlign ((fs.map (lfield st ta)).map (·.1)) ≤ al := by
    apply maxAlign_pow2_le _ _ hpal
    intro x hx
    obtain ⟨p, hp, rfl⟩ := List.mem_map.1 hx
    obtain ⟨f, hf, rfl⟩ := List.mem_map.1 hp
    have h1 := hta f hf
    have h2 := r5 f hf
    have h3 : (lfield st ta f).1.align = ta f := by unfold lfield; split <;> simp_all
    rw [h3]
    refine ⟨h1.1, Nat.le_trans (Nat.le_of_dvd ?_ h1.2) h2⟩
    have : Pow2 (lfield st ta f).2 := by
      unfold lfield; split
      · rename_i hsa; exact fieldSA_pow2 hst hsa
      · exact Or.inl rfl
    exact this.pos
  have htot : (packedLayout ((fs.map (lfield st ta)).map (·.1))).2 % maxAlign ((fs.map (lfield st ta)).map (·.1)) = 0 := by
    unfold packedLayout
    rw [r2]
    exact Nat.mod_eq_zero_of_dvd (Nat.dvd_trans (hmx.1.dvd_of_le hpal hmx.2) (Nat.dvd_of_mod_eq_zero hsz))
  have hl := layout_is_packed (fs.map (lfield st ta)) hdiv r1 htot
  refine ⟨hl, ?_⟩
  rw [hl]; unfold packedLayout; exact r2

/-- the table `structVerifier` builds keeps the invariant (so the hypothesis `StoreAligns` of
    the theorem above holds for every struct the verifier reaches, to any nesting depth) -/
theorem structVerifier_storeAligns (sy : Symbols) (order : List Nat) (st st' : SizeStore)
    (hst : StoreAligns st) (h : structVerifier sy order st = .ok st') : StoreAligns st' := by
  induction order generalizing st with
  | nil => simp [structVerifier] at h; subst h; exact hst
  | cons n ns ih =>
    unfold structVerifier at h
    split at h
    · cases h
    · split at h
      · cases h
      · rename_i size al hv
        split at h
        · cases h
        · rename_i hok
          refine ih _ ?_ h
          intro e he
          rcases List.mem_append.1 he with he | he
          · exact hst e he
          · simp only [List.mem_singleton] at he
            subst he
            simp only [Bool.or_eq_true, beq_iff_eq, bne_iff_ne, not_or] at hok
            obtain ⟨_, _, r3, _⟩ := rule_of_fieldsAligned st (fun _ => 1) hst _ 0 0 [] size al
              (verifyFields_sound _ _ _ _ _ _ _ hv) (Or.inl rfl)
            rcases r3 with h0 | hp
            · exact absurd h0 hok.1
            · exact hp

/-- what the verifier's walk yields per struct, now with the table it was verified against -/
theorem structVerifier_verified (sy : Symbols) (order : List Nat) (st st' : SizeStore)
    (hst : StoreAligns st) (h : structVerifier sy order st = .ok st') :
    ∀ n ∈ order, ∃ s pre size al, sy.structLookup n = some s ∧ StoreAligns pre ∧
      verifyFields pre s.fields 0 0 [] = .ok (size, al) ∧ al ≠ 0 ∧ size % al = 0 := by
  induction order generalizing st with
  | nil => intro n hn; cases hn
  | cons m ms ih =>
    intro n hn
    have hall := structVerifier_storeAligns sy [m] st
    unfold structVerifier at h
    split at h
    · cases h
    · rename_i s hs
      split at h
      · cases h
      · rename_i size al hv
        split at h
        · cases h
        · rename_i hok
          rcases List.mem_cons.1 hn with rfl | hn
          · simp only [Bool.or_eq_true, beq_iff_eq, bne_iff_ne, not_or] at hok
            exact ⟨s, st, size, al, hs, hst, hv, hok.1, Decidable.of_not_not hok.2⟩
          · refine ih _ ?_ h n hn
            apply hall _ hst
            simp [structVerifier, hs, hv, hok]

/-- **C06 at the pipeline level**: for every struct in the verification order of an accepted
    compilation (which contains every struct of the compiled file, everything those contain,
    and — `C09.compile_param_structs_verified` — every struct a parameter names), whatever
    target alignments `ta` satisfy the stated assumption, the target layout is the packed one
    and `sizeof` is the size the compiler assumes -/
theorem compile_layout_packed (entry : Entry) (fs : FsModel) (inc : List Nat) (main : Nat) (ub : Bool) (r : Compiled)
    (h : compile entry fs inc main ub = .ok r) :
    ∀ n ∈ r.structOrder, ∃ s pre size, r.store.symbols.structLookup n = some s ∧
      ∀ ta : Field → Nat, (∀ f ∈ s.fields, Pow2 (ta f) ∧ ta f ∣ (lfield pre ta f).2) →
        let lf := (s.fields.map (lfield pre ta)).map (·.1)
        cLayout lf = packedLayout lf ∧ (cLayout lf).2 = size := by
  have key : ∃ sizes, structVerifier r.store.symbols r.structOrder [] = .ok sizes := by
    unfold compile at h
    simp only at h
    repeat' split at h
    all_goals first | (simp at h; done) | skip
    all_goals (
      simp only [Except.ok.injEq] at h
      subst h
      exact ⟨_, by assumption⟩)
  obtain ⟨sizes, hsv⟩ := key
  intro n hn
  obtain ⟨s, pre, size, al, hs, hpre, hv, hal, hsz⟩ :=
    structVerifier_verified _ _ _ _ (fun e he => by cases he) hsv n hn
  exact ⟨s, pre, size, hs, fun ta hta => verified_layout_is_packed pre ta hpre s.fields size al hv hal hsz hta⟩

/-- non-vacuity: upstream's `ObjInStruct` through the verifier model itself
    (`uint32[4]`, object, … ; target: objects aligned to 8) -/
example :
    let fs : List Field := [⟨0, .prim .u32, 4⟩, ⟨1, .iface, 1⟩, ⟨2, .prim .u32, 4⟩, ⟨3, .iface, 1⟩]
    (match verifyFields [] fs 0 0 [] with | .ok r => r | .error _ => (0, 0)) = (64, 16) ∧
      cLayout ((fs.map (lfield [] (fun f => match f.ty with | .iface => 8 | _ => 4))).map (·.1)) = ([0, 16, 32, 48], 64) := by decide

end Mink.C06
