/-
  C09 / C06 — the parameter-struct walk of the cycle pass (fix 7e13aff), composed up to the
  pipeline: graph inclusion `Sub` (edges are only ever added), absence of a cycle is inherited
  by every earlier stage of the interface graph, hence the guard `iface_graph.cycle().is_some()`
  of `visit_param_structs` was open whenever the pass finally succeeds; so every struct a
  parameter names is a node of the struct graph, hence in the verification order
  (`cyclesPass_param_structs`), hence verified (`compile_param_structs_verified`).
-/
import MinkProofs.C09
import MinkProofs.GraphComplete
import MinkProofs.C09Param
namespace Mink

def Sub (g g' : Graph) : Prop := ∀ n v, v ∈ g.succ n → v ∈ g'.succ n

theorem Sub.refl (g : Graph) : Sub g g := fun _ _ h => h
theorem Sub.trans {a b c : Graph} (h1 : Sub a b) (h2 : Sub b c) : Sub a c := fun n v h => h2 n v (h1 n v h)

theorem find_append_none {α : Type} (p : α → Bool) (l : List α) (x : α) (h : l.find? p = none) :
    (l ++ [x]).find? p = [x].find? p := by
  rw [List.find?_append, h]; rfl

theorem sub_addNode (g : Graph) (n : Nat) : Sub g (g.addNode n) := by
  intro m v hv
  unfold Graph.addNode
  split
  · exact hv
  · unfold Graph.succ at hv ⊢
    simp only
    rw [List.find?_append]
    cases hf : g.adj.find? (fun e => e.1 == m) with
    | some e => simp only [hf] at hv; simpa [hf] using hv
    | none => simp only [hf] at hv; cases hv

theorem find_map_key {f : Nat × List Nat → Nat × List Nat} (hf : ∀ e, (f e).1 = e.1) (m : Nat) :
    ∀ adj : List (Nat × List Nat), (adj.map f).find? (fun e => e.1 == m) = (adj.find? (fun e => e.1 == m)).map f
  | [] => rfl
  | x :: xs => by
    simp only [List.map_cons, List.find?_cons, hf x]
    cases (x.1 == m)
    · exact find_map_key hf m xs
    · rfl

theorem find_map_update (adj : List (Nat × List Nat)) (a m : Nat) (f : List Nat → List Nat) :
    (adj.map fun e => if e.1 == a then (e.1, f e.2) else e).find? (fun e => e.1 == m) =
      (adj.find? (fun e => e.1 == m)).map (fun e => if e.1 == a then (e.1, f e.2) else e) :=
  find_map_key (f := fun e => if e.1 == a then (e.1, f e.2) else e) (by intro e; show (if e.1 == a then (e.1, f e.2) else e).1 = e.1; split <;> rfl) m adj

theorem sub_addEdge (g : Graph) (a b : Nat) : Sub g (g.addEdge a b) := by
  intro m v hv
  have h1 := sub_addNode g a m v hv
  unfold Graph.addEdge
  unfold Graph.succ at h1 ⊢
  simp only
  rw [find_map_update (g.addNode a).adj a m (fun l => if l.contains b then l else l ++ [b])]
  cases hf : (g.addNode a).adj.find? (fun e => e.1 == m) with
  | none => simp only [hf] at h1; cases h1
  | some e =>
    simp only [hf] at h1
    simp only [Option.map_some]
    by_cases he : (e.1 == a) = true
    · simp only [he, if_true]
      split
      · exact h1
      · exact List.mem_append_left _ h1
    · simp only [he]; exact h1

theorem reach_mono {a b : Graph} (h : Sub a b) {x y : Nat} (r : Reach a x y) : Reach b x y := by
  induction r with
  | single hv => exact .single (h _ _ hv)
  | cons hv _ ih => exact .cons (h _ _ hv) ih

theorem hasCycle_false_of_sub {a b : Graph} (h : Sub a b) (hb : b.hasCycle = false) : a.hasCycle = false := by
  cases ha : a.hasCycle with
  | false => rfl
  | true =>
    obtain ⟨x, hx⟩ := (hasCycle_iff a).1 ha
    have := (hasCycle_iff b).2 ⟨x, reach_mono h hx⟩
    rw [hb] at this; cases this

end Mink

namespace Mink.C09

theorem visitIfaceRec_sub (sy : Symbols) : ∀ (fuel : Nat) (i : Iface) (g g' : Graph),
    visitIfaceRec sy fuel i g = .ok g' → Sub g g' := by
  intro fuel
  induction fuel with
  | zero => intro i g g' h; simp [visitIfaceRec] at h
  | succ fuel ih =>
    intro i g g' h
    unfold visitIfaceRec at h
    split at h
    · injection h with h; subst h; exact Sub.refl g
    · split at h
      · injection h with h; subst h; exact Sub.refl g
      · split at h
        · cases h
        · rename_i bi _
          exact (sub_addEdge g i.name bi.name).trans (ih bi _ g' h)

/-- the node walk of `Cycles::run_pass`: the interface graph only grows, the struct graph keeps
    its nodes, and — when the final interface graph is cycle free — every struct named by a
    parameter of a method declared in one of the walked interfaces is a node of the struct graph -/
theorem walk_spec (sy : Symbols) (fuel : Nat) : ∀ (nodes : List Node) (sg ig sg' ig' : Graph),
    cyclesPass.walk sy fuel nodes sg ig = .ok (sg', ig') →
    Sub ig ig' ∧ (∀ k ∈ sg.keys, k ∈ sg'.keys) ∧
    (ig'.hasCycle = false → ∀ i, Node.iface i ∈ nodes → ∀ m, Member.func m ∈ i.members → ∀ p ∈ m.params,
      ∀ c cs, p.ty = .custom c → sy.structLookup c = some cs → cs.name ∈ sg'.keys) := by
  intro nodes
  induction nodes with
  | nil =>
    intro sg ig sg' ig' h
    simp only [cyclesPass.walk, Except.ok.injEq, Prod.mk.injEq] at h
    obtain ⟨rfl, rfl⟩ := h
    exact ⟨Sub.refl _, fun k hk => hk, fun _ i hi => by cases hi⟩
  | cons n ns ih =>
    intro sg ig sg' ig' h
    cases n with
    | iface i =>
      simp only [cyclesPass.walk] at h
      split at h
      · cases h
      · rename_i ig1 hig1
        split at h
        · cases h
        · rename_i sg1 hsg1
          obtain ⟨s1, k1, r1⟩ := ih sg1 (ig1.addNode i.name) sg' ig' h
          have hsub1 : Sub ig (ig1.addNode i.name) := (visitIfaceRec_sub sy fuel i ig ig1 hig1).trans (sub_addNode ig1 i.name)
          refine ⟨hsub1.trans s1, ?_, ?_⟩
          · -- keys of the struct graph
            cases fuel with
            | zero => simp [visitParamStructs] at hsg1
            | succ f =>
              intro k hk
              by_cases hc : (ig1.addNode i.name).hasCycle = false
              · exact k1 k ((visitParamStructs_keys sy (f+1) _ f i sg sg1 hc hsg1).1 k hk)
              · have hc' : (ig1.addNode i.name).hasCycle = true := by
                  cases hh : (ig1.addNode i.name).hasCycle <;> simp_all
                unfold visitParamStructs at hsg1
                simp only [hc', if_true] at hsg1
                injection hsg1 with hsg1; subst hsg1
                exact k1 k hk
          · intro hfin j hj m hm p hp c cs hc hl
            rcases List.mem_cons.1 hj with heq | hj
            · injection heq with heq; subst heq
              have hc1 : (ig1.addNode j.name).hasCycle = false := hasCycle_false_of_sub s1 hfin
              cases fuel with
              | zero => simp [visitParamStructs] at hsg1
              | succ f =>
                exact k1 _ ((visitParamStructs_keys sy (f+1) _ f j sg sg1 hc1 hsg1).2 m hm p hp c cs hc hl)
            · exact r1 hfin j hj m hm p hp c cs hc hl
    | struct s =>
      simp only [cyclesPass.walk] at h
      split at h
      · cases h
      · rename_i sg1 hsg1
        obtain ⟨s1, k1, r1⟩ := ih (sg1.addNode s.name) ig sg' ig' h
        refine ⟨s1, ?_, ?_⟩
        · intro k hk
          exact k1 k ((keys_addNode sg1 s.name).2 k (visitStructRec_keys sy fuel s sg sg1 hsg1 k hk))
        · intro hfin j hj
          rcases List.mem_cons.1 hj with heq | hj
          · cases heq
          · exact r1 hfin j hj
    | incl pth hd =>
      simp only [cyclesPass.walk] at h
      obtain ⟨s1, k1, r1⟩ := ih sg ig sg' ig' h
      refine ⟨s1, k1, ?_⟩
      intro hfin j hj
      rcases List.mem_cons.1 hj with heq | hj
      · cases heq
      · exact r1 hfin j hj
    | const c =>
      simp only [cyclesPass.walk] at h
      obtain ⟨s1, k1, r1⟩ := ih sg ig sg' ig' h
      refine ⟨s1, k1, ?_⟩
      intro hfin j hj
      rcases List.mem_cons.1 hj with heq | hj
      · cases heq
      · exact r1 hfin j hj

/-- **(fix 7e13aff, pass level)** when the cycle pass succeeds, every struct named by a
    parameter of a method declared in an interface of the compiled file is in the order the
    struct verifier works through — hence verified (`structVerifier_sound`), wherever it is
    declared -/
theorem cyclesPass_param_structs (sy : Symbols) (fuel : Nat) (nodes : List Node) (order : List Nat)
    (h : cyclesPass sy fuel nodes = .ok order) :
    ∀ i, Node.iface i ∈ nodes → ∀ m, Member.func m ∈ i.members → ∀ p ∈ m.params,
      ∀ c cs, p.ty = .custom c → sy.structLookup c = some cs → cs.name ∈ order := by
  unfold cyclesPass at h
  simp only at h
  split at h
  · cases h
  · rename_i sg ig hw
    split at h
    · cases h
    · rename_i oi hoi
      split at h
      · cases h
      · rename_i os hos
        injection h with h; subst h
        have hnc : ig.hasCycle = false := by simp [Graph.hasCycle, hoi]
        intro i hi m hm p hp c cs hc hl
        exact order_contains_keys sg _ hos _ ((walk_spec sy fuel nodes {} {} sg ig hw).2.2 hnc i hi m hm p hp c cs hc hl)

/-- **C09 / C06 (pipeline level)**: in an accepted compilation, by either entry point, every
    struct named by a parameter of a method declared in an interface of the compiled file —
    wherever that struct is declared — was handed to the struct verifier and satisfies the
    no-padding rule with a size below the machine-word limit. (Before fix 7e13aff a struct
    of an included file that no struct of the compiled file contains was emitted unverified:
    the old witness `included_struct_unchecked` is about structs that NO parameter names.) -/
theorem compile_param_structs_verified (entry : Entry) (fs : FsModel) (inc : List Nat) (main : Nat) (ub : Bool)
    (r : Compiled) (h : compile entry fs inc main ub = .ok r) :
    ∀ i, Node.iface i ∈ r.main.nodes → ∀ m, Member.func m ∈ i.members → ∀ p ∈ m.params,
      ∀ c cs, p.ty = .custom c → r.store.symbols.structLookup c = some cs →
      ∃ s pre size al, r.store.symbols.structLookup cs.name = some s ∧
        FieldsAligned pre s.fields 0 0 [] size al ∧ al ≠ 0 ∧ size % al = 0 ∧ size < usizeLimit ∧
        (cs.name, size, al) ∈ r.sizes := by
  have hs := (compile_sound entry fs inc main ub r h).2.1
  intro i hi m hm p hp c cs hc hl
  apply hs
  unfold compile at h
  simp only at h
  repeat' split at h
  all_goals first | (simp at h; done) | skip
  all_goals (
    simp only [Except.ok.injEq] at h
    subst h
    exact cyclesPass_param_structs _ _ _ _ (by assumption) i hi m hm p hp c cs hc hl)

end Mink.C09
