/-
  C03 — Wire bytes follow the Mink bundling rule; no object handles inside data buffers
  (partial). What the shared walk prescribes for the bytes: which parameters form the bundle,
  in which order, with which size, and where the bundle and the discrete buffers sit.
-/
import MinkProofs.SortLemmas
import MinkProofs.C01
namespace Mink.C03
open Mink

theorem mem_collectSmall {d : Dir} {ps : List MParam} {k : Nat} {m : BMember} (h : m ∈ collectSmall d ps k) :
    ∃ p ∈ ps, p.dir = d ∧ p.isSmallValue = true ∧ m.name = p.name ∧ m.size = p.dataSize := by
  induction ps generalizing k with
  | nil => simp [collectSmall] at h
  | cons p ps ih =>
    unfold collectSmall at h
    split at h
    · rename_i hc
      simp only [Bool.and_eq_true, beq_iff_eq] at hc
      rcases List.mem_cons.1 h with rfl | h
      · exact ⟨p, by simp, hc.1, hc.2, rfl, rfl⟩
      · obtain ⟨q, hq, r⟩ := ih h; exact ⟨q, by simp [hq], r⟩
    · obtain ⟨q, hq, r⟩ := ih h; exact ⟨q, by simp [hq], r⟩

/-- **(membership)** every bundle member is a fixed-size small value (a primitive or a struct
    of at most 16 bytes, passed by value) of the bundle's direction -/
theorem bundle_members (d : Dir) (ps : List MParam) (m : BMember) (h : m ∈ bundle d ps) :
    ∃ p ∈ ps, p.dir = d ∧ p.isSmallValue = true ∧ m.name = p.name ∧ m.size = p.dataSize := by
  exact mem_collectSmall (mem_bucketsFrom h).1

/-- **(order: largest first)** sizes never increase along the bundle -/
theorem bundle_sorted (d : Dir) (ps : List MParam) :
    (bundle d ps).Pairwise (fun a b => 16 - a.size ≤ 16 - b.size) :=
  sorted_bucketsFrom _ _ _ _

/-- **(order: otherwise declaration order)** members of one size appear in the bundle exactly
    in the order in which their parameters were declared (stability of the sort) -/
theorem bundle_stable (d : Dir) (ps : List MParam) (sz : Nat) (h : sz ≤ 16) :
    (bundle d ps).filter (fun m => 16 - m.size == 16 - sz) =
    (collectSmall d ps 0).filter (fun m => 16 - m.size == 16 - sz) :=
  bucketsFrom_filter_key _ _ 17 0 (16 - sz) (by omega) (by omega)

/-- **(no padding, exact size)** the bundle buffer is the plain concatenation of the member
    images; with well-sized images its length is the sum of the member sizes -/
theorem bundle_bytes_length (ms : List BMember) (v : Nat → PVal) (h : C01.BundleOk ms v) :
    (ms.flatMap fun m => (v m.name).img).length = bundleSize ms := by
  induction ms with
  | nil => rfl
  | cons m ms ih =>
    obtain ⟨img, hv, hl⟩ := h m (by simp)
    have himg : (v m.name).img = img := by rw [hv]; rfl
    have := ih (fun x hx => h x (by simp [hx]))
    simp only [List.flatMap_cons, List.length_append, himg, hl, this, bundleSize, List.map_cons, List.sum_cons]

/-- **(bundle only when two or more; input bundle is the very first argument)** -/
theorem in_bundle_first (ps : List MParam) :
    (2 ≤ (bundle .inp ps).length → ∃ rest, events ps = Ev.inBundle (bundle .inp ps) :: rest) ∧
    ((bundle .inp ps).length < 2 → ∀ e ∈ events ps, ∀ ms, e ≠ Ev.inBundle ms) := by
  constructor
  · intro h
    have : decide ((bundle .inp ps).length > 1) = true := by simp; omega
    simp only [events, this, if_true, List.singleton_append, List.cons_append, List.nil_append, List.append_assoc]
    exact ⟨_, rfl⟩
  · intro h e he ms
    have : decide ((bundle .inp ps).length > 1) = false := by simp; omega
    simp only [events, this] at he
    intro heq; subst heq
    simp only [Bool.false_eq_true, if_false, List.nil_append, List.append_assoc, List.mem_append, List.mem_map] at he
    rcases he with ⟨_, _, h1⟩ | he
    · cases h1
    · rcases he with he | ⟨_, _, h1⟩
      · split at he <;> simp at he
      · cases h1

/-- **(object handles never travel inside data buffers) — refuted** for object-bearing structs
    of at most 16 bytes inside a bundle: see `C01.bundled_object_lost` (the model drops the
    handle; the real stubs copy its bytes into the data buffer) -/
theorem small_object_struct_in_bundle_refuted :
    decodeDir .inp (events C01.wBundledObj) (encodeDir .inp C01.vBundledObj (events C01.wBundledObj)) ≠
      some (C01.expected .inp C01.vBundledObj (events C01.wBundledObj)) := C01.bundled_object_lost

/-- non-vacuity / reference encoding of upstream's own `multiple_primitive` shape:
    `in uint16 input, in uint32 input2` bundle as (input2, input), `out uint16, out uint64` as
    (output2, output) -/
example :
    let ps : List MParam := [⟨.inp, .buffer, .none, 0⟩, ⟨.out, .buffer, .none, 1⟩, ⟨.inp, .prim .u16, .none, 2⟩,
      ⟨.out, .prim .u16, .none, 3⟩, ⟨.inp, .iface none, .none, 4⟩, ⟨.out, .iface none, .none, 5⟩,
      ⟨.inp, .prim .u32, .none, 6⟩, ⟨.out, .prim .u64, .none, 7⟩, ⟨.out, .buffer, .none, 8⟩]
    (bundle .inp ps).map (·.name) = [6, 2] ∧ (bundle .out ps).map (·.name) = [7, 3] ∧
    bundleSize (bundle .inp ps) = 6 ∧ bundleSize (bundle .out ps) = 10 ∧ slotSections ps = [0, 0, 1, 1, 1, 2, 3] := by
  decide

end Mink.C03
