/-
  C19 / C16 — the end of the run: exit status 0 is reached only after EVERY expected file has
  been opened and written (the write loop of main.rs unwraps each `open`); a file that cannot
  be opened gives a non-zero status; a refusal by any pass leaves the directory untouched
  whatever the operating system would have allowed. Tied by the unwritable-target family
  (vlib/targets.py) on the real binary.
-/
import MinkModel.Output
namespace Mink.C19
open Mink

theorem writeLoop_mem_of_later (canOpen : Nat → Bool) (gen : Nat → Nat) :
    ∀ (fs : List Nat) (dir : OutDir) (e : Nat × Nat), e ∈ dir → e.1 ∉ fs →
      (writeLoop canOpen gen fs dir).1 = 0 → e ∈ (writeLoop canOpen gen fs dir).2 := by
  intro fs
  induction fs with
  | nil => intro dir e he _ _; exact he
  | cons f fs ih =>
    intro dir e he hn h0
    simp only [writeLoop] at h0 ⊢
    split
    · rename_i hc
      simp only [hc, if_true] at h0
      apply ih _ e _ (fun h => hn (by simp [h])) h0
      simp only [List.mem_append, List.mem_filter, List.mem_singleton]
      left
      refine ⟨he, ?_⟩
      have : e.1 ≠ f := fun h => hn (by simp [h])
      simpa using this
    · rename_i hc
      simp [hc] at h0

/-- **exit 0 ⇒ every expected file was opened, and is there with this run's content** (for
    a file list without repetitions, which `multiFiles_keys` gives) -/
theorem exit0_all_written (canOpen : Nat → Bool) (gen : Nat → Nat) :
    ∀ (fs : List Nat) (dir : OutDir), fs.Nodup → (writeLoop canOpen gen fs dir).1 = 0 →
      (∀ f ∈ fs, canOpen f = true) ∧ ∀ f ∈ fs, (f, gen f) ∈ (writeLoop canOpen gen fs dir).2 := by
  intro fs
  induction fs with
  | nil => intro dir _ _; exact ⟨fun f hf => (nomatch hf), fun f hf => (nomatch hf)⟩
  | cons f fs ih =>
    intro dir hnd h0
    rw [List.nodup_cons] at hnd
    simp only [writeLoop] at h0 ⊢
    by_cases hc : canOpen f = true
    · simp only [hc, if_true] at h0 ⊢
      obtain ⟨a, b⟩ := ih _ hnd.2 h0
      refine ⟨?_, ?_⟩
      · intro g hg
        rcases List.mem_cons.1 hg with rfl | hg
        · exact hc
        · exact a g hg
      · intro g hg
        rcases List.mem_cons.1 hg with rfl | hg
        · exact writeLoop_mem_of_later canOpen gen fs _ (g, gen g) (by simp) hnd.1 h0
        · exact b g hg
    · simp [hc] at h0

/-- a file that cannot be opened makes the run fail -/
theorem unopenable_fails (canOpen : Nat → Bool) (gen : Nat → Nat) (fs : List Nat) (dir : OutDir)
    (f : Nat) (hf : f ∈ fs) (hc : canOpen f = false) : (writeLoop canOpen gen fs dir).1 ≠ 0 := by
  induction fs generalizing dir with
  | nil => cases hf
  | cons g gs ih =>
    simp only [writeLoop]
    split
    · rcases List.mem_cons.1 hf with rfl | hf
      · rename_i hg; rw [hc] at hg; cases hg
      · exact ih _ hf
    · simp

/-- at the level of `main`: exit 0 only with every expected file written; a refusal by the
    passes leaves the directory as it was, whatever could have been opened -/
theorem runMainIO_spec (compiled : Except Stage (List MNode)) (b : Backend) (key : Nat → Nat) (base named : Nat)
    (gen : Nat → Nat) (canOpen : Nat → Bool) (dir : OutDir) :
    (∀ e, compiled = .error e → runMainIO compiled b key base named gen canOpen dir = (101, dir)) ∧
    (∀ mir, compiled = .ok mir → (writtenFiles b key base named mir).Nodup →
      (runMainIO compiled b key base named gen canOpen dir).1 = 0 →
      ∀ f ∈ writtenFiles b key base named mir, canOpen f = true ∧
        (f, gen f) ∈ (runMainIO compiled b key base named gen canOpen dir).2) := by
  constructor
  · intro e he; subst he; rfl
  · intro mir hm hnd h0 f hf
    subst hm
    simp only [runMainIO] at h0 ⊢
    obtain ⟨a, c⟩ := exit0_all_written canOpen gen _ dir hnd h0
    exact ⟨a f hf, c f hf⟩

example : writeLoop (fun f => f != 2) (fun f => f + 100) [1, 2, 3] [(9, 0)] = (101, [(9, 0), (1, 101)]) := by decide
example : writeLoop (fun _ => true) (fun f => f + 100) [1, 2] [(1, 0), (9, 0)] = (0, [(9, 0), (1, 101), (2, 102)]) := by decide

end Mink.C19
