/-
  C17 (general part) — the range check of integer constants, for EVERY literal the grammar
  admits (`-? 0x H+ | -? D+`), not just the boundary table: `Primitive::new` accepts exactly
  when the mathematical value lies in the type's range (and, for unsigned types, the literal
  carries no minus sign: `-0` is refused).
-/
import MinkProofs.C17
namespace Mink.C17

/-- an integer literal as the grammar builds it -/
def mkLit (neg hex : Bool) (ds : List Char) : List Char :=
  (if neg then ['-'] else []) ++ ((if hex then ['0', 'x'] else []) ++ ds)

def ValidDigits (hex : Bool) (ds : List Char) : Prop :=
  ds ≠ [] ∧ ∀ c ∈ ds, ∃ d, digitVal c = some d ∧ d < (if hex then 16 else 10)

theorem digit_ne {c : Char} {d : Nat} (h : digitVal c = some d) : c ≠ 'x' ∧ c ≠ '-' ∧ c ≠ '+' := by
  have h1 : digitVal 'x' = none := by decide
  have h2 : digitVal '-' = none := by decide
  have h3 : digitVal '+' = none := by decide
  refine ⟨?_, ?_, ?_⟩ <;> (intro hc; subst hc; simp_all)

theorem strip0x_id : ∀ (l : List Char), (∀ c ∈ l, c ≠ 'x') → strip0x l = l
  | [], _ => by simp [strip0x]
  | [c], _ => by
    unfold strip0x
    split
    · rename_i heq; cases heq
    · rename_i c' rest _ heq; injection heq with h1 h2; subst h1; subst h2; simp [strip0x]
    · rename_i heq; cases heq
  | c :: c2 :: rest, h => by
    have ih := strip0x_id (c2 :: rest) (fun x hx => h x (List.mem_cons_of_mem _ hx))
    unfold strip0x
    split
    · rename_i r heq
      injection heq with h1 h2
      injection h2 with h3 h4
      exact absurd h3 (h c2 (by simp))
    · rename_i c' rest' _ heq
      injection heq with h1 h2; subst h1; subst h2; rw [ih]
    · rename_i heq; cases heq

theorem foldl_none (radix : Nat) (l : List Char) :
    l.foldl (digitStep radix) (none : Option Nat) = none := by
  induction l with
  | nil => rfl
  | cons c l ih => simpa [digitStep] using ih

theorem foldl_some (radix : Nat) (l : List Char) (hv : ∀ c ∈ l, ∃ d, digitVal c = some d ∧ d < radix) (a : Nat) :
    ∃ v, l.foldl (digitStep radix) (some a) = some v := by
  induction l generalizing a with
  | nil => exact ⟨a, rfl⟩
  | cons c l ih =>
    obtain ⟨d, hd, hlt⟩ := hv c (by simp)
    simp only [List.foldl_cons, digitStep, hd, hlt, if_true]
    exact ih (fun x hx => hv x (List.mem_cons_of_mem _ hx)) _

theorem digitsVal_some (radix : Nat) (ds : List Char) (hne : ds ≠ [])
    (hv : ∀ c ∈ ds, ∃ d, digitVal c = some d ∧ d < radix) : ∃ v, digitsVal radix ds = some v := by
  cases ds with
  | nil => exact absurd rfl hne
  | cons c l => simpa [digitsVal] using foldl_some radix (c :: l) hv 0

theorem digitsVal_minus (radix : Nat) (ds : List Char) : digitsVal radix ('-' :: ds) = none := by
  have h : digitVal '-' = none := by decide
  simp only [digitsVal, List.foldl_cons, digitStep, h]
  exact foldl_none radix ds

/-- what `from_str_radix` does with a grammar literal after the prefix was removed -/
theorem fromStrRadix_lit (signed : Bool) (bits radix : Nat) (neg : Bool) (ds : List Char) (v : Nat)
    (hne : ds ≠ []) (hd : ∀ c ∈ ds, c ≠ '-' ∧ c ≠ '+') (hv : digitsVal radix ds = some v) :
    fromStrRadix signed bits radix ((if neg then ['-'] else []) ++ ds) =
      (if neg then (if signed then (if v ≤ 2 ^ (bits - 1) then some (-(v : Int)) else none) else none)
       else if signed then (if v < 2 ^ (bits - 1) then some (v : Int) else none)
       else (if v < 2 ^ bits then some (v : Int) else none)) := by
  cases ds with
  | nil => exact absurd rfl hne
  | cons c rest =>
    have hc := hd c (by simp)
    cases neg with
    | false =>
      simp only [Bool.false_eq_true, if_false, List.nil_append]
      unfold fromStrRadix
      split
      · rename_i heq; cases heq
      · rename_i heq; injection heq with h1 _; exact absurd h1 hc.2
      · rename_i heq; injection heq with h1 _; exact absurd h1 hc.1
      · rename_i c' rest' _ _ heq
        injection heq with h1 h2; subst h1; subst h2
        have e1 : (c == '+') = false := by simpa using hc.2
        have e2 : (c == '-') = false := by simpa using hc.1
        simp only [e1, e2, Bool.false_and, Bool.false_eq_true, if_false, hv]
    | true =>
      simp only [if_true, List.cons_append, List.nil_append]
      unfold fromStrRadix
      split
      · rename_i heq; cases heq
      · rename_i heq; injection heq with h1 _; exact absurd h1 (by decide)
      · rename_i heq; injection heq with _ h2; cases h2
      · rename_i c' rest' _ _ heq
        injection heq with h1 h2; subst h1; subst h2
        have e1 : (('-' : Char) == '+') = false := by decide
        have e2 : (('-' : Char) == '-') = true := by decide
        cases signed with
        | true => simp only [e1, e2, Bool.true_and, Bool.false_eq_true, if_false, if_true, hv]
        | false =>
          simp only [e1, e2, Bool.and_false, Bool.false_eq_true, if_false, digitsVal_minus]

theorem strip0x_mkLit (neg hex : Bool) (ds : List Char) (hx : ∀ c ∈ ds, c ≠ 'x') :
    strip0x (mkLit neg hex ds) = (if neg then ['-'] else []) ++ ds := by
  have hs := strip0x_id ds hx
  cases neg <;> cases hex <;> simp [mkLit, strip0x, hs]

theorem radix_mkLit (neg hex : Bool) (ds : List Char) (hne : ds ≠ []) (hx : ∀ c ∈ ds, c ≠ 'x' ∧ c ≠ '-') :
    (startsWith ['0', 'x'] (mkLit neg hex ds) || startsWith ['-', '0', 'x'] (mkLit neg hex ds)) = hex := by
  cases ds with
  | nil => exact absurd rfl hne
  | cons c rest =>
    have hc := hx c (by simp)
    have hcm : ¬ '-' = c := fun h => hc.2 h.symm
    cases rest with
    | nil =>
      cases neg <;> cases hex <;> simp [mkLit, startsWith, List.isPrefixOf, hcm]
    | cons c2 r2 =>
      have hc2 := hx c2 (by simp)
      have hc2x : ¬ 'x' = c2 := fun h => hc2.1 h.symm
      cases neg <;> cases hex <;> simp [mkLit, startsWith, List.isPrefixOf, hcm, hc2x]

theorem mathValue_mkLit (neg hex : Bool) (ds : List Char) (v : Nat) (hx : ∀ c ∈ ds, c ≠ 'x' ∧ c ≠ '-')
    (hne : ds ≠ []) (hv : digitsVal (if hex then 16 else 10) ds = some v) :
    mathValue (mkLit neg hex ds) = some (if neg then -(v : Int) else v) ∧
      ((mkLit neg hex ds).head? = some '-' ↔ neg = true) := by
  cases ds with
  | nil => exact absurd rfl hne
  | cons c rest =>
    have hc := hx c (by simp)
    have hsplit : splitLiteral (mkLit neg hex (c :: rest)) = (neg, hex, c :: rest) := by
      cases rest with
      | nil => cases neg <;> cases hex <;> simp [mkLit, splitLiteral, hc.2]
      | cons c2 r2 =>
        have hc2 := hx c2 (by simp)
        cases neg <;> cases hex <;> simp [mkLit, splitLiteral, hc.2, hc2.1]
    constructor
    · simp only [mathValue, hsplit, hv]
    · cases neg <;> cases hex <;> simp [mkLit, hc.2]

theorem range_arith (neg sg : Bool) (v k m : Nat) (hpos : 0 < k) :
    (if neg = true then (if sg = true then (if v ≤ k then some (-(v : Int)) else none) else none)
      else if sg = true then (if v < k then some (v : Int) else none)
      else (if v < m then some (v : Int) else none)).isSome =
    (decide (((if sg = true then -((k : Nat) : Int) else 0) ≤ (if neg = true then -(v : Int) else v)) ∧
        (if neg = true then -(v : Int) else v) ≤ (if sg = true then ((k : Nat) : Int) - 1 else ((m : Nat) : Int) - 1)) &&
      (sg || !neg)) := by
  cases neg <;> cases sg
  · by_cases h : v < m <;> simp [h] <;> omega
  · by_cases h : v < k <;> simp [h] <;> omega
  · simp
  · by_cases h : v ≤ k <;> simp [h] <;> omega

/-- **the range check is exact on every integer literal of the grammar** -/
theorem accepts_iff_in_range (p : Prim) (hp : p.isFloat = false) (neg hex : Bool) (ds : List Char)
    (hval : ValidDigits hex ds) :
    p.acceptsLiteral (mkLit neg hex ds) = inRangeSpec p (mkLit neg hex ds) := by
  obtain ⟨hne, hdig⟩ := hval
  have hx : ∀ c ∈ ds, c ≠ 'x' ∧ c ≠ '-' := by
    intro c hc; obtain ⟨d, hd, _⟩ := hdig c hc; exact ⟨(digit_ne hd).1, (digit_ne hd).2.1⟩
  have hpm : ∀ c ∈ ds, c ≠ '-' ∧ c ≠ '+' := by
    intro c hc; obtain ⟨d, hd, _⟩ := hdig c hc; exact ⟨(digit_ne hd).2.1, (digit_ne hd).2.2⟩
  obtain ⟨v, hv⟩ := digitsVal_some (if hex then 16 else 10) ds hne hdig
  have hr := radix_mkLit neg hex ds hne hx
  have hs := strip0x_mkLit neg hex ds (fun c hc => (hx c hc).1)
  obtain ⟨hm, hh⟩ := mathValue_mkLit neg hex ds v hx hne hv
  have hfr := fromStrRadix_lit p.isSigned p.bits (if hex then 16 else 10) neg ds v hne hpm hv
  have hacc : p.acceptsLiteral (mkLit neg hex ds) =
      (fromStrRadix p.isSigned p.bits (if hex then 16 else 10) ((if neg then ['-'] else []) ++ ds)).isSome := by
    simp only [Prim.acceptsLiteral, hp, hr, hs, Bool.false_eq_true, if_false]
  rw [hacc, hfr]
  unfold inRangeSpec
  rw [hm]
  have hpos : 0 < 2 ^ (p.bits - 1) := Nat.two_pow_pos _
  have hhead : ((mkLit neg hex ds).head? != some '-') = !neg := by
    cases neg with
    | true => have := hh.2 rfl; simp [this]
    | false =>
      have : (mkLit false hex ds).head? ≠ some '-' := fun h => by have := hh.1 h; cases this
      simp [this]
  rw [hhead]
  simp only [Prim.lo, Prim.hi]
  exact range_arith neg p.isSigned v _ _ hpos


/-- accepted ⇒ the mathematical value exists and lies in the declared type's range -/
theorem accepted_in_range (p : Prim) (hp : p.isFloat = false) (neg hex : Bool) (ds : List Char)
    (hval : ValidDigits hex ds) (h : p.acceptsLiteral (mkLit neg hex ds) = true) :
    ∃ v, mathValue (mkLit neg hex ds) = some v ∧ p.lo ≤ v ∧ v ≤ p.hi := by
  rw [accepts_iff_in_range p hp neg hex ds hval] at h
  unfold inRangeSpec at h
  split at h
  · rename_i v hv
    simp at h
    exact ⟨v, hv, h.1.1, h.1.2⟩
  · cases h

/-- the premises are satisfiable, and the statement has content at the boundaries -/
example : ValidDigits true ['F', 'F'] := by
  refine ⟨by simp, ?_⟩
  intro c hc; simp at hc; subst hc; exact ⟨15, by decide, by decide⟩
example : Prim.u8.acceptsLiteral (mkLit false true ['F', 'F']) = true ∧
          Prim.i8.acceptsLiteral (mkLit false true ['F', 'F']) = false ∧
          Prim.i8.acceptsLiteral (mkLit true true ['8', '0']) = true ∧
          Prim.u8.acceptsLiteral (mkLit true false ['0']) = false := by decide

end Mink.C17
