/-
  C20 — the generated Rust object serialises access to the implementation; the reference count
  frees it exactly once, after the last release, never while a body runs.
  Theorems over ALL interleavings of the model `MinkModel.Conc` (every list of actions that the
  step function accepts, i.e. every schedule of any number of client threads and handles).
-/
import MinkModel.Conc
namespace Mink.Conc

def sumD (l : List (Nat × Nat)) : Nat := (l.map Prod.snd).sum

/-- every completed body saw exactly the effects of all bodies completed before it -/
def Chained : List (Nat × Nat) → Prop
  | [] => True
  | e :: rest => e.1 = sumD rest ∧ Chained rest

structure Inv (s : St) : Prop where
  count : s.refs = s.handles.length + s.droppers.length
  lockBody : s.inBody.length = (if s.lock then 1 else 0)
  callsLive : ∀ c ∈ calls s, ∃ hd ∈ s.handles, hd.id = c.h
  freed : (s.freeing.isSome ∨ 0 < s.drops) → s.refs = 0
  once : s.drops + (if s.freeing.isSome then 1 else 0) ≤ 1
  zero : s.refs = 0 → (s.freeing.isSome ∨ s.drops = 1)
  seen : ∀ c ∈ s.inBody, c.val = s.total
  total : s.total = sumD s.log
  chain : Chained s.log

theorem init_inv (t h : Nat) : Inv (init t h) := by
  constructor <;> simp [init, calls, sumD, Chained]

/-! ### helpers -/

theorem findH_some {s : St} {h : Nat} {hd : Handle} (e : findH s h = some hd) :
    hd ∈ s.handles ∧ hd.id = h := by
  unfold findH at e
  have h1 := List.mem_of_find?_eq_some e
  have h2 := List.find?_some e
  exact ⟨h1, by simpa using h2⟩

theorem findC_some {l : List Call} {t h : Nat} {c : Call} (e : findC l t h = some c) :
    c ∈ l ∧ c.tid = t ∧ c.h = h := by
  unfold findC at e
  have h1 := List.mem_of_find?_eq_some e
  have h2 := List.find?_some e
  simp at h2
  exact ⟨h1, h2.1, h2.2⟩

theorem setH_length (s : St) (h : Nat) (f : Handle → Handle) : (setH s h f).length = s.handles.length := by
  simp [setH]

theorem setH_ids (s : St) (h k : Nat) (f : Handle → Handle) (hf : ∀ x, (f x).id = x.id) :
    (∃ hd ∈ setH s h f, hd.id = k) ↔ (∃ hd ∈ s.handles, hd.id = k) := by
  unfold setH
  constructor
  · rintro ⟨hd, hm, hk⟩
    rw [List.mem_map] at hm
    obtain ⟨x, hx, rfl⟩ := hm
    refine ⟨x, hx, ?_⟩
    by_cases c : (x.id == h) = true
    · simp [c, hf] at hk; exact hk
    · simp [c] at hk; exact hk
  · rintro ⟨x, hx, hk⟩
    refine ⟨(if x.id == h then f x else x), List.mem_map.mpr ⟨x, hx, rfl⟩, ?_⟩
    by_cases c : (x.id == h) = true
    · simp [c, hf]; exact hk
    · simp [c]; exact hk

/-- an update of one handle that keeps ids and touches nothing else preserves the invariant -/
theorem inv_setH {s : St} (hi : Inv s) (h : Nat) (f : Handle → Handle) (hf : ∀ x, (f x).id = x.id) :
    Inv { s with handles := setH s h f } := by
  constructor
  · simpa [setH_length] using hi.count
  · exact hi.lockBody
  · intro c hc
    have := hi.callsLive c (by simpa [calls] using hc)
    exact (setH_ids s h c.h f hf).mpr this
  · exact hi.freed
  · exact hi.once
  · exact hi.zero
  · exact hi.seen
  · exact hi.total
  · exact hi.chain

theorem sumD_cons (a b : Nat) (l : List (Nat × Nat)) : sumD ((a, b) :: l) = b + sumD l := by
  simp [sumD]


/-! ### every step preserves the invariant -/

theorem step_inv {s s' : St} {a : Act} (hi : Inv s) (e : step s a = some s') : Inv s' := by
  cases a with
  | clone t h h' =>
    simp only [step] at e
    split at e
    · rename_i hd eh
      split at e
      · injection e with e; subst e
        have hm := findH_some eh
        constructor
        · have := hi.count; simp; omega
        · exact hi.lockBody
        · intro c hc
          obtain ⟨x, hx, hk⟩ := hi.callsLive c (by simpa [calls] using hc)
          exact ⟨x, List.mem_cons_of_mem _ hx, hk⟩
        · intro hf
          have h0 := hi.freed hf
          have := hi.count
          have : s.handles.length = 0 := by omega
          have : s.handles = [] := List.eq_nil_of_length_eq_zero this
          rw [this] at hm; simp at hm
        · exact hi.once
        · intro h0; simp at h0
        · exact hi.seen
        · exact hi.total
        · exact hi.chain
      · cases e
    · cases e
  | send t h u =>
    simp only [step] at e
    split at e
    · split at e
      · injection e with e; subst e; exact inv_setH hi h _ (fun _ => rfl)
      · cases e
    · cases e
  | recv t h =>
    simp only [step] at e
    split at e
    · split at e
      · injection e with e; subst e; exact inv_setH hi h _ (fun _ => rfl)
      · cases e
    · cases e
  | lend t h u =>
    simp only [step] at e
    split at e
    · split at e
      · injection e with e; subst e; exact inv_setH hi h _ (fun _ => rfl)
      · cases e
    · cases e
  | unlend t h u =>
    simp only [step] at e
    split at e
    · split at e
      · injection e with e; subst e; exact inv_setH hi h _ (fun _ => rfl)
      · cases e
    · cases e
  | call t h d =>
    simp only [step] at e
    split at e
    · rename_i hd eh
      split at e
      · injection e with e; subst e
        have hm := findH_some eh
        constructor
        · exact hi.count
        · exact hi.lockBody
        · intro c hc
          simp only [calls, List.mem_cons, List.cons_append] at hc
          rcases hc with rfl | hc
          · exact ⟨hd, hm.1, hm.2⟩
          · exact hi.callsLive c (by simpa [calls] using hc)
        · exact hi.freed
        · exact hi.once
        · exact hi.zero
        · exact hi.seen
        · exact hi.total
        · exact hi.chain
      · cases e
    · cases e
  | enter t h seen =>
    simp only [step] at e
    split at e
    · rename_i c ec
      split at e
      · rename_i g
        injection e with e; subst e
        have hc := findC_some ec
        simp at g
        have hl := hi.lockBody
        simp [g.1] at hl
        constructor
        · exact hi.count
        · simp [hl]
        · intro c' hc'
          simp only [calls, List.mem_append, List.mem_cons] at hc'
          have key : ∀ x ∈ calls s, ∃ hd ∈ s.handles, hd.id = x.h := hi.callsLive
          rcases hc' with h1 | (h2 | h3) | h4
          · exact key c' (by simp [calls]; exact Or.inl (List.mem_of_mem_erase h1))
          · subst h2
            exact key c (by simp [calls]; exact Or.inl hc.1)
          · rw [hl] at h3; cases h3
          · exact key c' (by simp [calls]; exact Or.inr (Or.inr h4))
        · exact hi.freed
        · exact hi.once
        · exact hi.zero
        · intro c' hc'
          simp only [List.mem_cons] at hc'
          rcases hc' with rfl | h3
          · exact g.2
          · rw [hl] at h3; cases h3
        · exact hi.total
        · exact hi.chain
      · cases e
    · cases e
  | exit t h wrote =>
    simp only [step] at e
    split at e
    · rename_i c ec
      split at e
      · rename_i g
        injection e with e; subst e
        have hc := findC_some ec
        simp at g
        have hl := hi.lockBody
        have hpos : 0 < s.inBody.length := List.length_pos_of_mem hc.1
        have hlk : s.lock = true := by
          cases hk : s.lock with
          | true => rfl
          | false =>
            have h0 : s.inBody.length = 0 := by simpa [hk] using hl
            omega
        simp [hlk] at hl
        have hnil : s.inBody.erase c = [] := by
          apply List.eq_nil_of_length_eq_zero
          rw [List.length_erase_of_mem hc.1]; omega
        constructor
        · exact hi.count
        · simp [hnil]
        · intro c' hc'
          have key : ∀ x ∈ calls s, ∃ hd ∈ s.handles, hd.id = x.h := hi.callsLive
          simp only [calls, hnil, List.mem_append, List.mem_cons, List.nil_append] at hc'
          rcases hc' with h1 | h3 | h4
          · exact key c' (by simp [calls]; exact Or.inl h1)
          · subst h3
            exact key c (by simp [calls]; exact Or.inr (Or.inl hc.1))
          · exact key c' (by simp [calls]; exact Or.inr (Or.inr h4))
        · exact hi.freed
        · exact hi.once
        · exact hi.zero
        · intro c' hc'; rw [hnil] at hc'; cases hc'
        · have hs := hi.seen c hc.1
          have ht := hi.total
          simp only [sumD_cons]; omega
        · refine ⟨?_, hi.chain⟩
          have hs := hi.seen c hc.1
          have ht := hi.total
          simp; omega
      · cases e
    · cases e
  | ret t h total =>
    simp only [step] at e
    split at e
    · rename_i c ec
      split at e
      · injection e with e; subst e
        constructor
        · exact hi.count
        · exact hi.lockBody
        · intro c' hc'
          have key : ∀ x ∈ calls s, ∃ hd ∈ s.handles, hd.id = x.h := hi.callsLive
          simp only [calls, List.mem_append] at hc'
          rcases hc' with h1 | h2 | h3
          · exact key c' (by simp [calls]; exact Or.inl h1)
          · exact key c' (by simp [calls]; exact Or.inr (Or.inl h2))
          · exact key c' (by simp [calls]; exact Or.inr (Or.inr (List.mem_of_mem_erase h3)))
        · exact hi.freed
        · exact hi.once
        · exact hi.zero
        · exact hi.seen
        · exact hi.total
        · exact hi.chain
      · cases e
    · cases e
  | drop t h =>
    simp only [step] at e
    split at e
    · rename_i hd eh
      split at e
      · rename_i g
        injection e with e; subst e
        have hm := findH_some eh
        simp at g
        have hlen := List.length_erase_of_mem hm.1
        have hpos : 0 < s.handles.length := List.length_pos_of_mem hm.1
        constructor
        · have := hi.count; simp [hlen]; omega
        · exact hi.lockBody
        · intro c hc
          have hc0 : c ∈ calls s := by simpa [calls] using hc
          obtain ⟨x, hx, hk⟩ := hi.callsLive c hc0
          have hne : c.h ≠ h := by
            have := g.2
            simp [inUse] at this
            exact this c hc0
          refine ⟨x, (List.mem_erase_of_ne ?_).mpr hx, hk⟩
          intro hxe; subst hxe; rw [hm.2] at hk; exact hne hk.symm
        · intro hf
          have h0 := hi.freed hf
          have := hi.count
          omega
        · exact hi.once
        · intro h0; simp at h0 ⊢
          have := hi.count; omega
        · exact hi.seen
        · exact hi.total
        · exact hi.chain
      · cases e
    · cases e
  | fetchSub t =>
    simp only [step] at e
    split at e
    · rename_i g
      simp at g
      have hmem : t ∈ s.droppers := g.1
      have hlen := List.length_erase_of_mem hmem
      have hpos : 0 < s.droppers.length := List.length_pos_of_mem hmem
      split at e
      · rename_i g1
        simp at g1
        injection e with e; subst e
        have hc := hi.count
        have hfree : s.freeing = none ∧ s.drops = 0 := by
          have h1 := hi.freed
          have h2 := hi.once
          cases hf : s.freeing with
          | some _ => have := h1 (Or.inl (by simp [hf])); omega
          | none =>
            refine ⟨rfl, ?_⟩
            cases Nat.eq_zero_or_pos s.drops with
            | inl h => exact h
            | inr h => have := h1 (Or.inr h); omega
        constructor
        · simp [hlen]; omega
        · exact hi.lockBody
        · intro c hc'
          exact hi.callsLive c (by simpa [calls] using hc')
        · intro _; rfl
        · simp [hfree.2]
        · intro _; exact Or.inl rfl
        · exact hi.seen
        · exact hi.total
        · exact hi.chain
      · rename_i g1
        simp at g1
        injection e with e; subst e
        have hc := hi.count
        constructor
        · simp [hlen]; omega
        · exact hi.lockBody
        · intro c hc'
          exact hi.callsLive c (by simpa [calls] using hc')
        · intro hf; have := hi.freed hf; omega
        · exact hi.once
        · intro h0; simp at h0; omega
        · exact hi.seen
        · exact hi.total
        · exact hi.chain
    · cases e
  | implDrop t =>
    simp only [step] at e
    split at e
    · rename_i g
      simp at g
      injection e with e; subst e
      have h0 : s.refs = 0 := hi.freed (Or.inl (by simp [g]))
      have h1 := hi.once
      simp [g] at h1
      constructor
      · exact hi.count
      · exact hi.lockBody
      · intro c hc'
        exact hi.callsLive c (by simpa [calls] using hc')
      · intro _; exact h0
      · simp; omega
      · intro _; right; simp; omega
      · exact hi.seen
      · exact hi.total
      · exact hi.chain
    · cases e
  | dropped t =>
    simp only [step] at e
    split at e
    · injection e with e; subst e
      constructor
      · exact hi.count
      · exact hi.lockBody
      · intro c hc'
        exact hi.callsLive c (by simpa [calls] using hc')
      · exact hi.freed
      · exact hi.once
      · exact hi.zero
      · exact hi.seen
      · exact hi.total
      · exact hi.chain
    · cases e


/-! ### all schedules -/

theorem run_inv {s s' : St} {as : List Act} (hi : Inv s) (e : run s as = some s') : Inv s' := by
  induction as generalizing s with
  | nil => simp [run] at e; subst e; exact hi
  | cons a as ih =>
    simp only [run] at e
    split at e
    · rename_i s1 e1; exact ih (step_inv hi e1) e
    · cases e

/-- a state some schedule of client threads can reach from a freshly converted object -/
def Reachable (s : St) : Prop := ∃ t h as, run (init t h) as = some s

theorem reachable_inv {s : St} (r : Reachable s) : Inv s := by
  obtain ⟨t, h, as, e⟩ := r
  exact run_inv (init_inv t h) e

/-- the completed observed histories are schedules of the model: whatever `replay` accepts is reachable -/
theorem run_append {s s1 s2 : St} {as bs : List Act} (e1 : run s as = some s1) (e2 : run s1 bs = some s2) :
    run s (as ++ bs) = some s2 := by
  induction as generalizing s with
  | nil => simp [run] at e1; subst e1; simpa using e2
  | cons a as ih =>
    simp only [run] at e1
    simp only [List.cons_append, run]
    split at e1
    · rename_i s' e'; exact ih e1
    · cases e1

theorem replay_reachable {s s' : St} {as : List Act} {i : Nat} (r : Reachable s) (e : replay s as i = .ok s') :
    Reachable s' := by
  induction as generalizing s i with
  | nil => simp [replay] at e; subst e; exact r
  | cons a as ih =>
    simp only [replay] at e
    split at e
    · rename_i s1 e1
      obtain ⟨t, h, pre, ep⟩ := r
      exact ih ⟨t, h, pre ++ expand s a, run_append ep e1⟩ e
    · cases e

/-- (a) no two method bodies of one implementation instance execute at the same time -/
theorem mutual_exclusion {s : St} (r : Reachable s) :
    s.inBody.length ≤ 1 ∧ ∀ c1 ∈ s.inBody, ∀ c2 ∈ s.inBody, c1 = c2 := by
  have hl := (reachable_inv r).lockBody
  have hle : s.inBody.length ≤ 1 := by rw [hl]; split <;> omega
  refine ⟨hle, ?_⟩
  intro c1 h1 c2 h2
  match hb : s.inBody, h1, h2, hle with
  | [x], h1, h2, _ => simp at h1 h2; rw [h1, h2]
  | _ :: _ :: _, _, _, hle => simp at hle
  | [], h1, _, _ => cases h1

/-- a body is entered only when none is running -/
theorem enter_excludes {s s' : St} {t h seen : Nat} (r : Reachable s) (e : step s (.enter t h seen) = some s') :
    s.inBody = [] ∧ s'.inBody.length = 1 := by
  have hl := (reachable_inv r).lockBody
  simp only [step] at e
  split at e
  · split at e
    · rename_i g
      simp at g
      injection e with e; subst e
      simp [g.1] at hl
      simp [hl]
    · cases e
  · cases e

/-- (b) every invocation observes the effects of all invocations that completed before it:
    the value a body reads is the sum of the effects of every completed body, and the log of
    completed bodies is chained in that way from the first one on -/
theorem observes_completed {s : St} (r : Reachable s) :
    Chained s.log ∧ s.total = sumD s.log ∧ ∀ c ∈ s.inBody, c.val = sumD s.log := by
  have hi := reachable_inv r
  exact ⟨hi.chain, hi.total, fun c hc => (hi.seen c hc).trans hi.total⟩

/-- (c) the implementation is dropped at most once -/
theorem dropped_at_most_once {s : St} (r : Reachable s) : s.drops ≤ 1 := by
  have := (reachable_inv r).once; split at this <;> omega

/-- (d) while the drop is under way or done, no handle is alive, nobody is inside drop(handle)
    before its release, no call is pending, in a body or returning -/
theorem not_dropped_while_in_use {s : St} (r : Reachable s) (h : s.freeing.isSome ∨ 0 < s.drops) :
    s.handles = [] ∧ s.droppers = [] ∧ calls s = [] ∧ s.inBody = [] := by
  have hi := reachable_inv r
  have h0 := hi.freed h
  have hc := hi.count
  have h1 : s.handles = [] := List.eq_nil_of_length_eq_zero (by omega)
  have h2 : s.droppers = [] := List.eq_nil_of_length_eq_zero (by omega)
  have h3 : calls s = [] := by
    cases hcs : calls s with
    | nil => rfl
    | cons c rest =>
      obtain ⟨hd, hm, _⟩ := hi.callsLive c (by rw [hcs]; exact List.mem_cons_self)
      rw [h1] at hm; cases hm
  refine ⟨h1, h2, h3, ?_⟩
  simp [calls] at h3
  exact h3.2.1

/-- as long as a reference exists the implementation is alive -/
theorem alive_while_referenced {s : St} (r : Reachable s) (h : s.handles ≠ [] ∨ s.droppers ≠ []) :
    s.drops = 0 ∧ s.freeing = none := by
  have hi := reachable_inv r
  have hne : s.refs ≠ 0 := by
    have hc := hi.count
    rcases h with h | h
    · have := List.length_pos_iff.mpr h; omega
    · have := List.length_pos_iff.mpr h; omega
  constructor
  · cases Nat.eq_zero_or_pos s.drops with
    | inl h => exact h
    | inr h => exact absurd (hi.freed (Or.inr h)) hne
  · cases hf : s.freeing with
    | none => rfl
    | some _ => exact absurd (hi.freed (Or.inl (by simp [hf]))) hne

/-- (e) once every handle is dropped and every drop(handle) has returned, the implementation
    has been dropped exactly once -/
theorem dropped_after_last_release {s : St} (r : Reachable s) (q : quiescent s = true) : s.drops = 1 := by
  have hi := reachable_inv r
  simp [quiescent] at q
  obtain ⟨⟨⟨q1, q2⟩, q3⟩, _⟩ := q
  have h0 : s.refs = 0 := by rw [hi.count]; simp [q1, q2]
  rcases hi.zero h0 with h | h
  · simp [q3] at h
  · exact h

/-- the count never underflows: the `0 => unreachable!()` arm of `release` cannot be taken and
    the release of a thread inside drop(handle) is always enabled -/
theorem release_enabled {s : St} {t : Nat} (r : Reachable s) (h : t ∈ s.droppers) :
    s.refs ≠ 0 ∧ ∃ s', step s (.fetchSub t) = some s' := by
  have hi := reachable_inv r
  have hpos := List.length_pos_of_mem h
  have hc := hi.count
  have hne : s.refs ≠ 0 := by omega
  refine ⟨hne, ?_⟩
  simp only [step]
  have : (s.droppers.contains t && s.refs != 0) = true := by simp [h, hne]
  rw [if_pos this]
  split <;> exact ⟨_, rfl⟩

/-- the thread that takes the count to zero is the one that frees, immediately and only then -/
theorem last_release_frees {s s' : St} {t : Nat} (r : Reachable s) (e : step s (.fetchSub t) = some s') :
    (s'.freeing = some t ↔ s.refs = 1) ∧ s'.refs + 1 = s.refs := by
  have hi := reachable_inv r
  simp only [step] at e
  split at e
  · rename_i g
    simp at g
    split at e
    · rename_i g1; simp at g1
      injection e with e; subst e; simp [g1]
    · rename_i g1; simp at g1
      injection e with e; subst e
      have hf : s.freeing = none := by
        cases hf : s.freeing with
        | none => rfl
        | some _ => exact absurd (hi.freed (Or.inl (by simp [hf]))) g.2
      simp [hf, g1]; omega
  · cases e

/-! ### the premises are satisfiable: a concrete schedule with two threads, two handles, a
    call, contention on the last release, and the final state quiescent -/

def demo : List Act :=
  [.clone 0 0 1, .send 0 1 1, .recv 1 1, .call 1 1 5, .call 0 0 2, .enter 1 1 0, .exit 1 1 5,
   .enter 0 0 5, .ret 1 1 5, .exit 0 0 7, .ret 0 0 7, .drop 0 0, .drop 1 1, .fetchSub 1, .fetchSub 0,
   .dropped 1, .implDrop 0, .dropped 0]

example : (run (init 0 0) demo).map (fun s => (s.drops, s.total, quiescent s)) = some (1, 7, true) := by decide

/-- entering a body while another one runs is not a behaviour of the model -/
example : run (init 0 0) [.clone 0 0 1, .call 0 0 1, .call 0 1 1, .enter 0 0 0, .enter 0 1 0] = none := by decide

/-- dropping a handle through which a call is in progress is not a behaviour of the model -/
example : run (init 0 0) [.call 0 0 1, .drop 0 0] = none := by decide

end Mink.Conc
