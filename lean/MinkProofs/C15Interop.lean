/-
  C15 (interoperation across revisions) — consequences of `append_to_interface` (the new
  revision's flattened method list is the old one followed by the new methods) and of C07
  (op-codes of an accepted interface are pairwise different) for the dispatch of the generated
  skeletons (`MinkModel.Skel.dispatch`, the function the C04 theorems are about):
  * a call of an OLD method (any envelope an old-revision stub can produce, well-formed or not)
    is dispatched by a NEW-revision skeleton exactly as by the old one;
  * a call of a NEW method is answered INVALID by an OLD-revision skeleton — it never reaches
    a different method.
-/
import MinkProofs.C04
import MinkProofs.C07
namespace Mink.C15

theorem old_call_same_dispatch (mask : Bool) (old new : MIface) (impl : Nat → Bool) (env : Envelope)
    (rx : List (Nat × MFunc)) (hext : MIface.flatFuncs new = MIface.flatFuncs old ++ rx)
    (hknown : ∃ of ∈ MIface.flatFuncs old, of.2.id = methodId mask env.op) :
    dispatch mask new impl env = dispatch mask old impl env := by
  obtain ⟨of, hof, hid⟩ := hknown
  have hsome : ∃ x, (MIface.flatFuncs old).find? (fun of => of.2.id == methodId mask env.op) = some x := by
    cases h : (MIface.flatFuncs old).find? (fun of => of.2.id == methodId mask env.op) with
    | some x => exact ⟨x, rfl⟩
    | none =>
      rw [List.find?_eq_none] at h
      exact absurd (by simpa using hid) (h of hof)
  obtain ⟨x, hx⟩ := hsome
  unfold dispatch
  rw [hext, List.find?_append, hx]
  rfl

theorem new_method_unknown_to_old (mask : Bool) (old new : MIface) (impl : Nat → Bool) (env : Envelope)
    (rx : List (Nat × MFunc)) (hext : MIface.flatFuncs new = MIface.flatFuncs old ++ rx)
    (hnodup : ((MIface.flatFuncs new).map (fun of => of.2.id)).Nodup)
    (g : Nat × MFunc) (hg : g ∈ rx) (hop : methodId mask env.op = g.2.id) :
    dispatch mask old impl env = .invalid := by
  apply C04.unknown_op_invalid
  intro of hof heq
  rw [hext, List.map_append, List.nodup_append] at hnodup
  have := hnodup.2.2 of.2.id (List.mem_map.2 ⟨of, hof, rfl⟩) g.2.id (List.mem_map.2 ⟨g, hg, rfl⟩)
  exact this (heq.trans hop)

end Mink.C15
