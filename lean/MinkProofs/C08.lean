/-
  C08 — Interface error codes: consecutive from 10, ancestors first, same everywhere.
-/
import MinkProofs.C07
namespace Mink.C08
open Mink

theorem mem_intsFrom {e : Int} {n : Nat} {x : Int} (h : x ∈ intsFrom e n) : e ≤ x ∧ x < e + n := by
  induction n generalizing e with
  | zero => simp [intsFrom] at h
  | succ n ih =>
    simp only [intsFrom, List.mem_cons] at h
    rcases h with rfl | h
    · constructor <;> omega
    · have := ih h; omega

theorem nodup_intsFrom (e : Int) (n : Nat) : (intsFrom e n).Nodup := by
  induction n generalizing e with
  | zero => simp [intsFrom]
  | succ n ih =>
    simp only [intsFrom, List.nodup_cons]
    refine ⟨fun h => ?_, ih _⟩
    have := mem_intsFrom h; omega

/-- **C08 (a)** error values of an accepted interface are `10, 11, 12, …` along the
    ancestor-first, declaration-ordered error list; hence consecutive from 10 and unique -/
theorem error_codes_canonical (entry : Entry) (fs : FsModel) (inc : List Nat) (main : Nat) (r : Compiled)
    (h : compile entry fs inc main = .ok r) (mi : MIface) (hm : MNode.iface mi ∈ r.mir) :
    flatErrVals mi = intsFrom 10 (flatErrVals mi).length ∧ (flatErrVals mi).Nodup ∧
    ∀ k (hk : k < (flatErrVals mi).length), (flatErrVals mi)[k] = 10 + (k : Int) := by
  have hp : ∃ sy fuel ns, parseToMir sy fuel ns = .ok r.mir := by
    unfold compile at h
    simp only at h
    repeat' split at h
    all_goals first | (simp at h; done) | skip
    all_goals (simp only [Except.ok.injEq] at h; subst h; exact ⟨_, _, _, by assumption⟩)
  obtain ⟨sy, fuel, ns, hp⟩ := hp
  obtain ⟨i, _, e', o', hn⟩ := C07.parseToMir_iface sy fuel ns r.mir hp mi hm
  obtain ⟨_, _, h3, _, _⟩ := numberIface_spec sy fuel fuel i errorCodeStart 0 mi e' o' hn
  have hr : flatErrVals mi = intsFrom 10 (flatErrVals mi).length := by
    rw [h3, length_intsFrom]; rfl
  refine ⟨hr, ?_, ?_⟩
  · rw [hr]; exact nodup_intsFrom _ _
  · intro k hk
    have : (flatErrVals mi)[k] = (intsFrom 10 (flatErrVals mi).length)[k]'(by rw [length_intsFrom]; exact hk) := by
      congr 1
    rw [this, getElem_intsFrom]

/-- names of the flattened errors in ancestor-first declaration order, from the AST -/
def chainErrorNames (sy : Symbols) : Nat → Iface → List (Nat × Nat)
  | 0, _ => []
  | fuel+1, i =>
    (match i.base with
     | none => []
     | some b => match sy.ifaceLookup b with
       | none => []
       | some bi => chainErrorNames sy fuel bi) ++
    i.members.filterMap fun | .error n => some (i.name, n) | _ => none

theorem numberMembers_errnames (sy : Symbols) (tf : Nat) (owner : Nat) (ms : List Member) (e : Int) (o : Nat)
    (r : List MMember) (e' : Int) (o' : Nat) (h : numberMembers sy tf ms e o = .ok (r, e', o')) :
    (r.filterMap fun | .error n _ => some (owner, n) | _ => none) =
    (ms.filterMap fun | .error n => some (owner, n) | _ => none) := by
  induction ms generalizing e o r e' o' with
  | nil => simp [numberMembers] at h; obtain ⟨rfl, _, _⟩ := h; rfl
  | cons m ms ih =>
    cases m with
    | const c =>
      unfold numberMembers at h; split at h
      · simp at h
      · rename_i h1; simp at h; obtain ⟨rfl, _, _⟩ := h; simpa using ih _ _ _ _ _ h1
    | error n =>
      unfold numberMembers at h; split at h
      · simp at h
      · rename_i h1; simp at h; obtain ⟨rfl, _, _⟩ := h; simp [ih _ _ _ _ _ h1]
    | func mth =>
      unfold numberMembers at h; split at h
      · simp at h
      · split at h
        · simp at h
        · split at h
          · simp at h
          · rename_i h1; simp at h; obtain ⟨rfl, _, _⟩ := h
            simpa using ih _ _ _ _ _ h1

/-- **C08 (b)** the k-th error of the ancestor-first declaration order carries value 10 + k:
    names line up with the AST chain (root ancestor's errors first) -/
theorem error_names_follow_declaration_order (sy : Symbols) (tf fuel : Nat) (i : Iface) (e : Int) (o : Nat)
    (mi : MIface) (e' : Int) (o' : Nat) (h : numberIface sy tf fuel i e o = .ok (mi, e', o')) :
    mi.flatErrors.map (fun x => (x.1, x.2.1)) = chainErrorNames sy fuel i := by
  induction fuel generalizing i e o mi e' o' with
  | zero => simp [numberIface] at h
  | succ fuel ih =>
    unfold numberIface at h
    simp only at h
    split at h
    · simp at h
    · rename_i mb e1 o1 hb
      split at h
      · simp at h
      · rename_i r e2 o2 hm
        simp only [Except.ok.injEq, Prod.mk.injEq] at h
        obtain ⟨rfl, rfl, rfl⟩ := h
        have hown := numberMembers_errnames sy tf i.name _ _ _ _ _ _ hm
        have hbase : mb.flatErrors.map (fun x => (x.1, x.2.1)) =
            (match i.base with
             | none => []
             | some b => match sy.ifaceLookup b with
               | none => []
               | some bi => chainErrorNames sy fuel bi) := by
          split at hb
          · rename_i hbn; simp at hb; obtain ⟨rfl, _, _⟩ := hb; simp [hbn, MIface.flatErrors]
          · rename_i b hbn
            split at hb
            · simp at hb
            · rename_i bi hbi; simp only [hbn, hbi]; exact ih _ _ _ _ _ _ hb
        simp only [chainErrorNames, MIface.flatErrors, List.map_append, hbase, ← hown]
        congr 1
        simp only [MLevel.errors, List.map_filterMap]
        congr 1
        funext x
        cases x <;> rfl

/-- **C08 (c)** a derived interface re-exports its base's errors at the same positions, hence
    (by (a)) with the same values: the base's error list is a prefix of the derived one -/
theorem inherited_errors_prefix (sy : Symbols) (fuel : Nat) (i bi : Iface) (b : Nat)
    (hb : i.base = some b) (hl : sy.ifaceLookup b = some bi) :
    ∃ own, chainErrorNames sy (fuel+1) i = chainErrorNames sy fuel bi ++ own := by
  refine ⟨i.members.filterMap fun | .error n => some (i.name, n) | _ => none, ?_⟩
  simp [chainErrorNames, hb, hl]

/-- non-vacuity: interleaved members over two levels -/
example :
    let base : Iface := ⟨1, none, [.error 20, .func ⟨10, [], false, false⟩, .error 21]⟩
    let leaf : Iface := ⟨2, some 1, [.const { name := 30, ty := .u8, value := 0 }, .error 22]⟩
    let sy : Symbols := { ifaces := [(base, 0), (leaf, 0)] }
    (match numberIface sy 3 3 leaf errorCodeStart 0 with
     | .ok (mi, _, _) => mi.flatErrors
     | .error _ => []) = [(1, 20, 10), (1, 21, 11), (2, 22, 12)] := by decide

end Mink.C08
