/-
  C14 — Edits and flags without interface meaning do not change what is generated.
  Modelled and proved here: the marking block (d). The trivia part (a) is decided by pest
  (text → pair tree) and by the comment-skipping decoders of pst.rs; it is tied by the
  exhaustive per-program trivia sweep of the check (see DESIGN.md), not by a theorem.
-/
import MinkModel.Doc
namespace Mink.C14
open Mink

theorem splitNl_no_newline : ∀ (s : List Char), ∀ l ∈ splitNl s, '\n' ∉ l
  | [], l, h => by simp [splitNl] at h; subst h; simp
  | c :: cs, l, h => by
    unfold splitNl at h
    split at h
    · rename_i hc
      rcases List.mem_cons.1 h with rfl | h
      · simp
      · exact splitNl_no_newline cs l h
    · rename_i hc
      have hc' : c ≠ '\n' := by simpa using hc
      split at h
      · simp only [List.mem_singleton] at h; subst h; simp; exact fun e => hc' e.symm
      · rename_i l0 ls heq
        rcases List.mem_cons.1 h with rfl | h
        · have := splitNl_no_newline cs l0 (by rw [heq]; simp)
          simp only [List.mem_cons, not_or]; exact ⟨fun e => hc' e.symm, this⟩
        · exact splitNl_no_newline cs l (by rw [heq]; simp [h])

theorem dropTrailingCr_sub (l : List Char) : ∀ c ∈ dropTrailingCr l, c ∈ l := by
  intro c hc
  unfold dropTrailingCr at hc
  split at hc
  · rename_i r hr
    have : l = (('\r' :: r).reverse) := by rw [← hr]; simp
    rw [this]; simp; exact Or.inl (by simpa using hc)
  · exact hc

theorem strLines_no_newline (s : List Char) : ∀ l ∈ strLines s, '\n' ∉ l := by
  intro l hl
  simp only [strLines, List.mem_map] at hl
  obtain ⟨p, hp, rfl⟩ := hl
  have hp' : p ∈ splitNl s := by
    split at hp
    · exact (List.dropLast_sublist _).subset hp
    · exact hp
  intro hm
  exact splitNl_no_newline s p hp' (dropTrailingCr_sub p _ hm)

/-- physical lines of a text that is a concatenation of newline-terminated, newline-free lines -/
theorem splitNl_flatMap_lines (ls : List (List Char)) (pre : List Char) (rest : List Char)
    (hno : ∀ l ∈ ls, '\n' ∉ l) (hpre : '\n' ∉ pre) :
    splitNl (ls.flatMap (fun l => pre ++ l ++ ['\n']) ++ rest) = ls.map (fun l => pre ++ l) ++ splitNl rest := by
  induction ls with
  | nil => simp
  | cons l ls ih =>
    simp only [List.flatMap_cons, List.map_cons, List.cons_append, List.append_assoc]
    have key : ∀ (a : List Char) (tail : List Char), '\n' ∉ a →
        splitNl (a ++ '\n' :: tail) = a :: splitNl tail := by
      intro a
      induction a with
      | nil => intro tail _; simp [splitNl]
      | cons c cs ihc =>
        intro tail hn
        simp only [List.mem_cons, not_or] at hn
        have hc : (c == '\n') = false := by simpa using fun e => hn.1 e.symm
        simp only [List.cons_append, splitNl, hc, Bool.false_eq_true, if_false, ihc tail hn.2]
    have hl : '\n' ∉ pre ++ l := by
      simp only [List.mem_append, not_or]; exact ⟨hpre, hno l (by simp)⟩
    have := key (pre ++ l) (ls.flatMap (fun l => pre ++ l ++ ['\n']) ++ rest) hl
    simp only [List.append_assoc, List.singleton_append, List.nil_append] at this ⊢
    have ih' := ih (fun x hx => hno x (by simp [hx]))
    simp only [List.append_assoc] at ih'
    rw [this, ih']

/-- **C14 (d), C / C++ / Rust**: for EVERY marking text, every physical line of the marking
    block is empty or starts with `//` — the block lexes as line comments and blank lines only,
    whatever the marking contains -/
theorem marking_slashes_only_comments (m : List Char) :
    ∀ l ∈ splitNl (renderMarking .slashes m), l = [] ∨ ['/', '/'].isPrefixOf l = true := by
  intro l hl
  unfold renderMarking at hl
  split at hl
  · simp [splitNl] at hl; exact Or.inl hl
  · simp only [List.nil_append] at hl
    have h := splitNl_flatMap_lines (strLines m) ['/', '/', ' '] ['\n'] (strLines_no_newline m) (by decide)
    have e : (strLines m).flatMap (fun l => ['/', '/'] ++ [' '] ++ l ++ ['\n']) =
             (strLines m).flatMap (fun l => ['/', '/', ' '] ++ l ++ ['\n']) := by
      congr 1
    simp only [List.append_nil] at hl
    rw [e, h] at hl
    simp only [List.mem_append, List.mem_map] at hl
    rcases hl with ⟨x, _, rfl⟩ | hl
    · right; simp [List.isPrefixOf]
    · left
      have : splitNl ['\n'] = [[], []] := by decide
      rw [this] at hl; simp at hl; exact hl

/-- **C14 (d), Java — refuted**: a marking line containing `*/` closes the block comment
    early; what follows is Java source text -/
theorem java_marking_refuted :
    renderMarking .javaBlock ['a', '*', '/', 'b'] = "/*\n* a*/b\n*/\n\n".toList := by decide

/-- non-vacuity: the block of upstream's own marking test -/
example : renderMarking .slashes "Copyright\nAll rights\n".toList = "// Copyright\n// All rights\n\n".toList := by decide
example : renderMarking .slashes [] = [] := by decide
example : strLines "a\r\nb".toList = ["a".toList, "b".toList] := by decide

end Mink.C14
