/-
  C05 — Marshalling is reference-count neutral for every object argument (partial: the
  proxy discipline of the C++ backend, single objects and arrays of any length; C and Rust
  perform no count operations at all in their visitors, which is tied by execution).
-/
import MinkModel.Own
namespace Mink.C05
open Mink

/-- wrapping an input slot in a proxy and extracting it again issues no retain and no
    release, and leaves the proxy empty (so its destructor is silent) -/
theorem cpp_skel_in_neutral (t : Option Nat) : runProxy none (cppSkelIn t) = (none, []) := by
  cases t <;> rfl

/-- an output proxy hands over exactly what the implementation produced, without any count
    operation -/
theorem cpp_skel_out_neutral (produced : Option Nat) : runProxy none (cppSkelOut produced) = (none, []) := by
  cases produced <;> rfl

/-- the stub adopts a returned object only on success; on failure the caller's proxy and every
    count are untouched; on success the only event is the release of what the caller's
    out-parameter held before (nothing, for a fresh proxy) -/
theorem cpp_stub_out (held returned : Option Nat) :
    runProxy none (cppStubOut held returned false) = (held, []) ∧
    runProxy none (cppStubOut held returned true) = (returned, releaseOf held) := by
  cases held <;> cases returned <;> simp [cppStubOut, runProxy, stepProxy, releaseOf]

/-- arrays: any number of input slots, each wrapped and extracted -/
def cppSkelInArray : List (Option Nat) → List (List POp)
  | [] => []
  | t :: ts => cppSkelIn t :: cppSkelInArray ts

theorem cpp_skel_in_array_neutral (ts : List (Option Nat)) :
    ∀ prog ∈ cppSkelInArray ts, runProxy none prog = (none, []) := by
  induction ts with
  | nil => intro prog h; simp [cppSkelInArray] at h
  | cons t ts ih =>
    intro prog h
    simp only [cppSkelInArray, List.mem_cons] at h
    rcases h with rfl | h
    · exact cpp_skel_in_neutral t
    · exact ih prog h

/-- **what goes wrong without the discipline** (the regression this guards against): a proxy
    that is not extracted releases the caller's object when it goes out of scope -/
theorem missing_extract_releases (t : Nat) :
    runProxy none [.adopt (some t), .destroy] = (none, [.release t]) ∧ net t [.release t] = -1 := by
  constructor <;> simp [runProxy, stepProxy, releaseOf, net]

/-- neutrality in terms of counts: an event list without events for `t` leaves its count -/
theorem net_nil (t : Nat) : net t [] = 0 := rfl

end Mink.C05

namespace Mink.C05
open Mink

/-- one slot, any pairing, success or failure, fresh caller variable: no count event -/
theorem slot_events_nil (stub skel : BLang) (ok : Bool) (s : ObjSlot) :
    (runProxy none (skelOps skel s)).2 ++ (runProxy none (stubOps ok none stub s)).2 = [] := by
  obtain ⟨d, t⟩ := s
  cases stub <;> cases skel <;> cases d <;> cases ok <;> cases t <;> rfl

/-- **C05 (model level, all 9 pairings, any number of object slots, any pattern of null /
    non-null / aliased objects, success and failure)**: the generated marshalling code issues
    no retain and no release at all; hence the count of every object is what caller and
    implementation themselves make it -/
theorem call_events_nil (stub skel : BLang) (ok : Bool) (slots : List ObjSlot) :
    callEvents stub skel ok slots = [] := by
  unfold callEvents
  induction slots with
  | nil => rfl
  | cons s ss ih =>
    rw [List.flatMap_cons, ih, List.append_nil]
    exact slot_events_nil stub skel ok s

theorem call_neutral (stub skel : BLang) (ok : Bool) (slots : List ObjSlot) (t : Nat) :
    net t (callEvents stub skel ok slots) = 0 := by
  rw [call_events_nil]; rfl

/-- outputs: on success the caller's variable holds exactly the produced object (which the
    skeleton gave up: ownership moved, once); on failure it holds what it held before — no
    output object is adopted -/
theorem output_adopted_iff_ok (stub : BLang) (held : Option Nat) (t : Option Nat) :
    callerHolds true held stub ⟨.out, t⟩ = t ∧ callerHolds false held stub ⟨.out, t⟩ = held := by
  cases stub <;> cases held <;> cases t <;> simp [callerHolds, stubOps, cppStubOut, runProxy, stepProxy]

/-- a re-used caller variable: the only event of the call is the release of what the variable
    held before, and only on success (C++ `consume`) -/
theorem reused_variable_releases_old (skel : BLang) (old : Nat) (t : Option Nat) :
    (runProxy none (stubOps true (some old) .cpp ⟨.out, t⟩)).2 = [.release old] ∧
    (runProxy none (stubOps false (some old) .cpp ⟨.out, t⟩)).2 = [] ∧
    (runProxy none (skelOps skel ⟨.out, t⟩)).2 = [] := by
  cases skel <;> cases t <;> simp [stubOps, skelOps, cppStubOut, cppSkelOut, runProxy, stepProxy, releaseOf]

example : callEvents .cpp .cpp true [⟨.inp, some 1⟩, ⟨.inp, some 1⟩, ⟨.inp, none⟩, ⟨.out, some 2⟩, ⟨.out, none⟩] = [] := by decide

end Mink.C05
