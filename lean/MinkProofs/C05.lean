/-
  C05 — Marshalling is reference-count neutral for every object argument (partial: the
  proxy discipline of the C++ backend, single objects and arrays of any length; C and Rust
  perform no count operations at all in their visitors, which is tied by execution).
-/
import MinkModel.Own
namespace Mink.C05
open Mink

/-- wrapping an input slot in a proxy and extracting it again issues no retain and no
    release, and leaves the proxy empty (so its destructor is silent) -/
theorem cpp_skel_in_neutral (t : Option Nat) : runProxy none (cppSkelIn t) = (none, []) := by
  cases t <;> rfl

/-- an output proxy hands over exactly what the implementation produced, without any count
    operation -/
theorem cpp_skel_out_neutral (produced : Option Nat) : runProxy none (cppSkelOut produced) = (none, []) := by
  cases produced <;> rfl

/-- the stub adopts a returned object only on success; on failure the caller's proxy and every
    count are untouched; on success the only event is the release of what the caller's
    out-parameter held before (nothing, for a fresh proxy) -/
theorem cpp_stub_out (held returned : Option Nat) :
    runProxy none (cppStubOut held returned false) = (held, []) ∧
    runProxy none (cppStubOut held returned true) = (returned, releaseOf held) := by
  cases held <;> cases returned <;> simp [cppStubOut, runProxy, stepProxy, releaseOf]

/-- arrays: any number of input slots, each wrapped and extracted -/
def cppSkelInArray : List (Option Nat) → List (List POp)
  | [] => []
  | t :: ts => cppSkelIn t :: cppSkelInArray ts

theorem cpp_skel_in_array_neutral (ts : List (Option Nat)) :
    ∀ prog ∈ cppSkelInArray ts, runProxy none prog = (none, []) := by
  induction ts with
  | nil => intro prog h; simp [cppSkelInArray] at h
  | cons t ts ih =>
    intro prog h
    simp only [cppSkelInArray, List.mem_cons] at h
    rcases h with rfl | h
    · exact cpp_skel_in_neutral t
    · exact ih prog h

/-- **what goes wrong without the discipline** (the regression this guards against): a proxy
    that is not extracted releases the caller's object when it goes out of scope -/
theorem missing_extract_releases (t : Nat) :
    runProxy none [.adopt (some t), .destroy] = (none, [.release t]) ∧ net t [.release t] = -1 := by
  constructor <;> simp [runProxy, stepProxy, releaseOf, net]

/-- neutrality in terms of counts: an event list without events for `t` leaves its count -/
theorem net_nil (t : Nat) : net t [] = 0 := rfl

end Mink.C05
