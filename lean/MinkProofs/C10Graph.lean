/-
  C10 / C12 / C13 — the cycle passes are complete and order independent: corollaries of
  `toposort_ok_iff_acyclic` (MinkProofs.GraphComplete) for the places where the compiler
  calls the DFS (Cycles::run_pass on the struct and interface graphs, the include graph
  check of the dependency resolver).
-/
import MinkProofs.GraphComplete
import MinkModel.Passes
import MinkModel.Fs
namespace Mink.C10

/-- Cycles::run_pass never reports a cycle on acyclic struct and interface graphs -/
theorem cyclesPass_complete (sy : Symbols) (fuel : Nat) (nodes : List Node) (sg ig : Graph)
    (hw : cyclesPass.walk sy fuel nodes {} {} = .ok (sg, ig))
    (hs : ∀ x, ¬ Reach sg x x) (hi : ∀ x, ¬ Reach ig x x) :
    ∃ order, cyclesPass sy fuel nodes = .ok order := by
  obtain ⟨oi, hoi⟩ := (toposort_ok_iff_acyclic ig).2 hi
  obtain ⟨os, hos⟩ := (toposort_ok_iff_acyclic sg).2 hs
  exact ⟨os, by simp [cyclesPass, hw, hoi, hos]⟩

/-- … and reports one exactly when one of the two graphs has a cycle -/
theorem cyclesPass_cycle_iff (sy : Symbols) (fuel : Nat) (nodes : List Node) (sg ig : Graph)
    (hw : cyclesPass.walk sy fuel nodes {} {} = .ok (sg, ig)) :
    cyclesPass sy fuel nodes = .error .cycles ↔ ((∃ x, Reach ig x x) ∨ (∃ x, Reach sg x x)) := by
  constructor
  · intro h
    simp only [cyclesPass, hw] at h
    cases hi : ig.toposort with
    | error e => exact Or.inl (toposort_err_cycle ig e hi)
    | ok oi =>
      rw [hi] at h
      cases hs : sg.toposort with
      | error e => exact Or.inr (toposort_err_cycle sg e hs)
      | ok os => rw [hs] at h; cases h
  · intro h
    simp only [cyclesPass, hw]
    cases hi : ig.toposort with
    | error e => rfl
    | ok oi =>
      cases hs : sg.toposort with
      | error e => rfl
      | ok os =>
        rcases h with ⟨x, hx⟩ | ⟨x, hx⟩
        · exact absurd hx ((toposort_ok_acyclic ig oi hi).1 x)
        · exact absurd hx ((toposort_ok_acyclic sg os hs).1 x)

/-- the include-graph test of the dependency resolver flags an edge exactly when it closes a cycle -/
theorem include_cycle_flag_iff (g : Graph) (cur target : Nat) :
    (g.addEdge cur target).hasCycle = true ↔ ∃ x, Reach (g.addEdge cur target) x x :=
  hasCycle_iff _

end Mink.C10
