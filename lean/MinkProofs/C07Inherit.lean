/-
  C07 (d) — a method has the identical op-code in the flattened table of every interface that
  inherits it: numbering a derived interface numbers its base chain first, from the same start,
  exactly as numbering the base on its own does (`parse_interface`, mir.rs:472 — the base is
  re-parsed with the counters of the derived interface, which start at the same values).
-/
import MinkProofs.Numbering
namespace Mink.C07
open Mink

/-- the recursion depth allowance does not matter once it suffices -/
theorem numberIface_fuel_succ (sy : Symbols) (tf : Nat) : ∀ (fuel : Nat) (i : Iface) (e : Int) (o : Nat)
    (r : MIface × Int × Nat), numberIface sy tf fuel i e o = .ok r → numberIface sy tf (fuel+1) i e o = .ok r := by
  intro fuel
  induction fuel with
  | zero => intro i e o r h; simp [numberIface] at h
  | succ fuel ih =>
    intro i e o r h
    unfold numberIface at h ⊢
    cases hb : i.base with
    | none => simpa [hb] using h
    | some b =>
      simp only [hb] at h ⊢
      cases hl : sy.ifaceLookup b with
      | none => simp [hl] at h
      | some bi =>
        simp only [hl] at h ⊢
        cases hr : numberIface sy tf fuel bi e o with
        | error x => simp [hr] at h
        | ok v =>
          rw [ih bi e o v hr]
          simpa [hr] using h

theorem numberIface_fuel_le (sy : Symbols) (tf : Nat) (fuel k : Nat) (i : Iface) (e : Int) (o : Nat)
    (r : MIface × Int × Nat) (h : numberIface sy tf fuel i e o = .ok r) : numberIface sy tf (fuel + k) i e o = .ok r := by
  induction k with
  | zero => exact h
  | succ k ih => exact numberIface_fuel_succ sy tf _ i e o r ih

/-- **C07 (d)**: the flattened method table (owner, method with its op-code) and error table of
    a derived interface begin with exactly the tables that numbering its base — on its own,
    from the same start — yields; own methods follow -/
theorem inherited_tables_prefix (sy : Symbols) (tf fuel : Nat) (i bi : Iface) (b : Nat) (e : Int) (o : Nat)
    (mi : MIface) (e' : Int) (o' : Nat)
    (hb : i.base = some b) (hl : sy.ifaceLookup b = some bi)
    (h : numberIface sy tf (fuel+1) i e o = .ok (mi, e', o')) :
    ∃ mb e1 o1 lvl, numberIface sy tf fuel bi e o = .ok (mb, e1, o1) ∧ mi = lvl :: mb ∧
      mi.flatFuncs = mb.flatFuncs ++ lvl.funcs.map (fun f => (lvl.name, f)) ∧
      mi.flatErrors = mb.flatErrors ++ lvl.errors.map (fun x => (lvl.name, x.1, x.2)) := by
  unfold numberIface at h
  simp only [hb, hl] at h
  cases hr : numberIface sy tf fuel bi e o with
  | error x => simp [hr] at h
  | ok v =>
    obtain ⟨mb, e1, o1⟩ := v
    simp only [hr] at h
    cases hm : numberMembers sy tf i.members e1 o1 with
    | error x => simp [hm] at h
    | ok w =>
      obtain ⟨r, e2, o2⟩ := w
      simp only [hm, Except.ok.injEq, Prod.mk.injEq] at h
      obtain ⟨rfl, _, _⟩ := h
      exact ⟨mb, e1, o1, ⟨i.name, r⟩, rfl, rfl, rfl, rfl⟩

/-- every entry of the base's own table occurs, with the same op-code, in the derived table -/
theorem inherited_method_same_code (sy : Symbols) (tf fuel : Nat) (i bi : Iface) (b : Nat)
    (mi mb : MIface) (e' e1 : Int) (o' o1 : Nat)
    (hb : i.base = some b) (hl : sy.ifaceLookup b = some bi)
    (h : numberIface sy tf (fuel+1) i errorCodeStart 0 = .ok (mi, e', o'))
    (hbase : numberIface sy tf fuel bi errorCodeStart 0 = .ok (mb, e1, o1)) :
    ∀ of ∈ mb.flatFuncs, of ∈ mi.flatFuncs := by
  obtain ⟨mb', _, _, lvl, h1, _, h3, _⟩ := inherited_tables_prefix sy tf fuel i bi b _ _ mi e' o' hb hl h
  rw [hbase] at h1
  simp only [Except.ok.injEq, Prod.mk.injEq] at h1
  obtain ⟨rfl, _, _⟩ := h1
  intro of hof
  rw [h3]
  exact List.mem_append_left _ hof

/-- non-vacuity: three levels; the root's method keeps code 0 and the middle one's code 1 in
    every table they appear in -/
example :
    let root : Iface := ⟨1, none, [.func ⟨10, [], false, false⟩]⟩
    let mid : Iface := ⟨2, some 1, [.error 20, .func ⟨11, [], false, false⟩]⟩
    let leaf : Iface := ⟨3, some 2, [.func ⟨12, [], false, false⟩]⟩
    let sy : Symbols := { ifaces := [(root, 0), (mid, 0), (leaf, 0)] }
    let ids := fun (i : Iface) => match numberIface sy 5 5 i errorCodeStart 0 with
      | .ok (mi, _, _) => mi.flatFuncs.map (fun of => (of.1, of.2.name, of.2.id))
      | .error _ => []
    ids root = [(1, 10, 0)] ∧ ids mid = [(1, 10, 0), (2, 11, 1)] ∧ ids leaf = [(1, 10, 0), (2, 11, 1), (3, 12, 2)] := by decide

end Mink.C07
