/-
  C09 / C06 / C16 (after fix 7e13aff) — structs used only as parameter types are handed to the
  cycle pass and hence to the struct verifier: after `visit_param_structs` every struct named by
  a parameter of the interface is a node of the struct graph; graph nodes are never lost by the
  rest of the walk; `toposort` puts every node into the order the struct verifier checks
  (`toposort_ok_acyclic`), and `structVerifier_sound` (C09) does the rest.
-/
import MinkProofs.GraphLemmas
import MinkModel.Passes
namespace Mink.C09

theorem keys_addNode (g : Graph) (n : Nat) : n ∈ (g.addNode n).keys ∧ ∀ k ∈ g.keys, k ∈ (g.addNode n).keys := by
  unfold Graph.addNode
  split
  · rename_i h
    refine ⟨?_, fun k hk => hk⟩
    simp only [List.any_eq_true] at h
    obtain ⟨e, he, hn⟩ := h
    simp only [Graph.keys, List.mem_map]
    exact ⟨e, he, by simpa using hn⟩
  · refine ⟨by simp [Graph.keys], ?_⟩
    intro k hk
    simp only [Graph.keys, List.map_append, List.mem_append]
    exact Or.inl hk

theorem keys_addEdge (g : Graph) (a b : Nat) : ∀ k ∈ g.keys, k ∈ (g.addEdge a b).keys := by
  intro k hk
  unfold Graph.addEdge
  have h1 := (keys_addNode g a).2 k hk
  simp only [Graph.keys, List.map_map, List.mem_map] at h1 ⊢
  obtain ⟨e, he, hek⟩ := h1
  refine ⟨e, he, ?_⟩
  simp only [Function.comp]
  split <;> simpa using hek

/-- the struct walk only adds to the graph -/
theorem visitStructRec_keys (sy : Symbols) : ∀ (fuel : Nat) (s : Struct) (g g' : Graph),
    visitStructRec sy fuel s g = .ok g' → ∀ k ∈ g.keys, k ∈ g'.keys := by
  intro fuel
  induction fuel with
  | zero => intro s g g' h; simp [visitStructRec] at h
  | succ fuel ih =>
    intro s g g' h
    unfold visitStructRec at h
    split at h
    · injection h with h; subst h; exact fun k hk => hk
    · -- the field loop
      have loop : ∀ (fs : List Field) (g g' : Graph),
          structFieldsWith sy (visitStructRec sy fuel) s.name fs g = .ok g' → ∀ k ∈ g.keys, k ∈ g'.keys := by
        intro fs
        induction fs with
        | nil => intro g g' h; simp [structFieldsWith] at h; subst h; exact fun k hk => hk
        | cons fl fs ihf =>
          intro g g' h
          unfold structFieldsWith at h
          split at h
          · split at h
            · cases h
            · rename_i cs _
              split at h
              · cases h
              · rename_i g1 hg1
                intro k hk
                exact ihf g1 g' h k (ih cs _ g1 hg1 k (keys_addEdge g s.name cs.name k hk))
          · exact ihf g g' h
      exact loop s.fields g g' h

theorem cycParamStructs_keys (sy : Symbols) (fuel : Nat) : ∀ (ps : List Param) (g g' : Graph),
    cycParamStructs sy fuel ps g = .ok g' →
    (∀ k ∈ g.keys, k ∈ g'.keys) ∧
    ∀ p ∈ ps, ∀ c cs, p.ty = .custom c → sy.structLookup c = some cs → cs.name ∈ g'.keys := by
  intro ps
  induction ps with
  | nil => intro g g' h; simp [cycParamStructs] at h; subst h; exact ⟨fun k hk => hk, by simp⟩
  | cons p ps ih =>
    intro g g' h
    unfold cycParamStructs at h
    split at h
    · rename_i c hty
      split at h
      · rename_i hlk
        obtain ⟨m1, m2⟩ := ih g g' h
        refine ⟨m1, ?_⟩
        intro q hq c' cs' hc' hl'
        rcases List.mem_cons.1 hq with rfl | hq
        · rw [hty] at hc'; injection hc' with hc'; subst hc'; rw [hlk] at hl'; cases hl'
        · exact m2 q hq c' cs' hc' hl'
      · rename_i cs hlk
        split at h
        · cases h
        · rename_i g1 hg1
          obtain ⟨m1, m2⟩ := ih g1 g' h
          have hmono := visitStructRec_keys sy fuel cs _ g1 hg1
          refine ⟨fun k hk => m1 k (hmono k ((keys_addNode g cs.name).2 k hk)), ?_⟩
          intro q hq c' cs' hc' hl'
          rcases List.mem_cons.1 hq with rfl | hq
          · rw [hty] at hc'; injection hc' with hc'; subst hc'; rw [hlk] at hl'; injection hl' with hl'; subst hl'
            exact m1 _ (hmono _ (keys_addNode g cs.name).1)
          · exact m2 q hq c' cs' hc' hl'
    · obtain ⟨m1, m2⟩ := ih g g' h
      refine ⟨m1, ?_⟩
      intro q hq c' cs' hc' hl'
      rcases List.mem_cons.1 hq with rfl | hq
      · rename_i hne; exact absurd hc' (by intro hx; exact hne c' hx)
      · exact m2 q hq c' cs' hc' hl'

theorem memberParamStructs_keys (sy : Symbols) (fuel : Nat) : ∀ (ms : List Member) (g g' : Graph),
    memberParamStructs sy fuel ms g = .ok g' →
    (∀ k ∈ g.keys, k ∈ g'.keys) ∧
    ∀ m, Member.func m ∈ ms → ∀ p ∈ m.params, ∀ c cs, p.ty = .custom c → sy.structLookup c = some cs → cs.name ∈ g'.keys := by
  intro ms
  induction ms with
  | nil => intro g g' h; simp [memberParamStructs] at h; subst h; exact ⟨fun k hk => hk, by simp⟩
  | cons mb ms ih =>
    intro g g' h
    cases mb with
    | func m =>
      simp only [memberParamStructs] at h
      split at h
      · cases h
      · rename_i g1 hg1
        obtain ⟨p1, p2⟩ := cycParamStructs_keys sy fuel m.params g g1 hg1
        obtain ⟨m1, m2⟩ := ih g1 g' h
        refine ⟨fun k hk => m1 k (p1 k hk), ?_⟩
        intro m' hm' p hp c cs hc hl
        rcases List.mem_cons.1 hm' with heq | hm'
        · injection heq with heq; subst heq
          exact m1 _ (p2 p hp c cs hc hl)
        · exact m2 m' hm' p hp c cs hc hl
    | const c =>
      simp only [memberParamStructs] at h
      obtain ⟨m1, m2⟩ := ih g g' h
      exact ⟨m1, fun m' hm' => m2 m' (by simpa using hm')⟩
    | error n =>
      simp only [memberParamStructs] at h
      obtain ⟨m1, m2⟩ := ih g g' h
      exact ⟨m1, fun m' hm' => m2 m' (by simpa using hm')⟩

/-- **every struct named by a parameter of the interface is a node of the struct graph** after
    `visit_param_structs` (the interface graph being cycle free at that point: otherwise the
    compilation is refused for the cycle) -/
theorem visitParamStructs_keys (sy : Symbols) (fuel : Nat) (ig : Graph) (k : Nat) (i : Iface) (sg sg' : Graph)
    (hc : ig.hasCycle = false) (h : visitParamStructs sy fuel ig (k+1) i sg = .ok sg') :
    (∀ n ∈ sg.keys, n ∈ sg'.keys) ∧
    ∀ m, Member.func m ∈ i.members → ∀ p ∈ m.params, ∀ c cs, p.ty = .custom c → sy.structLookup c = some cs →
      cs.name ∈ sg'.keys := by
  unfold visitParamStructs at h
  simp only [hc, Bool.false_eq_true, if_false] at h
  split at h
  · cases h
  · rename_i g1 hg1
    obtain ⟨m1, m2⟩ := memberParamStructs_keys sy fuel i.members sg g1 hg1
    -- whatever the ancestors add, nothing is lost
    have anc : ∀ (k : Nat) (j : Iface) (a b : Graph), visitParamStructs sy fuel ig k j a = .ok b → ∀ n ∈ a.keys, n ∈ b.keys := by
      intro k
      induction k with
      | zero => intro j a b hh; simp [visitParamStructs] at hh
      | succ k ihk =>
        intro j a b hh
        unfold visitParamStructs at hh
        simp only [hc, Bool.false_eq_true, if_false] at hh
        split at hh
        · cases hh
        · rename_i a1 ha1
          have q1 := (memberParamStructs_keys sy fuel j.members a a1 ha1).1
          split at hh
          · injection hh with hh; subst hh; exact q1
          · split at hh
            · injection hh with hh; subst hh; exact q1
            · intro n hn; exact ihk _ a1 b hh n (q1 n hn)
    split at h
    · injection h with h; subst h; exact ⟨m1, m2⟩
    · split at h
      · injection h with h; subst h; exact ⟨m1, m2⟩
      · have := anc k _ g1 sg' h
        exact ⟨fun n hn => this n (m1 n hn), fun m hm p hp c cs hc' hl => this _ (m2 m hm p hp c cs hc' hl)⟩

/-- … and the order the struct verifier works through contains every node of the struct graph -/
theorem order_contains_keys (sg : Graph) (order : List Nat) (h : sg.toposort = .ok order) :
    ∀ n ∈ sg.keys, n ∈ order := (toposort_ok_acyclic sg order h).2.2.1

end Mink.C09
