/-
  C13 — Output is deterministic and independent of location and path spelling.
  (1) Hash-order independence: the only value that depends on the iteration order of a hash
      table and feeds a decision is the topological order handed to the struct verifier.
      Theorem: the verifier's verdict and the sizes it computes do not depend on WHICH
      dependency-first order it is given.  Together with `toposort_ok_acyclic` (any iteration
      order yields a dependency-first, repetition-free order or a rejection) this makes the
      accept/reject decision independent of hash seeds.
  (2) Location independence: the model's `compile` takes file identities and the two oracle
      tables; paths occur nowhere else (stated as the type of `compile`; checked against the
      real tool by relocation, see the check).
-/
import MinkProofs.C09
namespace Mink.C13
open Mink Mink.C09

/-- `verifyFields` looks at the size table only through the custom types of the fields -/
theorem verifyFields_congr (st1 st2 : SizeStore) (fs : List Field)
    (h : ∀ f ∈ fs, ∀ c, f.ty = .custom c → st1.get c = st2.get c) (size al : Nat) (seen : List Nat) :
    verifyFields st1 fs size al seen = verifyFields st2 fs size al seen := by
  induction fs generalizing size al seen with
  | nil => rfl
  | cons f fs ih =>
    have hf : fieldSA st1 f = fieldSA st2 f := by
      unfold fieldSA
      cases hty : f.ty with
      | custom c => exact h f (by simp) c hty
      | prim p => rfl
      | iface => rfl
      | buffer => rfl
    have ih' := ih (fun g hg c hc => h g (by simp [hg]) c hc)
    unfold verifyFields
    simp only [hf, ih']

theorem get_append_of_some (st : SizeStore) (e : Nat × Nat × Nat) (c : Nat) (v : Nat × Nat)
    (h : st.get c = some v) : (st ++ [e]).get c = some v := by
  simp only [SizeStore.get, List.find?_append, Option.map_eq_some_iff] at h ⊢
  obtain ⟨a, ha, hv⟩ := h
  exact ⟨a, by simp [ha], hv⟩

theorem get_append_new (st : SizeStore) (n : Nat) (v : Nat × Nat) (hn : st.get n = none) :
    (st ++ [(n, v)]).get n = some v := by
  simp only [SizeStore.get, List.find?_append, Option.map_eq_none_iff] at hn ⊢
  simp [hn]

theorem get_append_other (st : SizeStore) (n c : Nat) (v : Nat × Nat) (hne : c ≠ n) :
    (st ++ [(n, v)]).get c = st.get c := by
  simp only [SizeStore.get, List.find?_append]
  cases h : st.find? (fun e => e.1 == c) with
  | some a => simp
  | none =>
    have : (n == c) = false := by simp; exact fun e => hne e.symm
    simp [this]

/-- a table is *consistent* for a struct: verifying the struct against the table gives the
    table's own entry -/
def Consistent (sy : Symbols) (S : SizeStore) (n : Nat) : Prop :=
  ∃ s size al, sy.structLookup n = some s ∧ verifyFields S s.fields 0 0 [] = .ok (size, al) ∧
    ¬ (al == 0 || size % al != 0) = true ∧ S.get n = some (size, al)

/-- successful runs produce a table that is consistent for every struct they walked, as
    long as the order has no repetitions -/
theorem structVerifier_consistent (sy : Symbols) (o : List Nat) (T S : SizeStore)
    (hno : o.Nodup) (hfresh : ∀ n ∈ o, T.get n = none)
    (h : structVerifier sy o T = .ok S) :
    (∀ c v, T.get c = some v → S.get c = some v) ∧ ∀ n ∈ o, Consistent sy S n := by
  induction o generalizing T with
  | nil => simp [structVerifier] at h; subst h; exact ⟨fun _ _ hv => hv, by simp⟩
  | cons m ms ih =>
    rw [List.nodup_cons] at hno
    unfold structVerifier at h
    split at h
    · simp at h
    · rename_i s hs
      split at h
      · simp at h
      · rename_i size al hv
        split at h
        · simp at h
        · rename_i hok
          have hfresh' : ∀ n ∈ ms, (T ++ [(m, size, al)]).get n = none := by
            intro n hn
            rw [get_append_other _ _ _ _ (fun (e : n = m) => hno.1 (by rw [← e]; exact hn))]
            exact hfresh n (by simp [hn])
          obtain ⟨hext, hcons⟩ := ih _ hno.2 hfresh' h
          have hTS : ∀ c v, T.get c = some v → S.get c = some v :=
            fun c v hcv => hext c v (get_append_of_some _ _ _ _ hcv)
          refine ⟨hTS, ?_⟩
          intro n hn
          rcases List.mem_cons.1 hn with rfl | hn
          · refine ⟨s, size, al, hs, ?_, hok, hext _ _ (get_append_new _ _ _ (hfresh _ (by simp)))⟩
            -- the fields' custom types were all found in T, and S extends T
            rw [← hv]
            apply verifyFields_congr
            intro f hf c hc
            -- verifyFields succeeded on T, so the lookup of c in T succeeded
            have hsome : ∃ v, T.get c = some v := by
              have aux : ∀ (fs : List Field) (sz a : Nat) (seen : List Nat) (r : Nat × Nat),
                  verifyFields T fs sz a seen = .ok r → ∀ f ∈ fs, ∀ c, f.ty = .custom c → ∃ v, T.get c = some v := by
                intro fs
                induction fs with
                | nil => intro _ _ _ _ _ f hf; simp at hf
                | cons g gs ihg =>
                  intro sz a seen r hr f hf c hc
                  unfold verifyFields at hr
                  split at hr
                  · simp at hr
                  · split at hr
                    · simp at hr
                    · rename_i isz ial hsa
                      split at hr
                      · simp at hr
                      · split at hr
                        · simp at hr
                        · rcases List.mem_cons.1 hf with rfl | hf
                          · simp only [fieldSA, hc] at hsa; exact ⟨_, hsa⟩
                          · exact ihg _ _ _ _ hr f hf c hc
              exact aux _ _ _ _ _ hv f hf c hc
            obtain ⟨v, hv'⟩ := hsome
            rw [hv', hTS c v hv']
          · exact hcons n hn

/-- every custom field type of a struct in the order occurs earlier in the order -/
def DepsFirst (sy : Symbols) : List Nat → List Nat → Prop
  | _, [] => True
  | pre, n :: post =>
    (∀ s, sy.structLookup n = some s → ∀ f ∈ s.fields, ∀ c, f.ty = .custom c → c ∈ pre) ∧
    DepsFirst sy (pre ++ [n]) post

/-- replaying ANOTHER dependency-first order over structs for which `S` is consistent
    succeeds and reproduces `S`'s entries -/
theorem replay (sy : Symbols) (S : SizeStore) (pre post : List Nat) (T : SizeStore)
    (hT : ∀ c ∈ pre, T.get c = S.get c)
    (hTonly : ∀ c, c ∉ pre → T.get c = none)
    (hd : DepsFirst sy pre post) (hno : (pre ++ post).Nodup)
    (hc : ∀ n ∈ post, Consistent sy S n) :
    ∃ S', structVerifier sy post T = .ok S' ∧ ∀ n ∈ pre ++ post, S'.get n = S.get n := by
  induction post generalizing pre T with
  | nil => exact ⟨T, rfl, by simpa using hT⟩
  | cons n post ih =>
    obtain ⟨s, size, al, hs, hv, hok, hg⟩ := hc n (by simp)
    have hnpre : n ∉ pre := by
      intro hm
      rw [List.nodup_append] at hno
      exact hno.2.2 n hm n (by simp) rfl
    have hvT : verifyFields T s.fields 0 0 [] = .ok (size, al) := by
      rw [← hv]
      apply verifyFields_congr
      intro f hf c hcu
      exact hT c (hd.1 s hs f hf c hcu)
    unfold structVerifier
    simp only [hs, hvT]
    rw [if_neg hok]
    have hT' : ∀ c ∈ pre ++ [n], (T ++ [(n, size, al)]).get c = S.get c := by
      intro c hcm
      rcases List.mem_append.1 hcm with hcm | hcm
      · rw [get_append_other _ _ _ _ (fun (e : c = n) => hnpre (by rw [← e]; exact hcm))]; exact hT c hcm
      · simp only [List.mem_singleton] at hcm; subst hcm
        rw [get_append_new _ _ _ (hTonly _ hnpre), hg]
    have hTonly' : ∀ c, c ∉ pre ++ [n] → (T ++ [(n, size, al)]).get c = none := by
      intro c hcn
      simp only [List.mem_append, List.mem_singleton, not_or] at hcn
      rw [get_append_other _ _ _ _ hcn.2]; exact hTonly c hcn.1
    obtain ⟨S', hS', hall⟩ := ih (pre ++ [n]) _ hT' hTonly' hd.2 (by simpa using hno)
      (fun m hm => hc m (by simp [hm]))
    exact ⟨S', hS', by simpa using hall⟩

/-- **C13 (1) hash-order independence of the struct verifier.** If the verifier accepts one
    repetition-free order `o`, it accepts every dependency-first, repetition-free order `o'`
    over (a subset of) the same structs and computes the same size and alignment for each
    struct. Hence its verdict does not depend on which topological order the hash-table
    iteration happened to produce. -/
theorem structVerifier_order_independent (sy : Symbols) (o o' : List Nat) (S : SizeStore)
    (ho : o.Nodup) (ho' : o'.Nodup) (hd : DepsFirst sy [] o') (hsub : ∀ n ∈ o', n ∈ o)
    (h : structVerifier sy o [] = .ok S) :
    ∃ S', structVerifier sy o' [] = .ok S' ∧ ∀ n ∈ o', S'.get n = S.get n := by
  obtain ⟨_, hcons⟩ := structVerifier_consistent sy o [] S ho (fun _ _ => rfl) h
  obtain ⟨S', h1, h2⟩ := replay sy S [] o' [] (by simp) (fun _ _ => rfl) hd (by simpa using ho')
    (fun n hn => hcons n (hsub n hn))
  exact ⟨S', h1, by simpa using h2⟩

/-- verdict form: two dependency-first, repetition-free orders over the same structs are
    accepted or rejected together -/
theorem structVerifier_verdict_independent (sy : Symbols) (o o' : List Nat)
    (ho : o.Nodup) (ho' : o'.Nodup) (hd : DepsFirst sy [] o) (hd' : DepsFirst sy [] o')
    (hsame : ∀ n, n ∈ o ↔ n ∈ o') :
    isOk (structVerifier sy o []) = isOk (structVerifier sy o' []) := by
  cases h : structVerifier sy o [] with
  | ok S =>
    obtain ⟨S', h', _⟩ := structVerifier_order_independent sy o o' S ho ho' hd' (fun n hn => (hsame n).2 hn) h
    simp [h', isOk]
  | error e =>
    cases h' : structVerifier sy o' [] with
    | error e' => simp [isOk]
    | ok S' =>
      obtain ⟨S, hS, _⟩ := structVerifier_order_independent sy o' o S' ho' ho hd (fun n hn => (hsame n).1 hn) h'
      rw [hS] at h; cases h

/-- non-vacuity: two different dependency-first orders of a diamond, same verdict and sizes -/
example :
    let sy : Symbols := { structs := [(⟨1, [⟨0, .prim .u64, 1⟩]⟩, 0), (⟨2, [⟨0, .custom 1, 1⟩]⟩, 0),
                                      (⟨3, [⟨0, .custom 1, 2⟩]⟩, 0), (⟨4, [⟨0, .custom 2, 1⟩, ⟨1, .custom 3, 1⟩]⟩, 0)] }
    (match structVerifier sy [1, 2, 3, 4] [], structVerifier sy [1, 3, 2, 4] [] with
     | .ok a, .ok b => (a.get 4, b.get 4)
     | _, _ => (none, none)) = (some (24, 8), some (24, 8)) := by decide

end Mink.C13
