/-
  MinkProofs.TablesOk — engine E0: the finite-domain functions of the implementation,
  evaluated on their whole domain by the probe (MinkModel/Generated/Tables.lean, rewritten on
  every run), agree with the model. Checked by the kernel (`decide`), re-checked on every run.
-/
import MinkModel.Generated.Tables
import MinkModel.Pipeline
namespace Mink.TablesOk
open Mink Mink.Gen

/-- the model's `Shape.cmp` equals the real `Param::cmp` on every pair of parameter shapes -/
theorem cmp_table_ok : ∀ e ∈ cmpTable, Shape.cmp e.1 e.2.1 = e.2.2 := by decide +kernel

/-- all 8×8 shape pairs occur in the table, so the tie is exhaustive -/
theorem cmp_table_complete :
    ∀ a ∈ ([⟨.inp,false,false⟩,⟨.inp,false,true⟩,⟨.inp,true,false⟩,⟨.inp,true,true⟩,
            ⟨.out,false,false⟩,⟨.out,false,true⟩,⟨.out,true,false⟩,⟨.out,true,true⟩] : List Shape),
    ∀ b ∈ ([⟨.inp,false,false⟩,⟨.inp,false,true⟩,⟨.inp,true,false⟩,⟨.inp,true,true⟩,
            ⟨.out,false,false⟩,⟨.out,false,true⟩,⟨.out,true,false⟩,⟨.out,true,true⟩] : List Shape),
    ∃ o, (a, b, o) ∈ cmpTable := by decide +kernel

theorem prim_table_ok : ∀ e ∈ primTable,
    e.1.size = e.2.1 ∧ e.1.size = e.2.2.1 ∧ e.1.align = e.2.2.2 := by decide

theorem prim_table_complete :
    ∀ p ∈ ([.u8,.u16,.u32,.u64,.i8,.i16,.i32,.i64,.f32,.f64] : List Prim), ∃ r, r ∈ primTable ∧ r.1 = p := by
  decide

theorem iface_size_ok : ifaceSizeAlign = (ifaceSize, ifaceAlign) := by decide

/-- Small ⇔ size ≤ 16 on both sides of the boundary -/
theorem class_table_ok : ∀ e ∈ classTable, decide (e.1 ≤ bundledSizeMax) = e.2 := by decide

/-- the real numbering accepts `n` parameterless functions iff `n ≤ 0x3FFF + 1`, numbering them
    `0 … n-1`; `MinkProofs.C07.numberFuncs_ok_iff` proves the same closed form for the model -/
theorem op_bound_table_ok : ∀ e ∈ opBoundTable,
    e.2.1 = decide (e.1 ≤ maxOpCode + 1) ∧ (e.2.1 = true → e.2.2.1 = 0 ∧ e.2.2.2 + 1 = e.1) := by decide

theorem err_table_ok :
    (match numberMembers {} 1 [.error 0, .error 1, .error 2] errorCodeStart 0 with
     | .ok (r, _, _) => r.filterMap (fun | .error _ v => some v | _ => none)
     | .error _ => []) = errTable := by decide

/-- one `in buffer` per parameter: `Counter.input_buffers = n`, fatal above 255 -/
def bufFunc (n : Nat) : List MParam := (List.range n).map fun k => ⟨.inp, .buffer, .none, k⟩

theorem counter_buf_table_ok : ∀ e ∈ counterBufTable,
    (if backendOkFunc ⟨0, bufFunc e.1, 0, false, false⟩ then some (counts (bufFunc e.1)).bi else none) = e.2 := by
  decide +kernel

theorem counter_obj_table_ok : ∀ e ∈ counterObjTable,
    (let ps : List MParam := [⟨.inp, .iface none, .bounded e.1, 0⟩]
     if backendOkFunc ⟨0, ps, 0, false, false⟩ then some (counts ps).oi else none) = e.2 := by
  decide +kernel

end Mink.TablesOk
