/-
  C01 — Stub-to-skeleton round trip is value-exact (partial).
  The theorem: walking the shared event list, the decoder recovers from the encoder's payload
  exactly the values that were encoded — for every parameter list, every direction, every
  valuation of the right shape. Stub and skeleton of all backends walk this one event list
  (`visit_params_with_bundling`); that each backend's visitor writes / reads the slots this
  encoder prescribes is tied by execution of the real generated code (the 3x3 bench).
-/
import MinkModel.Wire
namespace Mink.C01
open Mink

/-- the values have the shape the declared parameters prescribe -/
def ShapeOk (p : MParam) (v : PVal) : Prop :=
  match p.vkind with
  | .obj _ => ∃ o, v = .obj o
  | .objArr _ n => ∃ l, v = .objs l ∧ l.length = n
  | .unreachable => False
  | _ => ∃ img objs, v = .data img objs ∧ objs.length = p.nEmb

def BundleOk (ms : List BMember) (v : Nat → PVal) : Prop :=
  ∀ m ∈ ms, ∃ img, v m.name = .data img [] ∧ img.length = m.size

def EvOk (d : Dir) (v : Nat → PVal) : Ev → Prop
  | .inBundle ms => d = .inp → BundleOk ms v
  | .outBundle ms => d = .out → BundleOk ms v
  | .single p => p.dir = d → ShapeOk p (v p.name)

/-- what the receiving side must end up with: the parameters of direction `d` in event order -/
def expected (d : Dir) (v : Nat → PVal) : List Ev → List (Nat × PVal)
  | [] => []
  | .inBundle ms :: es => (if d == .inp then ms.map (fun m => (m.name, v m.name)) else []) ++ expected d v es
  | .outBundle ms :: es => (if d == .out then ms.map (fun m => (m.name, v m.name)) else []) ++ expected d v es
  | .single p :: es => (if p.dir == d then [(p.name, v p.name)] else []) ++ expected d v es

theorem allObjs_map (l : List (Option Nat)) : allObjs (l.map PSlot.obj) = some l := by
  induction l with
  | nil => rfl
  | cons o l ih => simp [allObjs, ih]

theorem decodeParam_encodeParam (p : MParam) (v : PVal) (rest : List PSlot) (h : ShapeOk p v) :
    decodeParam p (encodeParam p v ++ rest) = some (v, rest) := by
  unfold ShapeOk at h
  unfold decodeParam encodeParam
  cases hk : p.vkind with
  | obj t =>
    simp only [hk] at h ⊢
    obtain ⟨o, rfl⟩ := h; simp
  | objArr t n =>
    simp only [hk] at h ⊢
    obtain ⟨l, rfl, hl⟩ := h
    simp only [List.length_append, List.length_map, hl]
    rw [if_neg (by omega)]
    simp [List.take_append_of_le_length, List.drop_append_of_le_length, ← hl, allObjs_map]
  | unreachable => simp only [hk] at h
  | primBuf q =>
    simp only [hk] at h ⊢
    obtain ⟨img, objs, rfl, ho⟩ := h
    simp only [List.cons_append, List.length_append, List.length_map, ho]
    rw [if_neg (by omega)]
    simp [List.take_append_of_le_length, List.drop_append_of_le_length, ← ho, allObjs_map]
  | untypedBuf =>
    simp only [hk] at h ⊢
    obtain ⟨img, objs, rfl, ho⟩ := h
    simp only [List.cons_append, List.length_append, List.length_map, ho]
    rw [if_neg (by omega)]
    simp [List.take_append_of_le_length, List.drop_append_of_le_length, ← ho, allObjs_map]
  | structBuf st =>
    simp only [hk] at h ⊢
    obtain ⟨img, objs, rfl, ho⟩ := h
    simp only [List.cons_append, List.length_append, List.length_map, ho]
    rw [if_neg (by omega)]
    simp [List.take_append_of_le_length, List.drop_append_of_le_length, ← ho, allObjs_map]
  | prim q =>
    simp only [hk] at h ⊢
    obtain ⟨img, objs, rfl, ho⟩ := h
    simp only [List.cons_append, List.length_append, List.length_map, ho]
    rw [if_neg (by omega)]
    simp [List.take_append_of_le_length, List.drop_append_of_le_length, ← ho, allObjs_map]
  | bigStruct st =>
    simp only [hk] at h ⊢
    obtain ⟨img, objs, rfl, ho⟩ := h
    simp only [List.cons_append, List.length_append, List.length_map, ho]
    rw [if_neg (by omega)]
    simp [List.take_append_of_le_length, List.drop_append_of_le_length, ← ho, allObjs_map]
  | smallStruct st =>
    simp only [hk] at h ⊢
    obtain ⟨img, objs, rfl, ho⟩ := h
    simp only [List.cons_append, List.length_append, List.length_map, ho]
    rw [if_neg (by omega)]
    simp [List.take_append_of_le_length, List.drop_append_of_le_length, ← ho, allObjs_map]

theorem splitBySizes_flatMap (ms : List BMember) (v : Nat → PVal) (h : BundleOk ms v) :
    splitBySizes (ms.map (·.size)) (ms.flatMap fun m => (v m.name).img) = some (ms.map fun m => (v m.name).img) := by
  induction ms with
  | nil => rfl
  | cons m ms ih =>
    obtain ⟨img, hv, hl⟩ := h m (by simp)
    have ih' := ih (fun x hx => h x (by simp [hx]))
    have himg : (v m.name).img = img := by rw [hv]; rfl
    simp only [List.map_cons, List.flatMap_cons, splitBySizes, himg]
    rw [if_neg (by simp [hl])]
    simp [← hl, ih']

theorem decodeBundle_encodeBundle (ms : List BMember) (v : Nat → PVal) (rest : List PSlot) (h : BundleOk ms v) :
    decodeBundle ms (encodeBundle ms v :: rest) = some (ms.map (fun m => (m.name, v m.name)), rest) := by
  simp only [decodeBundle, encodeBundle, splitBySizes_flatMap ms v h, Option.map_some, Option.some.injEq, Prod.mk.injEq, and_true]
  induction ms with
  | nil => rfl
  | cons m ms ih =>
    obtain ⟨img, hv, _⟩ := h m (by simp)
    have himg : (v m.name).img = img := by rw [hv]; rfl
    simp only [List.map_cons, List.zip_cons_cons, himg, hv]
    congr 1
    exact ih (fun x hx => h x (by simp [hx]))

/-- **C01 (core round trip)**: for EVERY event list (any parameter multiset, any order, any
    bundling), every direction and every valuation of the declared shapes, decoding the encoded
    payload along the same walk returns exactly the encoded values, parameter by parameter -/
theorem decode_encode (d : Dir) (v : Nat → PVal) (es : List Ev) (h : ∀ e ∈ es, EvOk d v e) :
    decodeDir d es (encodeDir d v es) = some (expected d v es) := by
  induction es with
  | nil => rfl
  | cons e es ih =>
    have ih' := ih (fun x hx => h x (by simp [hx]))
    have he := h e (by simp)
    cases e with
    | inBundle ms =>
      simp only [encodeDir, decodeDir, expected]
      cases d with
      | inp =>
        simp only [beq_self_eq_true, if_true, List.singleton_append]
        rw [decodeBundle_encodeBundle ms v _ (he rfl)]
        simp [ih']
      | out => simpa using ih'
    | outBundle ms =>
      simp only [encodeDir, decodeDir, expected]
      cases d with
      | out =>
        simp only [beq_self_eq_true, if_true, List.singleton_append]
        rw [decodeBundle_encodeBundle ms v _ (he rfl)]
        simp [ih']
      | inp => simpa using ih'
    | single p =>
      simp only [encodeDir, decodeDir, expected]
      by_cases hd : p.dir = d
      · have hb : (p.dir == d) = true := by simp [hd]
        simp only [hb, if_true]
        rw [decodeParam_encodeParam p _ _ (he hd)]
        simp [ih']
      · have hb : (p.dir == d) = false := by simp [hd]
        simp only [hb, Bool.false_eq_true, if_false, List.nil_append]
        exact ih'

/-- **where the full statement fails (1)**: an object-bearing struct of at most 16 bytes inside a
    bundle — the bundle carries bytes only, the embedded object cannot be recovered
    (the real stubs copy the handle bytes into the data buffer) -/
def sSO : MStruct := .mk 20 [.mk 21 (.iface none) 1]
def wBundledObj : List MParam := [⟨.inp, .struct true sSO, .none, 0⟩, ⟨.inp, .prim .u32, .none, 1⟩]
def vBundledObj : Nat → PVal
  | 0 => .data (List.replicate 16 0) [some 7]
  | _ => .data [1, 0, 0, 0] []

theorem bundled_object_lost :
    decodeDir .inp (events wBundledObj) (encodeDir .inp vBundledObj (events wBundledObj)) ≠
      some (expected .inp vBundledObj (events wBundledObj)) := by decide

/-- non-vacuity: a mixed signature (bundle of two primitives, a buffer, a big struct with an
    object, an object array) round-trips -/
def sOB : MStruct := .mk 10 [.mk 11 (.prim .u64) 2, .mk 13 (.iface none) 1]
example :
    let ps : List MParam := [⟨.inp, .prim .u32, .none, 0⟩, ⟨.inp, .buffer, .none, 1⟩, ⟨.inp, .prim .u16, .none, 2⟩,
      ⟨.inp, .struct false sOB, .none, 3⟩, ⟨.inp, .iface none, .bounded 2, 4⟩, ⟨.out, .prim .u8, .none, 5⟩]
    let v : Nat → PVal := fun n => match n with
      | 0 => .data [1, 2, 3, 4] [] | 1 => .data [9, 9, 9] [] | 2 => .data [5, 6] []
      | 3 => .data (List.replicate 32 0) [some 42] | 4 => .objs [some 1, none] | _ => .data [7] []
    decodeDir .inp (events ps) (encodeDir .inp v (events ps)) = some (expected .inp v (events ps)) ∧
    encodeDir .inp v (events ps) =
      [.buf [1, 2, 3, 4, 5, 6], .buf [9, 9, 9], .buf (List.replicate 32 0), .obj (some 42), .obj (some 1), .obj none] := by
  decide

end Mink.C01
