/-
  MinkProofs.GraphComplete — the converse of GraphLemmas: the DFS of graph.rs reports an
  error ONLY when the graph really has a cycle, and the fuel of the model is never the reason
  (a branch never repeats a node, so it is shorter than the number of nodes). Together with
  `toposort_ok_acyclic`: `toposort` succeeds iff the graph is acyclic — for every iteration
  order of the hash tables; the verdict of every cycle pass (includes, structs, interfaces)
  therefore does not depend on that order and never rejects an acyclic input.
-/
import MinkProofs.GraphLemmas
namespace Mink

theorem nodup_subset_length {l m : List Nat} (hn : l.Nodup) (hs : ∀ x ∈ l, x ∈ m) : l.length ≤ m.length := by
  induction l generalizing m with
  | nil => simp
  | cons a l ih =>
    rw [List.nodup_cons] at hn
    have ha : a ∈ m := hs a (by simp)
    have : l.length ≤ (m.erase a).length := by
      apply ih hn.2
      intro x hx
      have hne : x ≠ a := fun h => hn.1 (h ▸ hx)
      exact (List.mem_erase_of_ne hne).mpr (hs x (List.mem_cons_of_mem _ hx))
    rw [List.length_erase_of_mem ha] at this
    have hp := List.length_pos_of_mem ha
    simp; omega

/-- consecutive elements are edges -/
def IsPath (g : Graph) : List Nat → Prop
  | [] => True
  | [_] => True
  | a :: b :: r => b ∈ g.succ a ∧ IsPath g (b :: r)

/-- `n` is a successor of the last node of the branch (nothing to show for an empty branch) -/
def Link (g : Graph) (branch : List Nat) (n : Nat) : Prop :=
  ∀ l, branch.getLast? = some l → n ∈ g.succ l

theorem Reach.snoc {g : Graph} {a b c : Nat} (r : Reach g a b) (h : c ∈ g.succ b) : Reach g a c := by
  induction r with
  | single hv => exact .cons hv (.single h)
  | cons hv _ ih => exact .cons hv (ih h)

theorem isPath_snoc {g : Graph} {p : List Nat} {n : Nat} (hp : IsPath g p) (hl : Link g p n) :
    IsPath g (p ++ [n]) := by
  induction p with
  | nil => simp [IsPath]
  | cons a p ih =>
    cases p with
    | nil =>
      simp only [List.cons_append, List.nil_append, IsPath]
      exact ⟨hl a (by simp), trivial⟩
    | cons b r =>
      simp only [List.cons_append, IsPath] at hp ⊢
      refine ⟨hp.1, ?_⟩
      apply ih hp.2
      intro l hlast
      apply hl l
      simpa [List.getLast?_cons_cons] using hlast

theorem path_reach_last {g : Graph} {p : List Nat} (hp : IsPath g p) :
    ∀ n ∈ p, ∀ l, p.getLast? = some l → n = l ∨ Reach g n l := by
  induction p with
  | nil => intro n hn; cases hn
  | cons a p ih =>
    cases p with
    | nil =>
      intro n hn l hl
      simp at hn hl; left; rw [hn, hl]
    | cons b r =>
      intro n hn l hl
      simp only [IsPath] at hp
      have hl' : (b :: r).getLast? = some l := by simpa [List.getLast?_cons_cons] using hl
      rcases List.mem_cons.1 hn with rfl | hn
      · right
        rcases ih hp.2 b (by simp) l hl' with rfl | hr
        · exact .single hp.1
        · exact .cons hp.1 hr
      · exact ih hp.2 n hn l hl'

/-- a node that is already on the branch and is a successor of its last node lies on a cycle -/
theorem cycle_of_branch {g : Graph} {p : List Nat} {n : Nat} (hp : IsPath g p) (hl : Link g p n) (hn : n ∈ p) :
    Reach g n n := by
  cases hlast : p.getLast? with
  | none =>
    have : p = [] := List.getLast?_eq_none_iff.mp hlast
    subst this; cases hn
  | some l =>
    have he := hl l hlast
    rcases path_reach_last hp n hn l hlast with rfl | hr
    · exact .single he
    · exact hr.snoc he

theorem succ_subset_allNodes (g : Graph) (n v : Nat) (h : v ∈ g.succ n) : v ∈ g.allNodes := by
  unfold Graph.succ at h
  split at h
  · rename_i e he
    have hm := List.mem_of_find?_eq_some he
    simp only [Graph.allNodes, List.mem_append, List.mem_flatMap]
    exact Or.inr ⟨e, hm, h⟩
  · cases h

structure BranchOk (g : Graph) (fuel : Nat) (branch : List Nat) : Prop where
  path : IsPath g branch
  nodup : branch.Nodup
  sub : ∀ x ∈ branch, x ∈ g.allNodes
  fuel : g.allNodes.length + 2 ≤ fuel + branch.length

theorem getLast?_snoc (l : List Nat) (n : Nat) : (l ++ [n]).getLast? = some n := by
  simp

/-- an error of the DFS (of either kind) exhibits a cycle -/
theorem visit_visitList_err (g : Graph) : ∀ fuel,
    (∀ n branch st e, BranchOk g fuel branch → Link g branch n → n ∈ g.allNodes →
        g.visit fuel n branch st = .error e → ∃ x, Reach g x x) ∧
    (∀ ns branch st e, BranchOk g fuel branch → (∀ m ∈ ns, Link g branch m ∧ m ∈ g.allNodes) →
        g.visitList fuel ns branch st = .error e → ∃ x, Reach g x x) := by
  intro fuel
  induction fuel with
  | zero =>
    have hno : ∀ branch, BranchOk g 0 branch → False := by
      intro branch hb
      have := nodup_subset_length hb.nodup hb.sub
      have := hb.fuel
      omega
    exact ⟨fun _ branch _ _ hb _ _ _ => (hno branch hb).elim, fun _ branch _ _ hb _ _ => (hno branch hb).elim⟩
  | succ fuel ih =>
    obtain ⟨_, ihl⟩ := ih
    have hv : ∀ n branch st e, BranchOk g (fuel+1) branch → Link g branch n → n ∈ g.allNodes →
        g.visit (fuel+1) n branch st = .error e → ∃ x, Reach g x x := by
      intro n branch st e hb hl hn h
      unfold Graph.visit at h
      split at h
      · rename_i hc
        exact ⟨n, cycle_of_branch hb.path hl (List.contains_iff_mem.1 hc)⟩
      · rename_i hnb
        have hnb' : n ∉ branch := fun hm => hnb (List.contains_iff_mem.2 hm)
        split at h
        · cases h
        · split at h
          · rename_i e' he'
            have hb' : BranchOk g fuel (branch ++ [n]) := by
              refine ⟨isPath_snoc hb.path hl, ?_, ?_, ?_⟩
              · rw [List.nodup_append]
                refine ⟨hb.nodup, by simp, ?_⟩
                intro a ha b hb2
                simp at hb2; subst hb2
                intro hab; subst hab; exact hnb' ha
              · intro x hx
                rcases List.mem_append.1 hx with hx | hx
                · exact hb.sub x hx
                · simp at hx; subst hx; exact hn
              · have := hb.fuel; simp; omega
            apply ihl (g.succ n) (branch ++ [n]) _ e' hb' ?_ he'
            intro m hm
            refine ⟨?_, succ_subset_allNodes g n m hm⟩
            intro l hlast
            rw [getLast?_snoc] at hlast
            injection hlast with hlast; subst hlast; exact hm
          · cases h
    refine ⟨hv, ?_⟩
    intro ns
    induction ns with
    | nil => intro branch st e _ _ h; simp [visitList_nil] at h
    | cons m ms ihm =>
      intro branch st e hb hall h
      rw [visitList_cons] at h
      split at h
      · rename_i e' he'
        exact hv m branch st e' hb (hall m (by simp)).1 (hall m (by simp)).2 he'
      · rename_i st' _
        exact ihm branch st' e hb (fun x hx => hall x (List.mem_cons_of_mem _ hx)) h

theorem keys_subset_allNodes (g : Graph) (k : Nat) (h : k ∈ g.keys) : k ∈ g.allNodes := by
  simp only [Graph.allNodes, List.mem_append]; exact Or.inl h

/-- **toposort fails ⇒ the graph has a cycle** (and the model's fuel is never the reason) -/
theorem toposort_err_cycle (g : Graph) (e : DfsErr) (h : g.toposort = .error e) : ∃ x, Reach g x x := by
  unfold Graph.toposort at h
  split at h
  · rename_i e' he'
    have hb : BranchOk g (g.allNodes.length + 2) [] := ⟨trivial, List.nodup_nil, by simp, by simp⟩
    refine (visit_visitList_err g _).2 g.keys [] {} e' hb ?_ he'
    intro m hm
    exact ⟨fun l hl => by simp at hl, keys_subset_allNodes g m hm⟩
  · cases h

/-- **toposort succeeds iff the graph is acyclic**, for every iteration order of the tables -/
theorem toposort_ok_iff_acyclic (g : Graph) : (∃ order, g.toposort = .ok order) ↔ ∀ x, ¬ Reach g x x := by
  constructor
  · rintro ⟨order, h⟩; exact (toposort_ok_acyclic g order h).1
  · intro hac
    cases h : g.toposort with
    | ok order => exact ⟨order, rfl⟩
    | error e =>
      obtain ⟨x, hx⟩ := toposort_err_cycle g e h
      exact absurd hx (hac x)

theorem hasCycle_iff (g : Graph) : g.hasCycle = true ↔ ∃ x, Reach g x x := by
  unfold Graph.hasCycle
  cases h : g.toposort with
  | ok order =>
    simp
    exact (toposort_ok_acyclic g order h).1
  | error e =>
    simp
    exact toposort_err_cycle g e h

/-- the verdict depends on the edge relation only, not on how the tables are ordered or on
    which insertion history produced them -/
theorem hasCycle_order_independent (g g' : Graph) (hs : ∀ n v, v ∈ g.succ n ↔ v ∈ g'.succ n) :
    g.hasCycle = g'.hasCycle := by
  have key : ∀ (a b : Graph), (∀ n v, v ∈ a.succ n ↔ v ∈ b.succ n) → ∀ x y, Reach a x y → Reach b x y := by
    intro a b hab x y r
    induction r with
    | single hv => exact .single ((hab _ _).1 hv)
    | cons hv _ ih => exact .cons ((hab _ _).1 hv) ih
  have h1 := hasCycle_iff g
  have h2 := hasCycle_iff g'
  cases hg : g.hasCycle <;> cases hg' : g'.hasCycle <;> try rfl
  · have : ∃ x, Reach g' x x := h2.1 hg'
    obtain ⟨x, hx⟩ := this
    have := h1.2 ⟨x, key g' g (fun n v => (hs n v).symm) x x hx⟩
    rw [hg] at this; cases this
  · have : ∃ x, Reach g x x := h1.1 hg
    obtain ⟨x, hx⟩ := this
    have := h2.2 ⟨x, key g g' hs x x hx⟩
    rw [hg'] at this; cases this

end Mink
