/-
  C12 (d) — exactly the declarations of the reachable files are visible: when the loader
  succeeds, the set of loaded files is the set of files reachable from the main file through
  resolved includes:
  * `loaded_reachable`: every loaded file is reached from the main file by a chain of include
    nodes, each resolved by `FsModel.resolve` from the file that contains it;
  * `loaded_closed`: every include node of every loaded file resolves, and its target is loaded.
-/
import MinkProofs.C12
namespace Mink.C12
open Mink

theorem file_id (fs : FsModel) (id : Nat) (f : File) (h : fs.file id = some f) : f.id = id := by
  unfold FsModel.file at h
  have := List.find?_some h
  simpa using this

/-- one resolved include: file `a` contains an include node that resolves to file `b` -/
def IncStep (fs : FsModel) (sp : List Nat) (a b : Nat) : Prop :=
  ∃ f path d, fs.file a = some f ∧ Node.incl path d ∈ f.nodes ∧ fs.resolve sp a path d = some b

inductive IncReach (fs : FsModel) (sp : List Nat) (main : Nat) : Nat → Prop
  | main : IncReach fs sp main main
  | step {a b : Nat} : IncReach fs sp main a → IncStep fs sp a b → IncReach fs sp main b

/-- every include node of `x` resolves to a loaded file -/
def Closed (fs : FsModel) (sp : List Nat) (st : Store) (x : Nat) : Prop :=
  ∀ f path d, fs.file x = some f → Node.incl path d ∈ f.nodes →
    ∃ y, fs.resolve sp x path d = some y ∧ y ∈ st.loaded

theorem Closed.mono {fs : FsModel} {sp : List Nat} {st st' : Store} {x : Nat}
    (h : Closed fs sp st x) (hm : ∀ y ∈ st.loaded, y ∈ st'.loaded) : Closed fs sp st' x := by
  intro f path d hf hn
  obtain ⟨y, hy, hl⟩ := h f path d hf hn
  exact ⟨y, hy, hm y hl⟩

theorem load_shape (fs : FsModel) (ub : Bool) (st st' : Store) (id : Nat) (f : File)
    (h : st.load fs ub id = .ok (st', f)) :
    fs.file id = some f ∧ st'.current = st.current ∧ st'.cycle = st.cycle ∧ st'.graph = st.graph ∧
    id ∈ st'.loaded ∧ (∀ x ∈ st.loaded, x ∈ st'.loaded) ∧ (∀ x ∈ st'.loaded, x ∈ st.loaded ∨ x = id) := by
  unfold Store.load at h
  split at h
  · cases h
  · rename_i f0 hf0
    split at h
    · rename_i hc
      simp only [Except.ok.injEq, Prod.mk.injEq] at h
      obtain ⟨rfl, rfl⟩ := h
      exact ⟨hf0, rfl, rfl, rfl, List.contains_iff_mem.1 hc, fun x hx => hx, fun x hx => Or.inl hx⟩
    · split at h
      · cases h
      · split at h
        · cases h
        · split at h
          · cases h
          · simp only [Except.ok.injEq, Prod.mk.injEq] at h
            obtain ⟨rfl, rfl⟩ := h
            refine ⟨hf0, rfl, rfl, rfl, by simp, fun x hx => by simp [hx], ?_⟩
            intro x hx
            simp only [List.mem_append, List.mem_singleton] at hx
            exact hx

/-- what one call of the include visitor, made while walking the nodes of file `cur`,
    guarantees -/
structure Post (fs : FsModel) (sp : List Nat) (main cur : Nat) (st st' : Store) : Prop where
  sound : (∀ x ∈ st.loaded, IncReach fs sp main x) → IncReach fs sp main cur → ∀ x ∈ st'.loaded, IncReach fs sp main x
  mono : ∀ x ∈ st.loaded, x ∈ st'.loaded
  current : st'.current = some cur ∨ st'.current = none
  clean : st'.cycle = false → st.cycle = false ∧ st'.current = some cur ∧
    ∀ x ∈ st'.loaded, x ∉ st.loaded → Closed fs sp st' x

theorem Post.refl (fs : FsModel) (sp : List Nat) (main cur : Nat) (st : Store)
    (hc : st.current = some cur ∨ st.current = none) (hc' : st.cycle = false → st.current = some cur) :
    Post fs sp main cur st st :=
  ⟨fun h _ => h, fun _ h => h, hc, fun h => ⟨h, hc' h, fun x hx hnx => absurd hx hnx⟩⟩

theorem Post.trans {fs : FsModel} {sp : List Nat} {main cur : Nat} {a b c : Store}
    (h1 : Post fs sp main cur a b) (h2 : Post fs sp main cur b c) : Post fs sp main cur a c := by
  refine ⟨fun h hr => h2.sound (h1.sound h hr) hr, fun x hx => h2.mono x (h1.mono x hx), h2.current, ?_⟩
  intro hc
  obtain ⟨hb, hcur, hcl⟩ := h2.clean hc
  obtain ⟨ha, _, hcl1⟩ := h1.clean hb
  refine ⟨ha, hcur, ?_⟩
  intro x hx hna
  by_cases hxb : x ∈ b.loaded
  · exact (hcl1 x hxb hna).mono h2.mono
  · exact hcl x hx hxb

/-- the node walk of one file: given the visitor's guarantee for every include node of the
    file, the walk has it too, and — when no cycle was flagged — every include node walked
    has its target loaded -/
theorem walk_post (fs : FsModel) (sp : List Nat) (main : Nat) (f : File) (hf : fs.file f.id = some f)
    (vi : Nat → Bool → Store → Except Stage Store)
    (hnone : ∀ p d st st', st.current = none → vi p d st ≠ .ok st')
    (hvi : ∀ p d st st', Node.incl p d ∈ f.nodes → st.current = some f.id → vi p d st = .ok st' →
      Post fs sp main f.id st st' ∧
      (st'.cycle = false → ∃ y, fs.resolve sp f.id p d = some y ∧ y ∈ st'.loaded)) :
    ∀ (ns : List Node) (st st' : Store), (∀ n ∈ ns, n ∈ f.nodes) →
      (st.current = some f.id ∨ st.current = none) → (st.cycle = false → st.current = some f.id) →
      walkNodesWith vi ns st = .ok st' →
      Post fs sp main f.id st st' ∧
      (st'.cycle = false → ∀ p d, Node.incl p d ∈ ns → ∃ y, fs.resolve sp f.id p d = some y ∧ y ∈ st'.loaded) := by
  intro ns
  induction ns with
  | nil =>
    intro st st' _ hc hc' h
    simp only [walkNodesWith, Except.ok.injEq] at h
    subst h
    exact ⟨Post.refl fs sp main f.id st hc hc', fun _ p d hm => by cases hm⟩
  | cons n ns ih =>
    intro st st' hsub hc hc' h
    have hsub' : ∀ m ∈ ns, m ∈ f.nodes := fun m hm => hsub m (by simp [hm])
    cases n with
    | incl p d =>
      simp only [walkNodesWith] at h
      split at h
      · cases h
      · rename_i st1 h1
        rcases hc with hcur | hcur
        · obtain ⟨p1, t1⟩ := hvi p d st st1 (hsub _ (by simp)) hcur h1
          obtain ⟨p2, t2⟩ := ih st1 st' hsub' p1.current (fun h0 => (p1.clean h0).2.1) h
          refine ⟨p1.trans p2, ?_⟩
          intro hcl q e hm
          rcases List.mem_cons.1 hm with heq | hm
          · injection heq with hq he; subst hq; subst he
            obtain ⟨y, hy, hl⟩ := t1 (p2.clean hcl).1
            exact ⟨y, hy, p2.mono y hl⟩
          · exact t2 hcl q e hm
        · exact absurd h1 (hnone p d st st1 hcur)
    | const c =>
      simp only [walkNodesWith] at h
      obtain ⟨p2, t2⟩ := ih st st' hsub' hc hc' h
      exact ⟨p2, fun hcl q e hm => by
        rcases List.mem_cons.1 hm with heq | hm
        · cases heq
        · exact t2 hcl q e hm⟩
    | struct s =>
      simp only [walkNodesWith] at h
      obtain ⟨p2, t2⟩ := ih st st' hsub' hc hc' h
      exact ⟨p2, fun hcl q e hm => by
        rcases List.mem_cons.1 hm with heq | hm
        · cases heq
        · exact t2 hcl q e hm⟩
    | iface i =>
      simp only [walkNodesWith] at h
      obtain ⟨p2, t2⟩ := ih st st' hsub' hc hc' h
      exact ⟨p2, fun hcl q e hm => by
        rcases List.mem_cons.1 hm with heq | hm
        · cases heq
        · exact t2 hcl q e hm⟩

theorem visitInclude_none (fs : FsModel) (ub : Bool) (sp : List Nat) (fuel : Nat) (p : Nat) (d : Bool) (st st' : Store)
    (h : st.current = none) : visitInclude fs ub sp fuel p d st ≠ .ok st' := by
  cases fuel with
  | zero => simp [visitInclude]
  | succ k => unfold visitInclude; simp [h]

/-- the include visitor: guarantee for a call made while walking file `cur`, whose include
    node `(p, d)` it is, `cur` being reachable -/
theorem visitInclude_post (fs : FsModel) (ub : Bool) (sp : List Nat) (main : Nat) : ∀ (fuel : Nat)
    (p : Nat) (d : Bool) (st st' : Store) (cur : Nat) (fc : File),
    fs.file cur = some fc → Node.incl p d ∈ fc.nodes → st.current = some cur →
    visitInclude fs ub sp fuel p d st = .ok st' →
    Post fs sp main cur st st' ∧
    (st'.cycle = false → ∃ y, fs.resolve sp cur p d = some y ∧ y ∈ st'.loaded) := by
  intro fuel
  induction fuel with
  | zero => intro p d st st' cur fc _ _ _ h; simp [visitInclude] at h
  | succ fuel ih =>
    intro p d st st' cur fc hfc hnode hcur h
    unfold visitInclude at h
    split at h
    · rename_i hn; rw [hcur] at hn; cases hn
    rename_i cur' hcur'
    have hcc : cur = cur' := by rw [hcur] at hcur'; injection hcur'
    subst hcc
    split at h
    · cases h
    · rename_i target htarget
      simp only at h
      split at h
      · -- a cycle was flagged
        simp only [Except.ok.injEq] at h
        subst h
        refine ⟨⟨fun hp _ => hp, fun _ hx => hx, Or.inr rfl, fun hcl => by simp at hcl⟩, fun hcl => by simp at hcl⟩
      · split at h
        · cases h
        · rename_i st1 f hload
          obtain ⟨hf, l1, l2, _, l4, l5, l6⟩ := load_shape fs ub _ _ _ _ hload
          have hfid : f.id = target := file_id fs target f hf
          split at h
          · cases h
          · rename_i st2 hwalk
            simp only [Except.ok.injEq] at h
            subst h
            have hf' : fs.file f.id = some f := by rw [hfid]; exact hf
            obtain ⟨pw, tw⟩ := walk_post fs sp main f hf' (visitInclude fs ub sp fuel)
              (fun q e s s' hn => visitInclude_none fs ub sp fuel q e s s' hn)
              (fun q e s s' hn hc hv => ih q e s s' f.id f hf' hn hc hv)
              f.nodes { st1 with current := some f.id } st2 (fun n hn => hn) (Or.inl rfl) (fun _ => rfl) hwalk
            have hstep : IncStep fs sp cur target := ⟨fc, p, d, hfc, hnode, htarget⟩
            refine ⟨⟨?_, ?_, Or.inl rfl, ?_⟩, ?_⟩
            · intro hp hr
              have hrt : IncReach fs sp main f.id := by rw [hfid]; exact .step hr hstep
              apply pw.sound _ hrt
              intro x hx
              rcases l6 x hx with hx | rfl
              · exact hp x hx
              · rw [← hfid]; exact hrt
            · intro x hx
              exact pw.mono x (l5 x hx)
            · intro hcl
              obtain ⟨c1, _, c3⟩ := pw.clean hcl
              have c1' : st.cycle = false := by rw [l2] at c1; exact c1
              refine ⟨c1', rfl, ?_⟩
              intro x hx hnx
              by_cases hx1 : x ∈ st1.loaded
              · -- newly loaded by this very call: the target itself
                rcases l6 x hx1 with hx0 | rfl
                · exact absurd hx0 hnx
                · intro f' q e hf'' hn
                  have : f' = f := by rw [hf] at hf''; injection hf'' with h; exact h.symm
                  subst this
                  have := tw hcl q e hn
                  rw [hfid] at this
                  exact this
              · exact c3 x hx hx1
            · intro hcl
              exact ⟨target, htarget, pw.mono target l4⟩

/-- **C12 (d)**: when the loader succeeds, the loaded files are exactly the files reachable
    from the main file through resolved includes: each loaded file is reachable, and every
    include node of every loaded file resolves to a loaded file -/
theorem loaded_eq_reachable (fs : FsModel) (ub : Bool) (sp : List Nat) (main : Nat) (st : Store) (f : File)
    (h : loadAll fs ub sp main = .ok (st, f)) :
    (∀ x ∈ st.loaded, IncReach fs sp main x) ∧ (∀ x ∈ st.loaded, Closed fs sp st x) := by
  unfold loadAll at h
  split at h
  · cases h
  · rename_i st0 f0 hl
    obtain ⟨hf, _, l2, _, l4, _, l6⟩ := load_shape fs ub _ _ _ _ hl
    have hfid : f0.id = main := file_id fs main f0 hf
    split at h
    · cases h
    · rename_i st1 hw
      split at h
      · cases h
      · rename_i hc
        simp only [Except.ok.injEq, Prod.mk.injEq] at h
        obtain ⟨rfl, rfl⟩ := h
        have hf' : fs.file f0.id = some f0 := by rw [hfid]; exact hf
        unfold walkFile at hw
        obtain ⟨pw, tw⟩ := walk_post fs sp main f0 hf' (visitInclude fs ub sp (fs.files.length + 2))
          (fun q e s s' hn => visitInclude_none fs ub sp _ q e s s' hn)
          (fun q e s s' hn hcu hv => visitInclude_post fs ub sp main _ q e s s' f0.id f0 hf' hn hcu hv)
          f0.nodes { st0 with current := some f0.id } st1 (fun n hn => hn) (Or.inl rfl) (fun _ => rfl) hw
        have hcl : st1.cycle = false := by simpa using hc
        have hmain : IncReach fs sp main f0.id := by rw [hfid]; exact .main
        constructor
        · apply pw.sound _ hmain
          intro x hx
          rcases l6 x hx with hx | rfl
          · simp at hx
          · exact .main
        · intro x hx
          by_cases hx0 : x ∈ st0.loaded
          · rcases l6 x hx0 with hxe | rfl
            · simp at hxe
            · intro f' q e hf'' hn
              have : f' = f0 := by rw [hf] at hf''; injection hf'' with h; exact h.symm
              subst this
              have := tw hcl q e hn
              rw [hfid] at this
              exact this
          · exact (pw.clean hcl).2.2 x hx hx0

/-- consequently a file that no chain of resolved includes reaches contributes nothing: it is
    not loaded, so none of its declarations is gathered -/
theorem unreachable_not_loaded (fs : FsModel) (ub : Bool) (sp : List Nat) (main : Nat) (st : Store) (f : File)
    (h : loadAll fs ub sp main = .ok (st, f)) (x : Nat) (hx : ¬ IncReach fs sp main x) : x ∉ st.loaded :=
  fun hm => hx ((loaded_eq_reachable fs ub sp main st f h).1 x hm)

/-- and conversely every reachable file is loaded -/
theorem reachable_loaded (fs : FsModel) (ub : Bool) (sp : List Nat) (main : Nat) (st : Store) (f : File)
    (h : loadAll fs ub sp main = .ok (st, f)) (x : Nat) (hx : IncReach fs sp main x) : x ∈ st.loaded := by
  induction hx with
  | main => exact (loadAll_ok fs ub sp main st f h).2.2
  | step _ hs ih =>
    obtain ⟨fa, path, d, hfa, hn, hr⟩ := hs
    obtain ⟨y, hy, hl⟩ := (loaded_eq_reachable fs ub sp main st f h).2 _ ih fa path d hfa hn
    rw [hr] at hy
    injection hy with hy
    subst hy
    exact hl

/-- non-vacuity: the diamond main → {a, b} → c with an unrelated file `z` lying next to them:
    loaded = {main, a, c, b}, `z` is not loaded -/
example : (match loadAll ⟨[⟨0, [.incl 5 false, .incl 6 false], true⟩, ⟨1, [.incl 7 false], true⟩,
      ⟨2, [.incl 7 false], true⟩, ⟨3, [], true⟩, ⟨4, [.struct ⟨9, [⟨0, .prim .u8, 1⟩]⟩], true⟩],
    [(0, 9), (1, 9), (2, 9), (3, 9), (4, 9)], [(9, 5, 1), (9, 6, 2), (9, 7, 3), (9, 8, 4)], []⟩ false [9] 0 with
    | .ok (st, _) => st.loaded | .error _ => []) = [0, 1, 3, 2] := by decide

end Mink.C12
