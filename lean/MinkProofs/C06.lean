/-
  C06 — Struct sizes and field offsets assumed by the compiler equal the target layouts.
-/
import MinkModel.Layout
import MinkProofs.C09
namespace Mink.C06
open Mink

theorem roundUp_of_dvd (x a : Nat) (h : x % a = 0) : roundUp x a = x := by simp [roundUp, h]

theorem mod_of_mod_mul {x a b : Nat} (hb : b = a * (b / a)) (h : x % b = 0) : x % a = 0 := by
  have : a ∣ b := ⟨b / a, hb⟩
  exact Nat.mod_eq_zero_of_dvd (Nat.dvd_trans this (Nat.dvd_of_mod_eq_zero h))

/-- **core**: if every member's (packed) offset is divisible by the alignment the verifier uses,
    and the target's alignment of each member divides the verifier's, the natural C layout puts
    every member at its packed offset (no interior padding) -/
theorem natural_eq_packed_offsets (fs : List (LField × Nat)) (off : Nat)
    (hdiv : ∀ p ∈ fs, p.1.align ∣ p.2)
    (hok : verifierOkFrom off fs = true) :
    cOffsetsFrom off (fs.map (·.1)) = packedOffsetsFrom off (fs.map (·.1)) := by
  induction fs generalizing off with
  | nil => rfl
  | cons p fs ih =>
    obtain ⟨f, va⟩ := p
    simp only [verifierOkFrom, Bool.and_eq_true, beq_iff_eq] at hok
    have hd : f.align ∣ va := hdiv (f, va) (by simp)
    have hmod : off % f.align = 0 :=
      Nat.mod_eq_zero_of_dvd (Nat.dvd_trans hd (Nat.dvd_of_mod_eq_zero hok.1))
    simp only [List.map_cons, cOffsetsFrom, packedOffsetsFrom, roundUp_of_dvd _ _ hmod]
    rw [ih _ (fun q hq => hdiv q (by simp [hq])) hok.2]

/-- **C06**: for a struct the verifier accepts — member offsets divisible by the verifier's
    alignments, total size divisible by the largest of them — whose target alignments divide the
    verifier's (primitives: equal; object fields: 8 divides 16; nested structs: equal), the C /
    C++ / `#[repr(C)]` layout has exactly the packed offsets and `sizeof` equals the summed
    member sizes, i.e. the size the compiler transmits and checks -/
theorem layout_is_packed (fs : List (LField × Nat))
    (hdiv : ∀ p ∈ fs, p.1.align ∣ p.2)
    (hok : verifierOkFrom 0 fs = true)
    (htotal : (packedLayout (fs.map (·.1))).2 % maxAlign (fs.map (·.1)) = 0) :
    cLayout (fs.map (·.1)) = packedLayout (fs.map (·.1)) := by
  unfold cLayout packedLayout at *
  rw [natural_eq_packed_offsets fs 0 hdiv hok]
  simp only at htotal ⊢
  rw [roundUp_of_dvd _ _ htotal]

/-- the target's largest alignment divides the total whenever the verifier's does and every
    alignment is one of 1, 2, 4, 8, 16 with target ≤ verifier member-wise -/
theorem total_ok_of_verifier (size vmax cmax : Nat)
    (hv : vmax ∈ [1, 2, 4, 8, 16]) (hc : cmax ∈ [1, 2, 4, 8, 16]) (hle : cmax ≤ vmax)
    (h : size % vmax = 0) : size % cmax = 0 := by
  simp only [List.mem_cons, List.mem_nil_iff, or_false] at hv hc
  rcases hv with rfl | rfl | rfl | rfl | rfl <;> rcases hc with rfl | rfl | rfl | rfl | rfl <;> omega

/-- **full statement refuted**: a struct that is never verified (declared in an included file
    and not contained in a main-file struct, see `C09.included_struct_unchecked`) can be
    misaligned; the C layout then pads: `struct { uint8 a; uint32 b; }` has b at offset 4 and
    size 8, the compiler assumes 1 and 5 -/
theorem unverified_struct_pads :
    cLayout [⟨1, 1, 1⟩, ⟨4, 4, 1⟩] = ([0, 4], 8) ∧ packedLayout [⟨1, 1, 1⟩, ⟨4, 4, 1⟩] = ([0, 1], 5) := by decide

/-- non-vacuity: upstream's `ObjInStruct` (`uint32[4]`, object, `uint32[4]`, object, `uint32[4]`,
    object): verifier alignments 4/16, target alignments 4/8 -/
example :
    let fs : List (LField × Nat) := [(⟨4, 4, 4⟩, 4), (⟨16, 8, 1⟩, 16), (⟨4, 4, 4⟩, 4), (⟨16, 8, 1⟩, 16), (⟨4, 4, 4⟩, 4), (⟨16, 8, 1⟩, 16)]
    verifierOkFrom 0 fs = true ∧ cLayout (fs.map (·.1)) = ([0, 16, 32, 48, 64, 80], 96) ∧
      packedLayout (fs.map (·.1)) = ([0, 16, 32, 48, 64, 80], 96) := by decide

end Mink.C06
