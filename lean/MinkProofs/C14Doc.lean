/-
  C14 (documentation part) — whatever a documentation block contains, it stays a comment in
  the generated code: in the C, C++ and Java styles the emitted block closes only with its own
  terminator (the only `*/` of the block is its last two characters, for every text that
  itself has no `*/`, which the grammar guarantees), in the Rust style every emitted line
  starts with `///`. Holds for every indentation, asterisk style, byte content (any UTF-8 or
  not) and every `trim_end` that returns a prefix of its argument.
-/
import MinkModel.DocRender
namespace Mink.C14

theorem hasStarSlash_append (a b : List Char) :
    hasStarSlash (a ++ b) = (hasStarSlash a || hasStarSlash b || (a.getLast? == some '*' && b.head? == some '/')) := by
  induction a with
  | nil => cases b <;> simp [hasStarSlash]
  | cons x a ih =>
    cases a with
    | nil =>
      cases b with
      | nil => simp [hasStarSlash]
      | cons y b =>
        simp only [List.cons_append, List.nil_append, hasStarSlash, List.getLast?_singleton, List.head?_cons]
        have e1 : (some x == some '*') = (x == '*') := by simp
        have e2 : (some y == some '/') = (y == '/') := by simp
        rw [e1, e2]
        generalize (x == '*') = p
        generalize (y == '/') = q
        generalize hasStarSlash (y :: b) = r
        cases p <;> cases q <;> cases r <;> rfl
    | cons y a =>
      have ih' := ih
      simp only [List.cons_append] at ih' ⊢
      simp only [hasStarSlash, ih', List.getLast?_cons_cons]
      generalize (x == '*' && y == '/') = p
      generalize hasStarSlash (y :: a) = q
      generalize hasStarSlash b = r
      generalize ((y :: a).getLast? == some '*' && b.head? == some '/') = t
      cases p <;> cases q <;> cases r <;> cases t <;> rfl

theorem hasStarSlash_infix {l m : List Char} (h : l <:+: m) (hm : hasStarSlash m = false) : hasStarSlash l = false := by
  obtain ⟨s, t, rfl⟩ := h
  rw [hasStarSlash_append, hasStarSlash_append] at hm
  cases hl : hasStarSlash l with
  | false => rfl
  | true => rw [hl] at hm; simp at hm

theorem getFrom_suffix (l : List Char) (i : Nat) : getFrom l i <:+ l := by
  unfold getFrom
  split
  · split
    · exact List.nil_suffix
    · exact List.drop_suffix i l
  · exact List.nil_suffix

/-- the text a rendered line takes from the documentation is a contiguous piece of that line -/
theorem piece_infix (trim : List Char → List Char) (htrim : ∀ l, trim l <+: l) (line : List Char) (i : Nat) :
    trim (getFrom line i) <:+: line :=
  (htrim _).isInfix.trans (getFrom_suffix line i).isInfix

theorem docPayload_cases (ds : List Char) :
    docPayload ds = [] ∨ ∃ x, docPayload ds = ' ' :: x ∧ x <:+ ds := by
  cases ds with
  | nil => left; rfl
  | cons c rest =>
    unfold docPayload
    by_cases hc : (c == '*') = true
    · simp only [hc, if_true]
      by_cases hr : rest.isEmpty = true
      · left; simp [hr]
      · right; exact ⟨rest, by simp [hr], List.suffix_cons c rest⟩
    · right; simp only [hc]; exact ⟨c :: rest, by simp, List.suffix_refl _⟩

/-- one rendered line of the C / Java style: no `*/` inside, ends with a newline, starts with `*` -/
theorem line_clean (st : DocStyle) (hst : st ≠ .rust) (trim : List Char → List Char) (htrim : ∀ l, trim l <+: l)
    (indent : Nat) (line : List Char) (hl : hasStarSlash line = false) :
    hasStarSlash (renderDocLine st trim indent line) = false ∧
    (renderDocLine st trim indent line).getLast? = some '\n' ∧
    (renderDocLine st trim indent line).head? = some '*' := by
  have hp : st.pre = ['*'] := by cases st <;> simp_all [DocStyle.pre]
  have hds := hasStarSlash_infix (piece_infix trim htrim line indent) hl
  unfold renderDocLine
  simp only [hp]
  rcases docPayload_cases (trim (getFrom line indent)) with h | ⟨x, h, hx⟩
  · rw [h]; simp [hasStarSlash]
  · rw [h]
    have hxc : hasStarSlash x = false := hasStarSlash_infix hx.isInfix hds
    refine ⟨?_, ?_, by simp⟩
    rotate_left
    · have e3 : (['*'] ++ ' ' :: x ++ ['\n']) = (['*'] ++ ' ' :: x) ++ ['\n'] := by simp
      rw [e3, List.getLast?_concat]
    have e2 : (['*'] ++ ' ' :: x ++ ['\n']) = ['*', ' '] ++ (x ++ ['\n']) := by simp
    rw [e2, hasStarSlash_append, hasStarSlash_append]
    simp [hasStarSlash, hxc]

theorem body_clean (st : DocStyle) (hst : st ≠ .rust) (trim : List Char → List Char) (htrim : ∀ l, trim l <+: l)
    (indent : Nat) (lines : List (List Char)) (hl : ∀ l ∈ lines, hasStarSlash l = false) :
    hasStarSlash (lines.flatMap (renderDocLine st trim indent)) = false ∧
    (lines.flatMap (renderDocLine st trim indent) = [] ∨ (lines.flatMap (renderDocLine st trim indent)).getLast? = some '\n') ∧
    ((lines.flatMap (renderDocLine st trim indent)).head? ≠ some '/') := by
  induction lines with
  | nil => simp [hasStarSlash]
  | cons l ls ih =>
    obtain ⟨h1, h2, h3⟩ := line_clean st hst trim htrim indent l (hl l (by simp))
    obtain ⟨i1, i2, i3⟩ := ih (fun x hx => hl x (List.mem_cons_of_mem _ hx))
    simp only [List.flatMap_cons]
    refine ⟨?_, ?_, ?_⟩
    · rw [hasStarSlash_append, h1, i1, h2]; simp
    · right
      rcases i2 with i2 | i2
      · rw [i2]; simpa using h2
      · rw [List.getLast?_append, i2]; simp
    · cases hrl : renderDocLine st trim indent l with
      | nil => rw [hrl] at h3; cases h3
      | cons c r => rw [hrl] at h3; simp at h3; subst h3; simp

/-- **C / C++ / Java: the documentation block closes only with its own terminator** — the
    emitted text without its final character contains no `*/` -/
theorem doc_block_closes_only_at_end (st : DocStyle) (hst : st ≠ .rust) (trim : List Char → List Char)
    (htrim : ∀ l, trim l <+: l) (indent : Nat) (lines : List (List Char)) (hl : ∀ l ∈ lines, hasStarSlash l = false) :
    hasStarSlash (renderDocLines st trim indent lines).dropLast = false ∧
    ∃ pre, renderDocLines st trim indent lines = pre ++ ['*', '/'] := by
  obtain ⟨b1, b2, b3⟩ := body_clean st hst trim htrim indent lines hl
  have hstop : st.stop = ['*', '/'] := by cases st <;> simp_all [DocStyle.stop]
  unfold renderDocLines
  rw [hstop]
  generalize hb : lines.flatMap (renderDocLine st trim indent) = body at b1 b2 b3
  refine ⟨?_, ⟨st.start ++ ['\n'] ++ body, by simp⟩⟩
  have e : (st.start ++ ['\n'] ++ body ++ ['*', '/']).dropLast = (st.start ++ ['\n']) ++ (body ++ ['*']) := by
    have : (st.start ++ ['\n'] ++ body ++ ['*', '/']) = ((st.start ++ ['\n']) ++ (body ++ ['*'])) ++ ['/'] := by simp
    rw [this, List.dropLast_concat]
  have hs : hasStarSlash (st.start ++ ['\n']) = false := by cases st <;> simp [DocStyle.start, hasStarSlash]
  have hlast : (st.start ++ ['\n']).getLast? = some '\n' := List.getLast?_concat
  have hb2 : hasStarSlash (body ++ ['*']) = false := by
    rw [hasStarSlash_append]; simp [b1, hasStarSlash]
  rw [e, hasStarSlash_append, hs, hb2, hlast]; simp

theorem splitNl_ne_nil (s : List Char) : splitNl s ≠ [] := by
  cases s with
  | nil => simp [splitNl]
  | cons c cs =>
    unfold splitNl
    split
    · simp
    · split <;> simp

theorem splitNl_head_prefix : ∀ (s l : List Char) (ls : List (List Char)), splitNl s = l :: ls → l <+: s
  | [], l, ls, h => by simp [splitNl] at h; obtain ⟨rfl, _⟩ := h; exact List.prefix_refl _
  | c :: cs, l, ls, h => by
    unfold splitNl at h
    split at h
    · injection h with h1 _; subst h1; exact List.nil_prefix
    · split at h
      · rename_i hh; exact absurd hh (splitNl_ne_nil cs)
      · rename_i l1 ls1 hh
        injection h with h1 _; subst h1
        exact List.cons_prefix_cons.2 ⟨rfl, splitNl_head_prefix cs l1 ls1 hh⟩

/-- lines of `str::lines()` of a text without `*/` have none either -/
theorem splitNl_infix (s : List Char) : ∀ l ∈ splitNl s, l <:+: s := by
  induction s with
  | nil => intro l hl; simp [splitNl] at hl; subst hl; exact List.infix_refl _
  | cons c cs ih =>
    intro l hl
    unfold splitNl at hl
    split at hl
    · rcases List.mem_cons.1 hl with rfl | hl
      · exact List.nil_infix
      · exact (ih l hl).trans (List.infix_cons (List.infix_refl _))
    · split at hl
      · rename_i hh; exact absurd hh (splitNl_ne_nil cs)
      · rename_i l0 ls hh
        rcases List.mem_cons.1 hl with rfl | hl
        · have hp : (c :: l0) <+: (c :: cs) := List.cons_prefix_cons.2 ⟨rfl, splitNl_head_prefix cs l0 ls hh⟩
          exact hp.isInfix
        · exact (ih l (by rw [hh]; exact List.mem_cons_of_mem _ hl)).trans (List.infix_cons (List.infix_refl _))

theorem dropTrailingCr_prefix (l : List Char) : dropTrailingCr l <+: l := by
  unfold dropTrailingCr
  split
  · rename_i r h
    have : l = r.reverse ++ ['\r'] := by
      have := congrArg List.reverse h
      simpa using this
    rw [this]; exact List.prefix_append _ _
  · exact List.prefix_refl _

theorem strLines_clean (s : List Char) (h : hasStarSlash s = false) : ∀ l ∈ strLines s, hasStarSlash l = false := by
  intro l hl
  unfold strLines at hl
  simp only [List.mem_map] at hl
  obtain ⟨p, hp, rfl⟩ := hl
  have hp' : p ∈ splitNl s := by
    split at hp
    · exact (List.dropLast_sublist _).subset hp
    · exact hp
  exact hasStarSlash_infix ((dropTrailingCr_prefix p).isInfix.trans (splitNl_infix s p hp')) h

/-- the whole function: for every documentation text without `*/` (the grammar admits no
    other) whatever it renders closes only at its end -/
theorem renderDoc_closes_only_at_end (st : DocStyle) (hst : st ≠ .rust) (trim : List Char → List Char)
    (htrim : ∀ l, trim l <+: l) (doc out : List Char) (hd : hasStarSlash doc = false)
    (h : renderDoc st trim doc = some out) :
    hasStarSlash out.dropLast = false ∧ ∃ pre, out = pre ++ ['*', '/'] := by
  simp only [renderDoc] at h
  split at h
  · cases h
  · split at h
    · cases h
    · injection h with h; subst h
      apply doc_block_closes_only_at_end st hst trim htrim
      intro l hl
      exact strLines_clean doc hd l ((List.dropWhile_suffix _).subset hl) 

/-- Rust: every emitted line starts with `///` (so no documentation text can leave the
    comment); stated on the rendered lines -/
theorem rust_line_is_comment (trim : List Char → List Char) (indent : Nat) (line : List Char) :
    ['/', '/', '/'] <+: renderDocLine .rust trim indent line := by
  unfold renderDocLine
  simp only [DocStyle.pre, List.append_assoc]
  exact List.prefix_append _ _

/-- a rendered line has exactly one newline, its last character, when the source line has none -/
theorem rust_line_one_newline (trim : List Char → List Char) (htrim : ∀ l, trim l <+: l) (indent : Nat)
    (line : List Char) (hn : '\n' ∉ line) :
    ∃ body, renderDocLine .rust trim indent line = ['/', '/', '/'] ++ body ++ ['\n'] ∧ '\n' ∉ body := by
  have hsub : ∀ c ∈ trim (getFrom line indent), c ∈ line := fun c hc => (piece_infix trim htrim line indent).subset hc
  unfold renderDocLine
  simp only [DocStyle.pre]
  refine ⟨_, rfl, ?_⟩
  intro hmem
  rcases docPayload_cases (trim (getFrom line indent)) with h | ⟨x, h, hx⟩
  · rw [h] at hmem; cases hmem
  · rw [h] at hmem
    rcases List.mem_cons.1 hmem with h1 | h1
    · cases h1
    · exact hn (hsub _ (hx.subset h1))

/-- the premises are satisfiable and the statement has content: a documentation text full of
    comment-like material, rendered exactly as the real generator renders it -/
example : renderDoc .c trimEndAscii "*\n * a /* b // c\n   no star * / here\n */".toList.dropLast =
    some "/*\n*\n*  a /* b // c\n*   no star * / here\n*\n*/".toList := by decide

example : ∀ l, trimEndAscii l <+: l := by
  intro l
  unfold trimEndAscii
  have h := List.dropWhile_suffix (fun c => c == ' ' || c == '\t' || c == '\r' || c == '\x0b' || c == '\x0c' || c == '\n') (l := l.reverse)
  obtain ⟨t, ht⟩ := h
  refine ⟨t.reverse, ?_⟩
  have := congrArg List.reverse ht
  simpa using this

end Mink.C14
