/-
  C04 — Skeletons refuse invocations they must not serve, before the implementation.
-/
import MinkModel.Skel
namespace Mink.C04
open Mink

/-- **(counts)** a counts word different from the method's is never served -/
theorem refuse_wrong_counts (mask : Bool) (i : MIface) (impl : Nat → Bool) (env : Envelope)
    (h : ∀ of ∈ i.flatFuncs, of.2.id = methodId mask env.op → env.k ≠ (counts of.2.params).pack) :
    dispatch mask i impl env ≠ .served := by
  unfold dispatch
  split
  · simp
  · rename_i of hf
    have hm := List.mem_of_find?_eq_some hf
    have hid : of.2.id = methodId mask env.op := by simpa using List.find?_some hf
    have hk := h of hm hid
    split
    · simp
    · have : skelServes of.2 env = false := by
        simp only [skelServes, Bool.and_eq_false_iff]
        left; simpa using hk
      simp [this]

/-- **(sizes)** a fixed-size argument whose buffer size differs from the parameter's size is
    never served -/
theorem refuse_wrong_size (mask : Bool) (i : MIface) (impl : Nat → Bool) (env : Envelope)
    (h : ∀ of ∈ i.flatFuncs, of.2.id = methodId mask env.op → ∃ g ∈ guards of.2.params, env.size g.1 ≠ g.2) :
    dispatch mask i impl env ≠ .served := by
  unfold dispatch
  split
  · simp
  · rename_i of hf
    have hm := List.mem_of_find?_eq_some hf
    have hid : of.2.id = methodId mask env.op := by simpa using List.find?_some hf
    obtain ⟨g, hg, hne⟩ := h of hm hid
    split
    · simp
    · have : skelServes of.2 env = false := by
        simp only [skelServes, Bool.and_eq_false_iff]
        right
        rw [List.all_eq_false]
        exact ⟨g, hg, by simpa using hne⟩
      simp [this]

/-- **(op-code)** an op-code of neither the interface nor its ancestors gets INVALID -/
theorem unknown_op_invalid (mask : Bool) (i : MIface) (impl : Nat → Bool) (env : Envelope)
    (h : ∀ of ∈ i.flatFuncs, of.2.id ≠ methodId mask env.op) : dispatch mask i impl env = .invalid := by
  unfold dispatch
  have : i.flatFuncs.find? (fun of => of.2.id == methodId mask env.op) = none := by
    rw [List.find?_eq_none]
    intro of hof; simpa using h of hof
  simp [this]

/-- **(optional)** an optional method the implementor did not provide gets INVALID, whatever
    the envelope -/
theorem optional_unimplemented_invalid (mask : Bool) (i : MIface) (impl : Nat → Bool) (env : Envelope)
    (of : Nat × MFunc) (hf : i.flatFuncs.find? (fun of => of.2.id == methodId mask env.op) = some of)
    (hopt : of.2.optional = true) (hni : impl of.2.id = false) : dispatch mask i impl env = .invalid := by
  simp [dispatch, hf, hopt, hni]

/-- **(served ⇒ well-formed)** conversely, whatever is served carried exactly the method's
    counts word and exactly the required size in every guarded slot -/
theorem served_well_formed (mask : Bool) (i : MIface) (impl : Nat → Bool) (env : Envelope)
    (h : dispatch mask i impl env = .served) :
    ∃ of ∈ i.flatFuncs, of.2.id = methodId mask env.op ∧ env.k = (counts of.2.params).pack ∧
      ∀ g ∈ guards of.2.params, env.size g.1 = g.2 := by
  unfold dispatch at h
  split at h
  · cases h
  · rename_i of hf
    split at h
    · cases h
    · split at h
      · rename_i hs
        simp only [skelServes, Bool.and_eq_true, beq_iff_eq, List.all_eq_true] at hs
        exact ⟨of, List.mem_of_find?_eq_some hf, by simpa using List.find?_some hf, hs.1, hs.2⟩
      · cases h

theorem guardsFrom_bound (es : List Ev) (start : Nat) :
    ∀ g ∈ guardsFrom start es, start ≤ g.1 ∧ g.1 < start + (es.flatMap Ev.slots).length := by
  induction es generalizing start with
  | nil => intro g hg; simp [guardsFrom] at hg
  | cons e es ih =>
    intro g hg
    simp only [guardsFrom, List.mem_append] at hg
    simp only [List.flatMap_cons, List.length_append]
    rcases hg with hg | hg
    · have hpos : 0 < e.slots.length := by
        cases e with
        | inBundle ms => simp [Ev.slots]
        | outBundle ms => simp [Ev.slots]
        | single p =>
          simp only [Ev.fixedSize] at hg
          simp only [Ev.slots, MParam.slots]
          cases hk : p.vkind <;> simp_all
      split at hg
      · simp only [List.mem_singleton] at hg; subst hg; simp; omega
      · simp at hg
    · have := ih (start + e.slots.length) g hg
      omega

/-- **(memory)** every guard reads the size field of a slot that exists: its index is below
    the number of slots the walk emits for the method -/
theorem guards_in_bounds (ps : List MParam) : ∀ g ∈ guards ps, g.1 < (slotSections ps).length := by
  intro g hg
  have := guardsFrom_bound (events ps) 0 g hg
  simpa [slotSections] using this.2

/-- non-vacuity + Rust/C difference on modifier bits: op 0x10000 | 0 reaches method 0 in C/C++
    (masked) and is INVALID in Rust (unmasked) -/
example :
    let f : MFunc := ⟨7, [⟨.inp, .prim .u32, .none, 0⟩, ⟨.out, .prim .u8, .none, 1⟩], 0, false, false⟩
    let i : MIface := [⟨1, [.func f]⟩]
    let good : Envelope := ⟨0, 0x11, fun n => if n = 0 then 4 else 1⟩
    dispatch true i (fun _ => true) good = .served ∧
    dispatch true i (fun _ => true) { good with k := 0x12 } = .refused ∧
    dispatch true i (fun _ => true) { good with size := fun _ => 5 } = .refused ∧
    dispatch true i (fun _ => true) { good with op := 1 } = .invalid ∧
    dispatch true i (fun _ => true) { good with op := 0x10000 } = .served ∧
    dispatch false i (fun _ => true) { good with op := 0x10000 } = .invalid := by decide

end Mink.C04
