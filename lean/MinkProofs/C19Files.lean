/-
  C19 — one file per interface: the positive half. `rust_case_fold_collision` refutes the
  statement when two interface names fold to one key; here it is proved whenever the key
  function separates the interfaces of the compiled file (always the case for Java, whose key
  is the name itself, and for Rust whenever no two names differ by case only).
-/
import MinkProofs.C19
namespace Mink.C19
open Mink

theorem mem_insert_self (fs : FileSet) (k : Nat) (v : List Nat) : (k, v) ∈ fs.insert k v := by
  unfold FileSet.insert
  split
  · rename_i hany
    obtain ⟨e, he, hk⟩ := List.any_eq_true.1 hany
    exact List.mem_map.2 ⟨e, he, by simp [hk]⟩
  · simp

theorem mem_insert_other (fs : FileSet) (k : Nat) (v : List Nat) (e : Nat × List Nat) (he : e ∈ fs) (hk : e.1 ≠ k) :
    e ∈ fs.insert k v := by
  unfold FileSet.insert
  split
  · refine List.mem_map.2 ⟨e, he, ?_⟩
    have : (e.1 == k) = false := by simpa using hk
    simp [this]
  · simp [he]

theorem mem_appendTo_other (fs : FileSet) (k : Nat) (v : List Nat) (e : Nat × List Nat) (he : e ∈ fs) (hk : e.1 ≠ k) :
    e ∈ fs.appendTo k v := by
  unfold FileSet.appendTo
  refine List.mem_map.2 ⟨e, he, ?_⟩
  have : (e.1 == k) = false := by simpa using hk
  simp [this]

/-- an entry under a key that no later interface maps to, and that is not the base, survives
    the rest of the walk unchanged -/
theorem multiFiles_keeps (key : Nat → Nat) (base : Nat) (mir : List MNode) (fs : FileSet) (e : Nat × List Nat)
    (he : e ∈ fs) (hb : e.1 ≠ base) (hfree : ∀ j ∈ ifaceNames mir, key j ≠ e.1) :
    e ∈ multiFiles key base mir fs := by
  induction mir generalizing fs with
  | nil => exact he
  | cons n ns ih =>
    cases n with
    | incl p => simp only [multiFiles]; exact ih fs he (by simpa [ifaceNames] using hfree)
    | const c => simp only [multiFiles]; exact ih _ (mem_appendTo_other fs base _ e he hb) (by simpa [ifaceNames] using hfree)
    | struct sm s => simp only [multiFiles]; exact ih _ (mem_appendTo_other fs base _ e he hb) (by simpa [ifaceNames] using hfree)
    | iface i =>
      cases i with
      | nil => simp only [multiFiles]; exact ih fs he (by simpa [ifaceNames] using hfree)
      | cons l ls =>
        have hfree' : ∀ j ∈ ifaceNames ns, key j ≠ e.1 := fun j hj => hfree j (by simp [ifaceNames, hj])
        have hl : key l.name ≠ e.1 := hfree l.name (by simp [ifaceNames])
        simp only [multiFiles]
        split
        · exact ih _ (mem_appendTo_other fs base _ e he hb) hfree'
        · exact ih _ (mem_insert_other fs _ _ e he (fun h => hl h.symm)) hfree'

/-- **C19 (one file per interface), whenever the keys separate the interfaces**: every
    interface of the compiled file whose key is not the file-level module's gets a file of
    its own holding exactly that interface -/
theorem one_file_per_interface (key : Nat → Nat) (base : Nat) (mir : List MNode) (fs : FileSet)
    (hnd : (ifaceNames mir).Nodup)
    (hinj : ∀ i ∈ ifaceNames mir, ∀ j ∈ ifaceNames mir, key i = key j → i = j) :
    ∀ i ∈ ifaceNames mir, key i ≠ base → ∃ e ∈ multiFiles key base mir fs, e.1 = key i ∧ e.2 = [i] := by
  induction mir generalizing fs with
  | nil => intro i hi; cases hi
  | cons n ns ih =>
    cases n with
    | incl p => simp only [multiFiles, ifaceNames] at *; exact ih _ hnd hinj
    | const c => simp only [multiFiles, ifaceNames] at *; exact ih _ hnd hinj
    | struct sm s => simp only [multiFiles, ifaceNames] at *; exact ih _ hnd hinj
    | iface i0 =>
      cases i0 with
      | nil => simp only [multiFiles, ifaceNames] at *; exact ih _ hnd hinj
      | cons l ls =>
        simp only [ifaceNames, List.nodup_cons] at hnd
        have hinj' : ∀ i ∈ ifaceNames ns, ∀ j ∈ ifaceNames ns, key i = key j → i = j :=
          fun i hi j hj h => hinj i (by simp [ifaceNames, hi]) j (by simp [ifaceNames, hj]) h
        intro i hi hib
        simp only [ifaceNames, List.mem_cons] at hi
        simp only [multiFiles]
        rcases hi with rfl | hi
        · have hne : (key l.name == base) = false := by simpa using hib
          simp only [hne]
          refine ⟨(key l.name, [l.name]), ?_, rfl, rfl⟩
          apply multiFiles_keeps key base ns _ _ (mem_insert_self fs _ _) hib
          intro j hj hk
          have := hinj j (by simp [ifaceNames, hj]) l.name (by simp [ifaceNames]) hk
          subst this
          exact hnd.1 hj
        · split
          · exact ih _ hnd.2 hinj' i hi hib
          · exact ih _ hnd.2 hinj' i hi hib

/-- Java: the key is the interface name itself, so the statement holds for every accepted
    file (interface names are pairwise different: `C09.gatherSymbols_unique`) -/
theorem java_one_file_per_interface (base : Nat) (mir : List MNode) (hnd : (ifaceNames mir).Nodup) :
    OneFilePerInterface id base mir :=
  one_file_per_interface id base mir _ hnd (fun _ _ _ _ h => h)

example : multiFiles id 0 [.iface [⟨1, []⟩], .const { name := 5, ty := .u8, value := 0 }, .iface [⟨2, []⟩]] [(0, [])]
    = [(0, [5]), (1, [1]), (2, [2])] := by decide

end Mink.C19
