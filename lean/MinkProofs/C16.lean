/-
  C16 — Compiler is total and memory-safe on arbitrary input; debug and release agree
  (partial: what is logic). Memory faults, stack depth and wall-clock behaviour cannot be
  exhibited by the model; they are explored by the check on the debug and release binaries.
-/
import MinkModel.Literal
import MinkModel.Pipeline
namespace Mink.C16
open Mink

/-- `parse_array_len` (pst.rs): the bound must parse as a `NonZeroU16` -/
def decodeArrayLen (digits : List Char) : Option Nat :=
  match digitsVal 10 digits with
  | some n => if 1 ≤ n ∧ n ≤ 65535 then some n else none
  | none => none

/-- **(a)** every accepted array bound lies in 1..=65535; anything else is a diagnostic in
    both build profiles (one function, no `unwrap_unchecked` left on this path) -/
theorem decodeArrayLen_range (d : List Char) (n : Nat) (h : decodeArrayLen d = some n) : 1 ≤ n ∧ n ≤ 65535 := by
  unfold decodeArrayLen at h
  split at h
  · split at h
    · rename_i hr; simp at h; subst h; exact hr
    · simp at h
  · simp at h

example : decodeArrayLen ['0'] = none ∧ decodeArrayLen ['6','5','5','3','6'] = none ∧
    decodeArrayLen ['6','5','5','3','5'] = some 65535 ∧ decodeArrayLen ['1'] = some 1 := by decide

/-- **(c)** machine arithmetic: wrapping (release) and checked (debug) evaluation of a size or
    count agree whenever the mathematical value fits the machine word; then both builds take
    the same decision and emit the same number -/
theorem wrap_eq_checked (bits n : Nat) (h : n < 2 ^ bits) : n % 2 ^ bits = n := Nat.mod_eq_of_lt h

/-- the `u8` argument counters never get near wrapping for an accepted method: the interface
    verifier bounds every class by 15 -/
theorem counters_fit_u8 (f : MFunc) (h : checkFunc f = .ok ()) :
    (counts f.params).bi < 256 ∧ (counts f.params).bo < 256 ∧ (counts f.params).oi < 256 ∧
    (counts f.params).oo < 256 ∧ (counts f.params).total < 256 := by
  have hf : (counts f.params).fits15 = true := by
    unfold checkFunc at h
    split at h
    · simp at h
    · split at h
      · simp at h
      · split at h
        · simp at h
        · rename_i hf; simpa using hf
  simp only [Counts.fits15, Bool.and_eq_true, decide_eq_true_eq] at hf
  simp only [Counts.total]
  omega

/-- size arithmetic is NOT protected: the expanded size of a struct can exceed 2^64 — the
    debug build panics on the multiplication, the release build wraps (known finding) -/
example :
    let a : MStruct := .mk 1 [.mk 0 (.prim .u64) 65535]
    let b : MStruct := .mk 2 [.mk 0 (.struct false a) 65535]
    let c : MStruct := .mk 3 [.mk 0 (.struct false b) 65535]
    let d : MStruct := .mk 4 [.mk 0 (.struct false c) 65535]
    let e : MStruct := .mk 5 [.mk 0 (.struct false d) 65535]
    e.size ≥ 2 ^ 64 := by decide

end Mink.C16
