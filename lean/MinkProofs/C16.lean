/-
  C16 — Compiler is total and memory-safe on arbitrary input; debug and release agree
  (partial: what is logic). Memory faults, stack depth and wall-clock behaviour cannot be
  exhibited by the model; they are explored by the check on the debug and release binaries.
-/
import MinkModel.Literal
import MinkModel.Pipeline
import MinkProofs.C09
namespace Mink.C16
open Mink

/-- `parse_array_len` (pst.rs): the bound must parse as a `NonZeroU16` -/
def decodeArrayLen (digits : List Char) : Option Nat :=
  match digitsVal 10 digits with
  | some n => if 1 ≤ n ∧ n ≤ 65535 then some n else none
  | none => none

/-- **(a)** every accepted array bound lies in 1..=65535; anything else is a diagnostic in
    both build profiles (one function, no `unwrap_unchecked` left on this path) -/
theorem decodeArrayLen_range (d : List Char) (n : Nat) (h : decodeArrayLen d = some n) : 1 ≤ n ∧ n ≤ 65535 := by
  unfold decodeArrayLen at h
  split at h
  · split at h
    · rename_i hr; simp at h; subst h; exact hr
    · simp at h
  · simp at h

example : decodeArrayLen ['0'] = none ∧ decodeArrayLen ['6','5','5','3','6'] = none ∧
    decodeArrayLen ['6','5','5','3','5'] = some 65535 ∧ decodeArrayLen ['1'] = some 1 := by decide

/-- **(c)** machine arithmetic: wrapping (release) and checked (debug) evaluation of a size or
    count agree whenever the mathematical value fits the machine word; then both builds take
    the same decision and emit the same number -/
theorem wrap_eq_checked (bits n : Nat) (h : n < 2 ^ bits) : n % 2 ^ bits = n := Nat.mod_eq_of_lt h

/-- the `u8` argument counters never get near wrapping for an accepted method: the interface
    verifier bounds every class by 15 -/
theorem counters_fit_u8 (f : MFunc) (h : checkFunc f = .ok ()) :
    (counts f.params).bi < 256 ∧ (counts f.params).bo < 256 ∧ (counts f.params).oi < 256 ∧
    (counts f.params).oo < 256 ∧ (counts f.params).total < 256 := by
  have hf : (counts f.params).fits15 = true := by
    unfold checkFunc at h
    split at h
    · simp at h
    · split at h
      · simp at h
      · split at h
        · simp at h
        · rename_i hf; simpa using hf
  simp only [Counts.fits15, Bool.and_eq_true, decide_eq_true_eq] at hf
  simp only [Counts.total]
  omega

/-- **(c), struct sizes (fix 32d1f86)**: for every struct of an accepted compilation the size
    — and every running sum on the way to it (`FieldsAligned` carries the bound per field) —
    is below `usizeLimit`: the wrapping evaluation of an optimised build and the checked one of
    a debug build give the same number, which is the number emitted -/
theorem accepted_sizes_fit (entry : Entry) (fs : FsModel) (inc : List Nat) (main : Nat) (ub : Bool) (r : Compiled)
    (h : compile entry fs inc main ub = .ok r) :
    ∀ n ∈ r.structOrder, ∃ size al, (n, size, al) ∈ r.sizes ∧ size % 2 ^ 64 = size := by
  intro n hn
  obtain ⟨_, _, size, al, _, _, _, _, hlt, hmem⟩ := (C09.compile_sound entry fs inc main ub r h).2.1 n hn
  exact ⟨size, al, hmem, wrap_eq_checked 64 size hlt⟩

/-- the running size of the field loop never decreases and, once the loop has accepted, has
    never reached the limit at any field -/
theorem verifyFields_bounded (store : SizeStore) (fl : List Field) (size al : Nat) (seen : List Nat) (size' al' : Nat)
    (h : verifyFields store fl size al seen = .ok (size', al')) (h0 : size < usizeLimit) :
    size ≤ size' ∧ size' < usizeLimit :=
  C09.fieldsAligned_lt _ _ _ _ _ _ _ (C09.verifyFields_sound _ _ _ _ _ _ _ h) h0

/-- five levels of `T[65535]` over `uint64` exceed 2^64 (the mathematical size) … -/
example :
    let a : MStruct := .mk 1 [.mk 0 (.prim .u64) 65535]
    let b : MStruct := .mk 2 [.mk 0 (.struct false a) 65535]
    let c : MStruct := .mk 3 [.mk 0 (.struct false b) 65535]
    let d : MStruct := .mk 4 [.mk 0 (.struct false c) 65535]
    let e : MStruct := .mk 5 [.mk 0 (.struct false d) 65535]
    e.size ≥ 2 ^ 64 := by decide

/-- … and the struct verifier refuses the fourth level already (8·65535^4 ≥ 2^64), while four
    levels over `uint8` (65535^4 < 2^64) are accepted and two of them side by side are not -/
example :
    let sy : Symbols := { structs := [(⟨1, [⟨0, .prim .u64, 65535⟩]⟩, 0), (⟨2, [⟨0, .custom 1, 65535⟩]⟩, 0),
                                      (⟨3, [⟨0, .custom 2, 65535⟩]⟩, 0), (⟨4, [⟨0, .custom 3, 65535⟩]⟩, 0)] }
    C09.isOk (structVerifier sy [1, 2, 3] []) = true ∧ C09.isOk (structVerifier sy [1, 2, 3, 4] []) = false := by decide

example :
    let sy : Symbols := { structs := [(⟨1, [⟨0, .prim .u8, 65535⟩]⟩, 0), (⟨2, [⟨0, .custom 1, 65535⟩]⟩, 0),
                                      (⟨3, [⟨0, .custom 2, 65535⟩]⟩, 0), (⟨4, [⟨0, .custom 3, 65535⟩]⟩, 0),
                                      (⟨5, [⟨0, .custom 4, 1⟩, ⟨1, .custom 4, 1⟩]⟩, 0)] }
    C09.isOk (structVerifier sy [1, 2, 3, 4] []) = true ∧ C09.isOk (structVerifier sy [1, 2, 3, 4, 5] []) = false := by decide

end Mink.C16
