/-
  MinkProofs.Numbering — lemmas about `numberMembers` / `numberIface` (the model of
  `parse_interface`, mir.rs:472-539): both threaded counters.
-/
import MinkModel.Mir
namespace Mink

def funcIds : List MMember → List Nat
  | [] => []
  | .func f :: ms => f.id :: funcIds ms
  | _ :: ms => funcIds ms

def errVals : List MMember → List Int
  | [] => []
  | .error _ v :: ms => v :: errVals ms
  | _ :: ms => errVals ms

def nFuncs : List Member → Nat
  | [] => 0
  | .func _ :: ms => nFuncs ms + 1
  | _ :: ms => nFuncs ms

def nErrors : List Member → Nat
  | [] => 0
  | .error _ :: ms => nErrors ms + 1
  | _ :: ms => nErrors ms

/-- consecutive integers `e, e+1, …` (n of them) -/
def intsFrom (e : Int) : Nat → List Int
  | 0 => []
  | n+1 => e :: intsFrom (e + 1) n

theorem intsFrom_append (e : Int) (a b : Nat) :
    intsFrom e a ++ intsFrom (e + a) b = intsFrom e (a + b) := by
  induction a generalizing e with
  | zero => simp [intsFrom]
  | succ a ih =>
    have h1 : a + 1 + b = (a + b) + 1 := by omega
    rw [h1]
    simp only [intsFrom, List.cons_append]
    have h2 : e + ((a : Int) + 1) = (e + 1) + a := by omega
    have := ih (e + 1)
    simp only [Int.natCast_add, Int.natCast_one] at *
    rw [h2, this]

theorem length_intsFrom (e : Int) (n : Nat) : (intsFrom e n).length = n := by
  induction n generalizing e with
  | zero => rfl
  | succ n ih => simp [intsFrom, ih]

theorem getElem_intsFrom (e : Int) (n k : Nat) (h : k < (intsFrom e n).length) :
    (intsFrom e n)[k] = e + k := by
  induction n generalizing e k with
  | zero => simp [intsFrom] at h
  | succ n ih =>
    cases k with
    | zero => simp [intsFrom]
    | succ k =>
      simp only [intsFrom, List.getElem_cons_succ]
      rw [ih]; simp only [Int.natCast_add, Int.natCast_one]; omega

theorem funcIds_eq (r : List MMember) :
    funcIds r = (r.filterMap fun | .func f => some f | _ => none).map (·.id) := by
  induction r with
  | nil => rfl
  | cons m ms ih => cases m <;> simp [funcIds, ih]

theorem errVals_eq (r : List MMember) :
    errVals r = (r.filterMap fun | .error n v => some (n, v) | _ => none).map (·.2) := by
  induction r with
  | nil => rfl
  | cons m ms ih => cases m <;> simp [errVals, ih]

/-- the members loop: function ids are `o, o+1, …`, error values `e, e+1, …`, one per
    declared function / error, every id is ≤ 0x3FFF -/
theorem numberMembers_spec (sy : Symbols) (tf : Nat) (ms : List Member) (e : Int) (o : Nat)
    (r : List MMember) (e' : Int) (o' : Nat)
    (h : numberMembers sy tf ms e o = .ok (r, e', o')) :
    funcIds r = List.range' o (nFuncs ms) ∧ o' = o + nFuncs ms ∧
    errVals r = intsFrom e (nErrors ms) ∧ e' = e + nErrors ms ∧
    (∀ id ∈ funcIds r, id ≤ maxOpCode) := by
  induction ms generalizing e o r e' o' with
  | nil =>
    simp only [numberMembers, Except.ok.injEq, Prod.mk.injEq] at h
    obtain ⟨rfl, rfl, rfl⟩ := h
    simp [funcIds, errVals, nFuncs, nErrors, intsFrom]
  | cons m ms ih =>
    cases m with
    | const c =>
      unfold numberMembers at h
      split at h
      · simp at h
      · rename_i r1 e1 o1 h1
        simp only [Except.ok.injEq, Prod.mk.injEq] at h
        obtain ⟨rfl, rfl, rfl⟩ := h
        simpa [funcIds, errVals, nFuncs, nErrors] using ih _ _ _ _ _ h1
    | error n =>
      unfold numberMembers at h
      split at h
      · simp at h
      · rename_i r1 e1 o1 h1
        simp only [Except.ok.injEq, Prod.mk.injEq] at h
        obtain ⟨rfl, rfl, rfl⟩ := h
        obtain ⟨a, b, c, d, f⟩ := ih _ _ _ _ _ h1
        refine ⟨by simpa [funcIds, nFuncs] using a, by simpa [nFuncs] using b, ?_, ?_, by simpa [funcIds] using f⟩
        · simp [errVals, nErrors, intsFrom, c]
        · simp only [nErrors, Int.natCast_add, Int.natCast_one]; omega
    | func mth =>
      unfold numberMembers at h
      split at h
      · simp at h
      · rename_i ps hps
        split at h
        · simp at h
        · rename_i hle
          split at h
          · simp at h
          · rename_i r1 e1 o1 h1
            simp only [Except.ok.injEq, Prod.mk.injEq] at h
            obtain ⟨rfl, rfl, rfl⟩ := h
            obtain ⟨a, b, c, d, f⟩ := ih _ _ _ _ _ h1
            refine ⟨?_, ?_, by simpa [errVals, nErrors] using c, by simpa [nErrors] using d, ?_⟩
            · simp [funcIds, nFuncs, a, List.range'_succ]
            · simp only [nFuncs]; omega
            · intro id hid
              simp only [funcIds, List.mem_cons] at hid
              rcases hid with rfl | hid
              · omega
              · exact f id hid

/-- declared members of a resolved chain, as `numberIface` meets them (leaf level first) -/
def chainFuncs (sy : Symbols) : Nat → Iface → Nat
  | 0, _ => 0
  | fuel+1, i =>
    (match i.base with
     | none => 0
     | some b => match sy.ifaceLookup b with
       | none => 0
       | some bi => chainFuncs sy fuel bi) + nFuncs i.members

def chainErrors (sy : Symbols) : Nat → Iface → Nat
  | 0, _ => 0
  | fuel+1, i =>
    (match i.base with
     | none => 0
     | some b => match sy.ifaceLookup b with
       | none => 0
       | some bi => chainErrors sy fuel bi) + nErrors i.members

def flatIds (mi : MIface) : List Nat := mi.flatFuncs.map (·.2.id)
def flatErrVals (mi : MIface) : List Int := mi.flatErrors.map (·.2.2)

theorem flatIds_cons (l : MLevel) (bases : MIface) :
    flatIds (l :: bases) = flatIds bases ++ funcIds l.members := by
  simp only [flatIds, MIface.flatFuncs, MLevel.funcs, funcIds_eq, List.map_append, List.map_map]
  rfl

theorem flatErrVals_cons (l : MLevel) (bases : MIface) :
    flatErrVals (l :: bases) = flatErrVals bases ++ errVals l.members := by
  simp only [flatErrVals, MIface.flatErrors, MLevel.errors, errVals_eq, List.map_append, List.map_map]
  rfl

/-- the whole walk: ancestors first, both counters threaded through the chain -/
theorem numberIface_spec (sy : Symbols) (tf : Nat) (fuel : Nat) (i : Iface) (e : Int) (o : Nat)
    (mi : MIface) (e' : Int) (o' : Nat)
    (h : numberIface sy tf fuel i e o = .ok (mi, e', o')) :
    flatIds mi = List.range' o (chainFuncs sy fuel i) ∧ o' = o + chainFuncs sy fuel i ∧
    flatErrVals mi = intsFrom e (chainErrors sy fuel i) ∧ e' = e + chainErrors sy fuel i ∧
    (∀ id ∈ flatIds mi, id ≤ maxOpCode) := by
  induction fuel generalizing i e o mi e' o' with
  | zero => simp [numberIface] at h
  | succ fuel ih =>
    unfold numberIface at h
    simp only at h
    split at h
    · simp at h
    · rename_i mb e1 o1 hb
      split at h
      · simp at h
      · rename_i r e2 o2 hm
        simp only [Except.ok.injEq, Prod.mk.injEq] at h
        obtain ⟨rfl, rfl, rfl⟩ := h
        obtain ⟨m1, m2, m3, m4, m5⟩ := numberMembers_spec _ _ _ _ _ _ _ _ hm
        -- the base part
        have hbase : flatIds mb = List.range' o (chainFuncs sy (fuel+1) i - nFuncs i.members) ∧
            o1 = o + (chainFuncs sy (fuel+1) i - nFuncs i.members) ∧
            flatErrVals mb = intsFrom e (chainErrors sy (fuel+1) i - nErrors i.members) ∧
            e1 = e + ((chainErrors sy (fuel+1) i - nErrors i.members : Nat) : Int) ∧
            (∀ id ∈ flatIds mb, id ≤ maxOpCode) := by
          simp only [chainFuncs, chainErrors, Nat.add_sub_cancel]
          split at hb
          · rename_i hbn
            simp only [Except.ok.injEq, Prod.mk.injEq] at hb
            obtain ⟨rfl, rfl, rfl⟩ := hb
            simp [hbn, flatIds, flatErrVals, MIface.flatFuncs, MIface.flatErrors, intsFrom]
          · rename_i b hbn
            split at hb
            · simp at hb
            · rename_i bi hbi
              simp only [hbn, hbi]
              exact ih _ _ _ _ _ _ hb
        obtain ⟨b1, b2, b3, b4, b5⟩ := hbase
        have hcf : chainFuncs sy (fuel+1) i = (chainFuncs sy (fuel+1) i - nFuncs i.members) + nFuncs i.members := by
          simp only [chainFuncs]; omega
        have hce : chainErrors sy (fuel+1) i = (chainErrors sy (fuel+1) i - nErrors i.members) + nErrors i.members := by
          simp only [chainErrors]; omega
        generalize chainFuncs sy (fuel+1) i - nFuncs i.members = cb at *
        generalize chainErrors sy (fuel+1) i - nErrors i.members = ce at *
        refine ⟨?_, ?_, ?_, ?_, ?_⟩
        · rw [flatIds_cons, b1, m1, b2, hcf, List.range'_append_1]
        · rw [m2, b2, hcf]; omega
        · rw [flatErrVals_cons, b3, m3, b4, hce, intsFrom_append]
        · rw [m4, b4, hce]; simp only [Int.natCast_add]; omega
        · intro id hid
          rw [flatIds_cons, List.mem_append] at hid
          rcases hid with hid | hid
          · exact b5 id hid
          · exact m5 id hid

end Mink
