/-
  MinkProofs.Counts — the counts word states exactly how many slots of each class the
  argument array holds (C02, used by C18): for every parameter list without an object-bearing
  small struct passed alone, `counts` equals the section histogram of `slotSections`.
-/
import MinkProofs.SortLemmas
import MinkModel.Walk
namespace Mink

def sumBy {α : Type} (g : α → Nat) (l : List α) : Nat := (l.map g).sum

theorem sumBy_nil {α : Type} (g : α → Nat) : sumBy g [] = 0 := rfl
theorem sumBy_cons {α : Type} (g : α → Nat) (x : α) (l : List α) : sumBy g (x :: l) = g x + sumBy g l := by
  simp [sumBy]
theorem sumBy_append {α : Type} (g : α → Nat) (a b : List α) : sumBy g (a ++ b) = sumBy g a + sumBy g b := by
  simp [sumBy]

theorem sumBy_filter_split {α : Type} (g : α → Nat) (p : α → Bool) (l : List α) :
    sumBy g l = sumBy g (l.filter p) + sumBy g (l.filter (fun x => !p x)) := by
  induction l with
  | nil => rfl
  | cons x xs ih =>
    simp only [List.filter_cons, sumBy_cons]
    cases p x <;> simp [sumBy_cons, ih] <;> omega

theorem filter_range_split {α : Type} (g : α → Nat) (key : α → Nat) (xs : List α) (r n : Nat) :
    sumBy g (xs.filter (fun x => key x == r)) +
      sumBy g (xs.filter (fun x => decide (r + 1 ≤ key x ∧ key x < r + 1 + n))) =
    sumBy g (xs.filter (fun x => decide (r ≤ key x ∧ key x < r + (n + 1)))) := by
  induction xs with
  | nil => rfl
  | cons x xs ih =>
    simp only [List.filter_cons]
    by_cases h1 : key x = r
    · have a1 : (key x == r) = true := by simp [h1]
      have a2 : decide (r + 1 ≤ key x ∧ key x < r + 1 + n) = false := by simp; omega
      have a3 : decide (r ≤ key x ∧ key x < r + (n + 1)) = true := by simp; omega
      simp only [a1, a2, a3, if_true, Bool.false_eq_true, if_false, sumBy_cons]
      omega
    · have a1 : (key x == r) = false := by simp [h1]
      by_cases h2 : r + 1 ≤ key x ∧ key x < r + 1 + n
      · have a2 : decide (r + 1 ≤ key x ∧ key x < r + 1 + n) = true := by simp [h2]
        have a3 : decide (r ≤ key x ∧ key x < r + (n + 1)) = true := by simp; omega
        simp only [a1, a2, a3, if_true, Bool.false_eq_true, if_false, sumBy_cons]
        omega
      · have a2 : decide (r + 1 ≤ key x ∧ key x < r + 1 + n) = false := by simp [h2]
        have a3 : decide (r ≤ key x ∧ key x < r + (n + 1)) = false := by simp; omega
        simp only [a1, a2, a3, Bool.false_eq_true, if_false]
        exact ih

/-- summing over the bucket sort = summing over the elements whose key is in the bucket range -/
theorem sumBy_bucketsFrom {α : Type} (g : α → Nat) (key : α → Nat) (xs : List α) (n r : Nat) :
    sumBy g (bucketsFrom key xs n r) = sumBy g (xs.filter (fun x => decide (r ≤ key x ∧ key x < r + n))) := by
  induction n generalizing r with
  | zero =>
    simp only [bucketsFrom, sumBy_nil]
    have : xs.filter (fun x => decide (r ≤ key x ∧ key x < r + 0)) = [] := by
      rw [List.filter_eq_nil_iff]; intro a _; simp
    rw [this]; rfl
  | succ n ih =>
    simp only [bucketsFrom, sumBy_append, ih]
    exact filter_range_split g key xs r n

theorem rank_le_five' (p : MParam) : p.rank ≤ 5 := by
  rcases p with ⟨d, t, a, n⟩
  cases d <;> cases t <;> cases a <;> simp [MParam.rank, MParam.shape, Shape.rank, MTy.isIface, Arr.isArray]

/-- the sort neither loses nor duplicates a parameter, as far as any additive measure can see -/
theorem sumBy_sortParams (g : MParam → Nat) (ps : List MParam) : sumBy g (sortParams ps) = sumBy g ps := by
  unfold sortParams
  rw [sumBy_bucketsFrom]
  congr 1
  rw [List.filter_eq_self]
  intro p _
  have := rank_le_five' p
  simp; omega

end Mink

namespace Mink

theorem count_flatMap {α : Type} (f : α → List Nat) (k : Nat) (l : List α) :
    (l.flatMap f).count k = sumBy (fun x => (f x).count k) l := by
  induction l with
  | nil => rfl
  | cons x xs ih => simp [List.flatMap_cons, List.count_append, sumBy_cons, ih]

theorem sumBy_filter {α : Type} (g : α → Nat) (p : α → Bool) (l : List α) :
    sumBy g (l.filter p) = sumBy (fun x => if p x then g x else 0) l := by
  induction l with
  | nil => rfl
  | cons x xs ih =>
    simp only [List.filter_cons, sumBy_cons]
    cases p x <;> simp [sumBy_cons, ih]

theorem sumBy_congr {α : Type} (g h : α → Nat) (l : List α) (e : ∀ x ∈ l, g x = h x) : sumBy g l = sumBy h l := by
  induction l with
  | nil => rfl
  | cons x xs ih =>
    simp only [sumBy_cons, e x (by simp)]
    rw [ih (fun y hy => e y (by simp [hy]))]

theorem sumBy_add {α : Type} (g h : α → Nat) (l : List α) :
    sumBy (fun x => g x + h x) l = sumBy g l + sumBy h l := by
  induction l with
  | nil => rfl
  | cons x xs ih => simp only [sumBy_cons, ih]; omega

/-- contribution of one parameter to section `k` of the argument array -/
def contrib (k : Nat) (inB outB : Bool) (p : MParam) : Nat :=
  if keep inB outB p then p.slots.count k else 0

/-- Lemma A: the section histogram of the argument array, as a sum over the DECLARED parameters -/
theorem count_slotSections (ps : List MParam) (k : Nat) :
    (slotSections ps).count k =
      (if (bundle .inp ps).length > 1 then (if k = 0 then 1 else 0) else 0) +
      (if (bundle .out ps).length > 1 then (if k = 1 then 1 else 0) else 0) +
      sumBy (contrib k (decide ((bundle .inp ps).length > 1)) (decide ((bundle .out ps).length > 1))) ps := by
  simp only [slotSections, events]
  generalize hin : decide ((bundle .inp ps).length > 1) = inB
  generalize hout : decide ((bundle .out ps).length > 1) = outB
  have hin' : ((bundle .inp ps).length > 1) ↔ inB = true := by rw [← hin]; simp
  have hout' : ((bundle .out ps).length > 1) ↔ outB = true := by rw [← hout]; simp
  simp only [List.flatMap_append, List.count_append, List.flatMap_map]
  have e1 : ∀ l : List MParam, (l.flatMap fun p => (Ev.single p).slots) = l.flatMap MParam.slots := fun _ => rfl
  rw [e1, e1]
  generalize hpre : ((sortParams ps).filter (keep inB outB)).takeWhile (fun p => decide (p.rank < 1)) = pre
  generalize hpost : ((sortParams ps).filter (keep inB outB)).dropWhile (fun p => decide (p.rank < 1)) = post
  have hpp : pre ++ post = (sortParams ps).filter (keep inB outB) := by
    rw [← hpre, ← hpost]; exact List.takeWhile_append_dropWhile
  have hcpre : (pre.flatMap MParam.slots).count k = sumBy (fun p => p.slots.count k) pre := count_flatMap _ _ _
  have hcpost : (post.flatMap MParam.slots).count k = sumBy (fun p => p.slots.count k) post := count_flatMap _ _ _
  have hrest : sumBy (fun p => p.slots.count k) pre + sumBy (fun p => p.slots.count k) post = sumBy (contrib k inB outB) ps := by
    rw [← sumBy_append, hpp, sumBy_filter, sumBy_sortParams]
    rfl
  have hx : (List.flatMap Ev.slots (if inB = true then [Ev.inBundle (bundle .inp ps)] else [])).count k =
      (if (bundle .inp ps).length > 1 then (if k = 0 then 1 else 0) else 0) := by
    cases inB with
    | true =>
      simp only [hin'.2 rfl, if_true, List.flatMap_cons, List.flatMap_nil, Ev.slots, List.append_nil, List.count_cons, List.count_nil]
      by_cases hk : k = 0 <;> simp [hk]
      exact fun h => hk h.symm
    | false =>
      have : ¬ (bundle .inp ps).length > 1 := fun h => by have := hin'.1 h; cases this
      simp [this]
  have hy : (List.flatMap Ev.slots (if outB = true then [Ev.outBundle (bundle .out ps)] else [])).count k =
      (if (bundle .out ps).length > 1 then (if k = 1 then 1 else 0) else 0) := by
    cases outB with
    | true =>
      simp only [hout'.2 rfl, if_true, List.flatMap_cons, List.flatMap_nil, Ev.slots, List.append_nil, List.count_cons, List.count_nil]
      by_cases hk : k = 1 <;> simp [hk]
      exact fun h => hk h.symm
    | false =>
      have : ¬ (bundle .out ps).length > 1 := fun h => by have := hout'.1 h; cases this
      simp [this]
  rw [hx, hy, hcpre, hcpost]
  omega

end Mink

namespace Mink

/-- no object-bearing struct of at most 16 bytes is passed by value (the shapes whose object
    slots the counter never counts: known finding K-smallObjStruct) -/
def NoSmallObj (ps : List MParam) : Prop :=
  ∀ p ∈ ps, ∀ s, p.vkind = .smallStruct s → s.objects.length = 0

def smallIn (d : Dir) (p : MParam) : Nat := if p.dir == d && p.isSmallValue then 1 else 0

theorem length_eq_sumBy {α : Type} (l : List α) : l.length = sumBy (fun _ => 1) l := by
  induction l with
  | nil => rfl
  | cons x xs ih => simp [sumBy_cons, ih]; omega

theorem length_collectSmall (d : Dir) (ps : List MParam) (k : Nat) :
    (collectSmall d ps k).length = sumBy (smallIn d) ps := by
  induction ps generalizing k with
  | nil => rfl
  | cons p ps ih =>
    unfold collectSmall
    split
    · rename_i h; simp [sumBy_cons, smallIn, h, ih]; omega
    · rename_i h; simp [sumBy_cons, smallIn, h, ih]

theorem length_bundle (d : Dir) (ps : List MParam) : (bundle d ps).length = sumBy (smallIn d) ps := by
  unfold bundle sortBundle
  rw [length_eq_sumBy, sumBy_bucketsFrom, ← length_eq_sumBy, List.filter_eq_self.2, length_collectSmall]
  intro m _; simp; omega

/-- pointwise: what one parameter contributes to the BUFFER section of its direction -/
theorem contrib_buf (d : Dir) (inB outB : Bool) (p : MParam) :
    contrib d.bufSec inB outB p =
      if p.dir == d then
        (if p.isSmallValue then (if (match d with | .inp => inB | .out => outB) then 0 else 1) else bufOf p)
      else 0 := by
  rcases p with ⟨pd, t, a, n⟩
  cases d <;> cases pd <;> cases inB <;> cases outB <;> cases a <;> cases t <;>
    simp [contrib, keep, MParam.slots, MParam.vkind, MParam.isSmallValue, MParam.isPrimValue,
      MParam.isSmallStructValue, bufOf, Dir.bufSec, Dir.objSec, List.count_cons, List.count_replicate] <;>
    (try (rename_i sm _; cases sm <;>
      simp [contrib, keep, MParam.slots, MParam.vkind, MParam.isSmallValue, MParam.isPrimValue,
        MParam.isSmallStructValue, bufOf, Dir.bufSec, Dir.objSec, List.count_cons, List.count_replicate]))

end Mink

namespace Mink

/-- pointwise: what one parameter contributes to the OBJECT section of its direction, when it
    is not an object-bearing small struct -/
theorem contrib_obj (d : Dir) (inB outB : Bool) (p : MParam)
    (h : ∀ s, p.vkind = .smallStruct s → s.objects.length = 0) :
    contrib d.objSec inB outB p = if p.dir == d then objOf p else 0 := by
  rcases p with ⟨pd, t, a, n⟩
  cases t with
  | struct sm s =>
    cases sm with
    | true =>
      cases a with
      | none =>
        have h0 := h s (by simp [MParam.vkind])
        cases d <;> cases pd <;> cases inB <;> cases outB <;>
          simp [contrib, keep, MParam.slots, MParam.vkind, MParam.isSmallValue, MParam.isPrimValue,
            MParam.isSmallStructValue, objOf, Dir.bufSec, Dir.objSec, List.count_cons, List.count_replicate, h0]
      | unbounded =>
        cases d <;> cases pd <;> cases inB <;> cases outB <;>
          simp [contrib, keep, MParam.slots, MParam.vkind, MParam.isSmallValue, MParam.isPrimValue,
            MParam.isSmallStructValue, objOf, Dir.bufSec, Dir.objSec, List.count_cons, List.count_replicate]
      | bounded k =>
        cases d <;> cases pd <;> cases inB <;> cases outB <;>
          simp [contrib, keep, MParam.slots, MParam.vkind, MParam.isSmallValue, MParam.isPrimValue,
            MParam.isSmallStructValue, objOf, Dir.bufSec, Dir.objSec, List.count_cons, List.count_replicate]
    | false =>
      cases d <;> cases pd <;> cases inB <;> cases outB <;> cases a <;>
        simp [contrib, keep, MParam.slots, MParam.vkind, MParam.isSmallValue, MParam.isPrimValue,
          MParam.isSmallStructValue, objOf, Dir.bufSec, Dir.objSec, List.count_cons, List.count_replicate]
  | buffer =>
    cases d <;> cases pd <;> cases inB <;> cases outB <;> cases a <;>
      simp [contrib, keep, MParam.slots, MParam.vkind, MParam.isSmallValue, MParam.isPrimValue,
        MParam.isSmallStructValue, objOf, Dir.bufSec, Dir.objSec, List.count_cons, List.count_replicate]
  | prim q =>
    cases d <;> cases pd <;> cases inB <;> cases outB <;> cases a <;>
      simp [contrib, keep, MParam.slots, MParam.vkind, MParam.isSmallValue, MParam.isPrimValue,
        MParam.isSmallStructValue, objOf, Dir.bufSec, Dir.objSec, List.count_cons, List.count_replicate]
  | iface i =>
    cases d <;> cases pd <;> cases inB <;> cases outB <;> cases a <;>
      simp [contrib, keep, MParam.slots, MParam.vkind, MParam.isSmallValue, MParam.isPrimValue,
        MParam.isSmallStructValue, objOf, Dir.bufSec, Dir.objSec, List.count_cons, List.count_replicate]

theorem sum_dirParams (d : Dir) (g : MParam → Nat) (ps : List MParam) :
    ((dirParams d ps).map g).sum = sumBy (fun p => if p.dir == d then g p else 0) ps := by
  unfold dirParams
  exact sumBy_filter g _ ps

theorem any_small_iff (d : Dir) (ps : List MParam) :
    (dirParams d ps).any MParam.isSmallValue = decide (sumBy (smallIn d) ps > 0) := by
  induction ps with
  | nil => rfl
  | cons p ps ih =>
    simp only [dirParams, List.filter_cons, sumBy_cons, smallIn]
    cases hd : (p.dir == d) <;> cases hs : p.isSmallValue <;>
      simp_all [dirParams, smallIn] <;> omega

/-- **C02 (counts = contents), object sections**: the counts word's object counts are exactly
    the numbers of OI and OO slots of the argument array -/
theorem counts_objects (ps : List MParam) (h : NoSmallObj ps) :
    (slotSections ps).count 2 = (counts ps).oi ∧ (slotSections ps).count 3 = (counts ps).oo := by
  constructor
  · rw [count_slotSections]
    simp only [counts, countDir, sum_dirParams]
    have : ∀ inB outB, sumBy (contrib 2 inB outB) ps = sumBy (fun p => if p.dir == Dir.inp then objOf p else 0) ps := by
      intro inB outB
      exact sumBy_congr _ _ _ (fun p hp => contrib_obj .inp inB outB p (h p hp))
    rw [this]; simp
  · rw [count_slotSections]
    simp only [counts, countDir, sum_dirParams]
    have : ∀ inB outB, sumBy (contrib 3 inB outB) ps = sumBy (fun p => if p.dir == Dir.out then objOf p else 0) ps := by
      intro inB outB
      exact sumBy_congr _ _ _ (fun p hp => contrib_obj .out inB outB p (h p hp))
    rw [this]; simp

end Mink

namespace Mink

theorem bufOf_small (p : MParam) (h : p.isSmallValue = true) : bufOf p = 0 := by
  rcases p with ⟨pd, t, a, n⟩
  cases a <;> cases t <;>
    simp_all [bufOf, MParam.vkind, MParam.isSmallValue, MParam.isPrimValue, MParam.isSmallStructValue] <;>
    (try (rename_i sm _; cases sm <;> simp_all [bufOf, MParam.vkind, MParam.isSmallValue, MParam.isPrimValue, MParam.isSmallStructValue]))

theorem contrib_buf_split (d : Dir) (inB outB : Bool) (p : MParam) :
    contrib d.bufSec inB outB p =
      (if p.dir == d then bufOf p else 0) +
      (if (match d with | .inp => inB | .out => outB) then 0 else smallIn d p) := by
  rw [contrib_buf]
  unfold smallIn
  cases hd : (p.dir == d) <;> cases hs : p.isSmallValue <;>
    cases (match d with | .inp => inB | .out => outB) <;> simp [bufOf_small, hs]

theorem sumBy_zero {α : Type} (l : List α) : sumBy (fun _ => 0) l = 0 := by
  induction l with
  | nil => rfl
  | cons x xs ih => simp [sumBy_cons, ih]

theorem sumBy_ite_const {α : Type} (b : Bool) (g : α → Nat) (l : List α) :
    sumBy (fun x => if b then 0 else g x) l = if b then 0 else sumBy g l := by
  cases b
  · simp
  · simp [sumBy_zero]

theorem counts_buffers_dir (d : Dir) (ps : List MParam) (inB outB : Bool)
    (hB : (match d with | .inp => inB | .out => outB) = decide ((bundle d ps).length > 1)) :
    (if (bundle d ps).length > 1 then 1 else 0) + sumBy (contrib d.bufSec inB outB) ps = (countDir d ps).1 := by
  have key : ∀ p ∈ ps, contrib d.bufSec inB outB p =
      (if p.dir == d then bufOf p else 0) + (if decide ((bundle d ps).length > 1) then 0 else smallIn d p) := by
    intro p _; rw [contrib_buf_split, hB]
  rw [sumBy_congr _ _ ps key, sumBy_add, sumBy_ite_const]
  simp only [countDir, sum_dirParams, any_small_iff, length_bundle]
  generalize sumBy (smallIn d) ps = n
  generalize sumBy (fun p => if p.dir == d then bufOf p else 0) ps = m
  by_cases h1 : n > 1
  · have h0 : 0 < n := by omega
    simp [h1, h0]; omega
  · by_cases h0 : n > 0
    · have : n = 1 := by omega
      subst this; simp
    · have : n = 0 := by omega
      subst this; simp

/-- **C02 (counts = contents), buffer sections** -/
theorem counts_buffers (ps : List MParam) :
    (slotSections ps).count 0 = (counts ps).bi ∧ (slotSections ps).count 1 = (counts ps).bo := by
  constructor
  · rw [count_slotSections]
    have := counts_buffers_dir .inp ps (decide ((bundle .inp ps).length > 1)) (decide ((bundle .out ps).length > 1)) rfl
    simp only [Dir.bufSec] at this
    simp only [counts]
    simp only [if_true, Nat.zero_ne_one, if_false, ite_self, Nat.add_zero] at this ⊢
    exact this
  · rw [count_slotSections]
    have := counts_buffers_dir .out ps (decide ((bundle .inp ps).length > 1)) (decide ((bundle .out ps).length > 1)) rfl
    simp only [Dir.bufSec] at this
    simp only [counts]
    simp only [if_true, Nat.one_ne_zero, if_false, ite_self, Nat.zero_add] at this ⊢
    exact this

/-- **C02: the counts word states exactly how many arguments of each class the array holds**,
    for every parameter list in which no object-bearing struct of at most 16 bytes is passed by
    value (refuted there: `C02.counts_refuted`) -/
theorem counts_eq_sections (ps : List MParam) (h : NoSmallObj ps) :
    (slotSections ps).count 0 = (counts ps).bi ∧ (slotSections ps).count 1 = (counts ps).bo ∧
    (slotSections ps).count 2 = (counts ps).oi ∧ (slotSections ps).count 3 = (counts ps).oo :=
  ⟨(counts_buffers ps).1, (counts_buffers ps).2, (counts_objects ps h).1, (counts_objects ps h).2⟩

/-- total number of slots = total of the counts word -/
theorem slots_length_eq_total (ps : List MParam) (h : NoSmallObj ps)
    (hsec : ∀ s ∈ slotSections ps, s < 4) : (slotSections ps).length = (counts ps).total := by
  obtain ⟨a, b, c, d⟩ := counts_eq_sections ps h
  simp only [Counts.total, ← a, ← b, ← c, ← d]
  generalize slotSections ps = l at hsec
  induction l with
  | nil => rfl
  | cons x xs ih =>
    have hx := hsec x (by simp)
    have := ih (fun s hs => hsec s (by simp [hs]))
    simp only [List.length_cons, List.count_cons]
    have : x = 0 ∨ x = 1 ∨ x = 2 ∨ x = 3 := by omega
    rcases this with rfl | rfl | rfl | rfl <;> simp <;> omega

end Mink
