/-
  C12 — Include resolution is first-match in search order; cycles always rejected.
-/
import MinkProofs.GraphLemmas
import MinkModel.Fs
namespace Mink.C12
open Mink

/-- **(a) bare names: first match in search order** — the search path is the `-I`
    directories in command-line order followed by the main file's directory -/
theorem resolve_bare_first_match (fs : FsModel) (sp : List Nat) (cur path t : Nat)
    (h : fs.resolve sp cur path false = some t) :
    ∃ pre d post, sp = pre ++ d :: post ∧ fs.lookupIn d path = some t ∧ ∀ d' ∈ pre, fs.lookupIn d' path = none := by
  simp only [FsModel.resolve, Bool.false_eq_true, if_false] at h
  induction sp with
  | nil => simp at h
  | cons d ds ih =>
    simp only [List.findSome?_cons] at h
    cases hd : fs.lookupIn d path with
    | some v =>
      rw [hd] at h; simp at h; subst h
      exact ⟨[], d, ds, rfl, hd, by simp⟩
    | none =>
      rw [hd] at h
      obtain ⟨pre, d', post, e, hl, hn⟩ := ih h
      refine ⟨d :: pre, d', post, by simp [e], hl, ?_⟩
      intro x hx
      rcases List.mem_cons.1 hx with rfl | hx
      · exact hd
      · exact hn x hx

/-- **(a') unresolvable ⇔ no directory of the search path has the file** -/
theorem resolve_bare_none_iff (fs : FsModel) (sp : List Nat) (cur path : Nat) :
    fs.resolve sp cur path false = none ↔ ∀ d ∈ sp, fs.lookupIn d path = none := by
  simp [FsModel.resolve, List.findSome?_eq_none_iff]

/-- **(a'') a path with a directory part resolves relative to the including file only** -/
theorem resolve_rel (fs : FsModel) (sp : List Nat) (cur path : Nat) :
    fs.resolve sp cur path true = fs.relFrom (fs.dir cur) path := by
  simp [FsModel.resolve]

/-! ### the loader: invariants over the depth-first walk -/

structure WalkInv (st : Store) : Prop where
  loadedNodup : st.loaded.Nodup
  acyclic : st.cycle = false → st.graph.hasCycle = false

theorem load_inv (fs : FsModel) (ub : Bool) (st st' : Store) (id : Nat) (f : File)
    (hi : WalkInv st) (h : st.load fs ub id = .ok (st', f)) :
    WalkInv st' ∧ st'.graph = st.graph ∧ st'.cycle = st.cycle ∧ id ∈ st'.loaded ∧
    (∀ x ∈ st.loaded, x ∈ st'.loaded) := by
  unfold Store.load at h
  split at h
  · simp at h
  · rename_i f0 hf0
    split at h
    · rename_i hc
      simp only [Except.ok.injEq, Prod.mk.injEq] at h
      obtain ⟨rfl, rfl⟩ := h
      exact ⟨hi, rfl, rfl, List.contains_iff_mem.1 hc, fun x hx => hx⟩
    · rename_i hc
      split at h
      · simp at h
      · split at h
        · simp at h
        · split at h
          · simp at h
          · rename_i sy hsy
            simp only [Except.ok.injEq, Prod.mk.injEq] at h
            obtain ⟨rfl, rfl⟩ := h
            refine ⟨⟨?_, hi.acyclic⟩, rfl, rfl, by simp, fun x hx => by simp [hx]⟩
            simp only
            rw [List.nodup_append]
            refine ⟨hi.loadedNodup, by simp, ?_⟩
            intro a ha b hb
            simp only [List.mem_singleton] at hb; subst hb
            intro he; subst he
            exact hc (List.contains_iff_mem.2 ha)

theorem walkNodes_inv (vi : Nat → Bool → Store → Except Stage Store)
    (hvi : ∀ p d st st', WalkInv st → vi p d st = .ok st' → WalkInv st' ∧ ∀ x ∈ st.loaded, x ∈ st'.loaded)
    (ns : List Node) (st st' : Store) (hi : WalkInv st) (h : walkNodesWith vi ns st = .ok st') :
    WalkInv st' ∧ ∀ x ∈ st.loaded, x ∈ st'.loaded := by
  induction ns generalizing st with
  | nil => simp [walkNodesWith] at h; subst h; exact ⟨hi, fun x hx => hx⟩
  | cons n ns ih =>
    cases n with
    | incl p d =>
      simp only [walkNodesWith] at h
      split at h
      · simp at h
      · rename_i st1 h1
        obtain ⟨i1, m1⟩ := hvi _ _ _ _ hi h1
        obtain ⟨i2, m2⟩ := ih st1 i1 h
        exact ⟨i2, fun x hx => m2 x (m1 x hx)⟩
    | const c => exact ih st hi (by simpa [walkNodesWith] using h)
    | struct s => exact ih st hi (by simpa [walkNodesWith] using h)
    | iface i => exact ih st hi (by simpa [walkNodesWith] using h)

theorem visitInclude_inv (fs : FsModel) (ub : Bool) (sp : List Nat) (fuel : Nat) :
    ∀ p d st st', WalkInv st → visitInclude fs ub sp fuel p d st = .ok st' →
      WalkInv st' ∧ ∀ x ∈ st.loaded, x ∈ st'.loaded := by
  induction fuel with
  | zero => intro p d st st' _ h; simp [visitInclude] at h
  | succ fuel ih =>
    intro p d st st' hi h
    unfold visitInclude at h
    split at h
    · simp at h
    · rename_i cur hcur
      split at h
      · simp at h
      · rename_i target htarget
        simp only at h
        split at h
        · rename_i hcyc
          simp only [Except.ok.injEq] at h; subst h
          exact ⟨⟨hi.loadedNodup, by simp⟩, fun x hx => hx⟩
        · rename_i hcyc
          split at h
          · simp at h
          · rename_i st1 f hload
            obtain ⟨i1, g1, c1, _, m1⟩ := load_inv fs ub _ _ _ _
              (WalkInv.mk (st := _) (by exact hi.loadedNodup) (fun _ => by simpa using hcyc)) hload
            split at h
            · simp at h
            · rename_i st2 hwalk
              simp only [Except.ok.injEq] at h; subst h
              have hi1 : WalkInv { st1 with current := some f.id } := ⟨i1.loadedNodup, i1.acyclic⟩
              obtain ⟨i2, m2⟩ := walkNodes_inv _ ih f.nodes _ _ hi1 hwalk
              exact ⟨⟨i2.loadedNodup, i2.acyclic⟩, fun x hx => m2 x (m1 x hx)⟩

/-- **(b) cycles are always rejected; (c) every file is loaded once** — when the loader
    succeeds, the resolved include graph it built has no cycle (for every iteration order of
    the hash tables) and no file was parsed / gathered twice, however many paths reach it -/
theorem loadAll_ok (fs : FsModel) (ub : Bool) (sp : List Nat) (main : Nat) (st : Store) (f : File)
    (h : loadAll fs ub sp main = .ok (st, f)) :
    (∀ x, ¬ Reach st.graph x x) ∧ st.loaded.Nodup ∧ main ∈ st.loaded := by
  unfold loadAll at h
  split at h
  · simp at h
  · rename_i st0 f0 hl
    have hinit : WalkInv ({} : Store) := ⟨List.nodup_nil, fun _ => by decide⟩
    obtain ⟨i0, _, _, hm, _⟩ := load_inv fs ub _ _ _ _ hinit hl
    split at h
    · simp at h
    · rename_i st1 hw
      split at h
      · simp at h
      · rename_i hc
        simp only [Except.ok.injEq, Prod.mk.injEq] at h
        obtain ⟨rfl, rfl⟩ := h
        have hi1 : WalkInv { st0 with current := some f0.id } := ⟨i0.loadedNodup, i0.acyclic⟩
        obtain ⟨i2, m2⟩ := walkNodes_inv _ (visitInclude_inv fs ub sp _) f0.nodes _ _ hi1 hw
        refine ⟨?_, i2.loadedNodup, m2 _ hm⟩
        have hnc := i2.acyclic (by simpa using hc)
        unfold Graph.hasCycle at hnc
        split at hnc
        · cases hnc
        · rename_i order ho
          exact (toposort_ok_acyclic _ order ho).1

/-- a detected cycle is never silently dropped: once `cycle` is set the load fails -/
theorem cycle_rejected (fs : FsModel) (ub : Bool) (sp : List Nat) (main : Nat) (st : Store) (f : File)
    (h : loadAll fs ub sp main = .ok (st, f)) : st.cycle = false := by
  unfold loadAll at h
  split at h
  · simp at h
  · split at h
    · simp at h
    · split at h
      · simp at h
      · rename_i hc; simp only [Except.ok.injEq, Prod.mk.injEq] at h; obtain ⟨rfl, _⟩ := h; simpa using hc

/-! ### witnesses: self-include, 2-cycle entered from the main file, diamond -/

def isOkL {α : Type} : Except Stage α → Bool | .ok _ => true | .error _ => false

/-- `main.idl: include "./main.idl"` -/
example : isOkL (loadAll ⟨[⟨0, [.incl 5 true], true⟩], [(0, 9)], [], [(9, 5, 0)]⟩ false [9] 0) = false := by decide

/-- main → a → b → a -/
example : isOkL (loadAll ⟨[⟨0, [.incl 5 false], true⟩, ⟨1, [.incl 6 false], true⟩, ⟨2, [.incl 5 false], true⟩],
    [(0, 9), (1, 9), (2, 9)], [(9, 5, 1), (9, 6, 2)], []⟩ false [9] 0) = false := by decide

/-- diamond main → {a, b} → c : accepted, `c` loaded once -/
example : (match loadAll ⟨[⟨0, [.incl 5 false, .incl 6 false], true⟩, ⟨1, [.incl 7 false], true⟩,
      ⟨2, [.incl 7 false], true⟩, ⟨3, [], true⟩],
    [(0, 9), (1, 9), (2, 9), (3, 9)], [(9, 5, 1), (9, 6, 2), (9, 7, 3)], []⟩ false [9] 0 with
    | .ok (st, _) => st.loaded | .error _ => []) = [0, 1, 3, 2] := by decide

/-- first match: `-I d1 -I d2`, both hold `a.idl`; the file of `d1` is taken -/
example : FsModel.resolve ⟨[], [], [(1, 5, 10), (2, 5, 20)], []⟩ [1, 2, 0] 0 5 false = some 10 := by decide

end Mink.C12
