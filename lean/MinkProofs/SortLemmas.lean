/-
  MinkProofs.SortLemmas — the stable bucket sort `bucketsFrom`: membership, sortedness,
  stability (each bucket is a sublist of the input in input order).
-/
import MinkModel.Order
namespace Mink

theorem mem_bucketsFrom {α : Type} {key : α → Nat} {xs : List α} {n r : Nat} {x : α}
    (h : x ∈ bucketsFrom key xs n r) : x ∈ xs ∧ r ≤ key x ∧ key x < r + n := by
  induction n generalizing r with
  | zero => simp [bucketsFrom] at h
  | succ n ih =>
    simp only [bucketsFrom, List.mem_append, List.mem_filter] at h
    rcases h with ⟨hm, hr⟩ | h
    · simp at hr; exact ⟨hm, by omega, by omega⟩
    · have := ih h; exact ⟨this.1, by omega, by omega⟩

theorem mem_bucketsFrom_of {α : Type} {key : α → Nat} {xs : List α} {n r : Nat} {x : α}
    (hx : x ∈ xs) (h1 : r ≤ key x) (h2 : key x < r + n) : x ∈ bucketsFrom key xs n r := by
  induction n generalizing r with
  | zero => omega
  | succ n ih =>
    simp only [bucketsFrom, List.mem_append, List.mem_filter]
    by_cases hk : key x = r
    · left; exact ⟨hx, by simp [hk]⟩
    · right; exact ih (by omega) (by omega)

theorem sorted_bucketsFrom {α : Type} (key : α → Nat) (xs : List α) (n r : Nat) :
    (bucketsFrom key xs n r).Pairwise (fun a b => key a ≤ key b) := by
  induction n generalizing r with
  | zero => simp [bucketsFrom]
  | succ n ih =>
    simp only [bucketsFrom]
    refine List.pairwise_append.2 ⟨?_, ih (r+1), ?_⟩
    · rw [List.pairwise_iff_forall_sublist]
      intro a b hab
      have ha : a ∈ xs.filter (fun x => key x == r) := hab.subset (by simp)
      have hb : b ∈ xs.filter (fun x => key x == r) := hab.subset (by simp)
      simp [List.mem_filter] at ha hb; omega
    · intro a ha b hb
      simp [List.mem_filter] at ha
      have := (mem_bucketsFrom hb).2.1; omega

/-- stability: elements with equal keys keep their input order -/
theorem bucketsFrom_filter_key {α : Type} (key : α → Nat) (xs : List α) (n r k : Nat)
    (h1 : r ≤ k) (h2 : k < r + n) :
    (bucketsFrom key xs n r).filter (fun x => key x == k) = xs.filter (fun x => key x == k) := by
  induction n generalizing r with
  | zero => omega
  | succ n ih =>
    simp only [bucketsFrom, List.filter_append, List.filter_filter]
    by_cases hk : k = r
    · subst hk
      have h0 : (bucketsFrom key xs n (k+1)).filter (fun x => key x == k) = [] := by
        rw [List.filter_eq_nil_iff]
        intro a ha
        have := (mem_bucketsFrom ha).2.1
        simp; omega
      rw [h0, List.append_nil]
      congr 1; funext x; simp
    · have h0 : xs.filter (fun x => (key x == k && key x == r)) = [] := by
        rw [List.filter_eq_nil_iff]
        intro a _; simp; omega
      rw [h0, List.nil_append]
      exact ih (r+1) (by omega) (by omega)

end Mink
