/-
  C07 — Method op-codes: declaration order, ancestors first, unique, bounded, consistent.
  Property theorems only; lemmas live in MinkProofs.Numbering.
-/
import MinkProofs.Numbering
import MinkModel.Pipeline
namespace Mink.C07
open Mink

/-- every interface node of the MIR is the result of the numbering walk started with the
    counters reset (mir.rs:548-556) -/
theorem parseToMir_iface (sy : Symbols) (fuel : Nat) (ns : List Node) (mir : List MNode)
    (h : parseToMir sy fuel ns = .ok mir) (mi : MIface) (hm : MNode.iface mi ∈ mir) :
    ∃ i, Node.iface i ∈ ns ∧ ∃ e' o', numberIface sy fuel fuel i errorCodeStart 0 = .ok (mi, e', o') := by
  induction ns generalizing mir with
  | nil => simp [parseToMir] at h; subst h; simp at hm
  | cons n ns ih =>
    unfold parseToMir at h
    simp only at h
    split at h
    · simp at h
    · rename_i hd hhd
      split at h
      · simp at h
      · rename_i r hr
        simp only [Except.ok.injEq] at h
        subst h
        rcases List.mem_cons.1 hm with hm | hm
        · -- the head
          cases n with
          | incl p d => simp at hhd; subst hhd; cases hm
          | const c => simp at hhd; subst hhd; cases hm
          | struct s =>
            simp only at hhd
            split at hhd
            · simp at hhd
            · simp at hhd; subst hhd; cases hm
          | iface i =>
            simp only at hhd
            split at hhd
            · simp at hhd
            · rename_i mi' e' o' hn
              simp at hhd; subst hhd
              cases hm
              exact ⟨i, by simp, e', o', hn⟩
        · obtain ⟨i, hi, rest⟩ := ih r hr hm
          exact ⟨i, by simp [hi], rest⟩

/-- **C07 (a)** op-codes of an accepted interface are exactly `0, 1, 2, …` along the
    ancestor-first, declaration-ordered method list; hence consecutive from 0 and unique. -/
theorem op_codes_canonical (entry : Entry) (fs : FsModel) (inc : List Nat) (main : Nat) (r : Compiled)
    (h : compile entry fs inc main = .ok r) (mi : MIface) (hm : MNode.iface mi ∈ r.mir) :
    flatIds mi = List.range (flatIds mi).length ∧ (flatIds mi).Nodup ∧
    ∀ id ∈ flatIds mi, id ≤ 0x3FFF := by
  have hp : ∃ sy fuel ns, parseToMir sy fuel ns = .ok r.mir := by
    unfold compile at h
    simp only at h
    repeat' split at h
    all_goals first | (simp at h; done) | skip
    all_goals (simp only [Except.ok.injEq] at h; subst h; exact ⟨_, _, _, by assumption⟩)
  obtain ⟨sy, fuel, ns, hp⟩ := hp
  obtain ⟨i, _, e', o', hn⟩ := parseToMir_iface sy fuel ns r.mir hp mi hm
  obtain ⟨h1, _, _, _, h5⟩ := numberIface_spec sy fuel fuel i errorCodeStart 0 mi e' o' hn
  have hr : flatIds mi = List.range (flatIds mi).length := by
    rw [h1]; simp [List.range_eq_range']
  refine ⟨hr, ?_, h5⟩
  rw [hr]; exact List.nodup_range

/-- **C07 (b)** an interface whose chain declares more than 0x4000 methods is rejected by the
    numbering walk (no id above 0x3FFF is ever handed out) -/
theorem too_many_methods_rejected (sy : Symbols) (tf fuel : Nat) (i : Iface)
    (hbig : chainFuncs sy fuel i > 0x4000) :
    ∀ res, numberIface sy tf fuel i errorCodeStart 0 ≠ .ok res := by
  intro ⟨mi, e', o'⟩ h
  obtain ⟨h1, _, _, _, h5⟩ := numberIface_spec sy tf fuel i errorCodeStart 0 mi e' o' h
  have hmem : 0x4000 ∈ flatIds mi := by
    rw [h1]; simp [List.mem_range']; omega
  have := h5 _ hmem
  simp [maxOpCode] at this

/-- names of the flattened methods in ancestor-first declaration order, from the AST -/
def chainMethodNames (sy : Symbols) : Nat → Iface → List (Nat × Nat)
  | 0, _ => []
  | fuel+1, i =>
    (match i.base with
     | none => []
     | some b => match sy.ifaceLookup b with
       | none => []
       | some bi => chainMethodNames sy fuel bi) ++
    i.members.filterMap fun | .func m => some (i.name, m.name) | _ => none

theorem numberMembers_names (sy : Symbols) (tf : Nat) (owner : Nat) (ms : List Member) (e : Int) (o : Nat)
    (r : List MMember) (e' : Int) (o' : Nat) (h : numberMembers sy tf ms e o = .ok (r, e', o')) :
    (r.filterMap fun | .func f => some (owner, f.name) | _ => none) =
    (ms.filterMap fun | .func m => some (owner, m.name) | _ => none) := by
  induction ms generalizing e o r e' o' with
  | nil => simp [numberMembers] at h; obtain ⟨rfl, _, _⟩ := h; rfl
  | cons m ms ih =>
    cases m with
    | const c =>
      unfold numberMembers at h; split at h
      · simp at h
      · rename_i h1; simp at h; obtain ⟨rfl, _, _⟩ := h; simpa using ih _ _ _ _ _ h1
    | error n =>
      unfold numberMembers at h; split at h
      · simp at h
      · rename_i h1; simp at h; obtain ⟨rfl, _, _⟩ := h; simpa using ih _ _ _ _ _ h1
    | func mth =>
      unfold numberMembers at h; split at h
      · simp at h
      · split at h
        · simp at h
        · split at h
          · simp at h
          · rename_i h1; simp at h; obtain ⟨rfl, _, _⟩ := h
            simp [ih _ _ _ _ _ h1]

/-- **C07 (c)** the k-th method of the ancestor-first declaration order (root ancestor's
    methods first, then down the chain) is the method that carries op-code k -/
theorem op_codes_follow_declaration_order (sy : Symbols) (tf fuel : Nat) (i : Iface) (e : Int) (o : Nat)
    (mi : MIface) (e' : Int) (o' : Nat) (h : numberIface sy tf fuel i e o = .ok (mi, e', o')) :
    mi.flatFuncs.map (fun of => (of.1, of.2.name)) = chainMethodNames sy fuel i := by
  induction fuel generalizing i e o mi e' o' with
  | zero => simp [numberIface] at h
  | succ fuel ih =>
    unfold numberIface at h
    simp only at h
    split at h
    · simp at h
    · rename_i mb e1 o1 hb
      split at h
      · simp at h
      · rename_i r e2 o2 hm
        simp only [Except.ok.injEq, Prod.mk.injEq] at h
        obtain ⟨rfl, rfl, rfl⟩ := h
        have hown := numberMembers_names sy tf i.name _ _ _ _ _ _ hm
        have hbase : mb.flatFuncs.map (fun of => (of.1, of.2.name)) =
            (match i.base with
             | none => []
             | some b => match sy.ifaceLookup b with
               | none => []
               | some bi => chainMethodNames sy fuel bi) := by
          split at hb
          · rename_i hbn; simp at hb; obtain ⟨rfl, _, _⟩ := hb; simp [hbn, MIface.flatFuncs]
          · rename_i b hbn
            split at hb
            · simp at hb
            · rename_i bi hbi; simp only [hbn, hbi]; exact ih _ _ _ _ _ _ hb
        simp only [chainMethodNames, MIface.flatFuncs, List.map_append, hbase, ← hown]
        congr 1
        simp only [MLevel.funcs, List.map_filterMap]
        congr 1
        funext x
        cases x <;> rfl

/-- non-vacuity: a two-level hierarchy with interleaved members numbers `[0, 1, 2]` -/
example :
    let base : Iface := ⟨1, none, [.func ⟨10, [], false, false⟩, .error 20, .func ⟨11, [], false, false⟩]⟩
    let leaf : Iface := ⟨2, some 1, [.const { name := 30, ty := .u8, value := 0 }, .func ⟨12, [], false, false⟩]⟩
    let sy : Symbols := { ifaces := [(base, 0), (leaf, 0)] }
    (match numberIface sy 3 3 leaf errorCodeStart 0 with
     | .ok (mi, _, _) => (flatIds mi, mi.flatFuncs.map (fun of => (of.1, of.2.name)))
     | .error _ => ([], [])) = ([0, 1, 2], [(1, 10), (1, 11), (2, 12)]) := by decide

end Mink.C07
