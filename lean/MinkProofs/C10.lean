/-
  C10 — Validation is complete (partial): the validators refuse ONLY what the documented
  restrictions exclude. Converses of the per-pass soundness lemmas of C09 for the passes
  whose decision is local (duplicate parameters, the per-method object-array rules, the
  backend's fatal paths); acceptance of whole file sets additionally needs the graph passes
  to succeed on acyclic inputs, which is tied by correspondence (valid stream), not proved.
-/
import MinkProofs.C09
namespace Mink.C10
open Mink Mink.C09

theorem nodup_hasDup_false : ∀ (l : List Nat), l.Nodup → hasDup l = false
  | [], _ => rfl
  | x :: xs, h => by
    rw [List.nodup_cons] at h
    simp only [hasDup, Bool.or_eq_false_iff]
    refine ⟨?_, nodup_hasDup_false xs h.2⟩
    cases hc : xs.contains x with
    | false => rfl
    | true => exact absurd (List.contains_iff_mem.1 hc) h.1

/-- **(params)** distinct parameter names everywhere ⇒ the duplicate-parameter pass accepts -/
theorem functionsPass_complete (ns : List Node)
    (h : ∀ i, Node.iface i ∈ ns → ∀ m, Member.func m ∈ i.members → (m.params.map (·.name)).Nodup) :
    functionsPass ns = .ok () := by
  unfold functionsPass
  split
  · rename_i hany
    obtain ⟨n, hn, hb⟩ := List.any_eq_true.1 hany
    cases n with
    | iface i =>
      simp only [Iface.dupParams] at hb
      obtain ⟨m, hm, hd⟩ := List.any_eq_true.1 hb
      cases m with
      | func f => simp only [nodup_hasDup_false _ (h i hn f hm)] at hd; cases hd
      | const c => cases hd
      | error e => cases hd
    | incl p d => cases hb
    | const c => cases hb
    | struct s => cases hb
  · rfl

/-- one parameter that obeys the rules is accepted whenever it is not a second object array
    of its direction -/
theorem checkParam_complete (p : MParam) (fl : ArgFlags) (hr : ParamRules [p])
    (h1 : isObjArr .inp p = true → fl.arrIn = false) (h2 : isObjArr .out p = true → fl.arrOut = false) :
    ∃ fl', checkParam p fl = .ok fl' := by
  rcases p with ⟨d, t, a, n⟩
  have r1 := hr.objArrBounded ⟨d, t, a, n⟩ (by simp)
  have r2 := hr.dataArrUnbounded ⟨d, t, a, n⟩ (by simp)
  have r3 := hr.noObjStructArr ⟨d, t, a, n⟩ (by simp)
  cases d <;> cases a <;> cases t <;>
    simp_all [checkParam, isObjArr, MTy.isIface, Arr.isArray] <;>
    (try (split <;> simp_all))

theorem checkParams_complete (ps : List MParam) (fl : ArgFlags) (hr : ParamRules ps)
    (h1 : b2n fl.arrIn + (ps.filter (isObjArr .inp)).length ≤ 1)
    (h2 : b2n fl.arrOut + (ps.filter (isObjArr .out)).length ≤ 1) :
    ∃ fl', checkParams ps fl = .ok fl' := by
  induction ps generalizing fl with
  | nil => exact ⟨fl, rfl⟩
  | cons p ps ih =>
    have hp : ParamRules [p] := ⟨fun q hq => hr.objArrBounded q (by simp_all),
      fun q hq => hr.dataArrUnbounded q (by simp_all), fun q hq => hr.noObjStructArr q (by simp_all)⟩
    have hps : ParamRules ps := ⟨fun q hq => hr.objArrBounded q (by simp [hq]),
      fun q hq => hr.dataArrUnbounded q (by simp [hq]), fun q hq => hr.noObjStructArr q (by simp [hq])⟩
    have g1 : isObjArr .inp p = true → fl.arrIn = false := by
      intro hi
      simp only [List.filter_cons, hi, if_true, List.length_cons] at h1
      cases hf : fl.arrIn with
      | false => rfl
      | true => rw [hf] at h1; simp only [b2n, if_true] at h1; omega
    have g2 : isObjArr .out p = true → fl.arrOut = false := by
      intro hi
      simp only [List.filter_cons, hi, if_true, List.length_cons] at h2
      cases hf : fl.arrOut with
      | false => rfl
      | true => rw [hf] at h2; simp only [b2n, if_true] at h2; omega
    obtain ⟨fl1, hfl1⟩ := checkParam_complete p fl hp g1 g2
    obtain ⟨_, a1, _, a3, _, _, _⟩ := checkParam_rules p fl fl1 hfl1
    have k1 : b2n fl1.arrIn + (ps.filter (isObjArr .inp)).length ≤ 1 := by
      rw [a1]
      cases hi : isObjArr .inp p with
      | false => simpa [List.filter_cons, hi] using h1
      | true =>
        rw [g1 hi]
        simp only [List.filter_cons, hi, if_true, List.length_cons, g1 hi] at h1
        have e1 : b2n (false || true) = 1 := rfl
        have e0 : b2n false = 0 := rfl
        rw [e1]; rw [e0] at h1; omega
    have k2 : b2n fl1.arrOut + (ps.filter (isObjArr .out)).length ≤ 1 := by
      rw [a3]
      cases hi : isObjArr .out p with
      | false => simpa [List.filter_cons, hi] using h2
      | true =>
        rw [g2 hi]
        simp only [List.filter_cons, hi, if_true, List.length_cons, g2 hi] at h2
        have e1 : b2n (false || true) = 1 := rfl
        have e0 : b2n false = 0 := rfl
        rw [e1]; rw [e0] at h2; omega
    obtain ⟨fl2, hfl2⟩ := ih fl1 hps k1 k2
    exact ⟨fl2, by simp [checkParams, hfl1, hfl2]⟩

/-- **(object-array rules, converse)** a method that obeys every documented parameter
    restriction passes the interface verifier's per-method check: the verifier refuses nothing
    the documentation allows -/
theorem checkFunc_complete (f : MFunc) (h : MethodRules f.params) : checkFunc f = .ok () := by
  obtain ⟨fl, hfl⟩ := checkParams_complete f.params {} h.rules (by simpa [b2n] using h.oneArrIn)
    (by simpa [b2n] using h.oneArrOut)
  obtain ⟨_, b1, b2, b3, b4, _, _⟩ := checkParams_rules f.params {} fl hfl
  simp only [Bool.false_or] at b1 b2 b3 b4
  unfold checkFunc
  rw [hfl]
  simp only
  split
  · rename_i hmix
    simp only [Bool.or_eq_true, Bool.and_eq_true] at hmix
    rcases hmix with ⟨x, y⟩ | ⟨x, y⟩
    · exact absurd ⟨b1 ▸ x, b2 ▸ y⟩ h.noMixIn
    · exact absurd ⟨b3 ▸ x, b4 ▸ y⟩ h.noMixOut
  · simp [h.fits]

/-- `checkFunc` decides exactly the documented rules -/
theorem checkFunc_iff (f : MFunc) : checkFunc f = .ok () ↔ MethodRules f.params :=
  ⟨checkFunc_sound f, checkFunc_complete f⟩

/-- **(backend)** the code generators' fatal paths (`u8` counters, `cnt.unwrap()`) cannot
    fire for a method whose counts fit the counts word and that obeys the rules -/
theorem backend_complete (f : MFunc) (h15 : (counts f.params).fits15 = true)
    (hv : ∀ p ∈ f.params, (match p.vkind with | .unreachable => false | _ => true) = true) :
    backendOkFunc f = true := by
  simp only [Counts.fits15, Bool.and_eq_true, decide_eq_true_eq] at h15
  simp only [backendOkFunc, Bool.and_eq_true, decide_eq_true_eq, List.all_eq_true]
  exact ⟨⟨⟨⟨by omega, by omega⟩, by omega⟩, by omega⟩, hv⟩

/-- non-vacuity -/
example : isOk (checkFunc ⟨0, [⟨.inp, .iface none, .bounded 2, 1⟩, ⟨.out, .iface none, .none, 2⟩, ⟨.inp, .prim .u8, .unbounded, 3⟩], 0, false, false⟩) = true := by
  decide

end Mink.C10
