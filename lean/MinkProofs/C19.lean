/-
  C19 — Rejection leaves no output behind; acceptance writes exactly the expected files.
-/
import MinkModel.Output
namespace Mink.C19
open Mink

/-- **(a)** a rejected compilation leaves the output directory exactly as it was -/
theorem reject_leaves_nothing (e : Stage) (b : Backend) (key : Nat → Nat) (base named : Nat) (gen : Nat → Nat)
    (dir : OutDir) : runMain (.error e) b key base named gen dir = (101, dir) := rfl

/-- **(b)** an accepted compilation exits 0 and the directory afterwards holds, for every
    expected file, this run's content, and every other entry untouched -/
theorem accept_writes_expected (mir : List MNode) (b : Backend) (key : Nat → Nat) (base named : Nat)
    (gen : Nat → Nat) (dir : OutDir) :
    let r := runMain (.ok mir) b key base named gen dir
    r.1 = 0 ∧
    (∀ f ∈ writtenFiles b key base named mir, (f, gen f) ∈ r.2) ∧
    (∀ e ∈ dir, e.1 ∉ writtenFiles b key base named mir → e ∈ r.2) ∧
    (∀ e ∈ r.2, e ∈ dir ∨ (e.1 ∈ writtenFiles b key base named mir ∧ e.2 = gen e.1)) := by
  refine ⟨rfl, ?_, ?_, ?_⟩
  · intro f hf
    simp only [runMain, List.mem_append, List.mem_map]
    exact Or.inr ⟨f, hf, rfl⟩
  · intro e he hn
    simp only [runMain, List.mem_append, List.mem_filter]
    refine Or.inl ⟨he, ?_⟩
    simp only [Bool.not_eq_true']
    cases hc : (writtenFiles b key base named mir).contains e.1 with
    | false => rfl
    | true => exact absurd (List.contains_iff_mem.1 hc) hn
  · intro e he
    simp only [runMain, List.mem_append, List.mem_filter, List.mem_map] at he
    rcases he with ⟨h1, _⟩ | ⟨f, hf, rfl⟩
    · exact Or.inl h1
    · exact Or.inr ⟨hf, rfl⟩

/-- C / C++: exactly the single named file -/
theorem c_single_file (key : Nat → Nat) (base named : Nat) (mir : List MNode) :
    writtenFiles .c key base named mir = [named] ∧ writtenFiles .cpp key base named mir = [named] := ⟨rfl, rfl⟩

/-! ### one file per interface: false for Rust when names collide after case folding -/

def ifaceNames : List MNode → List Nat
  | [] => []
  | .iface (l :: _) :: ns => l.name :: ifaceNames ns
  | _ :: ns => ifaceNames ns

/-- **full statement**: every interface gets its own file -/
def OneFilePerInterface (key : Nat → Nat) (base : Nat) (mir : List MNode) : Prop :=
  ∀ i ∈ ifaceNames mir, key i ≠ base → ∃ e ∈ multiFiles key base mir [(base, [])], e.1 = key i ∧ e.2 = [i]

/-- witness: `interface Foo` (id 1) and `interface FOO` (id 2) both fold to `foo` (key 10):
    a single `foo.rs` holding only the second -/
theorem rust_case_fold_collision :
    ¬ OneFilePerInterface (fun n => if n == 1 || n == 2 then 10 else n) 0
        [.iface [⟨1, []⟩], .iface [⟨2, []⟩]] := by
  intro h
  have := h 1 (by decide) (by decide)
  revert this
  decide

example : multiFiles (fun n => if n == 1 || n == 2 then 10 else n) 0 [.iface [⟨1, []⟩], .iface [⟨2, []⟩]] [(0, [])]
    = [(0, []), (10, [2])] := by decide

theorem keys_insert (fs : FileSet) (k : Nat) (v : List Nat) :
    (fs.insert k v).map (·.1) = if fs.any (fun e => e.1 == k) then fs.map (·.1) else fs.map (·.1) ++ [k] := by
  unfold FileSet.insert
  split
  · rw [List.map_map]
    apply List.map_congr_left
    intro e _
    simp only [Function.comp]
    split
    · rename_i h; simpa using (beq_iff_eq.1 h).symm
    · rfl
  · simp

theorem keys_appendTo (fs : FileSet) (k : Nat) (v : List Nat) : (fs.appendTo k v).map (·.1) = fs.map (·.1) := by
  unfold FileSet.appendTo
  rw [List.map_map]
  apply List.map_congr_left
  intro e _
  simp only [Function.comp]
  split <;> rfl

/-- **C19 partial (file names)**: the set of file names is always exactly the base plus the
    keys of the interfaces — nothing else is ever created by the multi-file generators -/
theorem multiFiles_keys (key : Nat → Nat) (base : Nat) (mir : List MNode) (fs : FileSet) :
    ∀ k, k ∈ (multiFiles key base mir fs).map (·.1) ↔ k ∈ fs.map (·.1) ∨ (k ∈ (ifaceNames mir).map key ∧ k ≠ base) := by
  induction mir generalizing fs with
  | nil => intro k; simp [multiFiles, ifaceNames]
  | cons n ns ih =>
    intro k
    cases n with
    | incl p => simp only [multiFiles, ifaceNames]; exact ih fs k
    | const c => simp only [multiFiles, ifaceNames]; rw [ih, keys_appendTo]
    | struct sm s => simp only [multiFiles, ifaceNames]; rw [ih, keys_appendTo]
    | iface i =>
      cases i with
      | nil => simp only [multiFiles, ifaceNames]; exact ih fs k
      | cons l ls =>
        simp only [multiFiles, ifaceNames]
        split
        · rename_i hb
          rw [ih, keys_appendTo]
          have hb' : key l.name = base := by simpa using hb
          constructor
          · rintro (h | ⟨h1, h2⟩)
            · exact Or.inl h
            · exact Or.inr ⟨by simp [h1], h2⟩
          · rintro (h | ⟨h1, h2⟩)
            · exact Or.inl h
            · simp only [List.map_cons, List.mem_cons] at h1
              rcases h1 with rfl | h1
              · exact absurd hb' h2
              · exact Or.inr ⟨h1, h2⟩
        · rename_i hb
          have hb' : key l.name ≠ base := by simpa using hb
          rw [ih, keys_insert]
          constructor
          · rintro (h | ⟨h1, h2⟩)
            · split at h
              · exact Or.inl h
              · simp only [List.mem_append, List.mem_singleton] at h
                rcases h with h | rfl
                · exact Or.inl h
                · exact Or.inr ⟨by simp, hb'⟩
            · exact Or.inr ⟨by simp [h1], h2⟩
          · rintro (h | ⟨h1, h2⟩)
            · left; split
              · exact h
              · simp [h]
            · simp only [List.map_cons, List.mem_cons] at h1
              rcases h1 with rfl | h1
              · left
                split
                · rename_i hany
                  obtain ⟨e, he, hk⟩ := List.any_eq_true.1 hany
                  exact List.mem_map.2 ⟨e, he, by simpa using hk⟩
                · simp
              · exact Or.inr ⟨h1, h2⟩

end Mink.C19
