/-
  MinkProofs.GraphLemmas — the DFS of graph.rs: when `toposort` succeeds its result is a
  topological order (every node's successors come earlier) without repetitions, hence the
  graph has no cycle — for every iteration order of the hash tables (the lists are arbitrary).
-/
import MinkModel.Graph
namespace Mink

/-- `r` is newest-first: successors of a node must already be in the tail behind it -/
def Closed (g : Graph) : List Nat → Prop
  | [] => True
  | n :: r => (∀ v ∈ g.succ n, v ∈ r) ∧ Closed g r

structure DfsInv (g : Graph) (branch : List Nat) (st : DfsSt) : Prop where
  vis : ∀ x, x ∈ st.visited ↔ (x ∈ st.rorder ∨ x ∈ branch)
  closed : Closed g st.rorder
  nodup : st.rorder.Nodup
  disj : ∀ x ∈ st.rorder, x ∉ branch

def DfsPost (g : Graph) (branch : List Nat) (st st' : DfsSt) (ns : List Nat) : Prop :=
  DfsInv g branch st' ∧ (∃ suf, st'.rorder = suf ++ st.rorder) ∧ ∀ n ∈ ns, n ∈ st'.rorder

theorem visitList_nil (g : Graph) (fuel : Nat) (b : List Nat) (st : DfsSt) :
    g.visitList fuel [] b st = .ok st := rfl

theorem visitList_cons (g : Graph) (fuel : Nat) (m : Nat) (ms b : List Nat) (st : DfsSt) :
    g.visitList fuel (m :: ms) b st =
      (match g.visit fuel m b st with
       | .error e => .error e
       | .ok st' => g.visitList fuel ms b st') := rfl

theorem visit_visitList_ok (g : Graph) : ∀ fuel,
    (∀ n branch st st', DfsInv g branch st → g.visit fuel n branch st = .ok st' → DfsPost g branch st st' [n]) ∧
    (∀ ns branch st st', DfsInv g branch st → g.visitList fuel ns branch st = .ok st' → DfsPost g branch st st' ns) := by
  intro fuel
  induction fuel with
  | zero =>
    refine ⟨?_, ?_⟩
    · intro n branch st st' _ h; simp [Graph.visit] at h
    · intro ns
      induction ns with
      | nil => intro branch st st' hinv h; simp [visitList_nil] at h; subst h; exact ⟨hinv, ⟨[], rfl⟩, by simp⟩
      | cons m ms _ => intro branch st st' _ h; simp [visitList_cons, Graph.visit] at h
  | succ fuel ih =>
    obtain ⟨_, ihl⟩ := ih
    have hv : ∀ n branch st st', DfsInv g branch st → g.visit (fuel+1) n branch st = .ok st' → DfsPost g branch st st' [n] := by
      intro n branch st st' hinv h
      unfold Graph.visit at h
      split at h
      · simp at h
      · rename_i hnb
        have hnb' : n ∉ branch := fun hm => hnb (List.contains_iff_mem.2 hm)
        split at h
        · rename_i hvis
          simp at h; subst h
          refine ⟨hinv, ⟨[], rfl⟩, ?_⟩
          intro x hx; simp at hx; subst hx
          rcases (hinv.vis x).1 (List.contains_iff_mem.1 hvis) with h1 | h1
          · exact h1
          · exact absurd h1 hnb'
        · rename_i hvis
          have hvis' : n ∉ st.visited := fun hm => hvis (List.contains_iff_mem.2 hm)
          split at h
          · simp at h
          · rename_i st1 hl
            simp at h; subst h
            change g.visitList fuel _ _ _ = _ at hl
            have hinv1 : DfsInv g (branch ++ [n]) { st with visited := n :: st.visited } := by
              refine ⟨?_, hinv.closed, hinv.nodup, ?_⟩
              · intro x; simp [hinv.vis x]; constructor
                · rintro (h | h | h); exact Or.inr (Or.inr h); exact Or.inl h; exact Or.inr (Or.inl h)
                · rintro (h | h | h); exact Or.inr (Or.inl h); exact Or.inr (Or.inr h); exact Or.inl h
              · intro x hx hb
                simp only [List.mem_append, List.mem_singleton] at hb
                rcases hb with hb | rfl
                · exact hinv.disj x hx hb
                · exact hvis' ((hinv.vis x).2 (Or.inl hx))
            obtain ⟨hinv', ⟨suf, hsuf⟩, hall⟩ := ihl _ _ _ _ hinv1 hl
            have hn_notin : n ∉ st1.rorder := fun hm => hinv'.disj n hm (by simp)
            refine ⟨⟨?_, ?_, ?_, ?_⟩, ⟨n :: suf, by simp [hsuf]⟩, by simp⟩
            · intro x; simp [hinv'.vis x]; constructor
              · rintro (h | h | h); exact Or.inl (Or.inr h); exact Or.inr h; exact Or.inl (Or.inl h)
              · rintro ((h | h) | h); exact Or.inr (Or.inr h); exact Or.inl h; exact Or.inr (Or.inl h)
            · exact ⟨hall, hinv'.closed⟩
            · exact List.nodup_cons.2 ⟨hn_notin, hinv'.nodup⟩
            · intro x hx hb
              simp only [List.mem_cons] at hx
              rcases hx with rfl | hx
              · exact hnb' hb
              · exact hinv'.disj x hx (by simp [hb])
    refine ⟨hv, ?_⟩
    intro ns
    induction ns with
    | nil => intro branch st st' hinv h; simp [visitList_nil] at h; subst h; exact ⟨hinv, ⟨[], rfl⟩, by simp⟩
    | cons m ms ihms =>
      intro branch st st' hinv h
      rw [visitList_cons] at h
      split at h
      · simp at h
      · rename_i st1 h1
        obtain ⟨hi1, ⟨s1, hs1⟩, ha1⟩ := hv _ _ _ _ hinv h1
        obtain ⟨hi2, ⟨s2, hs2⟩, ha2⟩ := ihms _ _ _ hi1 h
        refine ⟨hi2, ⟨s2 ++ s1, by simp [hs2, hs1]⟩, ?_⟩
        intro x hx; simp at hx
        rcases hx with hx | hx
        · subst hx; rw [hs2]; simp; exact Or.inr (ha1 _ (by simp))
        · exact ha2 _ hx

/-- one or more steps along edges -/
inductive Reach (g : Graph) : Nat → Nat → Prop
  | single {u v} (h : v ∈ g.succ u) : Reach g u v
  | cons {u v w} (h : v ∈ g.succ u) (r : Reach g v w) : Reach g u w

theorem closed_succ {g : Graph} {r : List Nat} (hc : Closed g r) {x v : Nat} (hx : x ∈ r) (hv : v ∈ g.succ x) :
    v ∈ r := by
  induction r with
  | nil => simp at hx
  | cons n r ih =>
    rcases List.mem_cons.1 hx with rfl | hx
    · exact List.mem_cons_of_mem _ (hc.1 v hv)
    · exact List.mem_cons_of_mem _ (ih hc.2 hx)

theorem closed_reach {g : Graph} {r : List Nat} (hc : Closed g r) {x y : Nat} (hx : x ∈ r) (h : Reach g x y) :
    y ∈ r := by
  induction h with
  | single hv => exact closed_succ hc hx hv
  | cons hv _ ih => exact ih (closed_succ hc hx hv)

/-- a closed, repetition-free order admits no cycle through any of its nodes -/
theorem closed_acyclic {g : Graph} {r : List Nat} (hc : Closed g r) (hn : r.Nodup) :
    ∀ x ∈ r, ¬ Reach g x x := by
  induction r with
  | nil => intro x hx; simp at hx
  | cons n r ih =>
    intro x hx hr
    rw [List.nodup_cons] at hn
    rcases List.mem_cons.1 hx with rfl | hx
    · cases hr with
      | single hv => exact hn.1 (hc.1 _ hv)
      | cons hv rest => exact hn.1 (closed_reach hc.2 (hc.1 _ hv) rest)
    · exact ih hc.2 hn.2 x hx hr

/-- **toposort succeeds ⇒ no cycle**: for every order in which the hash tables are iterated -/
theorem toposort_ok_acyclic (g : Graph) (order : List Nat) (h : g.toposort = .ok order) :
    (∀ x, ¬ Reach g x x) ∧ order.Nodup ∧ (∀ k ∈ g.keys, k ∈ order) ∧ Closed g order.reverse := by
  unfold Graph.toposort at h
  split at h
  · simp at h
  · rename_i st hst
    simp only [Except.ok.injEq] at h; subst h
    have hinv0 : DfsInv g [] ({} : DfsSt) := ⟨by simp, trivial, List.nodup_nil, by simp⟩
    obtain ⟨hinv, _, hall⟩ := (visit_visitList_ok g _).2 _ _ _ _ hinv0 hst
    refine ⟨?_, (by have := hinv.nodup; simp only [List.Nodup, List.pairwise_reverse] at *; exact this.imp (fun h => Ne.symm h)), by simpa using hall, by simpa using hinv.closed⟩
    intro x hr
    -- a node on a cycle has a successor, hence is a key, hence is in the order
    have hkey : x ∈ g.keys := by
      have hs : ∃ v, v ∈ g.succ x := by
        cases hr with
        | single hv => exact ⟨_, hv⟩
        | cons hv _ => exact ⟨_, hv⟩
      obtain ⟨v, hv⟩ := hs
      unfold Graph.succ at hv
      split at hv
      · rename_i e he
        have := List.find?_some he
        have hm := List.mem_of_find?_eq_some he
        simp only [Graph.keys, List.mem_map]
        exact ⟨e, hm, by simpa using this⟩
      · simp at hv
    exact closed_acyclic hinv.closed hinv.nodup x (hall x hkey) hr

end Mink
