"""E2 bench: generator of the C++ caller / implementation translation unit (SPEC.md section 2).

    generate(case, ifaces, plans, typed=True) -> {"bench_cpp.cpp": <source>}

case    SPEC section 1 dict
ifaces  list of interface names to instantiate
plans   plans[(iface_name, method_name)] = [plan of valuation 0, plan of valuation 1, ...]
        (dicts of values.plan_method)
typed   accepted for symmetry with gen_c; `--no-typed-objects` does not affect idlc's C++
        backend, so the C++ unit is the same either way.

The unit includes bench.h and, for every case file that declares one of `ifaces`, the
generated `<stem>.hpp` and `<stem>_invoke.hpp` (which include object.h, proxy_base.hpp,
impl_base.hpp and the headers of included files by themselves).  NB: the generated C++
headers re-declare the IDL structs and do not include the C header `<stem>.h`; this unit must
not be mixed with the C headers in one translation unit.

For every interface I of `ifaces` and every flattened method m it defines (C linkage)
    void   call_cpp_<I>_<m>(Object target)
    Object make_cpp_<I>(void)
Reference discipline of the generated code (retains 0 / releases 1 per token in `refs`):
  caller  one counting_new per distinct input token; proxies handed to the stub are built on
          the raw Object and emptied again with extract() after the call (borrow), then each
          token is released once.  Output objects are printed and released once on status 0;
          on an error status outputs are not touched (proxy destructors still run: whatever a
          stub would put there on error is released by RAII, as for any C++ user).
  impl    input objects are only read (get()); output objects are counting_new'd and moved
          into the proxies with consume() / stored raw into struct fields.  On a scripted
          error nothing is written.  Output lengths / copies are clamped to the capacity seen.
Identifiers introduced here start with `z` / `Z`; IDL identifiers are used only where the
generated headers force them (type names, field names, method names).
Only C++11 is needed (g++ / clang++ defaults), no float literals: all values are embedded as
byte images and memcpy'd.
"""
import os

from . import idl

CT = {
    "uint8": "uint8_t", "uint16": "uint16_t", "uint32": "uint32_t", "uint64": "uint64_t",
    "int8": "int8_t", "int16": "int16_t", "int32": "int32_t", "int64": "int64_t",
    "float32": "float", "float64": "double",
}

PRELUDE = r'''
__attribute__((unused)) static std::string zhex(const void *p, size_t n) {
  if (n == 0 || p == NULL) {
    return std::string();
  }
  std::string s(2 * n + 1, '\0');
  hex_of(p, n, &s[0]);
  s.resize(2 * n);
  return s;
}
__attribute__((unused)) static std::string zq(const std::string &s) {
  return "\"" + s + "\"";
}
__attribute__((unused)) static std::string zobj(Object o) {
  return zq(std::string(obj_text(o)));
}
__attribute__((unused)) static std::string zbuf(size_t len, const std::string &hex) {
  return "{\"len\":" + std::to_string(len) + ",\"hex\":\"" + hex + "\"}";
}
__attribute__((unused)) static void zsep(std::string &s) {
  if (!s.empty() && s[s.size() - 1] != '{' && s[s.size() - 1] != '[') {
    s += ",";
  }
}
__attribute__((unused)) static void zkey(std::string &s, const char *k) {
  zsep(s);
  s += "\"";
  s += k;
  s += "\":";
}
__attribute__((unused)) static size_t zmin(size_t a, size_t b) {
  return a < b ? a : b;
}
__attribute__((unused)) static void zdrop(Object o) {
  if (!Object_isNull(o)) {
    Object_release(o);
  }
}
'''


# ------------------------------------------------------------------ small helpers

def _stem(path):
    return os.path.splitext(os.path.basename(path))[0]


def _bytes_lit(hexstr):
    b = bytes.fromhex(hexstr)
    return ", ".join("0x%02x" % x for x in b)


def _is_iface_type(case, t):
    return t == "interface" or t in idl.iface_table(case)


def _obj_cpp_type(case, t):
    """C++ type idlc uses for a single object parameter"""
    return "ProxyBase" if t == "interface" else t


def _objarr_cpp_type(case, t):
    """C++ element type idlc uses for an object array parameter"""
    return "Object" if t == "interface" else t


def cpp_leaves(case, sname, prefix=""):
    """[(member access suffix like '.a.b[1]', leaf type)] in idl.leaves order.
    idlc declares a field with count 1 as a plain member (also when written `T[1] x`)."""
    st = idl.struct_table(case)
    it = idl.iface_table(case)
    out = []
    for f in st[sname]["fields"]:
        cnt = f.get("count", 1)
        for i in range(cnt):
            acc = prefix + "." + f["name"] + ("" if cnt == 1 else "[%d]" % i)
            ft = f["type"]
            if ft in idl.PRIMS:
                out.append((acc, ft))
            elif ft == "interface" or ft in it:
                out.append((acc, "object"))
            else:
                out += cpp_leaves(case, ft, acc)
    return out


def _struct_prim_hex(v):
    """packed image of the primitive leaves of a struct value (objects omitted)"""
    return "".join(l["hex"] for l in v["leaves"] if l["type"] != "object")


class _W:
    def __init__(self):
        self.lines = []
        self.ind = 0
        self.n = 0

    def w(self, s=""):
        self.lines.append(("  " * self.ind + s) if s else "")

    def fresh(self, base="zd"):
        self.n += 1
        return "%s%d" % (base, self.n)

    def data(self, hexstr):
        """emit a static byte array, return its name (None when empty)"""
        if not hexstr:
            return None
        name = self.fresh("zd")
        self.w("static const unsigned char %s[] = { %s };" % (name, _bytes_lit(hexstr)))
        return name

    def text(self):
        return "\n".join(self.lines) + "\n"


# ------------------------------------------------------------------ per struct helpers

def _used_structs(case, ifaces):
    """struct names used as parameter types (value or array) by the flattened methods"""
    st = idl.struct_table(case)
    used = []
    for i in ifaces:
        for _, m, _ in idl.flat_methods(case, i):
            for p in m["params"]:
                if p["type"] in st and p["type"] not in used:
                    used.append(p["type"])
    return used


def _emit_struct_helpers(w, case, sname):
    lv = cpp_leaves(case, sname)
    # fill primitive leaves from a packed image
    w.w("__attribute__((unused)) static void zfill_%s(%s &s, const unsigned char *d) {" % (sname, sname))
    w.ind += 1
    off = 0
    for acc, lt in lv:
        if lt == "object":
            continue
        n = idl.PRIMS[lt]
        w.w("memcpy(&s%s, d + %d, %d);" % (acc, off, n))
        off += n
    w.w("(void)s;")
    w.w("(void)d;")
    w.ind -= 1
    w.w("}")
    # canonical text: list of leaves
    w.w("__attribute__((unused)) static std::string zcanon_%s(const %s &s) {" % (sname, sname))
    w.ind += 1
    w.w('std::string t = "[";')
    for acc, lt in lv:
        w.w("zsep(t);")
        if lt == "object":
            w.w("t += zobj(s%s);" % acc)
        else:
            w.w("t += zq(zhex(&s%s, %d));" % (acc, idl.PRIMS[lt]))
    w.w("(void)s;")
    w.w('t += "]";')
    w.w("return t;")
    w.ind -= 1
    w.w("}")
    # packed hex of the primitive leaves (struct arrays)
    w.w("__attribute__((unused)) static std::string zpack_%s(const %s &s) {" % (sname, sname))
    w.ind += 1
    w.w("std::string t;")
    for acc, lt in lv:
        if lt != "object":
            w.w("t += zhex(&s%s, %d);" % (acc, idl.PRIMS[lt]))
    w.w("(void)s;")
    w.w("return t;")
    w.ind -= 1
    w.w("}")
    # release every object leaf
    w.w("__attribute__((unused)) static void zrelease_%s(%s &s) {" % (sname, sname))
    w.ind += 1
    for acc, lt in lv:
        if lt == "object":
            w.w("zdrop(s%s);" % acc)
            w.w("s%s = Object_NULL;" % acc)
    w.w("(void)s;")
    w.ind -= 1
    w.w("}")
    w.w()


# ------------------------------------------------------------------ token scanning

def _tokens_of(value):
    k = value["k"]
    if k == "struct":
        return [l["obj"] for l in value["leaves"] if l["type"] == "object" and l["obj"] is not None]
    if k == "obj":
        return [value["obj"]] if value["obj"] is not None else []
    if k == "objarr":
        return [t for t in value["objs"] if t is not None]
    return []


def _distinct(seq):
    out = []
    for x in seq:
        if x not in out:
            out.append(x)
    return out


# ------------------------------------------------------------------ caller

def _emit_caller(w, case, iface, method, plist):
    mname = method["name"]
    w.w('extern "C" void call_cpp_%s_%s(Object target) {' % (iface, mname))
    w.ind += 1
    # ProxyBase(Object) consumes a reference and the destructor releases it: take our own.
    w.w("if (!Object_isNull(target)) {")
    w.w("  Object_retain(target);")
    w.w("}")
    w.w("%s zp(target);" % iface)
    w.w("int32_t zst = -1;")
    w.w("std::string zouts;")
    w.w("std::string zlens;")
    w.w("switch (g_val) {")
    for v, plan in enumerate(plist):
        w.w("case %d: {" % v)
        w.ind += 1
        _emit_call_block(w, case, iface, method, plan)
        w.w("break;")
        w.ind -= 1
        w.w("}")
    w.w("default:")
    w.w("  break;")
    w.w("}")
    w.w('std::string zr = "{\\"ev\\":\\"ret\\",\\"lang\\":\\"cpp\\",\\"iface\\":\\"%s\\",\\"method\\":\\"%s\\",\\"status\\":";'
        % (iface, mname))
    w.w("zr += std::to_string(zst);")
    w.w('zr += ",\\"outs\\":{" + zouts + "},\\"lenouts\\":{" + zlens + "}}";')
    w.w("emit(zr.c_str());")
    w.ind -= 1
    w.w("}")
    w.w()


def _emit_call_block(w, case, iface, method, plan):
    params = method["params"]
    ins, outs, caps = plan["ins"], plan["outs"], plan["caps"]
    # one counting object per distinct input token
    toks = []
    for p in params:
        if p["dir"] == "in":
            toks += _tokens_of(ins[p["name"]])
    toks = _distinct(toks)
    for t in toks:
        w.w("Object zt%d = counting_new(%d);" % (t, t))

    def tokx(t):
        return "Object_NULL" if t is None else "zt%d" % t

    args = []
    after_call = []      # statements run after the call regardless of status
    read_outs = []       # statements run when status == 0 (print, then release)
    for i, p in enumerate(params):
        name, t = p["name"], p["type"]
        kind = idl.param_kind(case, p)
        if p["dir"] == "in":
            v = ins[name]
            x = "zi%d" % i
            if kind == "prim":
                d = w.data(v["hex"])
                w.w("%s %s;" % (CT[t], x))
                w.w("memcpy(&%s, %s, sizeof(%s));" % (x, d, x))
                args.append(x)
            elif kind in ("small", "big"):
                w.w("%s %s;" % (t, x))
                w.w("memset(&%s, 0, sizeof(%s));" % (x, x))
                d = w.data(_struct_prim_hex(v))
                if d:
                    w.w("zfill_%s(%s, %s);" % (t, x, d))
                for (acc, lt), leaf in zip(cpp_leaves(case, t), v["leaves"]):
                    if lt == "object":
                        w.w("%s%s = %s;" % (x, acc, tokx(leaf["obj"])))
                args.append(x)
            elif kind in ("buffer", "primarr"):
                et = "unsigned char" if kind == "buffer" else CT[t]
                w.w("std::vector<%s> %s(%d);" % (et, x, v["len"] + 1))
                d = w.data(v["hex"])
                if d:
                    w.w("memcpy(%s.data(), %s, sizeof(%s));" % (x, d, d))
                args += ["%s.data()" % x, "(size_t)%d" % v["len"]]
            elif kind == "structarr":
                w.w("std::vector<%s> %s(%d);" % (t, x, v["len"] + 1))
                w.w("memset(%s.data(), 0, %s.size() * sizeof(%s));" % (x, x, t))
                d = w.data(v["hex"])
                if d:
                    w.w("for (size_t zj = 0; zj < %d; zj++) {" % v["len"])
                    w.w("  zfill_%s(%s[zj], %s + zj * %d);" % (t, x, d, v["esize"]))
                    w.w("}")
                args += ["%s.data()" % x, "(size_t)%d" % v["len"]]
            elif kind == "obj":
                # borrowed: the proxy is emptied again (extract) after the call
                w.w("%s %s(%s);" % (_obj_cpp_type(case, t), x, tokx(v["obj"])))
                after_call.append("(void)%s.extract();" % x)
                args.append(x)
            elif kind == "objarr":
                et = _objarr_cpp_type(case, t)
                w.w("%s %s[%d] = { %s };" % (et, x, len(v["objs"]), ", ".join(tokx(o) for o in v["objs"])))
                if et != "Object":
                    after_call.append("for (size_t zj = 0; zj < %d; zj++) { (void)%s[zj].extract(); }"
                                      % (len(v["objs"]), x))
                args.append(x)
            else:
                raise ValueError(kind)
        else:
            x = "zo%d" % i
            key = 'zkey(zouts, "%s");' % name
            if kind == "prim":
                w.w("%s %s;" % (CT[t], x))
                w.w("memset(&%s, 0, sizeof(%s));" % (x, x))
                args.append("&" + x)
                read_outs += [key, "zouts += zq(zhex(&%s, sizeof(%s)));" % (x, x)]
            elif kind in ("small", "big"):
                w.w("%s %s;" % (t, x))
                w.w("memset(&%s, 0, sizeof(%s));" % (x, x))
                args.append(x)
                read_outs += [key, "zouts += zcanon_%s(%s);" % (t, x), "zrelease_%s(%s);" % (t, x)]
            elif kind in ("buffer", "primarr", "structarr"):
                cap = caps[name]
                et = "unsigned char" if kind == "buffer" else (CT[t] if kind == "primarr" else t)
                w.w("std::vector<%s> %s(%d);" % (et, x, cap + 1))
                w.w("memset(%s.data(), 0, %s.size() * sizeof(%s));" % (x, x, et))
                w.w("size_t %s_lenout = 0;" % x)
                args += ["%s.data()" % x, "(size_t)%d" % cap, "&%s_lenout" % x]
                read_outs.append(key)
                # never read past the capacity we handed out, whatever length is reported
                read_outs.append("size_t %s_n = zmin(%s_lenout, %d);" % (x, x, cap))
                if kind == "structarr":
                    read_outs.append("std::string %s_h;" % x)
                    read_outs.append("for (size_t zj = 0; zj < %s_n; zj++) { %s_h += zpack_%s(%s[zj]); }"
                                     % (x, x, t, x))
                    read_outs.append("zouts += zbuf(%s_lenout, %s_h);" % (x, x))
                else:
                    read_outs.append("zouts += zbuf(%s_lenout, zhex(%s.data(), %s_n * sizeof(%s)));"
                                     % (x, x, x, et))
                read_outs.append('zkey(zlens, "%s");' % name)
                read_outs.append("zlens += std::to_string(%s_lenout);" % x)
            elif kind == "obj":
                # every other output proxy is RE-USED: it still manages an object from an earlier
                # call (owned by the proxy: released by `consume` on success, by the destructor
                # otherwise — exactly once either way, and by nobody else)
                if i % 2 == 1:
                    w.w("%s %s(counting_new(%d));" % (_obj_cpp_type(case, t), x, 800 + i))
                else:
                    w.w("%s %s;" % (_obj_cpp_type(case, t), x))
                args.append(x)
                read_outs += [key, "zouts += zobj(%s.get());" % x, "zdrop(%s.extract());" % x]
            elif kind == "objarr":
                et = _objarr_cpp_type(case, t)
                n = int(p["arr"])
                if et == "Object":
                    w.w("Object %s[%d];" % (x, n))
                    w.w("memset(%s, 0, sizeof(%s));" % (x, x))
                    get, drop = "%s[zj]" % x, "zdrop(%s[zj]); %s[zj] = Object_NULL;" % (x, x)
                else:
                    w.w("%s %s[%d];" % (et, x, n))
                    get, drop = "%s[zj].get()" % x, "zdrop(%s[zj].extract());" % x
                args.append(x)
                read_outs += [key, 'zouts += "[";',
                              "for (size_t zj = 0; zj < %d; zj++) { zsep(zouts); zouts += zobj(%s); }" % (n, get),
                              'zouts += "]";',
                              "for (size_t zj = 0; zj < %d; zj++) { %s }" % (n, drop)]
            else:
                raise ValueError(kind)
    w.w("zst = zp.%s(%s);" % (method["name"], ", ".join(args)))
    if read_outs:
        w.w("if (zst == 0) {")
        w.ind += 1
        for s in read_outs:
            w.w(s)
        w.ind -= 1
        w.w("}")
    for s in after_call:
        w.w(s)
    # drop the one reference counting_new gave us for each token
    for t in toks:
        w.w("Object_release(zt%d);" % t)


# ------------------------------------------------------------------ implementation

def _impl_params(case, method):
    """signature text (must equal what idlc declared) with positional names a<i>"""
    out = []
    for i, p in enumerate(method["params"]):
        t = p["type"]
        kind = idl.param_kind(case, p)
        a = "a%d" % i
        isin = p["dir"] == "in"
        c = "const " if isin else ""
        if kind == "prim":
            out.append("%s %s" % (CT[t], a) if isin else "%s *%s" % (CT[t], a))
        elif kind in ("small", "big"):
            out.append("%s%s &%s" % (c, t, a))
        elif kind in ("buffer", "primarr", "structarr"):
            et = "void" if kind == "buffer" else (CT[t] if kind == "primarr" else t)
            out.append("%s%s *%s" % (c, et, a))
            out.append("size_t %s_len" % a)
            if not isin:
                out.append("size_t *%s_lenout" % a)
        elif kind == "obj":
            out.append("%s%s &%s" % (c, _obj_cpp_type(case, t), a))
        elif kind == "objarr":
            out.append("%s%s (&%s)[%d]" % (c, _objarr_cpp_type(case, t), a, int(p["arr"])))
        else:
            raise ValueError(kind)
    return ", ".join(out)


def _emit_impl_method(w, case, iface, method, plist):
    mname = method["name"]
    params = method["params"]
    w.w("int32_t %s(%s) override {" % (mname, _impl_params(case, method)))
    w.ind += 1
    w.w('std::string zr = "{\\"ev\\":\\"impl\\",\\"lang\\":\\"cpp\\",\\"iface\\":\\"%s\\",\\"method\\":\\"%s\\",\\"ins\\":{";'
        % (iface, mname))
    for i, p in enumerate(params):
        if p["dir"] != "in":
            continue
        t = p["type"]
        kind = idl.param_kind(case, p)
        a = "a%d" % i
        w.w('zkey(zr, "%s");' % p["name"])
        if kind == "prim":
            w.w("zr += zq(zhex(&%s, sizeof(%s)));" % (a, a))
        elif kind in ("small", "big"):
            w.w("zr += zcanon_%s(%s);" % (t, a))
        elif kind == "buffer":
            w.w("zr += zbuf(%s_len, zhex(%s, %s_len));" % (a, a, a))
        elif kind == "primarr":
            w.w("zr += zbuf(%s_len, zhex(%s, %s_len * sizeof(%s)));" % (a, a, a, CT[t]))
        elif kind == "structarr":
            w.w("{")
            w.w("  std::string zh;")
            w.w("  for (size_t zj = 0; zj < %s_len; zj++) { zh += zpack_%s(%s[zj]); }" % (a, t, a))
            w.w("  zr += zbuf(%s_len, zh);" % a)
            w.w("}")
        elif kind == "obj":
            w.w("zr += zobj(%s.get());" % a)
        elif kind == "objarr":
            get = "%s[zj]" % a if _objarr_cpp_type(case, t) == "Object" else "%s[zj].get()" % a
            w.w('zr += "[";')
            w.w("for (size_t zj = 0; zj < %d; zj++) { zsep(zr); zr += zobj(%s); }" % (int(p["arr"]), get))
            w.w('zr += "]";')
        else:
            raise ValueError(kind)
    w.w('zkey(zr, "outcap");')
    w.w('zr += "{";')
    for i, p in enumerate(params):
        if p["dir"] == "out" and idl.param_kind(case, p) in ("buffer", "primarr", "structarr"):
            w.w('zkey(zr, "%s");' % p["name"])
            w.w("zr += std::to_string(a%d_len);" % i)
    w.w('zr += "}}}";')
    w.w("emit(zr.c_str());")
    w.w("switch (g_val) {")
    for v, plan in enumerate(plist):
        w.w("case %d: {" % v)
        w.ind += 1
        if plan["status"] == 0:
            _emit_impl_outs(w, case, method, plan)
        w.w("return %d;" % plan["status"])
        w.ind -= 1
        w.w("}")
    w.w("default:")
    w.w("  break;")
    w.w("}")
    w.w("return Object_ERROR;")
    w.ind -= 1
    w.w("}")


def _emit_impl_outs(w, case, method, plan):
    made = set()

    def newobj(tok):
        """expression yielding one owned reference of the counting object `tok`"""
        if tok is None:
            return None
        if tok in made:
            w.w("Object_retain(zn%d);" % tok)
        else:
            w.w("Object zn%d = counting_new(%d);" % (tok, tok))
            made.add(tok)
        return "zn%d" % tok

    for i, p in enumerate(method["params"]):
        if p["dir"] != "out":
            continue
        t = p["type"]
        kind = idl.param_kind(case, p)
        a = "a%d" % i
        v = plan["outs"][p["name"]]
        if kind == "prim":
            d = w.data(v["hex"])
            w.w("memcpy(%s, %s, sizeof(%s));" % (a, d, d))
        elif kind in ("small", "big"):
            d = w.data(_struct_prim_hex(v))
            if d:
                w.w("zfill_%s(%s, %s);" % (t, a, d))
            for (acc, lt), leaf in zip(cpp_leaves(case, t), v["leaves"]):
                if lt == "object":
                    e = newobj(leaf["obj"])
                    w.w("%s%s = %s;" % (a, acc, e if e else "Object_NULL"))
        elif kind in ("buffer", "primarr", "structarr"):
            # never write past the capacity we were given (a wrong capacity shows in `outcap`)
            n = w.fresh("zn_")
            w.w("size_t %s = zmin(%s_len, %d);" % (n, a, v["len"]))
            d = w.data(v["hex"])
            if d and kind == "structarr":
                w.w("for (size_t zj = 0; zj < %s; zj++) { zfill_%s(%s[zj], %s + zj * %d); }"
                    % (n, t, a, d, v["esize"]))
            elif d:
                w.w("memcpy(%s, %s, %s * %d);" % (a, d, n, v["esize"]))
            w.w("*%s_lenout = %s;" % (a, n))
        elif kind == "obj":
            e = newobj(v["obj"])
            if e:
                # consume(): takes over our reference, no retain / release traffic
                w.w("{ Object zc = %s; %s.consume(zc); }" % (e, a))
        elif kind == "objarr":
            raw = _objarr_cpp_type(case, t) == "Object"
            for j, tok in enumerate(v["objs"]):
                e = newobj(tok)
                if raw:
                    w.w("%s[%d] = %s;" % (a, j, e if e else "Object_NULL"))
                elif e:
                    w.w("{ Object zc = %s; %s[%d].consume(zc); }" % (e, a, j))
        else:
            raise ValueError(kind)


def _emit_impl_class(w, case, iface, plans):
    w.w("class ZImpl_%s : public %sImplBase {" % (iface, iface))
    w.w("public:")
    w.ind += 1
    w.w("ZImpl_%s() {}" % iface)
    w.w("virtual ~ZImpl_%s() {}" % iface)
    # %sImplBase derives ImplBase *protected*: the conversion is only accessible in here
    w.w("Object zobject() {")
    w.w("  Object zo;")
    w.w("  zo.invoke = ImplBase::invoke;")
    w.w("  zo.context = static_cast<ImplBase *>(this);")
    w.w("  return zo;")
    w.w("}")
    for _, m, _ in idl.flat_methods(case, iface):
        if m.get("optional") and not m.get("implemented"):
            continue          # left to the generated default (Object_ERROR_INVALID)
        _emit_impl_method(w, case, iface, m, plans[(iface, m["name"])])
    w.ind -= 1
    w.w("};")
    w.w()
    w.w('extern "C" Object make_cpp_%s(void) {' % iface)
    w.w("  ZImpl_%s *z = new ZImpl_%s();" % (iface, iface))
    w.w("  return z->zobject();")
    w.w("}")
    w.w()


# ------------------------------------------------------------------ entry point

def headers_for(case, ifaces):
    """stems of the case files that declare one of `ifaces`, in file order"""
    stems = []
    for f in case["files"]:
        for n in f.get("nodes", []):
            if n["k"] == "interface" and n["name"] in ifaces:
                s = os.path.splitext(os.path.normpath(f["path"]))[0]
                if s not in stems:
                    stems.append(s)
    return stems


def generate(case, ifaces, plans, typed=True):
    w = _W()
    w.w("// generated by bench/gen_cpp.py for case %s -- do not edit" % case.get("id"))
    w.w("#include <stddef.h>")
    w.w("#include <stdint.h>")
    w.w("#include <string.h>")
    w.w("#include <string>")
    w.w("#include <vector>")
    w.w('#include "bench.h"')
    for s in headers_for(case, ifaces):
        w.w('#include "%s.hpp"' % s)
        w.w('#include "%s_invoke.hpp"' % s)
    w.lines += PRELUDE.split("\n")
    for s in _used_structs(case, ifaces):
        _emit_struct_helpers(w, case, s)
    for i in ifaces:
        _emit_impl_class(w, case, i, plans)
        for _, m, _ in idl.flat_methods(case, i):
            _emit_caller(w, case, i, m, plans[(i, m["name"])])
    return {"bench_cpp.cpp": w.text()}
