#!/usr/bin/env python3
"""Self test of the E5 concurrency bench (bench/e5.py + bench/conc/main.rs.tmpl), property C20.

    python3 bench/selftest_conc.py            quick (<= 10 s): 2 builds in parallel, 6 positive runs,
                                              negative control, checker mutation tests
    python3 bench/selftest_conc.py --full     + unoptimised build with debug assertions, more seeds
    options: --idlc PATH  --keep (keep the work directory)  --ops N  -v

The reference checker `check(events)` is importable (`from bench.selftest_conc import check`).
It replays the history in seq order and reports violations in these categories:

    a-overlap   an `enter` on an object while another body of the same object is between its
                `enter` and `exit`  (clause a: bodies strictly alternate)
    a-flag      an `enter` whose in-program overlap detector fired ("overlap": true)
    b-stale     `enter.seen` differs from the `wrote` of the latest earlier `exit` of the object
                (0 initially), or `exit.wrote` != seen + delta(method, args)
    c-ret       `ret` without exactly one body of the same method/object on that thread since
                its `call`, `ret.total` != that body's `wrote`, or a non-zero status
    d-impl-drop not exactly one `impl_drop` per object; or an `impl_drop` while a handle of the
                object is still alive, while a body runs, while a call is pending, or on a thread
                that is not inside drop(handle) of that object; wrong `end` record
    e-handle    clone/call/drop/send/lend on a handle that is not alive or not accessible to that
                thread (owner, or borrower during a lend), live count below zero, handle id reused,
                recv by the wrong thread, handles left over at the end
    format      seq not 0,1,2,..., unknown event, missing field

Exit status: 0 iff all positive runs are clean, the negative control is detected, and every
mutation test is flagged with the expected category.
"""
import concurrent.futures
import os
import shutil
import sys
import tempfile
import time

if __package__:
    from . import e5
else:  # run as a script
    sys.path.insert(0, os.path.dirname(os.path.abspath(__file__)))
    import e5

M64 = (1 << 64) - 1
MAX_MSGS = 12


def _delta(m, arg, arg2):
    if m == "inc":
        return arg
    if m == "get":
        return 0
    if m == "slow":
        return 1
    if m == "both":
        return arg + (arg2 or 0)
    return None


class _Checker:
    def __init__(self):
        self.counts = {}
        self.msgs = []
        self.stats = {"events": 0, "calls": 0, "contended_calls": 0, "clones": 0, "drops": 0,
                      "sends": 0, "lends": 0, "lend_concurrent_calls": 0, "impl_drops": 0,
                      "max_live_handles": 0, "threads": 0}
        self.handles = {}   # h -> dict(obj, owner, state, dest, lent_to)
        self.objs = {}      # obj -> dict(live, bodies{tid:rec}, last_wrote, impl_drops, iface)
        self.pending = {}   # tid -> dict(h, obj, m, arg, arg2, bodies[list], open)
        self.dropping = {}  # tid -> (h, obj)
        self.tids = set()
        self.ended = False

    def bad(self, cat, e, msg):
        self.counts[cat] = self.counts.get(cat, 0) + 1
        if len(self.msgs) < MAX_MSGS:
            self.msgs.append(f"[{cat}] seq {e.get('seq')}: {msg}")

    # -------------------------------------------------------------- helpers
    def _accessible(self, h, tid):
        """may `tid` use handle h by reference (call / clone)?"""
        hs = self.handles.get(h)
        if hs is None or hs["state"] != "live":
            return False
        return hs["owner"] == tid or hs["lent_to"] == tid

    def _owned_exclusively(self, h, tid):
        hs = self.handles.get(h)
        return (hs is not None and hs["state"] == "live" and hs["owner"] == tid
                and hs["lent_to"] is None)

    def _new_handle(self, e, h, obj, owner):
        if h in self.handles:
            self.bad("e-handle", e, f"handle id {h} reused")
            return
        self.handles[h] = {"obj": obj, "owner": owner, "state": "live", "dest": None,
                           "lent_to": None}
        o = self.objs[obj]
        o["live"] += 1
        self.stats["max_live_handles"] = max(self.stats["max_live_handles"], o["live"])

    # -------------------------------------------------------------- events
    def feed(self, e):
        ev = e.get("ev")
        if self.ended:
            self.bad("format", e, "event after end record")
        if ev == "end":
            return self.on_end(e)
        self.stats["events"] += 1
        tid = e.get("tid")
        self.tids.add(tid)
        fn = getattr(self, "on_" + str(ev), None)
        if fn is None:
            return self.bad("format", e, f"unknown event {ev!r}")
        try:
            fn(e, tid)
        except KeyError as k:
            self.bad("format", e, f"missing field / unknown reference {k}")

    def on_new(self, e, tid):
        obj = e["obj"]
        if obj in self.objs:
            return self.bad("e-handle", e, f"object {obj} created twice")
        self.objs[obj] = {"live": 0, "bodies": {}, "last_wrote": 0, "impl_drops": 0,
                          "iface": e["iface"]}
        self._new_handle(e, e["h"], obj, tid)

    def on_clone(self, e, tid):
        h, obj = e["h"], e["obj"]
        self.stats["clones"] += 1
        if not self._accessible(h, tid):
            self.bad("e-handle", e, f"clone of {h} by thread {tid}: not alive / not accessible")
        elif self.handles[h]["obj"] != obj:
            self.bad("e-handle", e, f"{h} belongs to object {self.handles[h]['obj']}, not {obj}")
        if self.objs[obj]["impl_drops"]:
            self.bad("d-impl-drop", e, f"clone on object {obj} after its impl_drop")
        self._new_handle(e, e["new"], obj, tid)

    def on_send(self, e, tid):
        h = e["h"]
        self.stats["sends"] += 1
        if not self._owned_exclusively(h, tid):
            return self.bad("e-handle", e, f"send of {h} by thread {tid}: not its (unlent) owner")
        hs = self.handles[h]
        hs["owner"], hs["dest"] = None, e["to"]

    def on_recv(self, e, tid):
        h = e["h"]
        hs = self.handles.get(h)
        if hs is None or hs["state"] != "live" or hs["owner"] is not None or hs["dest"] != tid:
            return self.bad("e-handle", e, f"recv of {h} by thread {tid}: not in flight to it")
        hs["owner"], hs["dest"] = tid, None

    def on_lend(self, e, tid):
        h = e["h"]
        self.stats["lends"] += 1
        if not self._owned_exclusively(h, tid):
            return self.bad("e-handle", e, f"lend of {h} by thread {tid}: not its (unlent) owner")
        self.handles[h]["lent_to"] = e["to"]

    def on_unlend(self, e, tid):
        h = e["h"]
        hs = self.handles.get(h)
        if hs is None or hs["owner"] != tid or hs["lent_to"] != e["to"]:
            return self.bad("e-handle", e, f"unlend of {h}: no matching lend")
        if e["to"] in self.pending or e["to"] in self.dropping:
            self.bad("e-handle", e, f"borrower {e['to']} still active at unlend of {h}")
        hs["lent_to"] = None

    def on_call(self, e, tid):
        h, obj = e["h"], e["obj"]
        self.stats["calls"] += 1
        if not self._accessible(h, tid):
            self.bad("e-handle", e, f"call through {h} by thread {tid}: not alive / not accessible")
        elif self.handles[h]["obj"] != obj:
            self.bad("e-handle", e, f"{h} belongs to object {self.handles[h]['obj']}, not {obj}")
        if tid in self.pending:
            self.bad("c-ret", e, f"thread {tid} calls while its previous call has not returned")
        if self.objs[obj]["impl_drops"]:
            self.bad("d-impl-drop", e, f"call on object {obj} after its impl_drop")
        others = [p for t, p in self.pending.items() if t != tid and p["obj"] == obj]
        if others:
            self.stats["contended_calls"] += 1
            if any(p["h"] == h for p in others):
                self.stats["lend_concurrent_calls"] += 1
        self.pending[tid] = {"h": h, "obj": obj, "m": e["m"], "arg": e.get("arg", 0),
                             "arg2": e.get("arg2"), "bodies": [], "open": None}

    def on_enter(self, e, tid):
        obj, m = e["obj"], e["m"]
        o = self.objs[obj]
        p = self.pending.get(tid)
        if p is None or p["obj"] != obj or p["m"] != m or p["open"] is not None:
            self.bad("c-ret", e, f"body {m} of object {obj} on thread {tid} without matching call")
        if o["bodies"]:
            self.bad("a-overlap", e, f"object {obj}: {m} entered on thread {tid} while "
                     f"thread(s) {sorted(o['bodies'])} are inside a body")
        if e["overlap"] is not False:
            self.bad("a-flag", e, f"object {obj}: overlap detector fired in {m} on thread {tid}")
        if e["seen"] != o["last_wrote"]:
            self.bad("b-stale", e, f"object {obj}: {m} saw total {e['seen']}, latest completed "
                     f"body wrote {o['last_wrote']}")
        if o["impl_drops"]:
            self.bad("d-impl-drop", e, f"body on object {obj} after its impl_drop")
        rec = {"m": m, "seen": e["seen"], "wrote": None}
        o["bodies"][tid] = rec
        if p is not None:
            p["open"] = rec

    def on_exit(self, e, tid):
        obj, m = e["obj"], e["m"]
        o = self.objs[obj]
        rec = o["bodies"].pop(tid, None)
        if rec is None or rec["m"] != m:
            return self.bad("a-overlap", e, f"object {obj}: exit of {m} on thread {tid} without enter")
        rec["wrote"] = e["wrote"]
        o["last_wrote"] = e["wrote"]
        p = self.pending.get(tid)
        if p is not None and p["open"] is rec:
            p["open"] = None
            p["bodies"].append(rec)
            d = _delta(m, p["arg"], p["arg2"])
            if d is None or e["wrote"] != (rec["seen"] + d) & M64:
                self.bad("b-stale", e, f"object {obj}: {m} wrote {e['wrote']}, expected "
                         f"{rec['seen']} + {d}")

    def on_ret(self, e, tid):
        h, obj, m = e["h"], e["obj"], e["m"]
        p = self.pending.pop(tid, None)
        if p is None or p["h"] != h or p["obj"] != obj or p["m"] != m:
            return self.bad("c-ret", e, f"ret of {m} through {h} on thread {tid} without matching call")
        if e["status"] != 0:
            return self.bad("c-ret", e, f"{m} through {h} returned status {e['status']}")
        if p["open"] is not None or len(p["bodies"]) != 1:
            return self.bad("c-ret", e, f"{m} through {h}: {len(p['bodies'])} completed bodies "
                            f"between call and ret (open: {p['open'] is not None})")
        if e["total"] != p["bodies"][0]["wrote"]:
            self.bad("c-ret", e, f"{m} through {h} returned total {e['total']}, its body wrote "
                     f"{p['bodies'][0]['wrote']}")

    def on_drop(self, e, tid):
        h, obj = e["h"], e["obj"]
        self.stats["drops"] += 1
        if not self._owned_exclusively(h, tid):
            return self.bad("e-handle", e, f"drop of {h} by thread {tid}: not its (unlent, live) owner")
        if tid in self.pending:
            self.bad("e-handle", e, f"thread {tid} drops {h} inside a call")
        if tid in self.dropping:
            self.bad("e-handle", e, f"thread {tid} drops {h} inside another drop")
        hs = self.handles[h]
        if hs["obj"] != obj:
            self.bad("e-handle", e, f"{h} belongs to object {hs['obj']}, not {obj}")
        hs["state"] = "dropping"
        o = self.objs[hs["obj"]]
        o["live"] -= 1
        if o["live"] < 0:
            self.bad("e-handle", e, f"object {obj}: live handle count negative")
        self.dropping[tid] = (h, hs["obj"])

    def on_dropped(self, e, tid):
        h = e["h"]
        cur = self.dropping.pop(tid, None)
        if cur is None or cur[0] != h:
            return self.bad("e-handle", e, f"dropped {h} on thread {tid} without matching drop")
        self.handles[h]["state"] = "dead"

    def on_impl_drop(self, e, tid):
        obj = e["obj"]
        o = self.objs[obj]
        self.stats["impl_drops"] += 1
        o["impl_drops"] += 1
        if o["impl_drops"] > 1:
            self.bad("d-impl-drop", e, f"object {obj}: implementation dropped {o['impl_drops']} times")
        if o["live"] > 0:
            alive = sorted(h for h, s in self.handles.items() if s["obj"] == obj and s["state"] == "live")
            self.bad("d-impl-drop", e, f"object {obj}: implementation dropped while handle(s) "
                     f"{alive} have not been dropped")
        if o["bodies"]:
            self.bad("d-impl-drop", e, f"object {obj}: implementation dropped while thread(s) "
                     f"{sorted(o['bodies'])} run a body")
        if any(p["obj"] == obj for p in self.pending.values()):
            self.bad("d-impl-drop", e, f"object {obj}: implementation dropped before a pending "
                     f"call returned")
        cur = self.dropping.get(tid)
        if cur is None or cur[1] != obj:
            self.bad("d-impl-drop", e, f"object {obj}: implementation dropped on thread {tid} "
                     f"which is not releasing a handle of it")

    def on_end(self, e):
        self.ended = True
        self.stats["threads"] = len(self.tids)
        n = e.get("objects")
        drops = e.get("impl_drops")
        if n != len(self.objs) or not isinstance(drops, list) or len(drops) != n:
            self.bad("d-impl-drop", e, f"end record {e} does not match {len(self.objs)} objects")
        elif any(d != 1 for d in drops):
            self.bad("d-impl-drop", e, f"drop counters at exit: {drops}")
        for obj, o in sorted(self.objs.items()):
            if o["impl_drops"] != 1:
                self.bad("d-impl-drop", e, f"object {obj}: {o['impl_drops']} impl_drop events")
            if o["bodies"]:
                self.bad("a-overlap", e, f"object {obj}: body still open at end")
        left = sorted(h for h, s in self.handles.items() if s["state"] != "dead")
        if left:
            self.bad("e-handle", e, f"handles not dropped at end: {left[:8]}")
        if self.pending or self.dropping:
            self.bad("c-ret", e, "call / drop still pending at end")


def check(events):
    """Reference checker.  `events`: list of dicts as returned by e5.run (incl. the end record).
    Returns {"ok", "counts": {category: n}, "violations": [first messages], "stats": {...}}."""
    c = _Checker()
    body = [e for e in events if e.get("ev") != "end"]
    for i, e in enumerate(body):
        if e.get("seq") != i:
            c.bad("format", e, f"seq {e.get('seq')} at position {i}: not sorted / not contiguous")
            break
    for e in events:
        c.feed(e)
    if not c.ended:
        c.bad("format", {"seq": None}, "no end record")
    return {"ok": not c.counts, "counts": dict(sorted(c.counts.items())),
            "violations": c.msgs, "stats": c.stats}


# ---------------------------------------------------------------------- mutation tests of the checker

def _mini(rows, end=None):
    """rows: (tid, ev, dict) -> numbered history with an end record"""
    out = []
    for i, (tid, ev, d) in enumerate(rows):
        e = {"seq": i, "tid": tid, "ev": ev}
        e.update(d)
        out.append(e)
    objs = sorted({e["obj"] for e in out})
    out.append(end or {"ev": "end", "objects": len(objs), "impl_drops": [1] * len(objs)})
    return out


def _good_rows():
    o = {"obj": 0}
    return [
        (2, "new", {**o, "h": "h0", "iface": "ICounter"}),            # 0
        (2, "send", {**o, "h": "h0", "to": 0}),                       # 1
        (0, "recv", {**o, "h": "h0"}),                                # 2
        (0, "call", {**o, "h": "h0", "m": "inc", "arg": 5}),          # 3
        (0, "enter", {**o, "m": "inc", "seen": 0, "overlap": False}),  # 4
        (0, "exit", {**o, "m": "inc", "wrote": 5}),                   # 5
        (0, "ret", {**o, "h": "h0", "m": "inc", "status": 0, "total": 5}),  # 6
        (0, "clone", {**o, "h": "h0", "new": "h1", "as": "ICounter"}),  # 7
        (0, "send", {**o, "h": "h1", "to": 1}),                       # 8
        (1, "recv", {**o, "h": "h1"}),                                # 9
        (1, "call", {**o, "h": "h1", "m": "get", "arg": 0}),          # 10
        (0, "drop", {**o, "h": "h0"}),                                # 11
        (1, "enter", {**o, "m": "get", "seen": 5, "overlap": False}),  # 12
        (0, "dropped", {**o, "h": "h0"}),                             # 13
        (1, "exit", {**o, "m": "get", "wrote": 5}),                   # 14
        (1, "ret", {**o, "h": "h1", "m": "get", "status": 0, "total": 5}),  # 15
        (1, "drop", {**o, "h": "h1"}),                                # 16
        (1, "impl_drop", {**o}),                                      # 17
        (1, "dropped", {**o, "h": "h1"}),                             # 18
    ]


def _mutations():
    """(name, expected category or None, history): hand-made histories, one defect each"""
    out = [("unmodified mini history", None, _mini(_good_rows()))]

    def mut(name, cat, *fs, end=None):
        rows = _good_rows()
        for f in fs:
            f(rows)
        out.append((name, cat, _mini(rows, end)))

    def edit(i, **kw):
        def f(rows):
            t, ev, d = rows[i]
            kw2 = dict(kw)
            rows[i] = (kw2.pop("tid", t), ev, {**d, **kw2})
        return f

    def move(i, j):
        def f(rows):
            rows.insert(j, rows.pop(i))
        return f

    def delete(*idx):
        def f(rows):
            for i in sorted(idx, reverse=True):
                rows.pop(i)
        return f

    def insert(i, *new):
        def f(rows):
            rows[i:i] = list(new)
        return f

    o = {"obj": 0}
    overlap_rows = [
        (2, "new", {**o, "h": "h0", "iface": "ICounter"}),
        (2, "clone", {**o, "h": "h0", "new": "h1", "as": "ICounter"}),
        (2, "send", {**o, "h": "h0", "to": 0}),
        (2, "send", {**o, "h": "h1", "to": 1}),
        (0, "recv", {**o, "h": "h0"}),
        (1, "recv", {**o, "h": "h1"}),
        (0, "call", {**o, "h": "h0", "m": "inc", "arg": 5}),
        (1, "call", {**o, "h": "h1", "m": "inc", "arg": 2}),
        (0, "enter", {**o, "m": "inc", "seen": 0, "overlap": False}),
        (1, "enter", {**o, "m": "inc", "seen": 0, "overlap": False}),   # overlaps, flag missed it
        (0, "exit", {**o, "m": "inc", "wrote": 5}),
        (0, "ret", {**o, "h": "h0", "m": "inc", "status": 0, "total": 5}),
        (1, "exit", {**o, "m": "inc", "wrote": 2}),                     # update of thread 0 lost
        (1, "ret", {**o, "h": "h1", "m": "inc", "status": 0, "total": 2}),
        (0, "drop", {**o, "h": "h0"}),
        (0, "dropped", {**o, "h": "h0"}),
        (1, "drop", {**o, "h": "h1"}),
        (1, "impl_drop", {**o}),
        (1, "dropped", {**o, "h": "h1"}),
    ]
    out.append(("two bodies of one object interleave (lost update)", "a-overlap", _mini(overlap_rows)))
    mut("overlap flag set", "a-flag", edit(12, overlap=True))
    mut("enter sees a stale total", "b-stale", edit(12, seen=0), edit(14, wrote=0), edit(15, total=0))
    mut("exit writes seen+by+1", "b-stale", edit(5, wrote=6), edit(6, total=6), edit(12, seen=6),
        edit(14, wrote=6), edit(15, total=6))
    mut("ret reports another total than its body wrote", "c-ret", edit(15, total=4))
    mut("ret with error status", "c-ret", edit(6, status=2, total=None))
    mut("ret without a body", "c-ret", delete(12, 14), edit(15, total=5))
    mut("impl_drop missing", "d-impl-drop", delete(17),
        end={"ev": "end", "objects": 1, "impl_drops": [0]})
    mut("impl_drop twice", "d-impl-drop", insert(18, (1, "impl_drop", {**o})),
        end={"ev": "end", "objects": 1, "impl_drops": [2]})
    mut("impl dropped by the first release (h1 alive, call pending)", "d-impl-drop",
        edit(17, tid=0), move(17, 12))
    mut("impl dropped by the first release while a body runs", "d-impl-drop",
        edit(17, tid=0), move(17, 13))
    mut("impl_drop before the last handle's drop event", "d-impl-drop", move(17, 16))
    mut("impl_drop outside of any drop()", "d-impl-drop", move(17, 18))
    mut("end record reports 2 drops", "d-impl-drop",
        end={"ev": "end", "objects": 1, "impl_drops": [2]})
    mut("drop by a thread that does not own the handle", "e-handle", edit(16, tid=0), edit(18, tid=0),
        edit(17, tid=0))
    mut("clone of a dropped handle", "e-handle", insert(
        14, (0, "clone", {**o, "h": "h0", "new": "h2", "as": "ICounter"}),
        (0, "drop", {**o, "h": "h2"}), (0, "dropped", {**o, "h": "h2"})))
    mut("handle dropped twice", "e-handle", insert(
        19, (1, "drop", {**o, "h": "h1"}), (1, "dropped", {**o, "h": "h1"})))
    mut("call through a handle that is still in flight", "e-handle", move(9, 16))
    mut("call through a handle owned by another thread", "e-handle", edit(10, h="h0"), edit(15, h="h0"))
    mut("handle leaked", "e-handle", delete(11, 13))
    mut("seq gap", "format")
    out[-1][2][3]["seq"] = 99
    return out


def run_mutation_tests(verbose=False):
    ok = True
    lines = []
    for name, cat, hist in _mutations():
        r = check(hist)
        if cat is None:
            good = r["ok"]
        else:
            good = cat in r["counts"]
        ok &= good
        if verbose or not good:
            lines.append(f"    {'ok  ' if good else 'FAIL'} {name}: expected {cat or 'clean'}, "
                         f"got {r['counts'] or 'clean'}")
            if not good:
                lines.extend("         " + m for m in r["violations"][:4])
    return ok, lines


# ---------------------------------------------------------------------- driver

def _fmt_units(b):
    out = []
    for u in b["units"]:
        if u["rc"] != 0:
            out.append(f"    [{u['unit']}] rc={u['rc']}: {' '.join(u['cmd'])}\n" + u["stderr"][-3000:])
    return "\n".join(out)


def main(argv=None):
    import argparse
    ap = argparse.ArgumentParser()
    ap.add_argument("--idlc", default=e5.DEFAULT_IDLC)
    ap.add_argument("--full", action="store_true")
    ap.add_argument("--keep", action="store_true")
    ap.add_argument("--ops", type=int, default=None)
    ap.add_argument("-v", "--verbose", action="store_true")
    a = ap.parse_args(argv)
    t0 = time.time()
    work = tempfile.mkdtemp(prefix="e5_selftest_")
    failures = []
    try:
        # ---- 0. checker mutation tests (pure python)
        mok, mlines = run_mutation_tests(a.verbose)
        n_mut = len(_mutations())
        print(f"[checker ] {n_mut} hand-made histories: {'all classified as expected' if mok else 'MISCLASSIFIED'}")
        for line in mlines:
            print(line)
        if not mok:
            failures.append("checker mutation tests")

        # ---- 1. builds (in parallel)
        specs = [("locked", True), ("nolock", True)]
        if a.full:
            specs.append(("locked", False))
        tb = time.time()
        with concurrent.futures.ThreadPoolExecutor(len(specs)) as ex:
            futs = [ex.submit(e5.build, os.path.join(work, f"{v}_{'opt' if o else 'dbg'}"), a.idlc,
                              opt=o, variant=v) for v, o in specs]
            builds = [f.result() for f in futs]
        for (v, o), b in zip(specs, builds):
            print(f"[build   ] {v:6} {'opt' if o else 'dbg'}: {'ok' if b['ok'] else 'FAILED'}")
            if not b["ok"]:
                print(_fmt_units(b))
                failures.append(f"build {v}")
        print(f"[build   ] {time.time() - tb:.1f} s")
        if failures and any(f.startswith("build") for f in failures):
            print("SELFTEST FAILED: " + ", ".join(failures))
            return 1
        locked, nolock = builds[0], builds[1]

        # ---- 2. positive runs
        ops = a.ops or (2000 if a.full else 1200)
        plan = [(2, 1), (8, 1), (8, 2), (16, 3), (4, 4), (1, 5)]
        if a.full:
            plan += [(t, s) for s in range(6, 12) for t in (3, 8, 32)]
        runs = [(locked, t, s, 4 if t > 1 else 2) for t, s in plan]
        if a.full:
            runs += [(builds[2], t, s, 4) for t, s in ((8, 1), (16, 2))]
        tot = {"events": 0, "calls": 0, "contended_calls": 0, "lends": 0, "lend_concurrent_calls": 0,
               "clones": 0, "drops": 0, "sends": 0, "impl_drops": 0}
        pos_ok = True
        for b, threads, seed, objects in runs:
            r = e5.run(b, threads=threads, ops=ops, seed=seed, objects=objects, timeout=60)
            c = check(r["events"])
            good = r["rc"] == 0 and c["ok"]
            pos_ok &= good
            for k in tot:
                tot[k] += c["stats"][k]
            tag = os.path.basename(b["workdir"])
            if a.verbose or not good:
                print(f"[positive] {tag} threads={threads:<2} seed={seed:<2} objects={objects} rc={r['rc']} "
                      f"events={c['stats']['events']} calls={c['stats']['calls']} "
                      f"contended={c['stats']['contended_calls']} -> {'clean' if good else 'VIOLATIONS ' + str(c['counts'])}")
            if not good:
                for m in c["violations"]:
                    print("    " + m)
                if r["stderr"].strip():
                    print("    stderr: " + r["stderr"].strip()[-1000:])
        print(f"[positive] {len(runs)} runs, ops/thread={ops}: {'all clean' if pos_ok else 'FAILED'}; "
              f"{tot['events']} events, {tot['calls']} calls ({tot['contended_calls']} issued while another "
              f"thread had a call pending on the same object, {tot['lend_concurrent_calls']} of them through "
              f"the same lent handle), {tot['clones']} clones, {tot['drops']} drops, {tot['sends']} sends, "
              f"{tot['lends']} lends, {tot['impl_drops']} impl drops")
        if not pos_ok:
            failures.append("positive runs")
        if tot["contended_calls"] == 0:
            print("[positive] WARNING: no contention at all was generated; the positive result is vacuous")
            failures.append("no contention generated")

        # ---- 3. negative control
        tn = time.time()
        detected, agg, first = 0, {}, None
        neg_runs = 3 if not a.full else 6
        for seed in range(1, neg_runs + 1):
            r = e5.run(nolock, threads=8, ops=ops, seed=seed, objects=2, timeout=60)
            c = check(r["events"])
            hit = any(k in c["counts"] for k in ("a-overlap", "a-flag", "b-stale", "c-ret"))
            detected += bool(hit)
            for k, v in c["counts"].items():
                agg[k] = agg.get(k, 0) + v
            if first is None and c["violations"]:
                first = c["violations"][:3]
            if a.verbose:
                print(f"[negative] nolock seed={seed} rc={r['rc']} calls={c['stats']['calls']} -> {c['counts']}")
        neg_ok = detected == neg_runs
        print(f"[negative] skeleton without the body lock: violations flagged in {detected}/{neg_runs} runs "
              f"({time.time() - tn:.1f} s): {agg}")
        for m in first or []:
            print("    e.g. " + m)
        if not neg_ok:
            failures.append("negative control not detected in every run")

        dt = time.time() - t0
        if failures:
            print(f"SELFTEST FAILED ({dt:.1f} s): " + ", ".join(failures))
            return 1
        print(f"SELFTEST OK ({dt:.1f} s)")
        return 0
    finally:
        if a.keep:
            print(f"work directory kept: {work}")
        else:
            shutil.rmtree(work, ignore_errors=True)


if __name__ == "__main__":
    sys.exit(main())
