"""Case (abstract IDL file set) helpers: rendering to IDL text, token line for the Lean driver,
and small semantic helpers shared by generators and benches.  See bench/SPEC.md section 1."""
import os

PRIMS = {
    "uint8": 1, "uint16": 2, "uint32": 4, "uint64": 8,
    "int8": 1, "int16": 2, "int32": 4, "int64": 8,
    "float32": 4, "float64": 8,
}
PRIM_ORDER = ["uint8", "uint16", "uint32", "uint64", "int8", "int16", "int32", "int64", "float32", "float64"]


# ---------------------------------------------------------------- rendering to IDL text

def render_param(p):
    t = p["type"]
    arr = p.get("arr")
    if arr is None:
        ts = t
    elif arr == "unbounded":
        ts = f"{t}[]"
    else:
        ts = f"{t}[{arr}]"
    return f"{p['dir']} {ts} {p['name']}"


def render_const(c, indent=""):
    return f"{indent}const {c['type']} {c['name']} = {c['value']};\n"


def render_doc(doc, indent="  "):
    # doc is the raw text between "/**\n" and "*/"
    return f"{indent}/**\n{doc}*/\n"


def render_member(m, indent="  "):
    k = m["k"]
    if k == "const":
        return render_const(m, indent)
    if k == "error":
        return f"{indent}error {m['name']};\n"
    if k == "method":
        s = ""
        if m.get("doc") is not None:
            s += render_doc(m["doc"], indent)
        attr = "#[optional]\n" + indent if m.get("optional") else ""
        params = ", ".join(render_param(p) for p in m["params"])
        s += f"{indent}{attr}method {m['name']}({params});\n"
        return s
    if k == "rawmember":
        return m["text"]
    raise ValueError(k)


def render_field(f):
    cnt = f.get("count", 1)
    t = f["type"]
    if cnt != 1 or f.get("force_array"):
        return f"  {t}[{cnt}] {f['name']};\n"
    return f"  {t} {f['name']};\n"


def render_node(n):
    k = n["k"]
    if k == "include":
        return f'include "{n["path"]}"\n'
    if k == "const":
        return render_const(n)
    if k == "struct":
        return f"struct {n['name']} {{\n" + "".join(render_field(f) for f in n["fields"]) + "};\n"
    if k == "interface":
        base = f" : {n['base']}" if n.get("base") else ""
        return (f"interface {n['name']}{base} {{\n"
                + "".join(render_member(m) for m in n["members"]) + "};\n")
    if k == "raw":
        return n["text"]
    raise ValueError(k)


def render_file(f):
    if "text" in f:
        return f["text"]
    return "".join(render_node(n) for n in f["nodes"])


def render_case(case, root):
    """Write the file tree of the case under root.  Returns absolute path of the main file."""
    for f in case["files"]:
        p = os.path.join(root, f["path"])
        os.makedirs(os.path.dirname(p), exist_ok=True)
        with open(p, "w") as fh:
            fh.write(render_file(f))
    for d in case.get("dirs", []):
        os.makedirs(os.path.join(root, d), exist_ok=True)
    for link, target in case.get("symlinks", []):
        lp = os.path.join(root, link)
        os.makedirs(os.path.dirname(lp), exist_ok=True)
        os.symlink(target, lp)
    return os.path.join(root, case["main"])


# ---------------------------------------------------------------- semantic helpers

def all_nodes(case):
    for f in case["files"]:
        for n in f.get("nodes", []):
            yield f, n


def struct_table(case):
    return {n["name"]: n for _, n in all_nodes(case) if n["k"] == "struct"}


def iface_table(case):
    return {n["name"]: n for _, n in all_nodes(case) if n["k"] == "interface"}


def chain(case, iface_name):
    """interface nodes root ancestor first ... leaf last"""
    it = iface_table(case)
    out = []
    cur = it.get(iface_name)
    seen = set()
    while cur is not None and cur["name"] not in seen:
        seen.add(cur["name"])
        out.append(cur)
        cur = it.get(cur.get("base")) if cur.get("base") else None
    out.reverse()
    return out


def flat_methods(case, iface_name):
    """[(owner, method dict, op id)] ancestors first"""
    out = []
    i = 0
    for lvl in chain(case, iface_name):
        for m in lvl["members"]:
            if m["k"] == "method":
                out.append((lvl["name"], m, i))
                i += 1
    return out


def flat_errors(case, iface_name):
    out = []
    v = 10
    for lvl in chain(case, iface_name):
        for m in lvl["members"]:
            if m["k"] == "error":
                out.append((lvl["name"], m["name"], v))
                v += 1
    return out


def type_size(case, t, _st=None, _depth=0):
    """packed size the compiler assumes (StructInner::size); None if unknown / cyclic"""
    if t in PRIMS:
        return PRIMS[t]
    if t == "interface":
        return 16
    st = _st if _st is not None else struct_table(case)
    if t in iface_table(case):
        return 16
    if t in st:
        if _depth > 64:
            return None
        tot = 0
        for f in st[t]["fields"]:
            s = type_size(case, f["type"], st, _depth + 1)
            if s is None:
                return None
            tot += s * f.get("count", 1)
        return tot
    return None


def struct_has_objects(case, t, _depth=0):
    st = struct_table(case)
    it = iface_table(case)
    if t not in st or _depth > 64:
        return False
    for f in st[t]["fields"]:
        ft = f["type"]
        if ft == "interface" or ft in it:
            return True
        if ft in st and struct_has_objects(case, ft, _depth + 1):
            return True
    return False


def leaves(case, t, prefix=()):
    """flattened leaves of struct type t in declaration order (depth-first):
    [(path tuple with indices, leaf type)] where leaf type is a primitive name or 'object'"""
    st = struct_table(case)
    it = iface_table(case)
    out = []
    for f in st[t]["fields"]:
        cnt = f.get("count", 1)
        for i in range(cnt):
            # `T[1] x;` is emitted as a scalar by every backend
            name = f["name"] if cnt == 1 else f"{f['name']}[{i}]"
            ft = f["type"]
            if ft in PRIMS:
                out.append((prefix + (name,), ft))
            elif ft == "interface" or ft in it:
                out.append((prefix + (name,), "object"))
            else:
                out += leaves(case, ft, prefix + (name,))
    return out


def param_kind(case, p):
    """classification used all over the benches:
    buffer | prim | primarr | small | big | structarr | obj | objarr"""
    t, arr = p["type"], p.get("arr")
    it = iface_table(case)
    if t == "buffer":
        return "buffer"
    if t in PRIMS:
        return "prim" if arr is None else "primarr"
    if t == "interface" or t in it:
        return "obj" if arr is None else "objarr"
    if arr is not None:
        return "structarr"
    sz = type_size(case, t)
    return "small" if sz is not None and sz <= 16 else "big"


# ---------------------------------------------------------------- token line for the Lean driver

def _tok_const(c):
    return ["const", c["type"], c["name"], c["value"]]


def case_tokens(case):
    """One whitespace-separated line describing the case (see lean/MinkModel/Proto.lean).
    Identifiers and literals never contain spaces.  The file system is described by
    `lookup` and `rel` tables computed by the caller (case['fsmodel']) when present."""
    toks = ["case", str(len(case["files"]))]
    for f in case["files"]:
        nodes = f.get("nodes", [])
        if "text" in f or any(n["k"] == "raw" or (n["k"] == "interface" and any(m["k"] == "rawmember" for m in n["members"]))
                              for n in nodes):
            # text the grammar does not admit: the model only knows that this file fails to parse
            toks += ["badfile", f["path"]]
            continue
        toks += ["file", f["path"], str(len(nodes))]
        for n in nodes:
            k = n["k"]
            if k == "include":
                toks += ["include", n["path"]]
            elif k == "const":
                toks += _tok_const(n)
            elif k == "struct":
                toks += ["struct", n["name"], str(len(n["fields"]))]
                for fl in n["fields"]:
                    toks += [fl["type"], str(fl.get("count", 1)), fl["name"]]
            elif k == "interface":
                toks += ["interface", n["name"], n["base"] if n.get("base") else "-", str(len(n["members"]))]
                for m in n["members"]:
                    if m["k"] == "const":
                        toks += _tok_const(m)
                    elif m["k"] == "error":
                        toks += ["error", m["name"]]
                    else:
                        toks += ["method", m["name"], "1" if m.get("optional") else "0",
                                 "1" if m.get("doc") is not None else "0", str(len(m["params"]))]
                        for p in m["params"]:
                            arr = p.get("arr")
                            a = "-" if arr is None else ("*" if arr == "unbounded" else str(arr))
                            toks += [p["dir"], p["type"], a, p["name"]]
            else:
                raise ValueError(k)
    toks += ["main", case["main"]]
    fsm = case.get("fsmodel")
    if fsm is None:
        fsm = default_fsmodel(case)
    toks += ["incdirs", str(len(fsm["incdirs"]))] + list(fsm["incdirs"])
    toks += ["lookup", str(len(fsm["lookup"]))]
    for d, name, target in fsm["lookup"]:
        toks += [d, name, target]
    toks += ["rel", str(len(fsm["rel"]))]
    for d, path, target in fsm["rel"]:
        toks += [d, path, target]
    toks += ["end"]
    for t in toks:
        assert t and " " not in t and "\n" not in t, repr(t)
    return " ".join(toks)


def _dir_of(path):
    d = os.path.dirname(path)
    return d if d else "."


def default_fsmodel(case):
    """FS oracle tables for trees without symlinks: computed by path arithmetic.
    Directory ids are normalised relative paths ('.' = root)."""
    files = {os.path.normpath(f["path"]) for f in case["files"]}
    dirs = {_dir_of(p) for p in files} | {os.path.normpath(d) for d in case.get("incdirs", [])}
    dirs |= {os.path.normpath(d) for d in case.get("dirs", [])}
    main_dir = _dir_of(os.path.normpath(case["main"]))
    # exactly the -I list; the compiler model appends the main file's directory itself
    incdirs = [os.path.normpath(d) for d in case.get("incdirs", [])]
    lookup, rel = [], []
    inc_strings = set()
    for f in case["files"]:
        for n in f.get("nodes", []):
            if n["k"] == "include":
                inc_strings.add(n["path"])
    for s in sorted(inc_strings):
        if os.path.dirname(s) == "":
            for d in sorted(dirs):
                cand = os.path.normpath(os.path.join(d, s))
                if cand in files:
                    lookup.append((d, s, cand))
        else:
            for d in sorted(dirs):
                cand = os.path.normpath(os.path.join(d, s))
                if cand in files:
                    rel.append((d, s, cand))
    return {"incdirs": incdirs, "lookup": lookup, "rel": rel}
