#!/usr/bin/env python3
"""Self test of bench/gen_rust.py: rust stub -> recording/copying transport -> rust skeleton.

    python3 /verif/bench/selftest_rust.py [--idlc PATH] [--keep] [--only CASE ...] [--standin] [-v]
    (or: cd /verif && python3 -m bench.selftest_rust)

For every case below (SPEC.md section 1 dicts) it renders the IDL, runs `idlc --rust`, generates
bench_rust.rs with gen_rust.generate, writes a small rust-only driver main.rs, compiles with
plain rustc (+ the C runtime: /verif/bench/runtime/{emit,counting,transport}.c when all three
exist, else the stand-in embedded below), runs the binary and checks

  * impl record:  ins == canon(planned inputs), outcap == planned capacities
  * ret record:   status / outs / lenouts == planned   (status != 0: outs == lenouts == {})
  * optional methods: no impl record, status 2 (Object_ERROR_INVALID)
  * envelope op == flattened op id
  * refs records: exactly the expected tokens, every count 0
  * `end` record present, exit code 0

It also collects the rustc diagnostics attributed to the idlc-generated files (compiled once
without and once with upstream's `#[allow(unused, nonstandard_style)]` on `mod interfaces`).
Exit status is non-zero on any mismatch.  Python 3 standard library only.
"""
import argparse
import collections
import json
import os
import shutil
import subprocess
import sys
import tempfile

HERE = os.path.dirname(os.path.abspath(__file__))
sys.path.insert(0, os.path.dirname(HERE))
from bench import idl, values, gen_rust  # noqa: E402

DEFAULT_IDLC = os.environ.get("IDLC", "/verif/.cache/target/debug/idlc")
REPO_OBJECT_RS = "/repo/tests/src/object/mod.rs"
REPO_C_INC = "/repo/tests/c"
RUNTIME_DIR = os.path.join(HERE, "runtime")
RUNTIME_FILES = ["emit.c", "counting.c", "transport.c"]


# ====================================================================== stand-in C runtime
STANDIN_C = r'''
/* stand-in for /verif/bench/runtime (implements bench.h); used only when the real one is absent */
#include <stdio.h>
#include <stdlib.h>
#include <string.h>
#include "bench.h"

int g_val = 0;

void emit(const char *json_line) { fputs(json_line, stdout); fputc('\n', stdout); fflush(stdout); }

char *hex_of(const void *p, size_t n, char *out) {
  static const char d[] = "0123456789abcdef";
  const unsigned char *b = (const unsigned char *)p;
  for (size_t i = 0; i < n; i++) { out[2 * i] = d[b[i] >> 4]; out[2 * i + 1] = d[b[i] & 15]; }
  out[2 * n] = 0;
  return out;
}

typedef struct cobj { int token; long retains, releases, count; int reported; struct cobj *next; } cobj;
static cobj *g_head, *g_tail;

static int32_t counting_invoke(ObjectCxt h, ObjectOp op, ObjectArg *a, ObjectCounts k) {
  cobj *c = (cobj *)h; (void)a; (void)k;
  if (ObjectOp_methodID(op) == Object_OP_retain) { c->retains++; c->count++; return Object_OK; }
  if (ObjectOp_methodID(op) == Object_OP_release) { c->releases++; c->count--; return Object_OK; }
  return Object_ERROR_INVALID;
}

Object counting_new(int token) {
  cobj *c = (cobj *)calloc(1, sizeof *c);
  if (!c) abort();
  c->token = token; c->count = 1;
  if (g_tail) g_tail->next = c; else g_head = c;
  g_tail = c;
  return (Object){counting_invoke, c};
}

const char *obj_text(Object o) {
  static char ring[16][40]; static unsigned pos;
  char *out = ring[pos++ & 15];
  if (o.invoke == NULL) snprintf(out, 40, "null");
  else if (o.invoke == counting_invoke) snprintf(out, 40, "t%d", ((cobj *)o.context)->token);
  else snprintf(out, 40, "?%p", o.context);
  return out;
}

void counting_report(void) {
  char line[200];
  for (cobj *c = g_head; c; c = c->next) {
    if (c->reported) continue;
    snprintf(line, sizeof line, "{\"ev\":\"refs\",\"token\":%d,\"retains\":%ld,\"releases\":%ld,\"count\":%ld}",
             c->token, c->retains, c->releases, c->count);
    emit(line);
    c->reported = 1;
  }
}

typedef struct { long refs; Object inner; } tobj;
typedef struct { char *p; size_t n, cap; } sb;
static void sb_add(sb *s, const char *t, size_t l) {
  if (s->n + l + 1 > s->cap) { s->cap = (s->n + l + 1) * 2; s->p = (char *)realloc(s->p, s->cap); if (!s->p) abort(); }
  memcpy(s->p + s->n, t, l); s->n += l; s->p[s->n] = 0;
}
static void sb_s(sb *s, const char *t) { sb_add(s, t, strlen(t)); }
static void sb_hexb(sb *s, const void *p, size_t n) {
  char *tmp = (char *)malloc(2 * n + 1); if (!tmp) abort();
  hex_of(p, n, tmp); sb_add(s, tmp, 2 * n); free(tmp);
}

static int32_t transport_invoke(ObjectCxt h, ObjectOp op, ObjectArg *args, ObjectCounts k) {
  tobj *t = (tobj *)h;
  ObjectOp mid = ObjectOp_methodID(op);
  if (mid == Object_OP_retain) { t->refs++; return Object_OK; }
  if (mid == Object_OP_release) {
    if (--t->refs == 0) { Object in = t->inner; free(t); if (in.invoke) (void)Object_release(in); }
    return Object_OK;
  }
  size_t nbi = ObjectCounts_numBI(k), nbo = ObjectCounts_numBO(k), noi = ObjectCounts_numOI(k),
         noo = ObjectCounts_numOO(k), ibo = ObjectCounts_indexBO(k), ioi = ObjectCounts_indexOI(k),
         ioo = ObjectCounts_indexOO(k), total = ObjectCounts_total(k), i;
  char num[96];
  sb s = {0, 0, 0};
  snprintf(num, sizeof num, "{\"ev\":\"envelope\",\"op\":%lu,\"k\":%lu,\"slots\":[", (unsigned long)op, (unsigned long)k);
  sb_s(&s, num);
  for (i = 0; i < total; i++) {
    if (i) sb_s(&s, ",");
    if (i < ibo) {
      snprintf(num, sizeof num, "{\"c\":\"bi\",\"size\":%zu,\"hex\":\"", args[i].bi.size); sb_s(&s, num);
      sb_hexb(&s, args[i].bi.ptr, args[i].bi.size); sb_s(&s, "\"}");
    } else if (i < ioi) {
      snprintf(num, sizeof num, "{\"c\":\"bo\",\"size\":%zu}", args[i].b.size); sb_s(&s, num);
    } else if (i < ioo) {
      snprintf(num, sizeof num, "{\"c\":\"oi\",\"obj\":\"%s\"}", obj_text(args[i].o)); sb_s(&s, num);
    } else sb_s(&s, "{\"c\":\"oo\"}");
  }
  sb_s(&s, "]}");
  emit(s.p);
  ObjectArg *na = (ObjectArg *)calloc(total ? total : 1, sizeof(ObjectArg));
  size_t *orig = (size_t *)calloc(nbo ? nbo : 1, sizeof(size_t));
  if (!na || !orig) abort();
  for (i = 0; i < nbi; i++) {
    size_t sz = args[i].bi.size; void *b = malloc(sz ? sz : 1); if (!b) abort();
    if (sz) memcpy(b, args[i].bi.ptr, sz);
    na[i].b.ptr = b; na[i].b.size = sz;
  }
  for (i = 0; i < nbo; i++) {
    size_t sz = args[ibo + i].b.size; void *b = calloc(sz ? sz : 1, 1); if (!b) abort();
    na[ibo + i].b.ptr = b; na[ibo + i].b.size = sz; orig[i] = sz;
  }
  for (i = 0; i < noi; i++) na[ioi + i].o = args[ioi + i].o;
  for (i = 0; i < noo; i++) na[ioo + i].o = Object_NULL;
  int32_t st = Object_invoke(t->inner, op, na, k);
  s.n = 0;
  snprintf(num, sizeof num, "{\"ev\":\"reply\",\"status\":%d,\"bo\":[", (int)st); sb_s(&s, num);
  for (i = 0; i < nbo; i++) {
    size_t sz = na[ibo + i].b.size, shown = sz < orig[i] ? sz : orig[i];
    if (i) sb_s(&s, ",");
    snprintf(num, sizeof num, "{\"size\":%zu,\"hex\":\"", sz); sb_s(&s, num);
    sb_hexb(&s, na[ibo + i].b.ptr, shown); sb_s(&s, "\"}");
  }
  sb_s(&s, "],\"oo\":[");
  for (i = 0; i < noo; i++) { if (i) sb_s(&s, ","); sb_s(&s, "\""); sb_s(&s, obj_text(na[ioo + i].o)); sb_s(&s, "\""); }
  sb_s(&s, "]}");
  emit(s.p);
  free(s.p);
  for (i = 0; i < nbo; i++) {
    size_t sz = na[ibo + i].b.size, n = sz < orig[i] ? sz : orig[i];
    if (n) memcpy(args[ibo + i].b.ptr, na[ibo + i].b.ptr, n);
    args[ibo + i].b.size = sz;
  }
  for (i = 0; i < noo; i++) args[ioo + i].o = na[ioo + i].o;
  for (i = 0; i < nbi + nbo; i++) free(na[i].b.ptr);
  free(na); free(orig);
  return st;
}

Object transport_wrap(Object inner) {
  tobj *t = (tobj *)malloc(sizeof *t); if (!t) abort();
  t->refs = 1; t->inner = inner;
  return (Object){transport_invoke, t};
}
'''


# ====================================================================== case construction helpers

def P(d, t, name, arr=None):
    return {"dir": d, "type": t, "arr": arr, "name": name}


def M(name, *params, optional=False, doc=None):
    return {"k": "method", "name": name, "optional": optional, "doc": doc, "params": list(params)}


def E(name):
    return {"k": "error", "name": name}


def S(name, *fields):
    return {"k": "struct", "name": name,
            "fields": [{"type": f[0], "name": f[1], "count": (f[2] if len(f) > 2 else 1)} for f in fields]}


def I(name, base, *members):
    return {"k": "interface", "name": name, "base": base, "members": list(members)}


def INC(path):
    return {"k": "include", "path": path}


def CONST(t, name, value):
    return {"k": "const", "type": t, "name": name, "value": value}


def case1(cid, *nodes):
    return {"id": cid, "files": [{"path": "main.idl", "nodes": list(nodes)}], "main": "main.idl", "incdirs": []}


# ---- plan patches -------------------------------------------------------------------------

def set_status(plans, iface, method, val, status):
    plans[(iface, method)][val]["status"] = status


def zero_buffers(plans, iface, val):
    """force every buffer-like input to length 0 and every output buffer to capacity 0"""
    for (i, _m), pl in plans.items():
        if i != iface:
            continue
        p = pl[val]
        for v in p["ins"].values():
            if v["k"] == "buf":
                v["len"], v["hex"] = 0, ""
        for n, v in p["outs"].items():
            if v["k"] == "buf":
                v["len"], v["hex"] = 0, ""
                p["caps"][n] = 0


def short_outputs(plans, iface, val, cap=4):
    """output buffers with capacity `cap` of which 0 elements are produced"""
    for (i, _m), pl in plans.items():
        if i != iface:
            continue
        p = pl[val]
        for n, v in p["outs"].items():
            if v["k"] == "buf":
                v["len"], v["hex"] = 0, ""
                p["caps"][n] = cap


def null_objects(plans, iface, val):
    """every object everywhere null"""
    def nul(v):
        if v["k"] == "obj":
            v["obj"] = None
        elif v["k"] == "objarr":
            v["objs"] = [None] * len(v["objs"])
        elif v["k"] == "struct":
            for l in v["leaves"]:
                if l["type"] == "object":
                    l["obj"] = None
    for (i, _m), pl in plans.items():
        if i == iface:
            for v in list(pl[val]["ins"].values()) + list(pl[val]["outs"].values()):
                nul(v)


def all_objects(plans, iface, val):
    """every object everywhere non-null and distinct"""
    for (i, _m), pl in plans.items():
        if i != iface:
            continue
        for base, vs in ((0, pl[val]["ins"]), (100, pl[val]["outs"])):
            n = [base]

            def nxt():
                n[0] += 1
                return n[0]
            for v in vs.values():
                if v["k"] == "obj":
                    v["obj"] = nxt()
                elif v["k"] == "objarr":
                    v["objs"] = [nxt() for _ in v["objs"]]
                elif v["k"] == "struct":
                    for l in v["leaves"]:
                        if l["type"] == "object":
                            l["obj"] = nxt()


def all_ok(plans, iface, vals):
    for (i, _m), pl in plans.items():
        if i == iface:
            for v in vals:
                if v < len(pl):
                    pl[v]["status"] = 0


# ====================================================================== the cases

def cases():
    out = []

    # ---- primitives: single (unbundled) and >= 2 per direction (bundles), optional method
    c = case1("prims", I("IPrim", None,
        M("none"),
        M("one_in", P("in", "uint32", "a")),
        M("one_out", P("out", "uint64", "r")),
        M("in_out", P("in", "uint8", "a"), P("out", "int16", "r")),
        M("many",
          P("in", "uint8", "a"), P("in", "uint16", "b"), P("in", "uint32", "c"), P("in", "uint64", "d"),
          P("in", "int8", "e"), P("in", "int16", "f"), P("in", "int32", "g"), P("in", "int64", "h"),
          P("in", "float32", "x"), P("in", "float64", "y"),
          P("out", "uint8", "ra"), P("out", "uint64", "rb"), P("out", "float32", "rc"),
          P("out", "int16", "rd"), P("out", "float64", "re")),
        M("mixed_order", P("out", "uint16", "r1"), P("in", "uint64", "a"), P("out", "uint8", "r2"),
          P("in", "uint8", "b")),
        M("opt", P("in", "uint32", "a"), P("out", "uint32", "r"), optional=True),
        M("documented", P("in", "uint32", "foo"), P("out", "uint32", "bar"),
          doc="  * some documentation\n  "),
    ))
    out.append({"case": c, "ifaces": ["IPrim"], "vals": 3,
                "patch": lambda pl: all_ok(pl, "IPrim", [0, 1])})

    # ---- buffers and primitive arrays, zero lengths
    c = case1("buffers", I("IBuf", None,
        M("bin", P("in", "buffer", "b")),
        M("bout", P("out", "buffer", "b")),
        M("both", P("in", "buffer", "a"), P("out", "buffer", "b"), P("in", "buffer", "c"),
          P("out", "buffer", "d")),
        M("arrs", P("in", "uint16", "a", "unbounded"), P("in", "float64", "f", "unbounded"),
          P("out", "uint32", "r", "unbounded"), P("out", "int8", "s", "unbounded"),
          P("in", "int64", "l", "unbounded"), P("out", "float32", "g", "unbounded")),
        M("with_prims", P("in", "buffer", "a"), P("in", "uint32", "x"), P("out", "buffer", "b"),
          P("out", "uint32", "y"), P("in", "uint8", "z")),
    ))

    def patch_buf(pl):
        all_ok(pl, "IBuf", [0, 1, 2, 3])
        zero_buffers(pl, "IBuf", 1)
        short_outputs(pl, "IBuf", 2)
    out.append({"case": c, "ifaces": ["IBuf"], "vals": 4, "patch": patch_buf})

    # ---- small structs (sizes 1, 4, 8, 16), alone and bundled
    c = case1("smallstructs",
        S("S1", ("uint8", "a")),
        S("S4", ("uint16", "a"), ("uint8", "b"), ("int8", "c")),
        S("S8", ("uint32", "a"), ("uint16", "b", 2)),
        S("S16", ("uint64", "a"), ("float32", "b"), ("uint16", "c"), ("uint8", "d", 2)),
        S("N8", ("S4", "x"), ("S1", "y", 4)),
        I("ISmall", None,
          M("in1", P("in", "S1", "s")), M("in4", P("in", "S4", "s")), M("in8", P("in", "S8", "s")),
          M("in16", P("in", "S16", "s")),
          M("out1", P("out", "S1", "s")), M("out4", P("out", "S4", "s")), M("out8", P("out", "S8", "s")),
          M("out16", P("out", "S16", "s")),
          M("nested", P("in", "N8", "a"), P("out", "N8", "r")),
          M("bundle_in", P("in", "S1", "a"), P("in", "S4", "b"), P("in", "uint32", "x"), P("in", "S8", "c"),
            P("in", "S16", "d")),
          M("bundle_out", P("out", "S16", "a"), P("out", "uint8", "x"), P("out", "S4", "b"), P("out", "S1", "c")),
          M("both", P("in", "S8", "a"), P("out", "S8", "b"), P("in", "uint16", "x"), P("out", "S1", "c")),
        ))
    out.append({"case": c, "ifaces": ["ISmall"], "vals": 3,
                "patch": lambda pl: all_ok(pl, "ISmall", [0, 1])})

    # ---- big structs (> 16 bytes) in/out, struct arrays
    c = case1("bigstructs",
        S("Inner", ("uint32", "x"), ("uint16", "y"), ("int16", "z")),
        S("Big", ("uint64", "a"), ("Inner", "inner", 2), ("uint32", "c", 3), ("uint32", "pad"), ("float64", "f")),
        S("B24", ("uint64", "a"), ("int64", "b"), ("uint32", "c"), ("float32", "d")),
        I("IBig", None,
          M("bin", P("in", "Big", "b")),
          M("bout", P("out", "Big", "b")),
          M("inout", P("in", "Big", "a"), P("out", "B24", "r"), P("in", "uint32", "x"), P("out", "uint16", "y")),
          M("two", P("in", "Big", "a"), P("in", "B24", "b"), P("out", "Big", "c"), P("out", "B24", "d")),
          M("with_small", P("in", "Inner", "s"), P("in", "Big", "a"), P("out", "Inner", "t"), P("out", "B24", "d"),
            P("in", "uint8", "k")),
          M("arr_in", P("in", "Big", "a", "unbounded")),
          M("arr_out", P("out", "B24", "r", "unbounded")),
          M("arr_small", P("in", "Inner", "a", "unbounded"), P("out", "Inner", "r", "unbounded"),
            P("in", "buffer", "raw")),
        ))

    def patch_big(pl):
        all_ok(pl, "IBig", [0, 1, 2, 3])
        zero_buffers(pl, "IBig", 3)
    out.append({"case": c, "ifaces": ["IBig"], "vals": 4, "patch": patch_big})

    # ---- objects: generic and typed, null / non-null / aliased, object arrays
    c = case1("objects",
        I("IOther", None, M("ping")),
        I("IObj", None,
          M("gin", P("in", "interface", "o")),
          M("gout", P("out", "interface", "o")),
          M("tin", P("in", "IOther", "o")),
          M("tout", P("out", "IOther", "o")),
          M("self_in", P("in", "IObj", "o"), P("out", "IObj", "r")),
          M("mix", P("in", "interface", "a"), P("in", "IOther", "b"), P("out", "interface", "c"),
            P("out", "IOther", "d"), P("in", "uint32", "x"), P("out", "uint32", "y"), P("in", "IOther", "e")),
          M("arr_in", P("in", "IOther", "a", 3)),
          M("arr_out", P("out", "IOther", "a", 3)),
          M("arr_in_prim", P("in", "IOther", "a", 3), P("out", "uint32", "r")),
          M("arr_out_prim", P("out", "IOther", "a", 3), P("out", "uint32", "r"), P("in", "buffer", "b")),
          M("garr", P("in", "interface", "a", 2)),
          M("arr_both", P("in", "IOther", "a", 3), P("out", "IOther", "b", 3)),
        ))

    def patch_obj(pl):
        all_ok(pl, "IObj", [0, 1, 2, 3])
        all_objects(pl, "IObj", 0)
        null_objects(pl, "IObj", 3)
    out.append({"case": c, "ifaces": ["IObj", "IOther"], "vals": 4, "patch": patch_obj})

    # ---- big struct containing objects (cf. ObjInStruct of /repo/tests/idl/ITest.idl)
    c = case1("objstruct",
        I("IOther", None, M("ping")),
        S("ObjS", ("uint32", "p1", 4), ("IOther", "first_obj"), ("uint32", "p2", 4), ("IOther", "should_be_empty"),
          ("uint32", "p3", 4), ("interface", "second_obj")),
        S("Wrap", ("uint64", "k", 2), ("ObjS", "inner"), ("uint32", "tail", 4)),
        I("IOS", None,
          M("sin", P("in", "ObjS", "s")),
          M("sout", P("out", "ObjS", "s")),
          M("prim_sin", P("in", "uint32", "x"), P("in", "ObjS", "s")),
          M("wrapped_in", P("in", "Wrap", "w")),
          M("wrapped_out", P("out", "Wrap", "w")),
        ))

    def patch_os(pl):
        all_ok(pl, "IOS", [0, 1, 2, 3])
        all_objects(pl, "IOS", 0)
        null_objects(pl, "IOS", 3)
    out.append({"case": c, "ifaces": ["IOS"], "vals": 4, "patch": patch_os})

    # ---- inheritance depth 2 and 3, optional methods, errors (own, inherited, generic)
    c = case1("inherit",
        I("IA", None, E("EA1"), E("ea_two"),
          M("a1", P("in", "uint32", "x"), P("out", "uint32", "y")),
          M("aopt", P("in", "uint8", "x"), optional=True),
          M("a2", P("in", "buffer", "b"), P("out", "buffer", "r"))),
        I("IBee", "IA", E("EB"),
          M("b1", P("out", "uint64", "r")),
          M("bopt", P("out", "uint8", "x"), optional=True)),
        I("IC", "IBee", E("EC"), CONST("uint32", "KC", "7"),
          M("c1", P("in", "IA", "o"), P("out", "IBee", "r"), P("in", "uint16", "k"))),
    )

    def patch_inh(pl):
        for i in ("IA", "IBee", "IC"):
            all_ok(pl, i, [0, 1, 2, 3, 4])
        # own user errors
        set_status(pl, "IA", "a1", 1, 10)       # EA1
        set_status(pl, "IA", "a2", 1, 11)       # ea_two
        set_status(pl, "IA", "a1", 2, 1)        # Object_ERROR
        set_status(pl, "IA", "a2", 2, 5)        # Object_ERROR_MEM
        set_status(pl, "IBee", "a1", 1, 12)     # EB raised by a method owned by IA
        set_status(pl, "IBee", "b1", 1, 10)     # EA1 raised by a method owned by IBee
        set_status(pl, "IBee", "b1", 2, 12)
        set_status(pl, "IBee", "a2", 2, 2)
        set_status(pl, "IC", "a1", 1, 13)       # EC from the root's method
        set_status(pl, "IC", "b1", 1, 11)
        set_status(pl, "IC", "c1", 1, 13)
        set_status(pl, "IC", "c1", 2, 12)
        set_status(pl, "IC", "c1", 3, 5)
        set_status(pl, "IC", "a2", 3, -92)      # transport code passes through unchanged
        set_status(pl, "IC", "b1", 3, 77)       # undeclared user code
    out.append({"case": c, "ifaces": ["IA", "IBee", "IC"], "vals": 5, "patch": patch_inh})

    # ---- structs and interfaces defined in an included file (include dir), mixed-case names
    c = {"id": "included",
         "files": [
             {"path": "main.idl", "nodes": [
                 INC("Types.idl"),
                 S("MS", ("TS", "t"), ("uint32", "k"), ("uint32", "pad")),
                 I("IMainThing", "IInc", E("E_MAIN"),
                   M("m", P("in", "TS", "s"), P("in", "IInc", "o"), P("out", "MS", "r"), P("out", "IInc", "q")),
                   M("small", P("in", "TSmall", "a"), P("in", "uint16", "b"), P("out", "TSmall", "r")),
                   M("arr", P("in", "TS", "a", "unbounded"), P("out", "TSmall", "r", "unbounded")),
                   M("objs", P("in", "IInc", "a", 3), P("out", "uint8", "n")),
                   M("holder", P("in", "THolder", "h")),
                   ),
             ]},
             {"path": "inc/Types.idl", "nodes": [
                 CONST("uint32", "TYPES_K", "0x10"),
                 S("TS", ("uint32", "a"), ("uint32", "b"), ("uint64", "c"), ("uint64", "d")),
                 S("TSmall", ("uint16", "a"), ("uint16", "b")),
                 I("IInc", None, E("E_INC"),
                   M("hello", P("in", "TS", "s"), P("out", "TSmall", "r"))),
                 S("THolder", ("uint64", "a", 2), ("IInc", "o"), ("uint64", "b"), ("uint64", "c")),
             ]},
         ],
         "main": "main.idl", "incdirs": ["inc"]}

    def patch_inc(pl):
        all_ok(pl, "IMainThing", [0, 1])
        all_ok(pl, "IInc", [0, 1])
        set_status(pl, "IMainThing", "hello", 2, 10)   # E_INC
        set_status(pl, "IMainThing", "m", 2, 11)       # E_MAIN
    out.append({"case": c, "ifaces": ["IInc", "IMainThing"], "vals": 3, "patch": patch_inc})

    return out


# ====================================================================== build + run

def run(cmd, **kw):
    return subprocess.run(cmd, stdout=subprocess.PIPE, stderr=subprocess.PIPE, text=True, **kw)


def build_runtime(workdir, force_standin=False):
    """-> (list of .o, "real"|"stand-in")"""
    rt = os.path.join(workdir, "rt")
    os.makedirs(rt, exist_ok=True)
    real = (not force_standin) and all(os.path.isfile(os.path.join(RUNTIME_DIR, f)) for f in RUNTIME_FILES)
    if real:
        srcs = [os.path.join(RUNTIME_DIR, f) for f in RUNTIME_FILES]
    else:
        p = os.path.join(rt, "standin.c")
        with open(p, "w") as fh:
            fh.write(STANDIN_C)
        srcs = [p]
    objs = []
    for s in srcs:
        o = os.path.join(rt, os.path.basename(s)[:-2] + ".o")
        r = run(["gcc", "-std=gnu11", "-O0", "-c", "-Wall", "-I" + REPO_C_INC, "-I" + HERE, "-I" + RUNTIME_DIR,
                 s, "-o", o])
        if r.returncode != 0:
            raise RuntimeError(f"runtime does not compile: {s}\n{r.stderr}")
        objs.append(o)
    return objs, ("real" if real else "stand-in")


def render_main_rs(case, ifaces, nvals, mods, rust_dir, allow_like_upstream):
    L = []
    a = L.append
    a("// generated by bench/selftest_rust.py")
    a("#![allow(improper_ctypes, improper_ctypes_definitions, clashing_extern_declarations)]")
    a(f'#[path = "{REPO_OBJECT_RS}"]')
    a("pub mod object;")
    if allow_like_upstream:
        a("#[allow(unused, nonstandard_style)]")
    a("pub mod interfaces {")
    for m in mods:
        a(f"    pub mod {m} {{ include!(\"{os.path.join(rust_dir, m + '.rs')}\"); }}")
    a("}")
    a("mod bench_rust;")
    a("use bench_rust::RawObject;")
    a("extern \"C\" {")
    a("    static mut g_val: i32;")
    a("    fn emit(line: *const std::os::raw::c_char);")
    a("    fn counting_report();")
    a("    fn transport_wrap(inner: RawObject) -> RawObject;")
    for i in ifaces:
        a(f"    fn make_rust_{i}() -> RawObject;")
        for _o, m, _op in idl.flat_methods(case, i):
            a(f"    fn call_rust_{i}_{m['name']}(target: RawObject);")
    a("}")
    a("struct Ent { iface: &'static str, method: &'static str, make: unsafe extern \"C\" fn() -> RawObject,")
    a("             call: unsafe extern \"C\" fn(RawObject) }")
    a("static ENTS: &[Ent] = &[")
    for i in ifaces:
        for _o, m, _op in idl.flat_methods(case, i):
            a(f"    Ent {{ iface: \"{i}\", method: \"{m['name']}\", make: make_rust_{i}, call: call_rust_{i}_{m['name']} }},")
    a("];")
    a("fn say(s: String) { let c = std::ffi::CString::new(s).unwrap(); unsafe { emit(c.as_ptr()) } }")
    a("fn main() {")
    a(f"    for v in 0..{nvals} {{")
    a("        for e in ENTS {")
    a("            unsafe {")
    a("                g_val = v;")
    a("                let t = transport_wrap((e.make)());")
    a("                say(format!(\"{{\\\"ev\\\":\\\"call\\\",\\\"stub\\\":\\\"rust\\\",\\\"skel\\\":\\\"rust\\\",\\\"iface\\\":\\\"{}\\\",\\\"method\\\":\\\"{}\\\",\\\"val\\\":{}}}\", e.iface, e.method, v));")
    a("                (e.call)(t);")
    a("                bench_rust::rust_release_raw(t);")
    a("                counting_report();")
    a("            }")
    a("        }")
    a("    }")
    a("    say(\"{\\\"ev\\\":\\\"end\\\"}\".to_string());")
    a("}")
    return "\n".join(L) + "\n"


def classify_diag(d, rust_dir, srcdir):
    """-> (bucket, file) of a rustc JSON diagnostic by its primary span"""
    spans = d.get("spans") or []
    prim = [s for s in spans if s.get("is_primary")] or spans
    f = prim[0]["file_name"] if prim else ""
    af = os.path.abspath(f) if f else ""
    if af.startswith(os.path.abspath(rust_dir) + os.sep):
        return "idlc", os.path.basename(af)
    if af.startswith("/repo/"):
        return "upstream-runtime", af
    if af.startswith(os.path.abspath(srcdir) + os.sep):
        return os.path.basename(af), os.path.basename(af)
    return "other", af


def rustc(main_rs, outdir, link_objs, rust_dir, srcdir, check_only=False):
    cmd = ["rustc", "--edition", "2021", "--cfg", 'feature="std"', "-C", "debuginfo=0",
           "--error-format=json", main_rs]
    if check_only:
        cmd += ["--emit=metadata", "--out-dir", outdir]
    else:
        cmd += ["-o", os.path.join(outdir, "bench")]
        for o in link_objs:
            cmd += ["-C", f"link-arg={o}"]
    env = dict(os.environ, RUST_BACKTRACE="0")
    r = run(cmd, env=env)
    diags = []
    other = []
    for line in r.stderr.splitlines():
        line = line.strip()
        if line.startswith("{"):
            try:
                d = json.loads(line)
            except ValueError:
                other.append(line)
                continue
            if d.get("level") in ("warning", "error") and (d.get("spans") or d.get("level") == "error"):
                bucket, f = classify_diag(d, rust_dir, srcdir)
                code = (d.get("code") or {}).get("code") or "-"
                diags.append({"level": d["level"], "code": code, "bucket": bucket, "file": f,
                              "msg": d.get("message", ""), "rendered": d.get("rendered", "")})
        elif line:
            other.append(line)
    return r.returncode, diags, other


def build_case(spec, root, idlc, rt_objs, verbose=False):
    """-> dict(ok, binary, plans, log[], diags_raw, diags_allowed)"""
    case = spec["case"]
    res = {"ok": False, "binary": None, "log": [], "diags_raw": [], "diags_allowed": []}
    idl_root = os.path.join(root, "idl")
    rust_dir = os.path.join(root, "gen", "rust")
    src = os.path.join(root, "src")
    for d in (idl_root, rust_dir, src):
        os.makedirs(d, exist_ok=True)
    idl.render_case(case, idl_root)
    inc = []
    for d in case.get("incdirs", []):
        inc += ["-I", os.path.join(idl_root, d)]
    for f in case["files"]:
        if not any(n["k"] in ("struct", "interface") for n in f.get("nodes", [])):
            continue
        r = run([idlc, os.path.join(idl_root, f["path"])] + inc + ["--rust", "-o", rust_dir])
        if r.returncode != 0:
            res["log"].append(f"idlc failed on {f['path']}: rc={r.returncode}\n{r.stdout}\n{r.stderr}")
            return res
    mods = sorted(f[:-3] for f in os.listdir(rust_dir) if f.endswith(".rs"))
    plans = gen_rust.make_plans(case, spec["ifaces"], valuations=spec["vals"])
    if spec.get("patch"):
        spec["patch"](plans)
    res["plans"] = plans
    files = gen_rust.generate(case, spec["ifaces"], plans)
    for name, text in files.items():
        with open(os.path.join(src, name), "w") as fh:
            fh.write(text)
    main_rs = os.path.join(src, "main.rs")
    # pass 1: real build, no allow on `mod interfaces`  -> raw diagnostics of the generated files
    with open(main_rs, "w") as fh:
        fh.write(render_main_rs(case, spec["ifaces"], spec["vals"], mods, rust_dir, False))
    rc, diags, other = rustc(main_rs, root, rt_objs, rust_dir, src)
    res["diags_raw"] = diags
    if rc != 0:
        res["log"].append("rustc failed:\n" + "\n".join(d["rendered"] for d in diags if d["level"] == "error")
                          + "\n".join(other))
        return res
    res["binary"] = os.path.join(root, "bench")
    # pass 2: check only, upstream's allow list on `mod interfaces`
    main2 = os.path.join(src, "main_allow.rs")
    with open(main2, "w") as fh:
        fh.write(render_main_rs(case, spec["ifaces"], spec["vals"], mods, rust_dir, True))
    # `mod bench_rust;` is resolved relative to the crate root file: same directory, fine
    meta = os.path.join(root, "meta")
    os.makedirs(meta, exist_ok=True)
    rc2, diags2, _ = rustc(main2, meta, [], rust_dir, src, check_only=True)
    res["diags_allowed"] = diags2
    if rc2 != 0:
        res["log"].append("rustc (allow pass) failed unexpectedly")
        return res
    res["ok"] = True
    return res


def run_case(binary, timeout=60):
    try:
        r = subprocess.run([binary], stdout=subprocess.PIPE, stderr=subprocess.PIPE, text=True, timeout=timeout,
                           env=dict(os.environ, RUST_BACKTRACE="0"))
        rc, out, err = r.returncode, r.stdout, r.stderr
    except subprocess.TimeoutExpired as e:
        rc, out, err = -999, (e.stdout or ""), "timeout"
    recs = []
    bad = []
    for line in out.splitlines():
        try:
            recs.append(json.loads(line))
        except ValueError:
            bad.append(line)
    return rc, recs, bad, err


# ====================================================================== checking

def expected_tokens(plan, method, delivered_outs):
    toks = []
    for p in method["params"]:
        vs = plan["ins"] if p["dir"] == "in" else (plan["outs"] if delivered_outs else {})
        v = vs.get(p["name"])
        if v is None:
            continue
        for t in gen_rust.Gen.value_tokens(v):
            if t not in toks:
                toks.append(t)
    return sorted(toks)


def check_case(spec, plans, rc, recs, bad_lines, stderr):
    case = spec["case"]
    errs = []
    ncalls = 0
    if bad_lines:
        errs.append(f"non-JSON output lines: {bad_lines[:3]}")
    if rc != 0:
        errs.append(f"exit code {rc}; stderr: {stderr.strip()[-400:]}")
    if not recs or recs[-1].get("ev") != "end":
        errs.append("no end record")
    # split into call groups
    groups = []
    for r in recs:
        if r.get("ev") == "call":
            groups.append([r])
        elif r.get("ev") == "end":
            pass
        elif groups:
            groups[-1].append(r)
        else:
            errs.append(f"record before first call: {r}")
    seen = set()
    for g in groups:
        call = g[0]
        iface, mname, val = call["iface"], call["method"], call["val"]
        tag = f"{iface}.{mname}#{val}"
        seen.add((iface, mname, val))
        ncalls += 1
        fm = {m["name"]: (o, m, op) for o, m, op in idl.flat_methods(case, iface)}
        owner, m, op = fm[mname]
        plan = plans[(iface, mname)][val]
        by = collections.defaultdict(list)
        for r in g[1:]:
            by[r.get("ev")].append(r)
        if by.get("harness_error"):
            errs.append(f"{tag}: harness_error {by['harness_error']}")
        # envelope
        if len(by["envelope"]) != 1:
            errs.append(f"{tag}: {len(by['envelope'])} envelope records")
        elif by["envelope"][0]["op"] != op:
            errs.append(f"{tag}: envelope op {by['envelope'][0]['op']} != {op}")
        optional = bool(m.get("optional"))
        # impl
        if optional:
            if by["impl"]:
                errs.append(f"{tag}: impl record for an optional (unimplemented) method")
            exp_status = 2
        else:
            exp_status = plan["status"]
            if len(by["impl"]) != 1:
                errs.append(f"{tag}: {len(by['impl'])} impl records")
            else:
                r = by["impl"][0]
                if (r.get("lang"), r.get("iface"), r.get("method")) != ("rust", iface, mname):
                    errs.append(f"{tag}: impl head {r}")
                ins = dict(r.get("ins", {}))
                outcap = ins.pop("outcap", None)
                exp_ins = {p["name"]: values.canon(plan["ins"][p["name"]]) for p in m["params"] if p["dir"] == "in"}
                if ins != exp_ins:
                    errs.append(f"{tag}: impl ins mismatch\n      got {json.dumps(ins, sort_keys=True)}\n"
                                f"      exp {json.dumps(exp_ins, sort_keys=True)}")
                if outcap != plan["caps"]:
                    errs.append(f"{tag}: outcap {outcap} != {plan['caps']}")
        # ret
        ok_delivery = (exp_status == 0)
        if len(by["ret"]) != 1:
            errs.append(f"{tag}: {len(by['ret'])} ret records")
        else:
            r = by["ret"][0]
            if (r.get("lang"), r.get("iface"), r.get("method")) != ("rust", iface, mname):
                errs.append(f"{tag}: ret head {r}")
            if r.get("status") != exp_status:
                errs.append(f"{tag}: status {r.get('status')} != planned {exp_status}")
            if ok_delivery:
                exp_outs = {p["name"]: values.canon(plan["outs"][p["name"]]) for p in m["params"] if p["dir"] == "out"}
                exp_len = {n: v["len"] for n, v in plan["outs"].items() if v["k"] == "buf"}
            else:
                exp_outs, exp_len = {}, {}
            if r.get("outs") != exp_outs:
                errs.append(f"{tag}: ret outs mismatch\n      got {json.dumps(r.get('outs'), sort_keys=True)}\n"
                            f"      exp {json.dumps(exp_outs, sort_keys=True)}")
            if r.get("lenouts") != exp_len:
                errs.append(f"{tag}: lenouts {r.get('lenouts')} != {exp_len}")
        # refs
        toks = sorted(r["token"] for r in by["refs"])
        exp_toks = expected_tokens(plan, m, ok_delivery and not optional)
        if toks != exp_toks:
            errs.append(f"{tag}: refs tokens {toks} != expected {exp_toks}")
        for r in by["refs"]:
            if r["count"] != 0:
                errs.append(f"{tag}: token {r['token']} ends with count {r['count']} "
                            f"(retains {r['retains']}, releases {r['releases']})")
    # every planned call happened
    for iface in spec["ifaces"]:
        for _o, m, _op in idl.flat_methods(case, iface):
            for v in range(spec["vals"]):
                if (iface, m["name"], v) not in seen:
                    errs.append(f"{iface}.{m['name']}#{v}: call missing from the output")
    return ncalls, errs


# ====================================================================== main

def summarize_diags(all_raw, all_allowed):
    def key(d):
        return (d["bucket"], d["level"], d["code"])
    raw = collections.Counter(key(d) for d in all_raw)
    allowed = collections.Counter(key(d) for d in all_allowed)
    lines = []
    for (bucket, level, code), n in sorted(raw.items()):
        if bucket != "idlc":
            continue
        lines.append(f"    {level:7} {code:28} x{n:<5} (with upstream's allow list: x{allowed.get((bucket, level, code), 0)})")
    return lines


def main():
    ap = argparse.ArgumentParser(description=__doc__, formatter_class=argparse.RawDescriptionHelpFormatter)
    ap.add_argument("--idlc", default=DEFAULT_IDLC)
    ap.add_argument("--keep", action="store_true", help="keep the work directory")
    ap.add_argument("--only", nargs="*", help="case ids to run")
    ap.add_argument("--standin", action="store_true", help="use the embedded stand-in C runtime even if "
                    "/verif/bench/runtime is present")
    ap.add_argument("-v", "--verbose", action="store_true", help="print all records and one sample of each "
                    "rustc diagnostic of the generated files")
    args = ap.parse_args()

    if not os.path.isfile(args.idlc):
        print(f"idlc not found: {args.idlc}", file=sys.stderr)
        return 2
    work = tempfile.mkdtemp(prefix="selftest_rust_")
    failed = 0
    total_calls = 0
    all_raw, all_allowed = [], []
    try:
        rt_objs, rt_kind = build_runtime(work, args.standin)
        print(f"runtime: {rt_kind}; idlc: {args.idlc}; work dir: {work}")
        for spec in cases():
            cid = spec["case"]["id"]
            if args.only and cid not in args.only:
                continue
            root = os.path.join(work, cid)
            os.makedirs(root)
            b = build_case(spec, root, args.idlc, rt_objs, args.verbose)
            all_raw += b["diags_raw"]
            all_allowed += b["diags_allowed"]
            if not b["ok"]:
                failed += 1
                print(f"[FAIL] {cid}: build failed")
                for l in b["log"]:
                    print("    " + l.replace("\n", "\n    "))
                continue
            own = [d for d in b["diags_raw"] if d["bucket"] == "bench_rust.rs"]
            rc, recs, bad, err = run_case(b["binary"])
            ncalls, errs = check_case(spec, b["plans"], rc, recs, bad, err)
            total_calls += ncalls
            nimpl = sum(1 for r in recs if r.get("ev") == "impl")
            nrefs = sum(1 for r in recs if r.get("ev") == "refs")
            if errs:
                failed += 1
                print(f"[FAIL] {cid}: {ncalls} calls, {len(errs)} problem(s)")
                for e in errs[:40]:
                    print("    " + e)
                if len(errs) > 40:
                    print(f"    ... {len(errs) - 40} more")
            else:
                print(f"[ok]   {cid}: {ncalls} calls, {nimpl} impl records, {nrefs} counted objects all at 0"
                      + (f"; {len(own)} warning(s) in bench_rust.rs" if own else ""))
            if args.verbose:
                for r in recs:
                    print("      " + json.dumps(r))
        print("rustc diagnostics attributed to idlc-generated files (all cases):")
        lines = summarize_diags(all_raw, all_allowed)
        print("\n".join(lines) if lines else "    none")
        if args.verbose:
            seen = set()
            for d in all_raw:
                if d["bucket"] == "idlc" and d["code"] not in seen:
                    seen.add(d["code"])
                    print(d["rendered"])
        others = collections.Counter((d["bucket"], d["level"], d["code"]) for d in all_raw if d["bucket"] != "idlc")
        if others:
            print("other diagnostics:")
            for (bucket, level, code), n in sorted(others.items()):
                print(f"    {bucket}: {level} {code} x{n}")
        print(f"SUMMARY: {total_calls} calls checked, {failed} case(s) failed")
    finally:
        if args.keep:
            print(f"kept {work}")
        else:
            shutil.rmtree(work, ignore_errors=True)
    return 1 if failed else 0


if __name__ == "__main__":
    sys.exit(main())
