#!/usr/bin/env python3
"""Self test of bench/gen_cpp.py: builds a handful of cases cpp -> transport -> cpp and checks
every record against the plan.

    python3 /verif/bench/selftest_cpp.py [--cxx g++ --cxx clang++] [--standin] [--sanitize]
                                         [--keep] [-v] [--only CASE] [--idlc PATH] [--known]

Runtime: /verif/bench/runtime/{emit,counting,transport}.c when all three exist, otherwise (or
with --standin) a minimal stand-in with the same bench.h API embedded below.
Exit status 0 iff every check of every case passed with every compiler.
"""
import argparse
import json
import os
import random
import shutil
import subprocess
import sys
import tempfile

HERE = os.path.dirname(os.path.abspath(__file__))
sys.path.insert(0, os.path.dirname(HERE))
from bench import idl, values, gen_cpp  # noqa: E402

IDLC_DEFAULT = "/verif/.cache/target/debug/idlc"
RUNTIME_DIR = os.path.join(HERE, "runtime")
RUNTIME_FILES = ["emit.c", "counting.c", "transport.c"]
UPSTREAM_INC = ["-I/repo/tests/c", "-I/repo/tests/cpp"]
CFLAGS = ["-Wall", "-Wextra", "-Wno-unused-parameter", "-Werror"]
CXXFLAGS = CFLAGS[:3] + ["-Wno-missing-field-initializers", "-Werror"]   # as /repo/tests/build.rs
BUFKINDS = ("buffer", "primarr", "structarr")
ERROR_INVALID = 2

# ------------------------------------------------------------------ stand-in runtime

STANDIN = {
    "emit.c": r'''
#include <stdio.h>
#include "bench.h"
int g_val = 0;
void emit(const char *s) { fputs(s, stdout); fputc('\n', stdout); fflush(stdout); }
char *hex_of(const void *p, size_t n, char *out) {
  static const char d[] = "0123456789abcdef";
  const unsigned char *b = (const unsigned char *)p;
  size_t i;
  for (i = 0; i < n; i++) { out[2 * i] = d[b[i] >> 4]; out[2 * i + 1] = d[b[i] & 15]; }
  out[2 * n] = 0;
  return out;
}
''',
    "counting.c": r'''
#include <stdio.h>
#include <stdlib.h>
#include "bench.h"
typedef struct cobj { int token; long retains, releases, count; int reported; struct cobj *next; } cobj;
static cobj *g_head, *g_tail;
static int32_t counting_invoke(ObjectCxt h, ObjectOp op, ObjectArg *a, ObjectCounts k) {
  cobj *c = (cobj *)h;
  switch (ObjectOp_methodID(op)) {
  case Object_OP_retain: c->retains++; c->count++; return Object_OK;
  case Object_OP_release: c->releases++; c->count--; return Object_OK;
  default: return Object_ERROR_INVALID;
  }
}
Object counting_new(int token) {
  cobj *c = (cobj *)calloc(1, sizeof *c);
  Object o;
  if (!c) abort();
  c->token = token; c->count = 1;
  if (g_tail) g_tail->next = c; else g_head = c;
  g_tail = c;
  o.invoke = counting_invoke; o.context = c;
  return o;
}
const char *obj_text(Object o) {
  static char ring[16][40];
  static unsigned pos;
  char *out = ring[pos++ & 15];
  if (o.invoke == NULL) snprintf(out, 40, "null");
  else if (o.invoke == counting_invoke) snprintf(out, 40, "t%d", ((cobj *)o.context)->token);
  else snprintf(out, 40, "?%p", o.context);
  return out;
}
void counting_report(void) {
  char line[160];
  cobj *c;
  for (c = g_head; c; c = c->next) {
    if (c->reported) continue;
    snprintf(line, sizeof line, "{\"ev\":\"refs\",\"token\":%d,\"retains\":%ld,\"releases\":%ld,\"count\":%ld}",
             c->token, c->retains, c->releases, c->count);
    emit(line);
    c->reported = 1;
  }
}
''',
    "transport.c": r'''
#include <stdio.h>
#include <stdlib.h>
#include <string.h>
#include "bench.h"
typedef struct { long refs; Object inner; } tobj;
typedef struct { char *p; size_t n, cap; } sb;
static void put(sb *s, const char *t, size_t l) {
  if (s->n + l + 1 > s->cap) {
    s->cap = (s->n + l + 1) * 2;
    s->p = (char *)realloc(s->p, s->cap);
    if (!s->p) abort();
  }
  memcpy(s->p + s->n, t, l);
  s->n += l;
  s->p[s->n] = 0;
}
static void puts_(sb *s, const char *t) { put(s, t, strlen(t)); }
static void putn(sb *s, const char *fmt, long long v) { char b[64]; snprintf(b, sizeof b, fmt, v); puts_(s, b); }
static void puthex(sb *s, const void *p, size_t n) {
  char *h = (char *)malloc(2 * n + 1);
  if (!h) abort();
  hex_of(p, n, h);
  put(s, h, 2 * n);
  free(h);
}
static int32_t t_invoke(ObjectCxt h, ObjectOp op, ObjectArg *args, ObjectCounts k) {
  tobj *t = (tobj *)h;
  ObjectOp mid = ObjectOp_methodID(op);
  size_t nbi = ObjectCounts_numBI(k), nbo = ObjectCounts_numBO(k), noi = ObjectCounts_numOI(k),
         noo = ObjectCounts_numOO(k), total = ObjectCounts_total(k), i;
  size_t ibo = nbi, ioi = nbi + nbo, ioo = nbi + nbo + noi;
  ObjectArg *na;
  size_t *orig;
  int32_t status;
  sb s = {0, 0, 0};
  if (mid == Object_OP_retain) { t->refs++; return Object_OK; }
  if (mid == Object_OP_release) {
    if (--t->refs == 0) { Object in = t->inner; free(t); if (!Object_isNull(in)) Object_release(in); }
    return Object_OK;
  }
  puts_(&s, "{\"ev\":\"envelope\"");
  putn(&s, ",\"op\":%lld", (long long)op);
  putn(&s, ",\"k\":%lld,\"slots\":[", (long long)k);
  for (i = 0; i < total; i++) {
    if (i) puts_(&s, ",");
    if (i < ibo) {
      putn(&s, "{\"c\":\"bi\",\"size\":%lld,\"hex\":\"", (long long)args[i].bi.size);
      puthex(&s, args[i].bi.ptr, args[i].bi.size);
      puts_(&s, "\"}");
    } else if (i < ioi) {
      putn(&s, "{\"c\":\"bo\",\"size\":%lld}", (long long)args[i].b.size);
    } else if (i < ioo) {
      puts_(&s, "{\"c\":\"oi\",\"obj\":\""); puts_(&s, obj_text(args[i].o)); puts_(&s, "\"}");
    } else {
      puts_(&s, "{\"c\":\"oo\"}");
    }
  }
  puts_(&s, "]}");
  emit(s.p);
  na = (ObjectArg *)calloc(total ? total : 1, sizeof *na);
  orig = (size_t *)calloc(nbo ? nbo : 1, sizeof *orig);
  if (!na || !orig) abort();
  for (i = 0; i < nbi; i++) {
    size_t sz = args[i].bi.size;
    void *b = malloc(sz ? sz : 1);
    if (!b) abort();
    if (sz) memcpy(b, args[i].bi.ptr, sz);
    na[i].b.ptr = b; na[i].b.size = sz;
  }
  for (i = 0; i < nbo; i++) {
    size_t sz = args[ibo + i].b.size;
    void *b = calloc(sz ? sz : 1, 1);
    if (!b) abort();
    orig[i] = sz;
    na[ibo + i].b.ptr = b; na[ibo + i].b.size = sz;
  }
  for (i = 0; i < noi; i++) na[ioi + i].o = args[ioi + i].o;
  status = Object_invoke(t->inner, op, na, k);
  s.n = 0;
  putn(&s, "{\"ev\":\"reply\",\"status\":%lld,\"bo\":[", (long long)status);
  for (i = 0; i < nbo; i++) {
    size_t sz = na[ibo + i].b.size, shown = sz < orig[i] ? sz : orig[i];
    if (i) puts_(&s, ",");
    putn(&s, "{\"size\":%lld,\"hex\":\"", (long long)sz);
    puthex(&s, na[ibo + i].b.ptr, shown);
    puts_(&s, "\"}");
  }
  puts_(&s, "],\"oo\":[");
  for (i = 0; i < noo; i++) {
    if (i) puts_(&s, ",");
    puts_(&s, "\""); puts_(&s, obj_text(na[ioo + i].o)); puts_(&s, "\"");
  }
  puts_(&s, "]}");
  emit(s.p);
  free(s.p);
  for (i = 0; i < nbo; i++) {
    size_t sz = na[ibo + i].b.size, n = sz < orig[i] ? sz : orig[i];
    if (n) memcpy(args[ibo + i].b.ptr, na[ibo + i].b.ptr, n);
    args[ibo + i].b.size = sz;
  }
  for (i = 0; i < noo; i++) args[ioo + i].o = na[ioo + i].o;
  for (i = 0; i < nbi + nbo; i++) free(na[i].b.ptr);
  free(na);
  free(orig);
  return status;
}
Object transport_wrap(Object inner) {
  tobj *t = (tobj *)malloc(sizeof *t);
  Object o;
  if (!t) abort();
  t->refs = 1; t->inner = inner;
  o.invoke = t_invoke; o.context = t;
  return o;
}
''',
}

# ------------------------------------------------------------------ case construction helpers


def P(d, t, name, arr=None):
    return {"dir": d, "type": t, "arr": arr, "name": name}


def M(name, *params, optional=False):
    return {"k": "method", "name": name, "optional": optional, "doc": None, "params": list(params)}


def E(name):
    return {"k": "error", "name": name}


def S(name, *fields):
    return {"k": "struct", "name": name,
            "fields": [{"type": f[0], "name": f[1], "count": (f[2] if len(f) > 2 else 1)} for f in fields]}


def I(name, base, *members):
    return {"k": "interface", "name": name, "base": base, "members": list(members)}


def INC(path):
    return {"k": "include", "path": path}


def case(cid, nodes, ifaces, extra_files=()):
    files = [{"path": "%s.idl" % cid, "nodes": nodes}] + list(extra_files)
    return {"id": cid, "files": files, "main": "%s.idl" % cid, "incdirs": []}, ifaces


U = "unbounded"


def all_cases():
    out = []

    # 1 -------- primitives in / out, single and bundled, floats, errors, optional
    out.append(case("prims", [
        I("IPrim", None,
          E("E_A"), E("E_B"),
          M("none"),
          M("in1", P("in", "uint32", "x")),
          M("out1", P("out", "uint16", "y")),
          M("inout1", P("in", "uint8", "x"), P("out", "int64", "y")),
          M("in2", P("in", "uint8", "a"), P("in", "uint64", "b"), P("in", "int16", "c")),
          M("out2", P("out", "uint16", "a"), P("out", "uint32", "b"), P("out", "uint8", "c")),
          M("mix", P("in", "uint32", "a"), P("out", "uint64", "b"), P("in", "int8", "c"),
            P("out", "int16", "d"), P("in", "float32", "e"), P("out", "float64", "f")),
          M("fl", P("in", "float32", "a"), P("in", "float64", "b"), P("out", "float32", "c"),
            P("out", "float64", "d")),
          M("opt", P("in", "uint32", "x"), P("out", "uint32", "y"), optional=True),
          M("all8", *[P("in", t, "i_" + t) for t in idl.PRIM_ORDER[:8]],
            *[P("out", t, "o_" + t) for t in idl.PRIM_ORDER[:8]]),
          )], ["IPrim"]))

    # 2 -------- buffers, primitive arrays, struct arrays (incl. zero length, see plans_for)
    out.append(case("bufs", [
        S("Pt", ("uint32", "x"), ("uint32", "y")),
        S("Big24", ("uint64", "a"), ("uint32", "b"), ("uint32", "c"), ("uint64", "d")),
        I("IBuf", None,
          E("E_BUF"),
          M("bin", P("in", "buffer", "a")),
          M("bout", P("out", "buffer", "b")),
          M("binout", P("in", "buffer", "a"), P("out", "buffer", "b")),
          M("two", P("in", "buffer", "a"), P("in", "buffer", "a2"), P("out", "buffer", "b"),
            P("out", "buffer", "b2")),
          M("arrs", P("in", "uint16", "a", U), P("out", "int64", "b", U), P("in", "float32", "c", U),
            P("out", "uint8", "d", U), P("in", "float64", "e", U), P("out", "uint32", "f", U)),
          M("sarr_in", P("in", "Big24", "s", U)),
          M("sarr_out", P("out", "Pt", "s", U)),
          M("sarr_both", P("in", "Pt", "a", U), P("out", "Big24", "b", U), P("in", "uint32", "n"),
            P("out", "uint32", "m")),
          M("mixed", P("in", "buffer", "a"), P("out", "buffer", "b"), P("in", "uint32", "x"),
            P("out", "uint32", "y"), P("in", "uint16", "p"), P("out", "uint64", "q"),
            P("out", "uint16", "r", U)),
          )], ["IBuf"]))

    # 3 -------- small structs (1, 4, 8, 16 bytes) alone and bundled, big structs
    out.append(case("structs", [
        S("S1", ("uint8", "a")),
        S("S4", ("uint16", "a"), ("uint8", "b", 2)),
        S("S8", ("uint32", "a"), ("float32", "f")),
        S("S16", ("uint64", "a"), ("float64", "d")),
        S("Inner", ("uint16", "p"), ("uint16", "q")),
        S("Big", ("uint64", "a"), ("uint32", "b", 3), ("uint32", "c"), ("S8", "n"), ("Inner", "m", 2)),
        I("IStruct", None,
          E("E_S"),
          M("s1_in", P("in", "S1", "a")), M("s1_out", P("out", "S1", "a")),
          M("s4_in", P("in", "S4", "a")), M("s4_out", P("out", "S4", "a")),
          M("s8_in", P("in", "S8", "a")), M("s8_out", P("out", "S8", "a")),
          M("s16_in", P("in", "S16", "a")), M("s16_out", P("out", "S16", "a")),
          M("s8_both", P("in", "S8", "a"), P("out", "S8", "b")),
          M("smalls_in", P("in", "S1", "a"), P("in", "S4", "b"), P("in", "S8", "c"), P("in", "S16", "d")),
          M("smalls_out", P("out", "S1", "a"), P("out", "S4", "b"), P("out", "S8", "c"), P("out", "S16", "d")),
          M("small_prim", P("in", "S4", "a"), P("in", "uint32", "x"), P("out", "S8", "b"),
            P("out", "uint16", "y")),
          M("big_in", P("in", "Big", "a")),
          M("big_out", P("out", "Big", "b")),
          M("big_both", P("in", "Big", "a"), P("out", "Big", "b")),
          M("big_small", P("in", "Big", "a"), P("in", "S4", "s"), P("in", "uint32", "x"),
            P("out", "Big", "b"), P("out", "S16", "t")),
          M("big_bufs", P("in", "Big", "a"), P("in", "buffer", "raw"), P("out", "Big", "b"),
            P("out", "uint8", "o", U)),
          )], ["IStruct"]))

    # 4 -------- objects: generic / typed, in / out, arrays I[3], big structs with objects
    out.append(case("objs", [
        S("WObj", ("uint32", "p1", 4), ("IPeer", "o1"), ("uint64", "q"), ("uint64", "q2"),
          ("interface", "o2")),
        S("ObjInStruct", ("uint32", "p1", 4), ("IObj", "first_obj"), ("uint32", "p2", 4),
          ("IObj", "should_be_empty"), ("uint32", "p3", 4), ("IObj", "second_obj")),
        I("IPeer", None, M("ping", P("in", "uint32", "x"))),
        I("IObj", None,
          E("E_X"),
          M("gin", P("in", "interface", "o")),
          M("gout", P("out", "interface", "o")),
          M("ginout", P("in", "interface", "oa"), P("out", "interface", "ob")),
          M("tin", P("in", "IPeer", "o")),
          M("tout", P("out", "IPeer", "o")),
          M("tmix", P("in", "IPeer", "oa"), P("in", "IObj", "me"), P("out", "IObj", "ob"),
            P("out", "IPeer", "oc"), P("in", "uint32", "x"), P("in", "interface", "g"),
            P("out", "interface", "h"), P("out", "uint32", "y")),
          M("arr_in", P("in", "IPeer", "xs", 3), P("out", "uint32", "n")),
          M("arr_out", P("out", "IPeer", "xs", 3), P("out", "uint32", "n")),
          M("arr_out_in", P("out", "IObj", "ys", 3), P("in", "IPeer", "o"), P("in", "uint16", "x")),
          M("st_in", P("in", "WObj", "w")),
          M("st_out", P("out", "WObj", "w")),
          )], ["IObj", "IPeer"]))

    # 5 -------- inheritance depth 2 over an included file, optional method in the base
    base_file = {"path": "inh_base.idl", "nodes": [
        S("Pt", ("uint32", "x"), ("uint32", "y")),
        I("IRoot", None,
          E("E_R"),
          M("r1", P("in", "uint32", "x"), P("out", "uint32", "y")),
          M("r2", P("in", "Pt", "p"), P("out", "Pt", "q"), P("in", "uint8", "z")),
          M("ropt", P("in", "uint8", "z"), optional=True),
          M("r3", P("in", "IRoot", "o"), P("out", "interface", "p")),
          ),
    ]}
    out.append(case("inh", [
        INC("inh_base.idl"),
        I("IMid", "IRoot",
          E("E_M"),
          M("m1", P("in", "IRoot", "o"), P("out", "IMid", "p")),
          M("m2", P("in", "buffer", "a"), P("out", "buffer", "b"), P("in", "Pt", "pt")),
          M("mopt", P("out", "uint32", "y"), optional=True),
          ),
    ], ["IRoot", "IMid"], extra_files=[base_file]))
    return out


def _objstruct_nodes():
    return [
        S("WObj", ("uint32", "p1", 4), ("IPeer", "o1"), ("uint64", "q"), ("uint64", "q2"),
          ("interface", "o2")),
        S("ObjInStruct", ("uint32", "p1", 4), ("IOis", "first_obj"), ("uint32", "p2", 4),
          ("IOis", "should_be_empty"), ("uint32", "p3", 4), ("IOis", "second_obj")),
        I("IPeer", None, M("ping", P("in", "uint32", "x"))),
        I("IOis", None,
          E("E_O"),
          M("st_both", P("in", "WObj", "w"), P("out", "WObj", "v")),
          M("ois", P("in", "ObjInStruct", "input"), P("out", "ObjInStruct", "output")),
          M("st_prim", P("in", "WObj", "w"), P("in", "uint32", "x")),
          M("st_buf_out", P("out", "WObj", "w"), P("out", "buffer", "b")),
          )]


def direct_cases():
    """Shapes whose generated slot layout is wrong for any counts-driven transport (upstream
    defect, see NOTES_cpp.md: objects of an object-bearing struct are placed right behind the
    struct's buffer slot, i.e. inside the buffer sections).  Stub and skeleton agree with each
    other, so they are exercised WITHOUT the transport to validate the harness code for them."""
    return [case("objs_direct", _objstruct_nodes(), ["IOis"])]


def known_cases():
    """the same shapes through the transport: expected to FAIL (only run with --known)"""
    cs, ifaces = case("objs_known", _objstruct_nodes(), ["IOis"])
    return [(cs, ifaces)]


# ------------------------------------------------------------------ plans

def plans_for(cs, ifaces, nval=3):
    """valuations 0..nval-1 from values.plan_method, then two deterministic extras:
    nval   = valuation 0 with all buffers / arrays empty (in length 0, out capacity 0)
    nval+1 = valuation 1 returning an error (first declared error of the interface, else 5)"""
    plans = {}
    for i in ifaces:
        errs = idl.flat_errors(cs, i)
        for owner, m, _ in idl.flat_methods(cs, i):
            pl = [values.plan_method(cs, i, owner, m, v, seed=7) for v in range(nval)]
            z = values.plan_method(cs, i, owner, m, 0, seed=8)
            rng = random.Random(1)
            for k, p in enumerate(m["params"]):
                if idl.param_kind(cs, p) in BUFKINDS:
                    val = values.make_value(cs, p, rng, None, k + 1, None, length=0)
                    if p["dir"] == "in":
                        z["ins"][p["name"]] = val
                    else:
                        z["outs"][p["name"]] = val
                        z["caps"][p["name"]] = 0
            z["status"] = 0
            pl.append(z)
            e = values.plan_method(cs, i, owner, m, 1, seed=9)
            e["status"] = errs[-1][2] if errs else 5
            pl.append(e)
            plans[(i, m["name"])] = pl
    return plans


# ------------------------------------------------------------------ build

class BuildError(Exception):
    pass


def sh(cmd, what, verbose):
    if verbose:
        print("   $", " ".join(cmd))
    r = subprocess.run(cmd, stdout=subprocess.PIPE, stderr=subprocess.PIPE, text=True)
    if r.returncode != 0:
        raise BuildError("%s failed (rc %d)\n$ %s\n%s%s" % (what, r.returncode, " ".join(cmd), r.stdout, r.stderr))
    return r


def driver_source(cs, ifaces, nvals, direct=False):
    L = ['#include <stdio.h>', '#include "bench.h"']
    for i in ifaces:
        L.append("extern Object make_cpp_%s(void);" % i)
        for _, m, _ in idl.flat_methods(cs, i):
            L.append("extern void call_cpp_%s_%s(Object target);" % (i, m["name"]))
    L.append(r'''
static void one(int v, const char *iface, const char *method, Object (*mk)(void), void (*call)(Object)) {
  char line[512];
  Object t;
  g_val = v;
  t = WRAP(mk());   /* the wrapper takes over the reference to the implementation */
  snprintf(line, sizeof line, "{\"ev\":\"call\",\"stub\":\"cpp\",\"skel\":\"cpp\",\"iface\":\"%s\",\"method\":\"%s\",\"val\":%d}",
           iface, method, v);
  emit(line);
  call(t);
  Object_release(t);
  counting_report();
}
int main(void) {
  int v;
  for (v = 0; v < NVALS; v++) {''')
    for i in ifaces:
        for _, m, _ in idl.flat_methods(cs, i):
            L.append('    one(v, "%s", "%s", make_cpp_%s, call_cpp_%s_%s);' % (i, m["name"], i, i, m["name"]))
    L.append("  }")
    L.append('  emit("{\\"ev\\":\\"end\\"}");')
    L.append("  return 0;")
    L.append("}")
    return "\n".join(L).replace("NVALS", str(nvals)).replace("WRAP", "" if direct else "transport_wrap") + "\n"


def build_case(cs, ifaces, plans, nvals, work, cxx, opts, direct=False):
    src = os.path.join(work, "idl")
    gen = os.path.join(work, "gen")
    os.makedirs(src)
    os.makedirs(gen)
    idl.render_case(cs, src)
    for f in cs["files"]:
        if not any(n["k"] in ("interface", "struct") for n in f.get("nodes", [])):
            continue
        stem = os.path.splitext(os.path.basename(f["path"]))[0]
        path = os.path.join(src, f["path"])
        sh([opts.idlc, path, "--cpp", "-o", os.path.join(gen, stem + ".hpp")], "idlc --cpp " + f["path"], opts.verbose)
        sh([opts.idlc, path, "--cpp", "--skel", "-o", os.path.join(gen, stem + "_invoke.hpp")],
           "idlc --cpp --skel " + f["path"], opts.verbose)
    units = gen_cpp.generate(cs, ifaces, plans)
    for name, text in units.items():
        with open(os.path.join(gen, name), "w") as fh:
            fh.write(text)
    with open(os.path.join(gen, "main.c"), "w") as fh:
        fh.write(driver_source(cs, ifaces, nvals, direct))
    san = ["-fsanitize=address,undefined", "-fno-sanitize-recover=undefined"] if opts.sanitize else []
    inc = ["-I" + HERE] + UPSTREAM_INC
    objs = []
    real = (not opts.standin) and all(os.path.exists(os.path.join(RUNTIME_DIR, f)) for f in RUNTIME_FILES)
    for f in RUNTIME_FILES:
        if real:
            path = os.path.join(RUNTIME_DIR, f)
        else:
            path = os.path.join(gen, "standin_" + f)
            with open(path, "w") as fh:
                fh.write(STANDIN[f])
        o = os.path.join(gen, f + ".o")
        sh([opts.cc, "-g"] + CFLAGS[:3] + san + inc + ["-c", path, "-o", o], "cc " + f, opts.verbose)
        objs.append(o)
    o = os.path.join(gen, "main.o")
    sh([opts.cc, "-g"] + CFLAGS + san + inc + ["-c", os.path.join(gen, "main.c"), "-o", o], "cc main.c", opts.verbose)
    objs.append(o)
    for name in units:
        if name.endswith(".cpp"):
            o = os.path.join(gen, name + ".o")
            sh([cxx, "-g"] + CXXFLAGS + san + inc + ["-I" + gen, "-c", os.path.join(gen, name), "-o", o],
               "%s %s" % (cxx, name), opts.verbose)
            objs.append(o)
    exe = os.path.join(work, "bench")
    sh([cxx] + san + objs + ["-o", exe], "link", opts.verbose)
    return exe, real


# ------------------------------------------------------------------ check

def expected_ins(plan, method, cs):
    d = {p["name"]: values.canon(plan["ins"][p["name"]]) for p in method["params"] if p["dir"] == "in"}
    d["outcap"] = {p["name"]: plan["caps"][p["name"]] for p in method["params"]
                   if p["dir"] == "out" and idl.param_kind(cs, p) in BUFKINDS}
    return d


def expected_ret(plan, method, cs):
    if plan["status"] != 0:
        return {}, {}
    outs = {p["name"]: values.canon(plan["outs"][p["name"]]) for p in method["params"] if p["dir"] == "out"}
    lens = {p["name"]: plan["outs"][p["name"]]["len"] for p in method["params"]
            if p["dir"] == "out" and idl.param_kind(cs, p) in BUFKINDS}
    return outs, lens


def in_tokens(plan):
    toks = set()
    for v in plan["ins"].values():
        toks.update(gen_cpp._tokens_of(v))
    return toks


def out_tokens(plan):
    toks = set()
    for v in plan["outs"].values():
        toks.update(gen_cpp._tokens_of(v))
    return toks


def check_run(cs, ifaces, plans, nvals, records, direct=False):
    """returns (number of checked calls, list of failure strings)"""
    fails = []
    groups = []
    for r in records:
        if r.get("ev") == "call":
            groups.append([r])
        elif r.get("ev") == "end":
            groups.append([r])
        elif groups:
            groups[-1].append(r)
    if not groups or groups[-1][0].get("ev") != "end":
        fails.append("no end record (crash?)")
    else:
        groups.pop()
    want = [(v, i, m) for v in range(nvals) for i in ifaces for _, m, _ in idl.flat_methods(cs, i)]
    if len(groups) != len(want):
        fails.append("expected %d calls, saw %d" % (len(want), len(groups)))
    for g, (v, i, m) in zip(groups, want):
        tag = "%s.%s val %d" % (i, m["name"], v)
        c = g[0]
        if (c["iface"], c["method"], c["val"]) != (i, m["name"], v):
            fails.append("%s: unexpected call record %r" % (tag, c))
            continue
        plan = plans[(i, m["name"])][v]
        impl = [r for r in g if r["ev"] == "impl"]
        ret = [r for r in g if r["ev"] == "ret"]
        refs = [r for r in g if r["ev"] == "refs"]
        env = [r for r in g if r["ev"] == "envelope"]
        if len(env) != (0 if direct else 1):
            fails.append("%s: %d envelope records" % (tag, len(env)))
        optional = bool(m.get("optional"))
        status = ERROR_INVALID if optional else plan["status"]
        # implementation side
        if optional:
            if impl:
                fails.append("%s: optional method reached an implementation" % tag)
        elif len(impl) != 1:
            fails.append("%s: %d impl records" % (tag, len(impl)))
        else:
            r = impl[0]
            if (r["lang"], r["iface"], r["method"]) != ("cpp", i, m["name"]):
                fails.append("%s: impl header %r" % (tag, r))
            exp = expected_ins(plan, m, cs)
            if r["ins"] != exp:
                fails.append("%s: impl ins\n   got  %s\n   want %s" % (tag, json.dumps(r["ins"], sort_keys=True),
                                                                      json.dumps(exp, sort_keys=True)))
        # caller side
        if len(ret) != 1:
            fails.append("%s: %d ret records" % (tag, len(ret)))
        else:
            r = ret[0]
            if (r["lang"], r["iface"], r["method"]) != ("cpp", i, m["name"]):
                fails.append("%s: ret header %r" % (tag, r))
            if r["status"] != status:
                fails.append("%s: status %r, want %r" % (tag, r["status"], status))
            eo, el = ({}, {}) if optional else expected_ret(plan, m, cs)
            if r["outs"] != eo:
                fails.append("%s: ret outs\n   got  %s\n   want %s" % (tag, json.dumps(r["outs"], sort_keys=True),
                                                                      json.dumps(eo, sort_keys=True)))
            if r["lenouts"] != el:
                fails.append("%s: ret lenouts got %r want %r" % (tag, r["lenouts"], el))
        # references
        exp_tokens = set(in_tokens(plan))
        if status == 0 and not optional:
            exp_tokens |= out_tokens(plan)
        seen = sorted(r["token"] for r in refs)
        if seen != sorted(exp_tokens):
            fails.append("%s: refs for tokens %r, want %r" % (tag, seen, sorted(exp_tokens)))
        for r in refs:
            if r["count"] != 0:
                fails.append("%s: token %d ends with count %d (retains %d releases %d)"
                             % (tag, r["token"], r["count"], r["retains"], r["releases"]))
    return len(groups), fails


def run_case(cs, ifaces, cxx, opts, direct=False):
    nval = 3
    plans = plans_for(cs, ifaces, nval)
    nvals = nval + 2
    work = tempfile.mkdtemp(prefix="selftest_cpp_%s_" % cs["id"])
    try:
        try:
            exe, real = build_case(cs, ifaces, plans, nvals, work, cxx, opts, direct)
        except BuildError as e:
            return 0, ["BUILD: " + str(e)], None
        env = dict(os.environ)
        env["ASAN_OPTIONS"] = "detect_leaks=1"
        r = subprocess.run([exe], stdout=subprocess.PIPE, stderr=subprocess.PIPE, text=True, timeout=120, env=env)
        records = []
        fails = []
        for ln in r.stdout.splitlines():
            try:
                records.append(json.loads(ln))
            except ValueError:
                fails.append("unparsable line: %r" % ln[:200])
        if r.returncode != 0:
            fails.append("exit status %d; stderr: %s" % (r.returncode, r.stderr[-2000:]))
        if opts.verbose > 1:
            sys.stdout.write(r.stdout)
        n, f = check_run(cs, ifaces, plans, nvals, records, direct)
        return n, fails + f, real
    finally:
        if opts.keep:
            print("   kept", work)
        else:
            shutil.rmtree(work, ignore_errors=True)


def main():
    ap = argparse.ArgumentParser(description=__doc__, formatter_class=argparse.RawDescriptionHelpFormatter)
    ap.add_argument("--cxx", action="append", help="C++ compiler(s); default: g++ and clang++ when installed")
    ap.add_argument("--cc", default="gcc")
    ap.add_argument("--idlc", default=os.environ.get("IDLC", IDLC_DEFAULT))
    ap.add_argument("--standin", action="store_true", help="use the embedded stand-in runtime")
    ap.add_argument("--sanitize", action="store_true", help="build with ASan + UBSan")
    ap.add_argument("--keep", action="store_true", help="keep the work directories")
    ap.add_argument("--only", action="append", help="run only this case id")
    ap.add_argument("--known", action="store_true",
                    help="also run the known-upstream-defect shapes through the transport (expected to fail; "
                         "does not influence the exit status)")
    ap.add_argument("-v", "--verbose", action="count", default=0)
    opts = ap.parse_args()
    cxxs = opts.cxx or [c for c in ("g++", "clang++") if shutil.which(c)]
    if not os.path.exists(opts.idlc):
        print("idlc not found at", opts.idlc)
        return 2
    bad = 0
    total = 0
    runs = [(c, i, False, False) for c, i in all_cases()] + [(c, i, True, False) for c, i in direct_cases()]
    if opts.known:
        runs += [(c, i, False, True) for c, i in known_cases()]
    for cxx in cxxs:
        for cs, ifaces, direct, known in runs:
            if opts.only and cs["id"] not in opts.only:
                continue
            n, fails, real = run_case(cs, ifaces, cxx, opts, direct)
            total += n
            rt = {True: "real runtime", False: "stand-in runtime", None: "-"}[real]
            if direct:
                rt += ", NO transport"
            nm = sum(len(idl.flat_methods(cs, i)) for i in ifaces)
            if known:
                verdict = "known-defect (fails as expected)" if fails else "known-defect UNEXPECTEDLY PASSED"
            else:
                verdict = "FAIL" if fails else "ok"
            print("%-8s %-12s %s  (%d methods, %d calls checked, %s)" % (cxx, cs["id"], verdict, nm, n, rt))
            shown = fails[:40] if (not known or opts.verbose) else fails[:3]
            for f in shown:
                print("   - " + f[:3000])
            if len(fails) > len(shown):
                print("   ... %d more" % (len(fails) - len(shown)))
            if not known:
                bad += 1 if fails else 0
    print("selftest_cpp: %d calls checked, %d failing case run(s)" % (total, bad))
    return 1 if bad else 0


if __name__ == "__main__":
    sys.exit(main())
