"""C backend of the E2 bench (see SPEC.md): generates `bench_c.c`, one translation unit that
includes the generated C stub header(s) `<stem>.h` and skeleton header(s) `<stem>_invoke.h`
as they are and defines, for every selected interface I and every flattened method m:

    void   call_c_<I>_<m>(Object target)   caller  (prints the `ret` record)
    Object make_c_<I>(void)                implementation behind I_DEFINE_INVOKE
                                           (each method prints the `impl` record)

generate(case, ifaces, plans, typed=True) -> {filename: source}
  plans[(iface_name, method_name)] = [plan for valuation 0, 1, ...]  (values.plan_method)

C object types are all `typedef Object <I>`, so the source is almost identical for typed and
`--no-typed-objects` headers; the one difference: untyped stubs declare input object arrays
as `Object (*x_ptr)[n]` (typed: `const I (*x_ptr)[n]`), so the caller's array is only const
when typed.  The skeleton passes `const Object x[n]` in both modes.
"""
import os
from . import idl

CTYPE = {
    "uint8": "uint8_t", "uint16": "uint16_t", "uint32": "uint32_t", "uint64": "uint64_t",
    "int8": "int8_t", "int16": "int16_t", "int32": "int32_t", "int64": "int64_t",
    "float32": "float", "float64": "double",
}

PRELUDE = r'''
#include <stdio.h>
#include <stdlib.h>
#include <string.h>
#include <stdarg.h>
#include <stdint.h>
#include <stddef.h>
#include "bench.h"

#define ZZ_UNUSED __attribute__((unused))

typedef struct { char *p; size_t n, cap; } zz_sb;

ZZ_UNUSED static void zz_need(zz_sb *s, size_t extra) {
  if (s->n + extra + 1 > s->cap) {
    size_t c = s->cap ? s->cap : 256;
    while (s->n + extra + 1 > c) c *= 2;
    s->p = (char *)realloc(s->p, c);
    if (!s->p) abort();
    s->cap = c;
  }
}
ZZ_UNUSED static void zz_init(zz_sb *s) { s->p = NULL; s->n = 0; s->cap = 0; zz_need(s, 0); s->p[0] = 0; }
ZZ_UNUSED static void zz_free(zz_sb *s) { free(s->p); s->p = NULL; s->n = s->cap = 0; }
ZZ_UNUSED static void zz_puts(zz_sb *s, const char *t) {
  size_t l = strlen(t);
  zz_need(s, l);
  memcpy(s->p + s->n, t, l + 1);
  s->n += l;
}
ZZ_UNUSED static void zz_num(zz_sb *s, long long v) {
  char tmp[32];
  snprintf(tmp, sizeof tmp, "%lld", v);
  zz_puts(s, tmp);
}
ZZ_UNUSED static void zz_unum(zz_sb *s, size_t v) {
  char tmp[32];
  snprintf(tmp, sizeof tmp, "%zu", v);
  zz_puts(s, tmp);
}
/* raw hex digits (no quotes) */
ZZ_UNUSED static void zz_hexraw(zz_sb *s, const void *p, size_t n) {
  static const char d[] = "0123456789abcdef";
  const unsigned char *b = (const unsigned char *)p;
  size_t i;
  zz_need(s, 2 * n);
  for (i = 0; i < n; i++) {
    s->p[s->n++] = d[b[i] >> 4];
    s->p[s->n++] = d[b[i] & 15];
  }
  s->p[s->n] = 0;
}
/* "hex" */
ZZ_UNUSED static void zz_hex(zz_sb *s, const void *p, size_t n) {
  zz_puts(s, "\"");
  zz_hexraw(s, p, n);
  zz_puts(s, "\"");
}
/* "t<n>" | "null" | "?<ptr>" */
ZZ_UNUSED static void zz_obj(zz_sb *s, Object o) {
  zz_puts(s, "\"");
  zz_puts(s, obj_text(o));
  zz_puts(s, "\"");
}
ZZ_UNUSED static void zz_release_if(Object o) {
  if (!Object_isNull(o)) (void)Object_release(o);
}
'''


# ------------------------------------------------------------------ small helpers

def cbytes(hexstr):
    """C string literal holding exactly the bytes of hexstr (plus the implicit NUL)."""
    return '"' + "".join("\\x" + hexstr[i:i + 2] for i in range(0, len(hexstr), 2)) + '"'


def cstr(s):
    """C string literal for text s (JSON fragments: only quote/backslash need care)."""
    return '"' + s.replace("\\", "\\\\").replace('"', '\\"') + '"'


def jkey(name):
    """JSON object key fragment  "name":  as C string literal text"""
    return '"%s":' % name


def file_of_iface(case):
    out = {}
    for f, n in idl.all_nodes(case):
        if n["k"] == "interface":
            out.setdefault(n["name"], f["path"])
    return out


def stem_of(path):
    return os.path.splitext(os.path.basename(path))[0]


def ctype_of(case, t):
    if t in CTYPE:
        return CTYPE[t]
    if t == "buffer":
        return "uint8_t"
    return t  # struct name


def elem_info(case, p):
    """(C element type, element size, is_struct) of a buffer-like parameter"""
    t = p["type"]
    if t == "buffer":
        return "uint8_t", 1, False
    if t in idl.PRIMS:
        return CTYPE[t], idl.PRIMS[t], False
    return t, idl.type_size(case, t), True


def leaf_list(case, sname):
    """[(C path 'a.b[1]', leaf type)]"""
    return [(".".join(path), lt) for path, lt in idl.leaves(case, sname)]


class W:
    """indenting line writer"""

    def __init__(self):
        self.lines = []
        self.ind = 0

    def __call__(self, s=""):
        self.lines.append(("  " * self.ind + s) if s else "")

    def text(self):
        return "\n".join(self.lines) + "\n"


# ------------------------------------------------------------------ signatures

def impl_params(case, m):
    """C parameter list (after ctx) of the implementation function, declaration order.
    Returns [(decl text, ...)] flat list of declarations."""
    out = []
    for p in m["params"]:
        kind = idl.param_kind(case, p)
        n = p["name"]
        isin = p["dir"] == "in"
        if kind == "prim":
            ct = CTYPE[p["type"]]
            out.append(f"{ct} {n}_val" if isin else f"{ct} *{n}_ptr")
        elif kind in ("buffer", "primarr", "structarr"):
            ct = "void" if kind == "buffer" else ctype_of(case, p["type"])
            if isin:
                out += [f"const {ct} *{n}_ptr", f"size_t {n}_len"]
            else:
                out += [f"{ct} *{n}_ptr", f"size_t {n}_len", f"size_t *{n}_lenout"]
        elif kind in ("small", "big"):
            out.append(f"const {p['type']} *{n}_ptr" if isin else f"{p['type']} *{n}_ptr")
        elif kind == "obj":
            out.append(f"Object {n}_val" if isin else f"Object *{n}_ptr")
        elif kind == "objarr":
            k = int(p["arr"])
            out.append(f"const Object (*{n}_ptr)[{k}]" if isin else f"Object (*{n}_ptr)[{k}]")
        else:
            raise ValueError(kind)
    return out


# ------------------------------------------------------------------ printing code

def emit_struct_leaves(w, case, sname, base, sb="&zz"):
    """append '[leaf,leaf,...]' for struct lvalue expression `base` (e.g. '(*x_ptr)')"""
    w(f'zz_puts({sb}, "[");')
    for i, (path, lt) in enumerate(leaf_list(case, sname)):
        if i:
            w(f'zz_puts({sb}, ",");')
        if lt == "object":
            w(f"zz_obj({sb}, {base}.{path});")
        else:
            w(f"zz_hex({sb}, &{base}.{path}, {idl.PRIMS[lt]});")
    w(f'zz_puts({sb}, "]");')


def emit_buf(w, case, p, ptr, nelem, sb="&zz"):
    """append {"len":n,"hex":"..."} for buffer-like parameter p; ptr/nelem are C expressions"""
    ct, es, is_struct = elem_info(case, p)
    w(f'zz_puts({sb}, "{{\\"len\\":"); zz_unum({sb}, {nelem}); zz_puts({sb}, ",\\"hex\\":\\"");')
    if not is_struct:
        w(f"zz_hexraw({sb}, {ptr}, ({nelem}) * {es});")
    else:
        w(f"for (size_t zz_j = 0; zz_j < ({nelem}); zz_j++) {{")
        w.ind += 1
        for path, lt in leaf_list(case, p["type"]):
            w(f"zz_hexraw({sb}, &({ptr})[zz_j].{path}, {idl.PRIMS[lt]});")
        w.ind -= 1
        w("}")
    w(f'zz_puts({sb}, "\\"}}");')


def emit_objarr(w, n, expr_of, sb="&zz"):
    w(f'zz_puts({sb}, "[");')
    for j in range(n):
        if j:
            w(f'zz_puts({sb}, ",");')
        w(f"zz_obj({sb}, {expr_of(j)});")
    w(f'zz_puts({sb}, "]");')


# ------------------------------------------------------------------ implementation side

def gen_impl_method(w, case, iface, m, plan_list):
    name = m["name"]
    params = impl_params(case, m)
    sig = ", ".join([f"zz_ctx_{iface} *zz_me"] + params)
    # the skeleton macro re-declares optional methods `__attribute__((weak))`: a user who provides
    # one has to give it external linkage (a weak declaration cannot follow a static definition)
    linkage = "" if m.get("optional") else "static "
    if not linkage:
        w(f"int32_t impl_c_{iface}_{name}({sig});")
    w(f"{linkage}int32_t impl_c_{iface}_{name}({sig})")
    w("{")
    w.ind += 1
    w("zz_sb zz;")
    w("zz_init(&zz);")
    head = '{"ev":"impl","lang":"c","iface":"%s","method":"%s","ins":{' % (iface, name)
    w(f"zz_puts(&zz, {cstr(head)});")
    for p in m["params"]:
        if p["dir"] != "in":
            continue
        n = p["name"]
        kind = idl.param_kind(case, p)
        w(f"zz_puts(&zz, {cstr(jkey(n))});")
        if kind == "prim":
            w(f"zz_hex(&zz, &{n}_val, {idl.PRIMS[p['type']]});")
        elif kind in ("buffer", "primarr", "structarr"):
            if kind == "buffer":
                emit_buf(w, case, p, f"(const uint8_t *){n}_ptr", f"{n}_len")
            else:
                emit_buf(w, case, p, f"{n}_ptr", f"{n}_len")
        elif kind in ("small", "big"):
            emit_struct_leaves(w, case, p["type"], f"(*{n}_ptr)")
        elif kind == "obj":
            w(f"zz_obj(&zz, {n}_val);")
        elif kind == "objarr":
            emit_objarr(w, int(p["arr"]), lambda j, n=n: f"(*{n}_ptr)[{j}]")
        w('zz_puts(&zz, ",");')
    w('zz_puts(&zz, "\\"outcap\\":{");')
    first = True
    for p in m["params"]:
        if p["dir"] == "out" and idl.param_kind(case, p) in ("buffer", "primarr", "structarr"):
            if not first:
                w('zz_puts(&zz, ",");')
            first = False
            w(f"zz_puts(&zz, {cstr(jkey(p['name']))}); zz_unum(&zz, {p['name']}_len);")
    w('zz_puts(&zz, "}}}");')
    w("emit(zz.p);")
    w("zz_free(&zz);")
    w("(void)zz_me;")
    w("switch (g_val) {")
    for v, plan in enumerate(plan_list):
        w(f"case {v}: {{")
        w.ind += 1
        if plan["status"] != 0:
            # an implementation may have filled output slots before it finds that it has to fail:
            # objects it put there are its own (borrowed by nobody) and must not be touched
            for j_, p in enumerate(m["params"]):
                if p["dir"] == "out" and idl.param_kind(case, p) == "obj":
                    w(f"*{p['name']}_ptr = counting_lend({700 + j_});")
            w(f"return {plan['status']};")
        else:
            for p in m["params"]:
                if p["dir"] != "out":
                    continue
                gen_impl_write(w, case, p, plan["outs"][p["name"]])
            w("return Object_OK;")
        w.ind -= 1
        w("}")
    w("default:")
    w("  return Object_ERROR_UNAVAIL;")
    w("}")
    w.ind -= 1
    w("}")
    w()


def gen_impl_write(w, case, p, val):
    n = p["name"]
    kind = idl.param_kind(case, p)
    if kind == "prim":
        w(f"memcpy({n}_ptr, {cbytes(val['hex'])}, {idl.PRIMS[p['type']]});")
    elif kind in ("buffer", "primarr", "structarr"):
        ct, es, is_struct = elem_info(case, p)
        ln = val["len"]
        w("{")
        w.ind += 1
        if ln:
            w(f"size_t zz_n = (size_t){ln} <= {n}_len ? (size_t){ln} : {n}_len;")
        else:
            w("size_t zz_n = 0;")
        if not is_struct:
            if ln:
                w(f"if (zz_n) memcpy({n}_ptr, {cbytes(val['hex'])}, zz_n * {es});")
        else:
            lv = leaf_list(case, p["type"])
            hx = val["hex"]
            pos = 0
            for j in range(ln):
                w(f"if ((size_t){j} < zz_n) {{")
                w.ind += 1
                for path, lt in lv:
                    sz = idl.PRIMS[lt]
                    w(f"memcpy(&{n}_ptr[{j}].{path}, {cbytes(hx[pos:pos + 2 * sz])}, {sz});")
                    pos += 2 * sz
                w.ind -= 1
                w("}")
        w(f"*{n}_lenout = zz_n;")
        w.ind -= 1
        w("}")
    elif kind in ("small", "big"):
        for leaf in val["leaves"]:
            if leaf["type"] == "object":
                w(f"{n}_ptr->{leaf['path']} = {obj_new(leaf['obj'])};")
            else:
                w(f"memcpy(&{n}_ptr->{leaf['path']}, {cbytes(leaf['hex'])}, {idl.PRIMS[leaf['type']]});")
    elif kind == "obj":
        # the usual idiom for filling an output slot (tests/c/object.h): replace what the slot
        # holds, then give up the reference the implementation got from the constructor
        w("{")
        w(f"  Object zz_new = {obj_new(val['obj'])};")
        w(f"  Object_ASSIGN(*{n}_ptr, zz_new);")
        w("  if (!Object_isNull(zz_new)) { Object_release(zz_new); }")
        w("}")
    elif kind == "objarr":
        for j, t in enumerate(val["objs"]):
            w(f"(*{n}_ptr)[{j}] = {obj_new(t)};")
    else:
        raise ValueError(kind)


def obj_new(tok):
    return "Object_NULL" if tok is None else f"counting_new({tok})"


def gen_impl(w, case, iface, flat, plans):
    w(f"/* ---------------- implementation of {iface} ---------------- */")
    w(f"typedef struct {{ long refs; }} zz_ctx_{iface};")
    w()
    w(f"static int32_t impl_c_{iface}_release(zz_ctx_{iface} *zz_me)")
    w("{")
    w("  if (--zz_me->refs == 0) free(zz_me);")
    w("  return Object_OK;")
    w("}")
    w(f"static int32_t impl_c_{iface}_retain(zz_ctx_{iface} *zz_me)")
    w("{")
    w("  zz_me->refs++;")
    w("  return Object_OK;")
    w("}")
    w()
    for owner, m, op in flat:
        if m.get("optional") and not m.get("implemented"):
            w(f"/* optional method {m['name']} (op {op}) intentionally left undefined */")
            w()
            continue
        gen_impl_method(w, case, iface, m, plans[(iface, m["name"])])
    w(f"static {iface}_DEFINE_INVOKE(zz_invoke_c_{iface}, impl_c_{iface}_, zz_ctx_{iface} *)")
    w()
    w(f"Object make_c_{iface}(void)")
    w("{")
    w(f"  zz_ctx_{iface} *c = (zz_ctx_{iface} *)malloc(sizeof *c);")
    w("  Object o;")
    w("  if (!c) abort();")
    w("  c->refs = 1;")
    w(f"  o.invoke = zz_invoke_c_{iface};")
    w("  o.context = c;")
    w("  return o;")
    w("}")
    w()


# ------------------------------------------------------------------ caller side

def tok_var(t):
    return "Object_NULL" if t is None else f"zz_t{t}"


def plan_in_tokens(plan):
    """distinct input tokens of a plan in first-use order (do not rely on tokens_in only)"""
    seen = []

    def add(t):
        if t is not None and t not in seen:
            seen.append(t)

    for v in plan["ins"].values():
        k = v["k"]
        if k == "obj":
            add(v["obj"])
        elif k == "objarr":
            for t in v["objs"]:
                add(t)
        elif k == "struct":
            for leaf in v["leaves"]:
                if leaf["type"] == "object":
                    add(leaf["obj"])
    return seen


def gen_caller_case(w, case, iface, m, plan, typed=True):
    name = m["name"]
    toks = plan_in_tokens(plan)
    for t in toks:
        w(f"Object zz_t{t} = counting_new({t});")
    args = ["target"]
    for p in m["params"]:
        n = p["name"]
        kind = idl.param_kind(case, p)
        if p["dir"] == "in":
            v = plan["ins"][n]
            if kind == "prim":
                ct = CTYPE[p["type"]]
                w(f"{ct} in_{n}; memcpy(&in_{n}, {cbytes(v['hex'])}, {idl.PRIMS[p['type']]});")
                args.append(f"in_{n}")
            elif kind in ("buffer", "primarr", "structarr"):
                ct, es, is_struct = elem_info(case, p)
                ln = v["len"]
                w(f"{ct} in_{n}[{max(1, ln)}]; memset(in_{n}, 0, sizeof in_{n});")
                if not is_struct:
                    if ln:
                        w(f"memcpy(in_{n}, {cbytes(v['hex'])}, {ln * es});")
                else:
                    lv = leaf_list(case, p["type"])
                    pos = 0
                    for j in range(ln):
                        for path, lt in lv:
                            sz = idl.PRIMS[lt]
                            w(f"memcpy(&in_{n}[{j}].{path}, {cbytes(v['hex'][pos:pos + 2 * sz])}, {sz});")
                            pos += 2 * sz
                args += [f"in_{n}", f"{ln}"]
            elif kind in ("small", "big"):
                w(f"{p['type']} in_{n}; memset(&in_{n}, 0, sizeof in_{n});")
                for leaf in v["leaves"]:
                    if leaf["type"] == "object":
                        w(f"in_{n}.{leaf['path']} = {tok_var(leaf['obj'])};")
                    else:
                        w(f"memcpy(&in_{n}.{leaf['path']}, {cbytes(leaf['hex'])}, {idl.PRIMS[leaf['type']]});")
                args.append(f"&in_{n}")
            elif kind == "obj":
                w(f"Object in_{n} = {tok_var(v['obj'])};")
                args.append(f"in_{n}")
            elif kind == "objarr":
                init = ", ".join(tok_var(t) for t in v["objs"])
                # --no-typed-objects stubs take `Object (*)[n]` (no const), typed ones `const I (*)[n]`
                cq = "const " if typed else ""
                w(f"{cq}Object in_{n}[{int(p['arr'])}] = {{ {init} }};")
                args.append(f"&in_{n}")
        else:
            if kind == "prim":
                ct = CTYPE[p["type"]]
                w(f"{ct} out_{n}; memset(&out_{n}, 0, sizeof out_{n});")
                args.append(f"&out_{n}")
            elif kind in ("buffer", "primarr", "structarr"):
                ct, es, is_struct = elem_info(case, p)
                cap = plan["caps"][n]
                w(f"{ct} out_{n}[{max(1, cap)}]; memset(out_{n}, 0, sizeof out_{n}); size_t out_{n}_lenout = 0;")
                args += [f"out_{n}", f"{cap}", f"&out_{n}_lenout"]
            elif kind in ("small", "big"):
                w(f"{p['type']} out_{n}; memset(&out_{n}, 0, sizeof out_{n});")
                args.append(f"&out_{n}")
            elif kind == "obj":
                w(f"Object out_{n} = Object_NULL;")
                args.append(f"&out_{n}")
            elif kind == "objarr":
                w(f"Object out_{n}[{int(p['arr'])}]; memset(out_{n}, 0, sizeof out_{n});")
                args.append(f"&out_{n}")
    w(f"int32_t zz_st = {iface}_{name}({', '.join(args)});")
    head = '{"ev":"ret","lang":"c","iface":"%s","method":"%s","status":' % (iface, name)
    w(f"zz_puts(&zz, {cstr(head)}); zz_num(&zz, zz_st);")
    outs = [p for p in m["params"] if p["dir"] == "out"]
    w("if (zz_st == Object_OK) {")
    w.ind += 1
    w('zz_puts(&zz, ",\\"outs\\":{");')
    for i, p in enumerate(outs):
        n = p["name"]
        kind = idl.param_kind(case, p)
        w(f"zz_puts(&zz, {cstr((',' if i else '') + jkey(n))});")
        if kind == "prim":
            w(f"zz_hex(&zz, &out_{n}, {idl.PRIMS[p['type']]});")
        elif kind in ("buffer", "primarr", "structarr"):
            cap = plan["caps"][n]
            w(f"{{ size_t zz_n = out_{n}_lenout <= (size_t){cap} ? out_{n}_lenout : (size_t){cap};")
            w.ind += 1
            w('zz_puts(&zz, "{\\"len\\":"); zz_unum(&zz, out_%s_lenout); zz_puts(&zz, ",\\"hex\\":\\"");' % n)
            ct, es, is_struct = elem_info(case, p)
            if not is_struct:
                w(f"zz_hexraw(&zz, out_{n}, zz_n * {es});")
            else:
                w("for (size_t zz_j = 0; zz_j < zz_n; zz_j++) {")
                for path, lt in leaf_list(case, p["type"]):
                    w(f"  zz_hexraw(&zz, &out_{n}[zz_j].{path}, {idl.PRIMS[lt]});")
                w("}")
            w('zz_puts(&zz, "\\"}"); }')
            w.ind -= 1
        elif kind in ("small", "big"):
            emit_struct_leaves(w, case, p["type"], f"out_{n}")
        elif kind == "obj":
            w(f"zz_obj(&zz, out_{n});")
        elif kind == "objarr":
            emit_objarr(w, int(p["arr"]), lambda j, n=n: f"out_{n}[{j}]")
    w('zz_puts(&zz, "},\\"lenouts\\":{");')
    first = True
    for p in outs:
        if idl.param_kind(case, p) in ("buffer", "primarr", "structarr"):
            w(f"zz_puts(&zz, {cstr(('' if first else ',') + jkey(p['name']))}); zz_unum(&zz, out_{p['name']}_lenout);")
            first = False
    w('zz_puts(&zz, "}}");')
    w.ind -= 1
    w("} else {")
    w('  zz_puts(&zz, ",\\"outs\\":{},\\"lenouts\\":{}}");')
    w("}")
    w("emit(zz.p);")
    # drop what the caller holds: received outputs (only on success), then its own inputs
    rel = []
    for p in outs:
        n = p["name"]
        kind = idl.param_kind(case, p)
        if kind == "obj":
            rel.append(f"zz_release_if(out_{n});")
        elif kind == "objarr":
            for j in range(int(p["arr"])):
                rel.append(f"zz_release_if(out_{n}[{j}]);")
        elif kind in ("small", "big"):
            for path, lt in leaf_list(case, p["type"]):
                if lt == "object":
                    rel.append(f"zz_release_if(out_{n}.{path});")
    if rel:
        w("if (zz_st == Object_OK) {")
        for r in rel:
            w("  " + r)
        w("}")
    for t in toks:
        w(f"(void)Object_release(zz_t{t});")


def gen_caller(w, case, iface, m, plan_list, typed=True):
    name = m["name"]
    w(f"void call_c_{iface}_{name}(Object target)")
    w("{")
    w.ind += 1
    w("zz_sb zz;")
    w("zz_init(&zz);")
    w("switch (g_val) {")
    for v, plan in enumerate(plan_list):
        w(f"case {v}: {{")
        w.ind += 1
        gen_caller_case(w, case, iface, m, plan, typed)
        w("break;")
        w.ind -= 1
        w("}")
    w("default:")
    msg = '{"ev":"error","lang":"c","what":"no such valuation","iface":"%s","method":"%s"}' % (iface, name)
    w(f"  (void)target; emit({cstr(msg)});")
    w("  break;")
    w("}")
    w("zz_free(&zz);")
    w.ind -= 1
    w("}")
    w()


# ------------------------------------------------------------------ entry point

def generate(case, ifaces, plans, typed=True):
    w = W()
    w("/* generated by bench/gen_c.py -- do not edit */")
    where = file_of_iface(case)
    stems = []
    for i in ifaces:
        # the generated tree mirrors the IDL tree: a file in a sub-directory is included by its
        # relative path (no flat forwarding header that could stand in for a wrongly named include)
        s = os.path.splitext(os.path.normpath(where[i]))[0]
        if s not in stems:
            stems.append(s)
    w(PRELUDE)
    for s in stems:
        w(f'#include "{s}.h"')
    for s in stems:
        w(f'#include "{s}_invoke.h"')
    w()
    # prototypes of the exported functions (keeps -Wmissing-prototypes style checks quiet)
    for i in ifaces:
        w(f"Object make_c_{i}(void);")
        for owner, m, op in idl.flat_methods(case, i):
            w(f"void call_c_{i}_{m['name']}(Object target);")
    w()
    for i in ifaces:
        flat = idl.flat_methods(case, i)
        gen_impl(w, case, i, flat, plans)
        w(f"/* ---------------- callers of {i} ---------------- */")
        for owner, m, op in flat:
            gen_caller(w, case, i, m, plans[(i, m["name"])], typed)
    return {"bench_c.c": w.text()}
