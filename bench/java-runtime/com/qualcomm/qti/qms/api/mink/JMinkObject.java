// Minimal stand-in: base class of the generated `I.MinkObject` skeletons.
// The generated code uses: super() (no-arg), super.retain(), super.release(), mRefs.get(),
// and overrides isNull(); `invoke` is supplied by the generated subclass.
package com.qualcomm.qti.qms.api.mink;

import java.util.concurrent.atomic.AtomicInteger;

public abstract class JMinkObject implements IMinkObject {
    protected final AtomicInteger mRefs = new AtomicInteger(1);

    public JMinkObject() {
    }

    @Override
    public void retain() {
        mRefs.incrementAndGet();
    }

    @Override
    public void release() {
        mRefs.decrementAndGet();
    }

    @Override
    public boolean isNull() {
        return false;
    }
}
