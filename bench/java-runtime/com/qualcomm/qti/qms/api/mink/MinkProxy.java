// Minimal stand-in: base class of the generated `I.Proxy` stubs.
// The generated code uses: super(IMinkObject) and the protected field `minkObject`.
package com.qualcomm.qti.qms.api.mink;

public class MinkProxy {
    protected IMinkObject minkObject;

    public MinkProxy(IMinkObject o) {
        minkObject = o;
    }
}
