// Harness-owned counting object: carries a token, counts retain/release, refuses every invoke.
package verifbench;

import com.qualcomm.qti.qms.api.mink.IMinkObject;

public final class CountingObject implements IMinkObject {
    public final int token;
    private int retains;
    private int releases;
    private int invokes;

    public CountingObject(int token) {
        this.token = token;
    }

    @Override
    public void invoke(int methodID, byte[][] bi, int[] boSizes, byte[][] bo, IMinkObject[] oi, IMinkObject[] oo)
            throws InvokeException {
        invokes++;
        throw new InvokeException(IMinkObject.ERROR_INVALID);
    }

    @Override
    public synchronized void retain() {
        retains++;
    }

    @Override
    public synchronized void release() {
        releases++;
    }

    @Override
    public boolean isNull() {
        return false;
    }

    public synchronized int retains() { return retains; }
    public synchronized int releases() { return releases; }
    /** 1 (creation reference) + retains - releases */
    public synchronized int count() { return 1 + retains - releases; }

    public synchronized String refsRecord() {
        return B.obj("ev", B.q("refs"), "token", Integer.toString(token), "retains", Integer.toString(retains),
                "releases", Integer.toString(releases), "count", Integer.toString(count()),
                "invokes", Integer.toString(invokes));
    }

    @Override
    public String toString() {
        return "t" + token;
    }
}
