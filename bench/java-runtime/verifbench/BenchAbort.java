// Thrown by RecordingObject after it has already printed an `exception` record for a Throwable
// that escaped the skeleton side; the per-call driver swallows it (nothing more to report).
package verifbench;

public final class BenchAbort extends RuntimeException {
    private static final long serialVersionUID = 1L;

    public BenchAbort(Throwable cause) {
        super(cause);
    }
}
