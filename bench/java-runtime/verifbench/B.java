// Bench E3 helpers: record emission, canonical text (little-endian byte images), object registry.
package verifbench;

import com.qualcomm.qti.qms.api.mink.IMinkObject;

import java.io.PrintStream;
import java.util.ArrayList;
import java.util.LinkedHashMap;
import java.util.List;
import java.util.Map;

public final class B {
    private B() {
    }

    private static final PrintStream OUT = new PrintStream(new java.io.FileOutputStream(java.io.FileDescriptor.out), false);
    private static final char[] HEX = "0123456789abcdef".toCharArray();

    /** one record = one line, flushed */
    public static synchronized void emit(String line) {
        OUT.print(line);
        OUT.print('\n');
        OUT.flush();
    }

    // ------------------------------------------------------------------ JSON bits

    public static String q(String s) {
        if (s == null) {
            return "null";
        }
        StringBuilder b = new StringBuilder(s.length() + 2);
        b.append('"');
        for (int i = 0; i < s.length(); i++) {
            char c = s.charAt(i);
            switch (c) {
                case '"': b.append("\\\""); break;
                case '\\': b.append("\\\\"); break;
                case '\n': b.append("\\n"); break;
                case '\r': b.append("\\r"); break;
                case '\t': b.append("\\t"); break;
                default:
                    if (c < 0x20 || c > 0x7e) {
                        b.append(String.format("\\u%04x", (int) c));
                    } else {
                        b.append(c);
                    }
            }
        }
        b.append('"');
        return b.toString();
    }

    /** JSON object from alternating key, already-rendered JSON value */
    public static String obj(String... kv) {
        StringBuilder b = new StringBuilder("{");
        for (int i = 0; i + 1 < kv.length; i += 2) {
            if (i > 0) {
                b.append(',');
            }
            b.append(q(kv[i])).append(':').append(kv[i + 1]);
        }
        return b.append('}').toString();
    }

    public static String list(List<String> items) {
        return "[" + String.join(",", items) + "]";
    }

    // ------------------------------------------------------------------ hex / little-endian images

    public static String hexRaw(byte[] a) {
        StringBuilder b = new StringBuilder(a.length * 2);
        for (byte x : a) {
            b.append(HEX[(x >> 4) & 15]).append(HEX[x & 15]);
        }
        return b.toString();
    }

    private static void le(StringBuilder b, long v, int n) {
        for (int i = 0; i < n; i++) {
            int x = (int) (v >>> (8 * i)) & 0xff;
            b.append(HEX[x >> 4]).append(HEX[x & 15]);
        }
    }

    private static String le(long v, int n) {
        StringBuilder b = new StringBuilder(2 * n);
        le(b, v, n);
        return b.toString();
    }

    /** canonical text of primitives: quoted hex of the little-endian byte image */
    public static String c(byte v) { return "\"" + le(v, 1) + "\""; }
    public static String c(char v) { return "\"" + le(v, 2) + "\""; }
    public static String c(short v) { return "\"" + le(v, 2) + "\""; }
    public static String c(int v) { return "\"" + le(v, 4) + "\""; }
    public static String c(long v) { return "\"" + le(v, 8) + "\""; }
    public static String c(float v) { return "\"" + le(Float.floatToRawIntBits(v), 4) + "\""; }
    public static String c(double v) { return "\"" + le(Double.doubleToRawLongBits(v), 8) + "\""; }

    private static String buf(int len, StringBuilder hex) {
        return "{\"len\":" + len + ",\"hex\":\"" + hex + "\"}";
    }

    /** canonical text of arrays: {"len": elements, "hex": bytes}; a null array prints as JSON null */
    public static String c(byte[] a) {
        if (a == null) return "null";
        return buf(a.length, new StringBuilder(hexRaw(a)));
    }
    public static String c(char[] a) {
        if (a == null) return "null";
        StringBuilder b = new StringBuilder();
        for (char x : a) le(b, x, 2);
        return buf(a.length, b);
    }
    public static String c(short[] a) {
        if (a == null) return "null";
        StringBuilder b = new StringBuilder();
        for (short x : a) le(b, x, 2);
        return buf(a.length, b);
    }
    public static String c(int[] a) {
        if (a == null) return "null";
        StringBuilder b = new StringBuilder();
        for (int x : a) le(b, x, 4);
        return buf(a.length, b);
    }
    public static String c(long[] a) {
        if (a == null) return "null";
        StringBuilder b = new StringBuilder();
        for (long x : a) le(b, x, 8);
        return buf(a.length, b);
    }
    public static String c(float[] a) {
        if (a == null) return "null";
        StringBuilder b = new StringBuilder();
        for (float x : a) le(b, Float.floatToRawIntBits(x), 4);
        return buf(a.length, b);
    }
    public static String c(double[] a) {
        if (a == null) return "null";
        StringBuilder b = new StringBuilder();
        for (double x : a) le(b, Double.doubleToRawLongBits(x), 8);
        return buf(a.length, b);
    }

    /** struct array: {"len": n, "hex": concatenation of the elements' leaf images};
     *  leaves are the per-element lists of quoted hex strings produced by the generated canon code */
    public static String structArray(List<List<String>> elems) {
        if (elems == null) return "null";
        StringBuilder b = new StringBuilder();
        for (List<String> e : elems) {
            for (String leaf : e) {
                b.append(unq(leaf));
            }
        }
        return buf(elems.size(), b);
    }

    private static String unq(String s) {
        if (s.length() >= 2 && s.charAt(0) == '"') {
            return s.substring(1, s.length() - 1);
        }
        return "<" + s + ">";
    }

    // raw-bits constructors used by the generated harness (keeps literals exact)
    public static float f32(int bits) { return Float.intBitsToFloat(bits); }
    public static double f64(long bits) { return Double.longBitsToDouble(bits); }

    public static byte[] unhex(String s) {
        byte[] r = new byte[s.length() / 2];
        for (int i = 0; i < r.length; i++) {
            r[i] = (byte) Integer.parseInt(s.substring(2 * i, 2 * i + 2), 16);
        }
        return r;
    }

    // ------------------------------------------------------------------ objects

    private static final Map<Integer, CountingObject> LIVE = new LinkedHashMap<>();

    /** the counting object of a token (created on first use; the same token gives the same object) */
    public static synchronized CountingObject tok(int token) {
        return LIVE.computeIfAbsent(token, CountingObject::new);
    }

    public static String c(IMinkObject o) {
        if (o == null) return "\"null\"";
        if (o instanceof CountingObject) return "\"t" + ((CountingObject) o).token + "\"";
        return q("?" + o.getClass().getName());
    }

    public static String c(IMinkObject[] a) {
        if (a == null) return "null";
        List<String> l = new ArrayList<>();
        for (IMinkObject o : a) l.add(c(o));
        return list(l);
    }

    /** one `refs` record per live token, then forget them */
    public static synchronized void reportRefs() {
        for (CountingObject o : LIVE.values()) {
            emit(o.refsRecord());
        }
        LIVE.clear();
    }

    // ------------------------------------------------------------------ exceptions

    /** {"ev":"exception",...}: class, message, first stack frame and first frame inside generated code */
    public static void exception(String where, Throwable t) {
        String at = null, gen = null;
        for (StackTraceElement e : t.getStackTrace()) {
            if (at == null) at = e.toString();
            if (gen == null && e.getClassName().startsWith("com.qualcomm.qti.mink.")) gen = e.toString();
        }
        emit(obj("ev", q("exception"), "where", q(where), "class", q(t.getClass().getName()),
                "message", q(t.getMessage()), "at", q(at), "gen", q(gen)));
    }

    /** does the stack of t pass through the harness implementation (verifbench.Impl_*)? */
    public static boolean fromHarnessImpl(Throwable t) {
        StackTraceElement[] st = t.getStackTrace();
        return st.length > 0 && st[0].getClassName().startsWith("verifbench.");
    }
}
