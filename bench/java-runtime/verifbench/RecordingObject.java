// Recording, copying transport between a generated `I.Proxy` and a generated `I.MinkObject`.
//
// invoke():
//   1. prints the `envelope` record of what the proxy passed,
//   2. builds fresh arrays: bi deep-copied, boSizes cloned, bo = new byte[bo.length][] (the generated
//      skeleton allocates every bo[i] itself), oi copied (same object references), oo = fresh nulls,
//   3. calls the inner object with the copies,
//   4. prints the `reply` record (status 0 or the InvokeException code, bo bytes, oo tokens),
//   5. copies bo (cloned) and oo back into the caller's arrays -- also on InvokeException -- and
//      rethrows the InvokeException.
// Any other Throwable coming out of the inner object is printed as an `exception` record
// (where = "skeleton", or "impl" when the top frame is harness code) and turned into a BenchAbort.
package verifbench;

import com.qualcomm.qti.qms.api.mink.IMinkObject;

import java.util.ArrayList;
import java.util.List;

public final class RecordingObject implements IMinkObject {
    private final IMinkObject inner;

    public RecordingObject(IMinkObject inner) {
        this.inner = inner;
    }

    private static String hexList(byte[][] a) {
        List<String> l = new ArrayList<>();
        if (a != null) {
            for (byte[] x : a) {
                l.add(x == null ? "null" : "\"" + B.hexRaw(x) + "\"");
            }
        }
        return B.list(l);
    }

    private static String objList(IMinkObject[] a) {
        List<String> l = new ArrayList<>();
        if (a != null) {
            for (IMinkObject o : a) {
                l.add(B.c(o));
            }
        }
        return B.list(l);
    }

    @Override
    public void invoke(int methodID, byte[][] bi, int[] boSizes, byte[][] bo, IMinkObject[] oi, IMinkObject[] oo)
            throws InvokeException {
        List<String> sizes = new ArrayList<>();
        if (boSizes != null) {
            for (int s : boSizes) {
                sizes.add(Integer.toString(s));
            }
        }
        List<String> nulls = new ArrayList<>();
        if (bi == null) nulls.add("\"bi\"");
        if (boSizes == null) nulls.add("\"boSizes\"");
        if (bo == null) nulls.add("\"bo\"");
        if (oi == null) nulls.add("\"oi\"");
        if (oo == null) nulls.add("\"oo\"");
        B.emit(B.obj("ev", B.q("envelope"), "op", Integer.toString(methodID),
                "bi", hexList(bi), "boSizes", B.list(sizes), "bo", Integer.toString(bo == null ? 0 : bo.length),
                "oi", objList(oi), "oo", Integer.toString(oo == null ? 0 : oo.length),
                "nullarrays", B.list(nulls)));

        byte[][] bi2 = null;
        if (bi != null) {
            bi2 = new byte[bi.length][];
            for (int i = 0; i < bi.length; i++) {
                bi2[i] = bi[i] == null ? null : bi[i].clone();
            }
        }
        int[] boSizes2 = boSizes == null ? null : boSizes.clone();
        byte[][] bo2 = bo == null ? null : new byte[bo.length][];
        IMinkObject[] oi2 = oi == null ? null : oi.clone();
        IMinkObject[] oo2 = oo == null ? null : new IMinkObject[oo.length];

        int status = 0;
        InvokeException ie = null;
        try {
            inner.invoke(methodID, bi2, boSizes2, bo2, oi2, oo2);
        } catch (InvokeException e) {
            ie = e;
            status = e.error;
        } catch (RuntimeException | Error t) {
            B.exception(B.fromHarnessImpl(t) ? "impl" : "skeleton", t);
            throw new BenchAbort(t);
        }
        B.emit(B.obj("ev", B.q("reply"), "status", Integer.toString(status), "bo", hexList(bo2), "oo", objList(oo2)));
        if (bo != null) {
            for (int i = 0; i < bo.length; i++) {
                bo[i] = bo2[i] == null ? null : bo2[i].clone();
            }
        }
        if (oo != null) {
            System.arraycopy(oo2, 0, oo, 0, oo.length);
        }
        if (ie != null) {
            throw ie;
        }
    }

    @Override
    public void retain() {
        inner.retain();
    }

    @Override
    public void release() {
        inner.release();
    }

    @Override
    public boolean isNull() {
        return inner.isNull();
    }
}
