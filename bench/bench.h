/* Shared declarations of the E2 bench runtime (transport.c, counting.c, emit.c).
 * Every generated caller / implementation unit (C, C++, Rust via extern "C") uses these. */
#ifndef VERIF_BENCH_H
#define VERIF_BENCH_H
#include <stddef.h>
#include <stdint.h>
#include "object.h"
#ifdef __cplusplus
extern "C" {
#endif

/* current valuation index, set by the driver before each call */
extern int g_val;

/* print one JSON line (a complete object, no trailing newline needed) and flush */
void emit(const char *json_line);

/* lower-case hex of n bytes into out (needs 2n+1 bytes); returns out */
char *hex_of(const void *p, size_t n, char *out);

/* counting objects: refcount starts at 1 (owned by the creator).  Never freed, so an
 * over-release is observable as a negative count. */
Object counting_new(int token);
Object counting_lend(int token);   /* owned by the lender, released in counting_report() */
/* canonical text of an object: "t<token>", "null", or "?<ptr>"; returns a pointer into a
 * small rotating static buffer (valid for the next 16 calls) */
const char *obj_text(Object o);
/* prints one {"ev":"refs",...} record per token created since the last reset, then resets */
void counting_report(void);

/* recording, copying transport (see SPEC.md section 2) */
Object transport_wrap(Object inner);

#ifdef __cplusplus
}
#endif
#endif
