/* E2 bench runtime: perturbed envelopes delivered straight to a skeleton (C04).
 * perturb_invoke builds an argument array of exactly total(k) entries of the classes the
 * counts word announces: input buffers of the given sizes filled with a pattern, zeroed output
 * buffers of the given sizes, counting objects as input objects, empty output slots.  Buffers
 * are exact-size heap blocks (so an out-of-extent access is visible to ASan / valgrind); for
 * sizes above PERTURB_MAX_ALLOC only PERTURB_MAX_ALLOC bytes are backed. */
#include <stdio.h>
#include <stdlib.h>
#include <string.h>
#include "bench.h"

#define PERTURB_MAX_ALLOC ((size_t)1 << 16)

int32_t perturb_invoke(Object obj, uint32_t op, uint32_t k, const uint64_t *sizes) {
  size_t nbi = ObjectCounts_numBI(k), nbo = ObjectCounts_numBO(k);
  size_t noi = ObjectCounts_numOI(k);
  size_t total = ObjectCounts_total(k);
  ObjectArg *args = (ObjectArg *)malloc(total ? total * sizeof(ObjectArg) : 1);
  void **blocks = (void **)calloc(total ? total : 1, sizeof(void *));
  Object *objs = (Object *)calloc(total ? total : 1, sizeof(Object));
  char line[256];
  size_t i;
  for (i = 0; i < total; i++) {
    memset(&args[i], 0, sizeof(ObjectArg));
    if (i < nbi + nbo) {
      size_t sz = (size_t)sizes[i];
      size_t backed = sz > PERTURB_MAX_ALLOC ? PERTURB_MAX_ALLOC : sz;
      blocks[i] = malloc(backed ? backed : 1);
      if (i < nbi) memset(blocks[i], 0xA5, backed ? backed : 1);
      else memset(blocks[i], 0, backed ? backed : 1);
      args[i].b.ptr = blocks[i];
      args[i].b.size = sz;
    } else if (i < nbi + nbo + noi) {
      objs[i] = counting_new(900 + (int)i);
      args[i].o = objs[i];
    }
  }
  int32_t status = obj.invoke(obj.context, op, total ? args : NULL, k);
  snprintf(line, sizeof line, "{\"ev\":\"perturb\",\"op\":%u,\"k\":%u,\"status\":%d}", op, k, status);
  emit(line);
  for (i = 0; i < total; i++) {
    if (blocks[i]) free(blocks[i]);
    if (!Object_isNull(objs[i])) (void)Object_release(objs[i]);
    /* objects a served call handed out are owned by us now: drop them */
    if (i >= nbi + nbo + noi && status == 0 && !Object_isNull(args[i].o)) (void)Object_release(args[i].o);
  }
  free(args);
  free(blocks);
  free(objs);
  return status;
}
