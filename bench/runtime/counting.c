/* E2 bench runtime: harness-owned counting objects (see bench.h, SPEC.md section 2).
 *
 * A counting object starts with count 1 (owned by its creator).  retain/release only
 * count; the object is never freed, so an over-release shows up as a negative count
 * instead of a use-after-free.  All objects stay linked from a global list so that a
 * leak checker does not report them. */
#include <stdio.h>
#include <stdlib.h>
#include "bench.h"

#define COUNTING_MAGIC 0x434f554eu /* "COUN" */

typedef struct cobj {
  uint32_t magic;
  int token;
  long retains, releases, count;
  int reported;          /* already printed by an earlier counting_report() */
  struct cobj *next;     /* global list, creation order is kept via tail pointer */
} cobj;

static cobj *g_head = NULL, *g_tail = NULL;

static int32_t counting_invoke(ObjectCxt h, ObjectOp op, ObjectArg *args, ObjectCounts k) {
  cobj *c = (cobj *)h;
  (void)args;
  (void)k;
  if (c == NULL || c->magic != COUNTING_MAGIC) return Object_ERROR_BADOBJ;
  switch (ObjectOp_methodID(op)) {
  case Object_OP_retain:
    c->retains++;
    c->count++;
    return Object_OK;
  case Object_OP_release:
    c->releases++;
    c->count--;
    return Object_OK;
  default:
    return Object_ERROR_INVALID;
  }
}

Object counting_new(int token) {
  cobj *c = (cobj *)calloc(1, sizeof *c);
  Object o;
  if (!c) abort();
  c->magic = COUNTING_MAGIC;
  c->token = token;
  c->count = 1;
  if (g_tail) g_tail->next = c; else g_head = c;
  g_tail = c;
  o.invoke = counting_invoke;
  o.context = c;
  return o;
}

/* an object the IMPLEMENTATION owns and merely shows to the caller (stored into an output slot
 * of a call that then fails): the lender drops its own reference when the call is over, in
 * counting_report(); nobody else may have touched the count */
static Object g_lent[64];
static int g_nlent = 0;

Object counting_lend(int token) {
  Object o = counting_new(token);
  if (g_nlent < 64) g_lent[g_nlent++] = o;
  return o;
}

const char *obj_text(Object o) {
  static char ring[16][40];
  static unsigned pos = 0;
  char *out = ring[pos++ & 15];
  if (o.invoke == NULL) {
    snprintf(out, sizeof ring[0], "null");
  } else if (o.invoke == counting_invoke && o.context != NULL &&
             ((cobj *)o.context)->magic == COUNTING_MAGIC) {
    snprintf(out, sizeof ring[0], "t%d", ((cobj *)o.context)->token);
  } else {
    snprintf(out, sizeof ring[0], "?0x%llx", (unsigned long long)(uintptr_t)o.context);
  }
  return out;
}

void counting_report(void) {
  char line[160];
  cobj *c;
  int i;
  for (i = 0; i < g_nlent; i++) {
    cobj *l = (cobj *)g_lent[i].context;
    l->releases++;
    l->count--;
  }
  g_nlent = 0;
  for (c = g_head; c; c = c->next) {
    if (c->reported) continue;
    snprintf(line, sizeof line,
             "{\"ev\":\"refs\",\"token\":%d,\"retains\":%ld,\"releases\":%ld,\"count\":%ld}",
             c->token, c->retains, c->releases, c->count);
    emit(line);
    c->reported = 1;
  }
}
