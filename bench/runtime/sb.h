/* tiny growable string builder shared by the runtime units (internal, not part of bench.h) */
#ifndef VERIF_BENCH_SB_H
#define VERIF_BENCH_SB_H
#include <stdio.h>
#include <stdlib.h>
#include <string.h>
#include <stdarg.h>

typedef struct { char *p; size_t n, cap; } sb_t;

static inline void sb_need(sb_t *s, size_t extra) {
  if (s->n + extra + 1 > s->cap) {
    size_t c = s->cap ? s->cap : 256;
    while (s->n + extra + 1 > c) c *= 2;
    s->p = (char *)realloc(s->p, c);
    if (!s->p) abort();
    s->cap = c;
  }
}
static inline void sb_init(sb_t *s) { s->p = NULL; s->n = 0; s->cap = 0; sb_need(s, 0); s->p[0] = 0; }
static inline void sb_free(sb_t *s) { free(s->p); s->p = NULL; s->n = s->cap = 0; }
static inline void sb_puts(sb_t *s, const char *t) {
  size_t l = strlen(t);
  sb_need(s, l);
  memcpy(s->p + s->n, t, l + 1);
  s->n += l;
}
static inline void sb_printf(sb_t *s, const char *fmt, ...) {
  char tmp[128];
  va_list ap;
  va_start(ap, fmt);
  vsnprintf(tmp, sizeof tmp, fmt, ap);
  va_end(ap);
  sb_puts(s, tmp);
}
static inline void sb_hex(sb_t *s, const void *p, size_t n) {
  static const char d[] = "0123456789abcdef";
  const unsigned char *b = (const unsigned char *)p;
  sb_need(s, 2 * n);
  for (size_t i = 0; i < n; i++) {
    s->p[s->n++] = d[b[i] >> 4];
    s->p[s->n++] = d[b[i] & 15];
  }
  s->p[s->n] = 0;
}
#endif
