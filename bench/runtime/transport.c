/* E2 bench runtime: recording, copying transport (see bench.h, SPEC.md sections 2 and 4).
 *
 * transport_wrap(inner) takes over ONE reference to `inner` and returns a new object with
 * reference count 1.  retain/release on the returned object count on the wrapper itself;
 * when that count reaches 0 the wrapper releases `inner` once and frees itself.
 *
 * Every other op is recorded and forwarded through a fresh argument array that is laid
 * out using ONLY the counts word:
 *   numBI input buffers   -> copied into exact-size heap blocks
 *   numBO output buffers  -> fresh zeroed exact-size heap blocks
 *   numOI input objects   -> passed through (same Object value)
 *   numOO output objects  -> zeroed slots
 * After the inner invoke, BO bytes + sizes and OO objects are copied back to the caller's
 * array, also when the status is an error.
 *
 * Robustness: the stub side may hand us garbage in a slot whose class (by position) is a
 * buffer (known upstream defect: object slots placed inside the buffer sections).  A buffer
 * slot with size > TRANSPORT_MAX_BUF, or with a NULL pointer and a non-zero size, is marked
 * "bad":1 in the envelope record; the call is then refused with Object_ERROR_MAXDATA
 * without invoking `inner` (a `reply` record with "refused":1 is still printed). */
#include <stdlib.h>
#include <string.h>
#include "bench.h"
#include "sb.h"

#define TRANSPORT_MAX_BUF ((size_t)64 * 1024 * 1024)

typedef struct {
  long refs;
  Object inner;
} tobj;

static int buf_is_bad(const void *ptr, size_t size) {
  return size > TRANSPORT_MAX_BUF || (ptr == NULL && size != 0);
}

static int32_t transport_invoke(ObjectCxt h, ObjectOp op, ObjectArg *args, ObjectCounts k) {
  tobj *t = (tobj *)h;
  ObjectOp mid = ObjectOp_methodID(op);

  if (mid == Object_OP_retain) {
    t->refs++;
    return Object_OK;
  }
  if (mid == Object_OP_release) {
    if (--t->refs == 0) {
      Object inner = t->inner;
      t->inner = Object_NULL;
      free(t);
      if (!Object_isNull(inner)) (void)Object_release(inner);
    }
    return Object_OK;
  }

  size_t nbi = ObjectCounts_numBI(k), nbo = ObjectCounts_numBO(k);
  size_t noi = ObjectCounts_numOI(k), noo = ObjectCounts_numOO(k);
  size_t ibi = ObjectCounts_indexBI(k), ibo = ObjectCounts_indexBO(k);
  size_t ioi = ObjectCounts_indexOI(k), ioo = ObjectCounts_indexOO(k);
  size_t total = ObjectCounts_total(k);
  size_t i;
  int bad = 0;
  int32_t status;
  sb_t sb;

  /* (1) envelope */
  sb_init(&sb);
  sb_printf(&sb, "{\"ev\":\"envelope\",\"op\":%lu,\"k\":%lu,\"slots\":[", (unsigned long)op,
            (unsigned long)k);
  for (i = 0; i < total; i++) {
    if (i) sb_puts(&sb, ",");
    if (i < ibo) {
      const void *p = args[i].bi.ptr;
      size_t sz = args[i].bi.size;
      sb_printf(&sb, "{\"c\":\"bi\",\"size\":%zu", sz);
      if (buf_is_bad(p, sz)) {
        bad = 1;
        sb_puts(&sb, ",\"bad\":1}");
      } else {
        sb_puts(&sb, ",\"hex\":\"");
        sb_hex(&sb, p, sz);
        sb_puts(&sb, "\"}");
      }
    } else if (i < ioi) {
      void *p = args[i].b.ptr;
      size_t sz = args[i].b.size;
      sb_printf(&sb, "{\"c\":\"bo\",\"size\":%zu", sz);
      if (buf_is_bad(p, sz)) {
        bad = 1;
        sb_puts(&sb, ",\"bad\":1");
      }
      sb_puts(&sb, "}");
    } else if (i < ioo) {
      sb_printf(&sb, "{\"c\":\"oi\",\"obj\":\"%s\"}", obj_text(args[i].o));
    } else {
      sb_puts(&sb, "{\"c\":\"oo\"}");
    }
  }
  sb_puts(&sb, "]}");
  emit(sb.p);
  (void)ibi;

  if (bad) {
    status = Object_ERROR_MAXDATA;
    sb.n = 0;
    sb_printf(&sb, "{\"ev\":\"reply\",\"status\":%d,\"bo\":[],\"oo\":[],\"refused\":1}", (int)status);
    emit(sb.p);
    sb_free(&sb);
    return status;
  }

  /* (2) fresh argument array of exactly total(k) entries */
  ObjectArg *na = (ObjectArg *)malloc(total ? total * sizeof(ObjectArg) : 1);
  size_t *orig = (size_t *)calloc(nbo ? nbo : 1, sizeof(size_t));
  void **blocks = (void **)calloc(nbi + nbo ? nbi + nbo : 1, sizeof(void *));
  if (!na || !orig || !blocks) abort();
  for (i = 0; i < nbi; i++) {
    size_t sz = args[ibi + i].bi.size;
    void *blk = malloc(sz ? sz : 1);
    if (!blk) abort();
    if (sz) memcpy(blk, args[ibi + i].bi.ptr, sz);
    blocks[i] = blk;
    na[ibi + i].b.ptr = blk;
    na[ibi + i].b.size = sz;
  }
  for (i = 0; i < nbo; i++) {
    size_t sz = args[ibo + i].b.size;
    void *blk = calloc(sz ? sz : 1, 1);
    if (!blk) abort();
    blocks[nbi + i] = blk;
    orig[i] = sz;
    na[ibo + i].b.ptr = blk;
    na[ibo + i].b.size = sz;
  }
  for (i = 0; i < noi; i++) na[ioi + i].o = args[ioi + i].o;
  /* an in-process call hands the skeleton the caller's own argument array: with BENCH_KEEP_OO the
   * initial content of the output object slots travels too (default: a remote transport, which
   * passes nothing the counts do not describe) */
  for (i = 0; i < noo; i++) na[ioo + i].o = getenv("BENCH_KEEP_OO") ? args[ioo + i].o : Object_NULL;

  /* (3) invoke */
  status = Object_invoke(t->inner, op, na, k);

  /* (4) reply */
  sb.n = 0;
  sb_printf(&sb, "{\"ev\":\"reply\",\"status\":%d,\"bo\":[", (int)status);
  for (i = 0; i < nbo; i++) {
    size_t sz = na[ibo + i].b.size;
    size_t shown = sz < orig[i] ? sz : orig[i];
    if (i) sb_puts(&sb, ",");
    sb_printf(&sb, "{\"size\":%zu,\"hex\":\"", sz);
    sb_hex(&sb, blocks[nbi + i], shown);
    sb_puts(&sb, "\"}");
  }
  sb_puts(&sb, "],\"oo\":[");
  for (i = 0; i < noo; i++) {
    if (i) sb_puts(&sb, ",");
    sb_printf(&sb, "\"%s\"", obj_text(na[ioo + i].o));
  }
  sb_puts(&sb, "]}");
  emit(sb.p);
  sb_free(&sb);

  /* (5) copy back, always */
  for (i = 0; i < nbo; i++) {
    size_t sz = na[ibo + i].b.size;
    size_t n = sz < orig[i] ? sz : orig[i];
    if (n) memcpy(args[ibo + i].b.ptr, blocks[nbi + i], n);
    args[ibo + i].b.size = sz;
  }
  for (i = 0; i < noo; i++) args[ioo + i].o = na[ioo + i].o;

  for (i = 0; i < nbi + nbo; i++) free(blocks[i]);
  free(blocks);
  free(orig);
  free(na);
  return status;
}

Object transport_wrap(Object inner) {
  tobj *t = (tobj *)malloc(sizeof *t);
  Object o;
  if (!t) abort();
  t->refs = 1;
  t->inner = inner;
  o.invoke = transport_invoke;
  o.context = t;
  return o;
}
