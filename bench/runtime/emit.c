/* E2 bench runtime: the single output funnel + hex helper (see bench.h, SPEC.md section 2). */
#include <stdio.h>
#include "bench.h"

int g_val = 0;

void emit(const char *json_line) {
  fputs(json_line, stdout);
  fputc('\n', stdout);
  fflush(stdout);
}

char *hex_of(const void *p, size_t n, char *out) {
  static const char d[] = "0123456789abcdef";
  const unsigned char *b = (const unsigned char *)p;
  size_t i;
  for (i = 0; i < n; i++) {
    out[2 * i] = d[b[i] >> 4];
    out[2 * i + 1] = d[b[i] & 15];
  }
  out[2 * n] = 0;
  return out;
}
