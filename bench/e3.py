"""E3 bench orchestration: the Java backend of idlc, run against itself (generated Proxy ->
recording/copying transport -> generated MinkObject -> scripted implementation).

    build(case, workdir, idlc, *, ifaces=None, valuations=3, seed=0) -> dict
        {"ok": bool, "units": [{"unit", "cmd", "rc", "stderr"}...], "classes": dir or None,
         "classpath": "rt:gen:harness" or None, "plan": {...}, "workdir": workdir}
    run(build_result, timeout=60) -> {"rc", "records", "stderr", "junk", "timeout", "last_call"}

build() never raises for a tool failure (idlc, javac): every invocation is a unit; "ok" is the
conjunction of rc == 0.  Plans come from e2.make_plans, i.e. they are identical to those of the
C-family bench for the same (case, ifaces, valuations, seed).

Layout inside workdir:
    idl/            rendered case tree
    gen/java        <Interface>.java, <file stem>.java   (idlc --java, one run per file of the case)
    rt/             classes of /verif/bench/java-runtime  (compiled once per workdir, stamp file .ok)
    classes/gen     classes of the generated sources
    src/verifbench  harness sources (gen_java.generate)
    classes/harness classes of the harness
"""
import json
import os
import shutil
import subprocess

from . import e2, gen_java, idl

HERE = os.path.dirname(os.path.abspath(__file__))
RUNTIME = os.path.join(HERE, "java-runtime")
JAVAC = "javac"
JAVA = "java"
JAVAC_FLAGS = ["-nowarn", "-encoding", "UTF-8", "-J-XX:TieredStopAtLevel=1", "-J-Xshare:auto"]
JAVA_FLAGS = ["-XX:TieredStopAtLevel=1", "-Xshare:auto", "-Xss4m"]

_run = e2._run
_write = e2._write
_stem = e2._stem
default_ifaces = e2.default_ifaces
split_calls = e2.split_calls


def _java_files(d):
    out = []
    for root, _, files in os.walk(d):
        for f in sorted(files):
            if f.endswith(".java"):
                out.append(os.path.join(root, f))
    return sorted(out)


def compile_runtime(workdir, units):
    """compile /verif/bench/java-runtime into <workdir>/rt once; returns the class dir or None"""
    rt = os.path.join(workdir, "rt")
    stamp = os.path.join(rt, ".ok")
    if os.path.exists(stamp):
        return rt
    os.makedirs(rt, exist_ok=True)
    u = _run("javac runtime", [JAVAC] + JAVAC_FLAGS + ["-d", rt] + _java_files(RUNTIME))
    units.append(u)
    if u["rc"] != 0:
        return None
    with open(stamp, "w") as fh:
        fh.write("ok\n")
    return rt


def build(case, workdir, idlc, *, ifaces=None, valuations=3, seed=0):
    workdir = os.path.abspath(workdir)
    units = []
    if ifaces is None:
        ifaces = default_ifaces(case)
    ifaces = list(ifaces)
    idl_root = os.path.join(workdir, "idl")
    gdir = os.path.join(workdir, "gen", "java")
    src = os.path.join(workdir, "src")
    cgen = os.path.join(workdir, "classes", "gen")
    char = os.path.join(workdir, "classes", "harness")
    for d in (idl_root, gdir, src, cgen, char):      # a workdir may be reused: only rt/ survives
        shutil.rmtree(d, ignore_errors=True)
        os.makedirs(d, exist_ok=True)
    idl.render_case(case, idl_root)
    env = e2._quiet_env()

    plans = e2.make_plans(case, ifaces, valuations, seed)
    plan_out = {
        "langs": ["java"], "valuations": valuations, "seed": seed,
        "calls": [
            {"iface": i, "method": m["name"], "owner": owner, "op": op,
             "optional": bool(m.get("optional") and not m.get("implemented")), "params": m["params"],
             "vals": plans[(i, m["name"])]}
            for i in ifaces for owner, m, op in idl.flat_methods(case, i)],
        "notes": [],
    }
    result = {"ok": False, "units": units, "classes": None, "classpath": None, "plan": plan_out,
              "workdir": workdir, "gen": gdir}

    # ---- 1. idlc --java for every file of the case (generated files refer to the file-level
    #         interface of every include by stem, so the whole include closure is needed)
    inc = []
    for d in case.get("incdirs", []):
        inc += ["-I", os.path.join(idl_root, d)]
    for f in case["files"]:
        fp = os.path.join(idl_root, f["path"])
        units.append(_run(f"java {_stem(f['path'])}", [idlc, fp] + inc + ["--java", "-o", gdir],
                          cwd=idl_root, env=env))
    if any(u["rc"] != 0 for u in units):
        return result

    # ---- 2. runtime (once per workdir)
    rt = compile_runtime(workdir, units)
    if rt is None:
        return result

    # ---- 3. generated sources
    gfiles = _java_files(gdir)
    if gfiles:
        u = _run("javac generated", [JAVAC] + JAVAC_FLAGS + ["-cp", rt, "-d", cgen] + gfiles)
        units.append(u)
        if u["rc"] != 0:
            return result

    # ---- 4. harness
    try:
        sources = gen_java.generate(case, ifaces, plans)
    except Exception as e:              # generator limitation / bug: a failed unit, not an exception
        units.append({"unit": "generate java", "cmd": [], "rc": -997, "stderr": f"{type(e).__name__}: {e}"})
        return result
    hfiles = []
    for fn, text in sources.items():
        p = os.path.join(src, fn)
        _write(p, text)
        hfiles.append(p)
    cp = os.pathsep.join([rt, cgen])
    u = _run("javac harness", [JAVAC] + JAVAC_FLAGS + ["-cp", cp, "-d", char] + sorted(hfiles))
    units.append(u)
    if u["rc"] != 0:
        return result
    result["classes"] = char
    result["classpath"] = os.pathsep.join([rt, cgen, char])
    result["ok"] = all(x["rc"] == 0 for x in units)
    return result


def run(build_result, timeout=60):
    """Run verifbench.Main in one JVM.  {"rc", "records", "stderr", "junk", "timeout", "last_call"}"""
    cp = build_result.get("classpath")
    if not cp:
        return {"rc": -998, "records": [], "stderr": "no classes (build failed)", "junk": [],
                "timeout": False, "last_call": None}
    timed_out = False
    try:
        p = subprocess.run([JAVA] + JAVA_FLAGS + ["-cp", cp, "verifbench.Main"], stdout=subprocess.PIPE,
                           stderr=subprocess.PIPE, timeout=timeout, cwd=build_result.get("workdir") or None)
        rc, out, err = p.returncode, p.stdout, p.stderr
    except subprocess.TimeoutExpired as e:
        rc, out, err, timed_out = -999, e.stdout or b"", e.stderr or b"", True
    records, junk, last_call = [], [], None
    for line in out.decode("utf-8", "replace").splitlines():
        line = line.strip()
        if not line:
            continue
        try:
            r = json.loads(line)
            if not isinstance(r, dict):
                raise ValueError
        except ValueError:
            junk.append(line)
            continue
        records.append(r)
        if r.get("ev") == "call":
            last_call = r
    return {"rc": rc, "records": records, "stderr": err.decode("utf-8", "replace"),
            "junk": junk, "timeout": timed_out, "last_call": last_call}
