#!/usr/bin/env python3
"""Self-test of the Java bench (java-runtime + gen_java + e3): generated Proxy -> generated MinkObject.

    python3 /verif/bench/selftest_java.py [--keep] [--idlc PATH] [--probe PATH] [--only ID]
                                          [--valuations N] [--no-findings] [--dump] [-v]

Part 1 (CASES): constructs for which the generated Java is correct.  Per call it checks
  * envelope: op == flattened op id; len(bi), len(boSizes), len(oi), oo == the counts the C-family
    backends compute (idlc_probe `facts cli`), bi bytes / oi tokens == reference encoding derived from
    the probe's visitor events and bundle tables (little-endian, packed, bundle first),
  * impl.ins == values.canon(planned inputs), outcap == planned capacities,
  * reply bo bytes / oo tokens == reference encoding of the planned outputs (status 0),
  * ret status / outs / lenouts == planned (optional methods: no impl record, status ERROR_INVALID = 2),
  * no `exception` record, refs: no retain/release, token set as planned; `end` record, rc 0.
Part 2 (FINDINGS): constructs for which the generated Java is wrong (see NOTES_java.md).  Each is run
and must still show its recorded symptom (otherwise the notes are stale -> reported as CHANGED).
Exit status 0 iff every case passed and every finding is still confirmed.
"""
import argparse
import os
import re
import shutil
import subprocess
import sys
import tempfile
import time
from collections import Counter

sys.path.insert(0, os.path.dirname(os.path.dirname(os.path.abspath(__file__))))
from bench import e3, idl, values  # noqa: E402

IDLC = "/verif/.cache/target/debug/idlc"
PROBE = "/verif/.cache/probe-target/debug/idlc_probe"


# ------------------------------------------------------------------ case construction helpers

def P(d, t, n, arr=None):
    return {"dir": d, "type": t, "arr": arr, "name": n}


def IN(t, n, arr=None):
    return P("in", t, n, arr)


def OUT(t, n, arr=None):
    return P("out", t, n, arr)


def M(name, params, optional=False, doc=None):
    return {"k": "method", "name": name, "optional": optional, "doc": doc, "params": params}


def F(t, n, count=1):
    return {"type": t, "count": count, "name": n}


def S(name, *fields):
    return {"k": "struct", "name": name, "fields": list(fields)}


def I(name, members, base=None):
    return {"k": "interface", "name": name, "base": base, "members": members}


def E(name):
    return {"k": "error", "name": name}


def C(t, name, value):
    return {"k": "const", "type": t, "name": name, "value": value}


def INC(path):
    return {"k": "include", "path": path}


def case(cid, nodes, extra_files=(), incdirs=(), main="main.idl"):
    return {"id": cid, "main": main, "incdirs": list(incdirs),
            "files": [{"path": main, "nodes": nodes}] + list(extra_files)}


U = "unbounded"
PR = idl.PRIM_ORDER

# ------------------------------------------------------------------ probe facts

_EV = re.compile(r"^(IB|OB|[io]\w+?)(?::([\w-]+))?(?::(\d+))?(?:\((\w+)\))?$")


def probe_facts(case_, root, probe):
    """{(iface, method): {"counts": (bi,bo,oi,oo), "ibundle": [(name,size)], "itotal": n,
                          "obundle": [...], "ototal": n, "events": [(kind, name)]}}"""
    out = {}
    inc = list(case_.get("incdirs", []))
    for f in case_["files"]:
        if not any(n["k"] == "interface" for n in f.get("nodes", [])):
            continue
        p = subprocess.run([probe, "facts", "cli", "0", root, f["path"]] + inc, stdout=subprocess.PIPE,
                           stderr=subprocess.PIPE, env=dict(os.environ, RUST_BACKTRACE="0"))
        for line in p.stdout.decode().splitlines():
            if not line.startswith("method "):
                continue
            m = re.match(r"method (\w+) (\w+) (\w+) opt=(\d) counts=(\d+),(\d+),(\d+),(\d+) "
                         r"ibundle=\[(.*?)\]:(\d+) obundle=\[(.*?)\]:(\d+) events=\[(.*)\]$", line)
            if not m:
                raise ValueError("unparsed probe line: " + line)
            def bl(s):
                return [(x.split(":")[0], int(x.split(":")[1])) for x in s.split(",") if x]
            evs = []
            for e in m.group(13).split():
                em = _EV.match(e)
                if not em:
                    raise ValueError("unparsed event " + e)
                evs.append((em.group(1), em.group(4)))
            out[(m.group(1), m.group(3))] = {
                "counts": tuple(int(m.group(i)) for i in (5, 6, 7, 8)),
                "ibundle": bl(m.group(9)), "itotal": int(m.group(10)),
                "obundle": bl(m.group(11)), "ototal": int(m.group(12)), "events": evs}
    return out


def _bytes_of(v):
    """wire bytes (hex) of a data value"""
    k = v["k"]
    if k == "prim":
        return v["hex"]
    if k == "struct":
        return "".join(l["hex"] for l in v["leaves"])
    if k == "buf":
        return v["hex"]
    raise ValueError(k)


def _toks(v):
    if v["k"] == "obj":
        return [values.canon_obj(v["obj"])]
    return [values.canon_obj(t) for t in v["objs"]]


def reference_envelope(fact, plan):
    """(bi hex list, boSizes list, oi tokens, n_oo, bo hex list of the reply, oo tokens of the reply)
    as the C-family visitor order prescribes"""
    bi, bosz, oi, bo, oo = [], [], [], [], []
    for kind, name in fact["events"]:
        if kind == "IB":
            bi.append("".join(_bytes_of(plan["ins"][n]) for n, _ in fact["ibundle"]))
        elif kind == "OB":
            bo.append("".join(_bytes_of(plan["outs"][n]) for n, _ in fact["obundle"]))
            bosz.append(fact["ototal"])
        elif kind in ("iprim", "ismall", "ibig", "iubuf", "iprimbuf", "istructbuf"):
            bi.append(_bytes_of(plan["ins"][name]))
        elif kind in ("oprim", "osmall", "obig"):
            h = _bytes_of(plan["outs"][name])
            bo.append(h)
            bosz.append(len(h) // 2)
        elif kind in ("oubuf", "oprimbuf", "ostructbuf"):
            v = plan["outs"][name]
            bo.append(v["hex"])
            bosz.append(plan["caps"][name] * v["esize"])
        elif kind in ("iobj", "iobjarr"):
            oi += _toks(plan["ins"][name])
        elif kind in ("oobj", "oobjarr"):
            oo += _toks(plan["outs"][name])
        else:
            raise ValueError(kind)
    return bi, bosz, oi, len(oo), bo, oo


# ------------------------------------------------------------------ checking

def plan_tokens(plan, with_outs):
    t = set()
    for v in plan["ins"].values():
        if v["k"] == "obj" and v["obj"] is not None:
            t.add(v["obj"])
        elif v["k"] == "objarr":
            t |= {x for x in v["objs"] if x is not None}
    if with_outs:
        for v in plan["outs"].values():
            if v["k"] == "obj" and v["obj"] is not None:
                t.add(v["obj"])
            elif v["k"] == "objarr":
                t |= {x for x in v["objs"] if x is not None}
    return t


def check_run(b, r, facts, stats):
    """returns list of problem strings"""
    probs = []
    if r["rc"] != 0:
        probs.append(f"exit code {r['rc']} (last call {r['last_call']})")
    if r["stderr"].strip():
        probs.append("stderr not empty: " + r["stderr"][:1500])
    if r["junk"]:
        probs.append(f"non-JSON stdout lines: {r['junk'][:3]}")
    if not r["records"] or r["records"][-1].get("ev") != "end":
        probs.append("no end record")
    calls = {(c["iface"], c["method"]): c for c in b["plan"]["calls"]}
    groups = e3.split_calls(r["records"])
    expected = len(calls) * b["plan"]["valuations"]
    if len(groups) != expected:
        probs.append(f"{len(groups)} call groups, expected {expected}")
    for g in groups:
        c = g["call"]
        where = f"{c['iface']}.{c['method']} val {c['val']}"
        pc = calls[(c["iface"], c["method"])]
        plan = pc["vals"][c["val"]]
        fact = facts.get((c["iface"], c["method"]))
        by = {}
        for rec in g["records"]:
            by.setdefault(rec["ev"], []).append(rec)
        stats["calls"] += 1
        for x in by.get("exception", []):
            probs.append(f"{where}: exception in {x['where']}: {x['class']}: {x['message']} at {x.get('gen') or x.get('at')}")
        if by.get("exception"):
            continue
        for ev in ("envelope", "reply", "ret"):
            if len(by.get(ev, [])) != 1:
                probs.append(f"{where}: {len(by.get(ev, []))} {ev} records")
        env = (by.get("envelope") or [None])[0]
        rep = (by.get("reply") or [None])[0]
        ret = (by.get("ret") or [{}])[0]
        impls = by.get("impl", [])
        if env is not None and env["op"] != pc["op"]:
            probs.append(f"{where}: op {env['op']} != {pc['op']}")
        if fact is None:
            probs.append(f"{where}: no probe facts")
        elif env is not None:
            rbi, rbosz, roi, roo, rbo, roo_t = reference_envelope(fact, plan)
            got = (len(env["bi"]), len(env["boSizes"]), len(env["oi"]), env["oo"])
            if got != fact["counts"]:
                probs.append(f"{where}: partition lengths (bi,bo,oi,oo) {got} != C-family counts {fact['counts']}")
            if env["bo"] != len(env["boSizes"]):
                probs.append(f"{where}: bo array length {env['bo']} != boSizes length {len(env['boSizes'])}")
            if env["bi"] != rbi:
                probs.append(f"{where}: bi bytes {env['bi']} != reference {rbi}")
            if env["boSizes"] != rbosz:
                probs.append(f"{where}: boSizes {env['boSizes']} != reference {rbosz}")
            if env["oi"] != roi:
                probs.append(f"{where}: oi {env['oi']} != reference {roi}")
            if rep is not None and rep["status"] == 0 and not pc["optional"] and plan["status"] == 0:
                if rep["bo"] != rbo:
                    probs.append(f"{where}: reply bo bytes {rep['bo']} != reference {rbo}")
                if rep["oo"] != roo_t:
                    probs.append(f"{where}: reply oo {rep['oo']} != reference {roo_t}")
        if pc["optional"]:
            stats["optional"] += 1
            if impls:
                probs.append(f"{where}: optional method reached an implementation")
            if ret.get("status") != 2 or ret.get("outs") != {} or ret.get("lenouts") != {}:
                probs.append(f"{where}: optional method ret {ret}")
            exp_tok = plan_tokens(plan, False)
        else:
            if len(impls) != 1:
                probs.append(f"{where}: {len(impls)} impl records")
            else:
                ins = dict(impls[0]["ins"])
                outcap = ins.pop("outcap", None)
                want = {n: values.canon(v) for n, v in plan["ins"].items()}
                if ins != want:
                    probs.append(f"{where}: impl ins {ins} != planned {want}")
                if list(ins.keys()) != [p["name"] for p in pc["params"] if p["dir"] == "in"]:
                    probs.append(f"{where}: impl ins key order {list(ins.keys())}")
                if outcap != plan["caps"]:
                    probs.append(f"{where}: outcap {outcap} != planned {plan['caps']}")
                oc = impls[0].get("objcap", {})
                woc = {p["name"]: int(p["arr"]) for p in pc["params"]
                       if p["dir"] == "out" and idl.param_kind(b["case"], p) == "objarr"}
                if oc != woc:
                    probs.append(f"{where}: objcap {oc} != declared {woc}")
            if ret.get("status") != plan["status"]:
                probs.append(f"{where}: status {ret.get('status')} != planned {plan['status']}")
            if rep is not None and rep["status"] != plan["status"]:
                probs.append(f"{where}: reply status {rep['status']} != planned {plan['status']}")
            if plan["status"] == 0:
                stats["ok_calls"] += 1
                want = {n: values.canon(v) for n, v in plan["outs"].items()}
                if ret.get("outs") != want:
                    probs.append(f"{where}: outs {ret.get('outs')} != planned {want}")
                wl = {n: v["len"] for n, v in plan["outs"].items() if v["k"] == "buf"}
                if ret.get("lenouts") != wl:
                    probs.append(f"{where}: lenouts {ret.get('lenouts')} != planned {wl}")
            else:
                stats["err_calls"] += 1
                if ret.get("outs") != {} or ret.get("lenouts") != {}:
                    probs.append(f"{where}: outputs reported on error: {ret}")
            exp_tok = plan_tokens(plan, plan["status"] == 0)
        refs = by.get("refs", [])
        for rr in refs:
            stats["refs"] += 1
            if rr["retains"] or rr["releases"] or rr["invokes"]:
                probs.append(f"{where}: token {rr['token']} retains {rr['retains']} releases {rr['releases']} "
                             f"invokes {rr['invokes']}")
        got_tok = sorted(rr["token"] for rr in refs)
        if got_tok != sorted(exp_tok):
            probs.append(f"{where}: refs tokens {got_tok} != planned {sorted(exp_tok)}")
        # coverage statistics
        for p in pc["params"]:
            stats["kind:" + p["dir"] + ":" + idl.param_kind(b["case"], p)] += 1
        for v in plan["ins"].values():
            if v["k"] == "buf" and v["len"] == 0:
                stats["zero_in_buf"] += 1
            if v["k"] == "obj":
                stats["null_in_obj" if v["obj"] is None else "nonnull_in_obj"] += 1
        if plan["status"] == 0 and not pc["optional"]:
            for n, v in plan["outs"].items():
                if v["k"] == "buf" and plan["caps"][n] == 0:
                    stats["zero_out_cap"] += 1
                if v["k"] == "buf" and v["len"] < plan["caps"][n]:
                    stats["short_out_buf"] += 1
                if v["k"] == "obj":
                    stats["null_out_obj" if v["obj"] is None else "nonnull_out_obj"] += 1
    return probs


def run_case(cs, a, stats, dump=False):
    """-> (stage, problems, timing) ; stage in idlc | javac generated | javac harness | run | ok"""
    wd = tempfile.mkdtemp(prefix=f"e3-{cs['id']}-", dir="/tmp")
    try:
        t0 = time.time()
        b = e3.build(cs, wd, a.idlc, valuations=a.valuations, seed=a.seed)
        b["case"] = cs
        t1 = time.time()
        if not b["ok"]:
            bad = [u for u in b["units"] if u["rc"] != 0]
            stage = "idlc" if bad[0]["unit"].startswith("java ") else bad[0]["unit"]
            probs = [f"unit {u['unit']} rc {u['rc']}: {_clean(u['stderr'])}" for u in bad]
            return stage, probs, (t1 - t0, 0.0), wd
        facts = probe_facts(cs, os.path.join(wd, "idl"), a.probe)
        r = e3.run(b)
        if dump:
            import json
            for rec in r["records"]:
                print("      " + json.dumps(rec))
        probs = check_run(b, r, facts, stats)
        t2 = time.time()
        return ("ok" if not probs else "run"), probs, (t1 - t0, t2 - t1), wd
    finally:
        if not a.keep:
            shutil.rmtree(wd, ignore_errors=True)


def _clean(s):
    out = []
    for line in s.splitlines():
        if "WARN  idlc] Note: JavaGen is untested" in line or not line.strip():
            continue
        out.append(re.sub(r"/tmp/e3-[^/]*/", "", line))
    return "\n".join(out)[:3000]


# ================================================================== Part 1: passing cases
CASES = []

# ================================================================== Part 2: findings
# {"id", "title", "case", "stage": idlc | javac generated | javac harness | run, "symptoms": [regex...]}
FINDINGS = []


def finding(fid, title, cs, stage, *symptoms):
    cs = dict(cs)
    cs["id"] = fid
    FINDINGS.append({"id": fid, "title": title, "case": cs, "stage": stage, "symptoms": list(symptoms)})


# CASE-DEFINITIONS-BEGIN
# CASE-DEFINITIONS-END


def main():
    ap = argparse.ArgumentParser()
    ap.add_argument("--keep", action="store_true", help="keep work directories")
    ap.add_argument("--idlc", default=IDLC)
    ap.add_argument("--probe", default=PROBE)
    ap.add_argument("--only", default=None)
    ap.add_argument("--valuations", type=int, default=4)
    ap.add_argument("--seed", type=int, default=0)
    ap.add_argument("--no-findings", action="store_true")
    ap.add_argument("--dump", action="store_true", help="print every record")
    ap.add_argument("-v", "--verbose", action="store_true")
    a = ap.parse_args()
    stats = Counter()
    failures = 0
    total = 0
    t_all = time.time()
    print("== Part 1: constructs the generated Java handles correctly")
    for cs in CASES:
        if a.only and cs["id"] != a.only:
            continue
        total += 1
        stage, probs, (tb, tr), wd = run_case(cs, a, stats, a.dump)
        print(f"{'ok  ' if stage == 'ok' else 'FAIL'} {cs['id']:14s} build {tb:5.2f}s run {tr:5.2f}s"
              + (f"  [{wd}]" if a.keep else ""))
        if probs:
            failures += 1
            for p in probs[: (400 if a.verbose else 12)]:
                print("     - " + p)
            if len(probs) > 12 and not a.verbose:
                print(f"     ... {len(probs) - 12} more")
    need = ["zero_in_buf", "zero_out_cap", "short_out_buf", "null_in_obj", "nonnull_in_obj", "null_out_obj",
            "nonnull_out_obj", "optional", "err_calls", "ok_calls"]
    if not a.only:
        for k in need:
            if stats[k] == 0:
                print(f"FAIL coverage: no call exercised {k}")
                failures += 1
    print(f"\n{total - min(failures, total)}/{total} cases ok; {stats['calls']} calls checked "
          f"({stats['ok_calls']} ok-status, {stats['err_calls']} error-status, {stats['optional']} optional), "
          f"{stats['refs']} refs records")
    print("coverage: " + ", ".join(f"{k}={stats[k]}" for k in need))
    print("parameter kinds exercised: " + ", ".join(f"{k[5:]}={v}" for k, v in sorted(stats.items()) if k.startswith("kind:")))

    changed = 0
    nfind = 0
    if not a.no_findings:
        print("\n== Part 2: recorded findings (generated Java is wrong; must still reproduce)")
        fstats = Counter()
        for fd in FINDINGS:
            if a.only and fd["id"] != a.only:
                continue
            nfind += 1
            stage, probs, (tb, tr), wd = run_case(fd["case"], a, fstats, a.dump)
            text = "\n".join(probs)
            missing = [s for s in fd["symptoms"] if not re.search(s, text, re.S)]
            okf = stage == fd["stage"] and not missing
            print(f"{'conf' if okf else 'CHANGED'} {fd['id']:22s} [{stage}] {fd['title']}"
                  + (f"  [{wd}]" if a.keep else ""))
            if not okf or a.verbose:
                if stage != fd["stage"]:
                    print(f"     expected stage {fd['stage']}, got {stage}")
                for s in missing:
                    print(f"     symptom not seen: {s}")
                for p in probs[: (400 if a.verbose else 8)]:
                    print("     - " + p.replace("\n", "\n       "))
            if not okf:
                changed += 1
        print(f"\n{nfind - changed}/{nfind} findings confirmed")
    print(f"total {time.time() - t_all:.1f}s")
    return 1 if failures or changed else 0


if __name__ == "__main__":
    sys.exit(main())
