#!/usr/bin/env python3
"""Self-test of the Java bench (java-runtime + gen_java + e3): generated Proxy -> generated MinkObject.

    python3 /verif/bench/selftest_java.py [--keep] [--idlc PATH] [--probe PATH] [--only ID] [-j N]
                                          [--valuations N] [--seed N] [--no-findings] [--dump] [-v]

Part 1 (CASES): constructs for which the generated Java is correct.  Per call it checks
  * envelope: op == flattened op id; len(bi), len(boSizes), len(oi), oo == the counts the C-family
    backends compute (idlc_probe `facts cli`), bi bytes / oi tokens == reference encoding derived from
    the probe's visitor events and bundle tables (little-endian, packed, bundle first),
  * impl.ins == values.canon(planned inputs), outcap == planned capacities,
  * reply bo bytes / oo tokens == reference encoding of the planned outputs (status 0),
  * ret status / outs / lenouts == planned (optional methods: no impl record, status ERROR_INVALID = 2),
  * no `exception` record, refs: no retain/release, token set as planned; `end` record, rc 0.
Part 2 (FINDINGS): constructs for which the generated Java is wrong (see NOTES_java.md).  Each is run
and must still show its recorded symptom (otherwise the notes are stale -> reported as CHANGED).
Exit status 0 iff every case passed and every finding is still confirmed.
"""
import argparse
import os
import re
import shutil
import subprocess
import sys
import tempfile
import time
from collections import Counter

sys.path.insert(0, os.path.dirname(os.path.dirname(os.path.abspath(__file__))))
from bench import e3, idl, values  # noqa: E402

IDLC = "/verif/.cache/target/debug/idlc"
PROBE = "/verif/.cache/probe-target/debug/idlc_probe"


# ------------------------------------------------------------------ case construction helpers

def P(d, t, n, arr=None):
    return {"dir": d, "type": t, "arr": arr, "name": n}


def IN(t, n, arr=None):
    return P("in", t, n, arr)


def OUT(t, n, arr=None):
    return P("out", t, n, arr)


def M(name, params, optional=False, doc=None):
    return {"k": "method", "name": name, "optional": optional, "doc": doc, "params": params}


def F(t, n, count=1):
    return {"type": t, "count": count, "name": n}


def S(name, *fields):
    return {"k": "struct", "name": name, "fields": list(fields)}


def I(name, members, base=None):
    return {"k": "interface", "name": name, "base": base, "members": members}


def E(name):
    return {"k": "error", "name": name}


def C(t, name, value):
    return {"k": "const", "type": t, "name": name, "value": value}


def INC(path):
    return {"k": "include", "path": path}


def case(cid, nodes, extra_files=(), incdirs=(), main="main.idl"):
    return {"id": cid, "main": main, "incdirs": list(incdirs),
            "files": [{"path": main, "nodes": nodes}] + list(extra_files)}


U = "unbounded"
PR = idl.PRIM_ORDER

# ------------------------------------------------------------------ probe facts

_EV = re.compile(r"^(IB|OB|[io]\w+?)(?::([\w-]+))?(?::(\d+))?(?:\((\w+)\))?$")


def probe_facts(case_, root, probe):
    """{(iface, method): {"counts": (bi,bo,oi,oo), "ibundle": [(name,size)], "itotal": n,
                          "obundle": [...], "ototal": n, "events": [(kind, name)]}}"""
    out = {}
    inc = list(case_.get("incdirs", []))
    for f in case_["files"]:
        if not any(n["k"] == "interface" for n in f.get("nodes", [])):
            continue
        p = subprocess.run([probe, "facts", "cli", "0", root, f["path"]] + inc, stdout=subprocess.PIPE,
                           stderr=subprocess.PIPE, env=dict(os.environ, RUST_BACKTRACE="0"))
        for line in p.stdout.decode().splitlines():
            if not line.startswith("method "):
                continue
            m = re.match(r"method (\w+) (\w+) (\w+) opt=(\d) counts=(\d+),(\d+),(\d+),(\d+) "
                         r"ibundle=\[(.*?)\]:(\d+) obundle=\[(.*?)\]:(\d+) events=\[(.*)\]$", line)
            if not m:
                raise ValueError("unparsed probe line: " + line)
            def bl(s):
                return [(x.split(":")[0], int(x.split(":")[1])) for x in s.split(",") if x]
            evs = []
            for e in m.group(13).split():
                em = _EV.match(e)
                if not em:
                    raise ValueError("unparsed event " + e)
                evs.append((em.group(1), em.group(4)))
            out[(m.group(1), m.group(3))] = {
                "counts": tuple(int(m.group(i)) for i in (5, 6, 7, 8)),
                "ibundle": bl(m.group(9)), "itotal": int(m.group(10)),
                "obundle": bl(m.group(11)), "ototal": int(m.group(12)), "events": evs}
    return out


def _bytes_of(v):
    """wire bytes (hex) of a data value"""
    k = v["k"]
    if k == "prim":
        return v["hex"]
    if k == "struct":
        return "".join(l["hex"] for l in v["leaves"])
    if k == "buf":
        return v["hex"]
    raise ValueError(k)


def _toks(v):
    if v["k"] == "obj":
        return [values.canon_obj(v["obj"])]
    return [values.canon_obj(t) for t in v["objs"]]


def reference_envelope(fact, plan):
    """(bi hex list, boSizes list, oi tokens, n_oo, bo hex list of the reply, oo tokens of the reply)
    as the C-family visitor order prescribes"""
    bi, bosz, oi, bo, oo = [], [], [], [], []
    for kind, name in fact["events"]:
        if kind == "IB":
            bi.append("".join(_bytes_of(plan["ins"][n]) for n, _ in fact["ibundle"]))
        elif kind == "OB":
            bo.append("".join(_bytes_of(plan["outs"][n]) for n, _ in fact["obundle"]))
            bosz.append(fact["ototal"])
        elif kind in ("iprim", "ismall", "ibig", "iubuf", "iprimbuf", "istructbuf"):
            bi.append(_bytes_of(plan["ins"][name]))
        elif kind in ("oprim", "osmall", "obig"):
            h = _bytes_of(plan["outs"][name])
            bo.append(h)
            bosz.append(len(h) // 2)
        elif kind in ("oubuf", "oprimbuf", "ostructbuf"):
            v = plan["outs"][name]
            bo.append(v["hex"])
            bosz.append(plan["caps"][name] * v["esize"])
        elif kind in ("iobj", "iobjarr"):
            oi += _toks(plan["ins"][name])
        elif kind in ("oobj", "oobjarr"):
            oo += _toks(plan["outs"][name])
        else:
            raise ValueError(kind)
    return bi, bosz, oi, len(oo), bo, oo


# ------------------------------------------------------------------ checking

def plan_tokens(plan, with_outs):
    t = set()
    for v in plan["ins"].values():
        if v["k"] == "obj" and v["obj"] is not None:
            t.add(v["obj"])
        elif v["k"] == "objarr":
            t |= {x for x in v["objs"] if x is not None}
    if with_outs:
        for v in plan["outs"].values():
            if v["k"] == "obj" and v["obj"] is not None:
                t.add(v["obj"])
            elif v["k"] == "objarr":
                t |= {x for x in v["objs"] if x is not None}
    return t


def check_run(b, r, facts, stats):
    """returns list of problem strings"""
    probs = []
    if r["rc"] != 0:
        probs.append(f"exit code {r['rc']} (last call {r['last_call']})")
    if r["stderr"].strip():
        probs.append("stderr not empty: " + r["stderr"][:1500])
    if r["junk"]:
        probs.append(f"non-JSON stdout lines: {r['junk'][:3]}")
    if not r["records"] or r["records"][-1].get("ev") != "end":
        probs.append("no end record")
    calls = {(c["iface"], c["method"]): c for c in b["plan"]["calls"]}
    groups = e3.split_calls(r["records"])
    expected = len(calls) * b["plan"]["valuations"]
    if len(groups) != expected:
        probs.append(f"{len(groups)} call groups, expected {expected}")
    for g in groups:
        c = g["call"]
        where = f"{c['iface']}.{c['method']} val {c['val']}"
        pc = calls[(c["iface"], c["method"])]
        plan = pc["vals"][c["val"]]
        fact = facts.get((c["iface"], c["method"]))
        by = {}
        for rec in g["records"]:
            by.setdefault(rec["ev"], []).append(rec)
        stats["calls"] += 1
        for x in by.get("exception", []):
            probs.append(f"{where}: exception in {x['where']}: {x['class']}: {x['message']} at {x.get('gen') or x.get('at')}")
        if by.get("exception"):
            continue
        for ev in ("envelope", "reply", "ret"):
            if len(by.get(ev, [])) != 1:
                probs.append(f"{where}: {len(by.get(ev, []))} {ev} records")
        env = (by.get("envelope") or [None])[0]
        rep = (by.get("reply") or [None])[0]
        ret = (by.get("ret") or [{}])[0]
        impls = by.get("impl", [])
        if env is not None and env["op"] != pc["op"]:
            probs.append(f"{where}: op {env['op']} != {pc['op']}")
        if fact is None:
            probs.append(f"{where}: no probe facts")
        elif env is not None:
            rbi, rbosz, roi, roo, rbo, roo_t = reference_envelope(fact, plan)
            got = (len(env["bi"]), len(env["boSizes"]), len(env["oi"]), env["oo"])
            if got != fact["counts"]:
                probs.append(f"{where}: partition lengths (bi,bo,oi,oo) {got} != C-family counts {fact['counts']}")
            if env["bo"] != len(env["boSizes"]):
                probs.append(f"{where}: bo array length {env['bo']} != boSizes length {len(env['boSizes'])}")
            if env["bi"] != rbi:
                probs.append(f"{where}: bi bytes {env['bi']} != reference {rbi}")
            if env["boSizes"] != rbosz:
                probs.append(f"{where}: boSizes {env['boSizes']} != reference {rbosz}")
            if env["oi"] != roi:
                probs.append(f"{where}: oi {env['oi']} != reference {roi}")
            if rep is not None and rep["status"] == 0 and not pc["optional"] and plan["status"] == 0:
                if rep["bo"] != rbo:
                    probs.append(f"{where}: reply bo bytes {rep['bo']} != reference {rbo}")
                if rep["oo"] != roo_t:
                    probs.append(f"{where}: reply oo {rep['oo']} != reference {roo_t}")
        if pc["optional"]:
            stats["optional"] += 1
            if impls:
                probs.append(f"{where}: optional method reached an implementation")
            if ret.get("status") != 2 or ret.get("outs") != {} or ret.get("lenouts") != {}:
                probs.append(f"{where}: optional method ret {ret}")
            exp_tok = plan_tokens(plan, False)
        else:
            if len(impls) != 1:
                probs.append(f"{where}: {len(impls)} impl records")
            else:
                ins = dict(impls[0]["ins"])
                outcap = ins.pop("outcap", None)
                want = {n: values.canon(v) for n, v in plan["ins"].items()}
                if ins != want:
                    probs.append(f"{where}: impl ins {ins} != planned {want}")
                if list(ins.keys()) != [p["name"] for p in pc["params"] if p["dir"] == "in"]:
                    probs.append(f"{where}: impl ins key order {list(ins.keys())}")
                if outcap != plan["caps"]:
                    probs.append(f"{where}: outcap {outcap} != planned {plan['caps']}")
                oc = impls[0].get("objcap", {})
                woc = {p["name"]: int(p["arr"]) for p in pc["params"]
                       if p["dir"] == "out" and idl.param_kind(b["case"], p) == "objarr"}
                if oc != woc:
                    probs.append(f"{where}: objcap {oc} != declared {woc}")
            if ret.get("status") != plan["status"]:
                probs.append(f"{where}: status {ret.get('status')} != planned {plan['status']}")
            if rep is not None and rep["status"] != plan["status"]:
                probs.append(f"{where}: reply status {rep['status']} != planned {plan['status']}")
            if plan["status"] == 0:
                stats["ok_calls"] += 1
                want = {n: values.canon(v) for n, v in plan["outs"].items()}
                if ret.get("outs") != want:
                    probs.append(f"{where}: outs {ret.get('outs')} != planned {want}")
                wl = {n: v["len"] for n, v in plan["outs"].items() if v["k"] == "buf"}
                if ret.get("lenouts") != wl:
                    probs.append(f"{where}: lenouts {ret.get('lenouts')} != planned {wl}")
            else:
                stats["err_calls"] += 1
                if ret.get("outs") != {} or ret.get("lenouts") != {}:
                    probs.append(f"{where}: outputs reported on error: {ret}")
            exp_tok = plan_tokens(plan, plan["status"] == 0)
        refs = by.get("refs", [])
        for rr in refs:
            stats["refs"] += 1
            if rr["retains"] or rr["releases"] or rr["invokes"]:
                probs.append(f"{where}: token {rr['token']} retains {rr['retains']} releases {rr['releases']} "
                             f"invokes {rr['invokes']}")
        got_tok = sorted(rr["token"] for rr in refs)
        if got_tok != sorted(exp_tok):
            probs.append(f"{where}: refs tokens {got_tok} != planned {sorted(exp_tok)}")
        # coverage statistics
        for p in pc["params"]:
            stats["kind:" + p["dir"] + ":" + idl.param_kind(b["case"], p)] += 1
        for v in plan["ins"].values():
            if v["k"] == "buf" and v["len"] == 0:
                stats["zero_in_buf"] += 1
            if v["k"] == "obj":
                stats["null_in_obj" if v["obj"] is None else "nonnull_in_obj"] += 1
        if plan["status"] == 0 and not pc["optional"]:
            for n, v in plan["outs"].items():
                if v["k"] == "buf" and plan["caps"][n] == 0:
                    stats["zero_out_cap"] += 1
                if v["k"] == "buf" and v["len"] < plan["caps"][n]:
                    stats["short_out_buf"] += 1
                if v["k"] == "obj":
                    stats["null_out_obj" if v["obj"] is None else "nonnull_out_obj"] += 1
    return probs


def run_case(cs, a, stats, dump=False, valuations=None, seed=None):
    """-> (stage, problems, timing, workdir); stage in idlc | javac generated | javac harness | run | ok"""
    wd = tempfile.mkdtemp(prefix=f"e3-{cs['id']}-", dir="/tmp")
    try:
        t0 = time.time()
        b = e3.build(cs, wd, a.idlc, valuations=a.valuations if valuations is None else valuations,
                     seed=a.seed if seed is None else seed)
        b["case"] = cs
        t1 = time.time()
        if not b["ok"]:
            bad = [u for u in b["units"] if u["rc"] != 0]
            stage = "idlc" if bad[0]["unit"].startswith("java ") else bad[0]["unit"]
            probs = [f"unit {u['unit']} rc {u['rc']}: {_clean(u['stderr'])}" for u in bad]
            return stage, probs, (t1 - t0, 0.0), wd
        facts = probe_facts(cs, os.path.join(wd, "idl"), a.probe)
        r = e3.run(b)
        if dump:
            import json
            for rec in r["records"]:
                print("      " + json.dumps(rec))
        probs = check_run(b, r, facts, stats)
        t2 = time.time()
        return ("ok" if not probs else "run"), probs, (t1 - t0, t2 - t1), wd
    finally:
        if not a.keep:
            shutil.rmtree(wd, ignore_errors=True)


def _clean(s):
    out = []
    for line in s.splitlines():
        if "WARN  idlc] Note: JavaGen is untested" in line or not line.strip():
            continue
        out.append(re.sub(r"/tmp/e3-[^/]*/", "", line))
    return "\n".join(out)[:3000]


# ================================================================== Part 1: passing cases
CASES = []

# ================================================================== Part 2: findings
# {"id", "title", "case", "stage": idlc | javac generated | javac harness | run, "symptoms": [regex...]}
FINDINGS = []


def finding(fid, title, cs, stage, *symptoms, rejected=None):
    """rejected: regex of an idlc rejection message; when idlc (built from a repaired working tree)
    refuses the construct with that message the finding is not applicable (reported as n/a)"""
    cs = dict(cs)
    cs["id"] = fid
    FINDINGS.append({"id": fid, "title": title, "case": cs, "stage": stage, "symptoms": list(symptoms),
                     "rejected": rejected})


# CASE-DEFINITIONS-BEGIN

# ---- shared declarations
F1 = S("F1", F("uint32", "a"))
F2 = S("F2", F("uint8", "a"), F("uint8", "b"))
S16 = S("S16", F("uint64", "a"), F("uint32", "b"), F("uint16", "c"), F("int8", "d"), F("uint8", "e"))
SF = S("SF", F("float32", "a"), F("float32", "b"), F("float64", "c"))
B24 = S("B24", F("uint64", "a"), F("uint32", "b"), F("uint32", "c"), F("uint64", "d"))
BALL = S("BALL", *[F(t, f"f{i}") for i, t in enumerate(
    ["uint64", "int64", "float64", "uint32", "int32", "float32", "uint16", "int16", "uint8", "int8", "uint16", "uint32"])])
NEST = S("Nest", F("F2", "f"), F("uint16", "g"), F("uint32", "h"))            # 8 bytes, small
BNEST = S("BNest", F("B24", "f"), F("uint64", "g"))                           # 32 bytes, big
A1 = S("A1", F("uint32", "a"), {"type": "uint32", "count": 1, "name": "b", "force_array": True})
IO_ = I("IO", [M("nop", [])])

# ---- 1. primitives of every type: in, out, in+out alone; bundles (>= 2 per direction) of every type
_ms = []
for _t in PR:
    _ms += [M(f"in_{_t}", [IN(_t, "x")]), M(f"out_{_t}", [OUT(_t, "y")]), M(f"io_{_t}", [IN(_t, "x"), OUT(_t, "y")])]
CASES.append(case("prims", [I("IPrim", [E("E_ONE"), E("E_TWO")] + _ms + [
    M("allin", [IN(t, f"a{i}") for i, t in enumerate(PR)]),
    M("allout", [OUT(t, f"a{i}") for i, t in enumerate(PR)]),
    M("allio", [IN(t, f"a{i}") for i, t in enumerate(PR)] + [OUT(t, f"b{i}") for i, t in enumerate(reversed(PR))]),
    M("mix", [IN("uint16", "a"), OUT("int8", "b"), IN("int64", "c"), OUT("int32", "d"), IN("float32", "e"),
              OUT("float64", "f")]),
    M("two", [IN("uint8", "a"), IN("uint8", "b"), OUT("uint16", "c"), OUT("uint16", "d")]),
    M("nop", []),
])]))

# ---- 2. untyped buffers in/out (also next to single / bundled primitives); byte arrays as input
CASES.append(case("buffers", [I("IBuf", [E("E_ONE"),
    M("bin", [IN("buffer", "x")]), M("bout", [OUT("buffer", "y")]), M("bio", [IN("buffer", "x"), OUT("buffer", "y")]),
    M("b2", [IN("buffer", "x"), IN("buffer", "x2"), OUT("buffer", "y"), OUT("buffer", "y2")]),
    M("bp", [IN("buffer", "x"), IN("uint32", "p"), OUT("buffer", "y"), OUT("uint32", "q")]),
    M("bpp", [IN("uint32", "p0"), IN("buffer", "x"), IN("uint32", "p"), OUT("uint8", "q0"), OUT("buffer", "y"),
              OUT("uint32", "q")]),
    M("u8in", [IN("uint8", "x", U)]), M("i8in", [IN("int8", "x", U)]),
    M("u8mix", [IN("uint8", "x", U), IN("buffer", "b"), IN("uint16", "p"), OUT("buffer", "y")]),
])]))

# ---- 3. structs of scalar primitives: small (<= 16 bytes) alone and bundled, big (own buffer)
CASES.append(case("structs", [F1, F2, S16, SF, B24, BALL, A1, I("IStruct", [E("E_ONE"),
    M("sin", [IN("F1", "s")]), M("sout", [OUT("F1", "s")]), M("sio", [IN("F2", "s"), OUT("S16", "t")]),
    M("sf", [IN("SF", "s"), OUT("SF", "t")]),
    M("sb1", [IN("F1", "s"), IN("uint32", "x")]), M("sb2", [OUT("F2", "t"), OUT("uint16", "y")]),
    M("sb3", [IN("F1", "s"), IN("S16", "s2"), IN("uint8", "x"), OUT("F2", "t"), OUT("SF", "t2"), OUT("uint64", "y")]),
    M("bin", [IN("B24", "c")]), M("bout", [OUT("B24", "d")]), M("bio", [IN("B24", "c"), OUT("BALL", "d")]),
    M("ball", [IN("BALL", "c")]),
    M("b2in", [IN("B24", "c"), IN("BALL", "d")]),
    M("bmix", [IN("B24", "c"), IN("uint32", "x"), IN("F1", "s"), IN("buffer", "b")]),
    M("bmix2", [IN("uint32", "x"), IN("B24", "c"), IN("F1", "s"), OUT("buffer", "b"), OUT("uint32", "y"),
                OUT("uint8", "z")]),
    M("bmix3", [IN("B24", "c"), IN("uint8", "x"), OUT("B24", "d"), OUT("buffer", "b")]),
    M("one", [IN("A1", "s"), OUT("A1", "t")]),                      # field declared uint32[1]
])]))

# ---- 4. nested structs work in the OUT direction only (see findings for `in`)
CASES.append(case("nested_out", [F2, B24, NEST, BNEST, I("INest", [
    M("nout", [OUT("Nest", "m")]), M("nbout", [OUT("Nest", "m"), OUT("uint32", "y")]),
    M("bnout", [OUT("BNest", "m")]), M("mix", [IN("uint32", "x"), IN("buffer", "b"), OUT("BNest", "m")]),
])]))

# ---- 5. objects: generic and typed, in and out, next to data
CASES.append(case("objects", [B24, IO_, I("IObj", [E("E_ONE"),
    M("gin", [IN("interface", "o")]), M("gout", [OUT("interface", "o")]),
    M("tin", [IN("IO", "o")]), M("tout", [OUT("IO", "o")]),
    M("self", [IN("IObj", "o"), OUT("IObj", "p")]),
    M("mix", [IN("interface", "o"), OUT("interface", "p"), IN("IO", "q"), OUT("IO", "r")]),
    M("data", [IN("uint32", "x"), IN("IO", "o"), IN("buffer", "b"), OUT("IO", "p"), OUT("uint32", "y"),
               OUT("buffer", "c"), IN("B24", "s"), IN("interface", "o2"), OUT("interface", "p2")]),
    M("many", [IN("IO", f"i{k}") for k in range(5)] + [OUT("IO", f"o{k}") for k in range(4)]),
])]))

# ---- 6. object arrays: at most one per direction
CASES.append(case("objarrays", [IO_, I("IArr", [E("E_ONE"),
    M("ain", [IN("IO", "a", 3)]), M("aout", [OUT("IO", "a", 2)]), M("aio", [IN("IO", "a", 2), OUT("IO", "b", 3)]),
    M("gain", [IN("interface", "a", 2)]), M("gaout", [OUT("interface", "a", 2)]),
    M("a1", [IN("IO", "a", 1), OUT("IO", "b", 1)]),
    M("adata", [IN("uint32", "x"), IN("IO", "a", 2), IN("buffer", "b"), OUT("IO", "c", 2), OUT("uint32", "y")]),
])]))

# ---- 7. inheritance (three levels), optional methods, errors and constants on every level, docs
CASES.append(case("inherit", [F1,
    I("IBase", [E("E_B1"), E("E_B2"), C("uint32", "KB", "7"), M("bm", [IN("uint32", "a"), OUT("uint32", "b")]),
                M("bopt", [IN("uint8", "z")], optional=True)]),
    I("IMid", [E("E_M1"), M("mm", [IN("F1", "s"), OUT("F1", "t")]),
               M("mopt", [IN("uint32", "x"), OUT("uint32", "y")], optional=True)], base="IBase"),
    I("ILeaf", [E("E_L1"), C("uint8", "KL", "3"),
                M("lm", [IN("buffer", "b"), OUT("buffer", "c")], doc="  * documented\n  "),
                M("lo", [IN("IBase", "o"), OUT("IMid", "p")])], base="IMid"),
]))

# ---- 8. includes: struct, constant, typed object and base interface from other files; include dir
_inc_a = {"path": "a.idl", "nodes": [S("SA", F("uint32", "a"), F("uint32", "b")), C("uint32", "KA", "5"),
                                     I("IA", [E("E_A"), M("am", [IN("SA", "s"), OUT("SA", "t")])])]}
_inc_b = {"path": "inc/b.idl", "nodes": [S("SB", F("uint64", "a")), I("IB", [M("bm", [IN("SB", "s")])])]}
CASES.append(case("includes", [INC("a.idl"), INC("b.idl"),
    I("IX", [M("m", [IN("SA", "s"), IN("IA", "o"), IN("SB", "u"), OUT("uint32", "y")])]),
    I("IY", [M("ym", [IN("uint8", "x")])], base="IA")], extra_files=[_inc_a, _inc_b], incdirs=["inc"]))

# ---- 9. constants that fit their Java carrier; harmless identifier choices; empty interfaces
CASES.append(case("misc", [
    C("uint8", "K8", "127"), C("int8", "KI8", "-128"), C("uint16", "K16", "65535"), C("uint16", "K16h", "0x10"),
    C("int16", "KI16", "5"), C("uint32", "K32", "0xFFFFFFFF"), C("uint32", "K32d", "2147483647"),
    C("int32", "KI32", "-2147483648"), C("uint64", "K64", "2147483647"), C("int64", "KI64", "-5"),
    C("float64", "KF64", "1.5"), C("float32", "KF32", "2"),
    S("Boolean", F("uint32", "a")),
    I("IEmpty", []), I("IErrOnly", [E("E1")]),
    I("IMisc", [C("uint8", "k8", "1"), C("uint32", "k32", "0x7fffffff"), E("OP_m"),
        M("m", [IN("uint32", "bundleIn"), OUT("uint32", "bundleOut")]),
        M("n", [IN("uint32", "i"), IN("uint32", "mRefs"), IN("uint32", "minkObject"), IN("Boolean", "s_val")]),
        M("invoke", [IN("uint32", "x")]), M("retain", [IN("uint32", "x")]), M("isNull", [IN("uint32", "x")]),
        M("equals", [IN("uint32", "x")]), M("wait", [IN("uint32", "x")]),
    ])]))


# ================================================================== findings
_UOE = r"exception in skeleton: java\.lang\.UnsupportedOperationException"
_BOE = r"exception in skeleton: java\.nio\.BufferOverflowException"
_NPE = r"java\.lang\.NullPointerException"

# ---- A. objects inside structs: the Java backend aborts (idlc panics), even when the struct is unused
finding("A1-objstruct-unused", "struct with an object member, not used by any method: idlc panics",
        case("x", [S("OS", F("uint64", "a"), F("uint64", "b"), F("interface", "o")), I("IX", [M("m", [IN("uint32", "x")])])]),
        "idlc", r"not implemented: Java codegen doesn't support objects in struct")
finding("A2-objstruct-param", "struct with a typed object member as parameter: idlc panics",
        case("x", [I("IO", [M("nop", [])]), S("OS", F("uint32", "p", 4), F("IO", "o")), I("IX", [M("m", [IN("OS", "x")])])]),
        "idlc", r"not implemented: Java codegen doesn't support objects in struct")

# ---- B. primitive arrays
finding("B1-primarr-in", "in T[] for every T wider than a byte: skeleton calls array() on a view buffer",
        case("x", [I("IX", [M(f"ain_{t}", [IN(t, "x", U)]) for t in PR if t not in ("uint8", "int8")])]),
        "run", *[rf"IX\.ain_{t} val \d: {_UOE}: None at com\.qualcomm\.qti\.mink\.IX\$MinkObject\.invoke"
                 for t in PR if t not in ("uint8", "int8")])
finding("B2-primarr-out", "out T[] for every T: skeleton sizes bo[i] from the 1-element holder array",
        case("x", [I("IX", [M(f"aout_{t}", [OUT(t, "y", U)]) for t in PR])]),
        "run", *([rf"IX\.aout_{t} val \d: {_BOE}" for t in PR]
                 + [r"IX\.aout_uint32 val \d: outcap \{'y': (\d+)\} != planned",
                    r"IX\.aout_\w+ val \d: lenouts \{'y': 1\} != planned \{'y': 0\}"]))

# ---- C. struct arrays
finding("C1-structarr-in", "in S[]: skeleton allocates new S[1] (null element) and reads one element only",
        case("x", [F2, B24, I("IX", [M("sain", [IN("B24", "s", U)]), M("ssin", [IN("F2", "s", U)])])]),
        "run", rf"IX\.sain val \d: exception in skeleton: {_NPE}: Cannot assign field \"a\" because \"<local\d+>\[0\]\" is null",
        rf"IX\.ssin val \d: exception in skeleton: {_NPE}")
finding("C2-structarr-out", "out S[]: skeleton sizes bo[i] for one element; proxy fills a fresh S[n] of nulls",
        case("x", [F2, B24, I("IX", [M("saout", [OUT("B24", "s", U)]), M("ssout", [OUT("F2", "s", U)])])]),
        "run", rf"IX\.saout val \d: ({_BOE}|exception in proxy: {_NPE})", rf"IX\.ssout val \d: {_BOE}")

# ---- D. nested structs as input
finding("D1-nested-in", "in S where S has a struct member: skeleton does new S() and assigns s.f.a with s.f == null",
        case("x", [F2, B24, NEST, BNEST, I("IX", [M("nin", [IN("Nest", "n")]), M("nbin", [IN("Nest", "n"), IN("uint32", "x")]),
                                                  M("bnin", [IN("BNest", "n")])])]),
        "run", rf"IX\.nin val \d: exception in skeleton: {_NPE}: Cannot assign field \"a\" because \"<local\d+>\.f\" is null",
        rf"IX\.nbin val \d: exception in skeleton: {_NPE}", rf"IX\.bnin val \d: exception in skeleton: {_NPE}")

# ---- E. fixed-size array members of structs (get_struct_pair ignores the count)
finding("E1-arrfield-u8-in", "struct { uint8[4] a; } as in: skeleton assigns a byte to byte[]",
        case("x", [S("A8", F("uint8", "a", 4)), I("IX", [M("m", [IN("A8", "s")])])]),
        "javac generated", r"incompatible types: byte cannot be converted to byte\[\]\s+s\.a=bundleIn0\.get\(\);")
finding("E2-arrfield-u8-out", "struct { uint8[4] a; } as out: proxy assigns a byte to byte[]",
        case("x", [S("A8", F("uint8", "a", 4)), I("IX", [M("m", [OUT("A8", "s")])])]),
        "javac generated", r"incompatible types: byte cannot be converted to byte\[\]\s+s_ptr\[0\]\.a = bundleOut\.get\(\);")
finding("E3-arrfield-u32", "struct { uint32[2] a; }: putInt(int[]) / int assigned to int[]",
        case("x", [S("A32", F("uint32", "a", 2)), I("IX", [M("m", [IN("A32", "s")]), M("n", [OUT("A32", "s")])])]),
        "javac generated", r"incompatible types: int\[\] cannot be converted to int\s+buffer_s_val\.putInt\(s_val\.a\);",
        r"incompatible types: int cannot be converted to int\[\]")
finding("E4-arrfield-struct", "struct { F2[2] c; }: member access on an array",
        case("x", [F2, S("AS", F("F2", "c", 2)), I("IX", [M("m", [IN("AS", "s")])])]),
        "javac generated", r"cannot find symbol\s+buffer_s_val\.put\(s_val\.c\.a\);", r"location: variable c of type F2\[\]")
finding("E5-arrfield-bundled", "struct with array member inside a bundle / in a struct array",
        case("x", [S("A8", F("uint8", "a", 4)), I("IX", [M("m", [IN("A8", "s"), IN("uint8", "x")]), M("n", [OUT("A8", "s", U)])])]),
        "javac generated", r"s\.a=bundleIn\.get\(\);", r"s_ptr\[0\]\[i\]\.a = buffer_s_ptr\.get\(\);")

# ---- F. more than one `bundleOut` declaration in a proxy method
finding("F1-bundleout-prim-big", "out primitive + out big struct: proxy declares bundleOut twice",
        case("x", [B24, I("IX", [M("m", [OUT("uint32", "a"), OUT("B24", "d")])])]),
        "javac generated", r"variable bundleOut is already defined in method m\(int\[\],B24\[\]\)")
finding("F2-bundleout-big-big", "two out big structs: proxy declares bundleOut twice",
        case("x", [B24, I("IX", [M("m", [OUT("B24", "c"), OUT("B24", "d")])])]),
        "javac generated", r"variable bundleOut is already defined in method m\(B24\[\],B24\[\]\)")
finding("F3-bundleout-bundle-big", "out bundle + out big struct: proxy declares bundleOut twice",
        case("x", [B24, I("IX", [M("m", [OUT("uint32", "a"), OUT("uint32", "b"), OUT("B24", "d")])])]),
        "javac generated", r"variable bundleOut is already defined in method m\(int\[\],int\[\],B24\[\]\)")
finding("F4-bundleout-small-big", "out small struct + out big struct: proxy declares bundleOut twice",
        case("x", [F1, B24, I("IX", [M("m", [OUT("F1", "c"), OUT("B24", "d")])])]),
        "javac generated", r"variable bundleOut is already defined in method m\(F1\[\],B24\[\]\)")

# ---- G. two object arrays of one direction (accepted by idlc): both start at index 0
finding("G1-two-objarr-in", "in I[2] a, in I[2] b: proxy writes both at oi[0..], skeleton hands all of oi to both",
        case("x", [IO_, I("IX", [M("m", [IN("IO", "a", 2), IN("IO", "b", 2)])])]),
        "run", r"IX\.m val 0: oi \['t3', 't4', 'null', 'null'\] != reference \['t1', 't2', 't3', 't4'\]",
        r"IX\.m val 0: impl ins \{'a': \['t3', 't4', 'null', 'null'\], 'b': \['t3', 't4', 'null', 'null'\]\}",
        rejected=r"has multiple input object arrays")
finding("G2-two-objarr-out", "out I[2] a, out I[2] b: both copied from/to oo[0..]; x_len = oo.length",
        case("x", [IO_, I("IX", [M("m", [OUT("IO", "a", 2), OUT("IO", "b", 2)])])]),
        "run", r"IX\.m val \d: reply oo \[.*\] != reference", r"objcap \{'a': 4, 'b': 4\} != declared \{'a': 2, 'b': 2\}",
        rejected=r"has multiple output object arrays")

# ---- H. file naming
finding("H1-stem-eq-iface", "IDL file IStem.idl declaring interface IStem: interface nested into itself, imports inside a type",
        case("x", [I("IStem", [M("m", [IN("uint32", "x")])])], main="IStem.idl"),
        "javac generated", r"IStem\.java:\d+: error: illegal start of type\s+import com\.qualcomm\.qti\.qms\.api\.mink\.IMinkObject;")
finding("H2-include-subdir", "include \"inc/b.idl\": file-level interface `extends inc/b`",
        case("x", [INC("inc/b.idl"), I("IX", [M("m", [IN("SB", "s")])])], extra_files=[_inc_b]),
        "javac generated", r"public interface main extends inc/b \{")

# ---- I. constants that do not fit the Java carrier type
def _cc(fid, title, c, sym, iface=False):
    nodes = [I("IC", [c, M("m", [IN("uint32", "x")])])] if iface else [c, I("IC", [M("m", [IN("uint32", "x")])])]
    finding(fid, title, case("x", nodes), "javac generated", sym)
_cc("I1-const-u8", "const uint8 K = 200", C("uint8", "K", "200"), r"possible lossy conversion from int to byte\s+byte K = 200;")
_cc("I2-const-u8-iface", "interface-level const uint8 K = 200", C("uint8", "K", "200"),
    r"possible lossy conversion from int to byte\s+byte IC_K = 200;", iface=True)
_cc("I3-const-i16-neg", "const int16 K = -1 (carrier char)", C("int16", "K", "-1"), r"possible lossy conversion from int to char\s+char K = -1;")
_cc("I4-const-u32-dec", "const uint32 K = 4294967295 (decimal)", C("uint32", "K", "4294967295"), r"integer number too large\s+int K = 4294967295;")
_cc("I5-const-u64", "const uint64 K = 0x100000000 (no L suffix)", C("uint64", "K", "0x100000000"), r"integer number too large\s+long K = 0x100000000;")
_cc("I6-const-i64", "const int64 K = -4294967297", C("int64", "K", "-4294967297"), r"integer number too large\s+long K = -4294967297;")
_cc("I7-const-f32", "const float32 K = 1.5 (no f suffix)", C("float32", "K", "1.5"), r"possible lossy conversion from double to float\s+float K = 1\.5;")

# ---- J. identifiers
finding("J1-param-names", "parameter named like a local of the generated skeleton (bi bo oi oo boSizes methodID mObj)",
        case("x", [I("IX", [M("m1", [IN("uint32", "bi")]), M("m2", [OUT("uint32", "bo")]), M("m3", [IN("interface", "oi")]),
                            M("m4", [OUT("interface", "oo")]), M("m5", [IN("uint32", "boSizes")]),
                            M("m6", [IN("uint32", "methodID")]), M("m7", [IN("uint32", "mObj")])])]),
        "javac generated", r"variable bi is already defined in method invoke", r"variable bo is already defined",
        r"variable oi is already defined", r"variable oo is already defined", r"variable boSizes is already defined",
        r"variable methodID is already defined", r"\(\(IX\)mObj\)\.m7\(mObj\);")
finding("J2-param-bundle-names", "bundled parameter named bundleIn / bundleOut",
        case("x", [I("IX", [M("m", [IN("uint32", "bundleIn"), IN("uint32", "y")]), M("n", [OUT("uint32", "bundleOut"), OUT("uint32", "y")])])]),
        "javac generated", r"variable bundleIn is already defined in method invoke", r"variable bundleOut is already defined in method invoke")
finding("J3-kw-param", "Java keyword as parameter name (final)",
        case("x", [I("IX", [M("m", [IN("uint32", "final")])])]), "javac generated", r"int final = ByteBuffer\.wrap")
finding("J4-kw-method", "Java keyword as method name (native)",
        case("x", [I("IX", [M("native", [IN("uint32", "x")])])]), "javac generated", r"void native\(int x_val\)")
finding("J5-kw-field", "Java keyword as struct member name (transient)",
        case("x", [S("SK", F("uint32", "transient")), I("IX", [M("m", [IN("SK", "s")])])]),
        "javac generated", r"s_val\.transient")
finding("J6-object-methods", "parameterless method named like a java.lang.Object method (wait notify hashCode toString)",
        case("x", [I("IX", [M("wait", []), M("notify", []), M("hashCode", []), M("toString", [])])]),
        "javac generated", r"wait\(\) in IX cannot override wait\(\) in Object", r"notify\(\) in IX cannot override",
        r"hashCode\(\) in IX cannot override", r"toString\(\) in IX cannot override")
finding("J7-struct-names", "struct named Proxy / MinkObject / ByteBuffer shadows what the generated code refers to",
        case("x", [S("Proxy", F("uint32", "a")), S("MinkObject", F("uint32", "a")), S("ByteBuffer", F("uint32", "a")),
                   I("IX", [M("m", [IN("Proxy", "s")])]), I("IY", [M("m", [IN("MinkObject", "s")])]),
                   I("IZ", [M("m", [IN("ByteBuffer", "s")])])]),
        "javac generated", r"location: variable s_val of type Proxy", r"location: variable s_val of type MinkObject",
        r"symbol:\s+method allocate\(int\)\s+location: class ByteBuffer")
# CASE-DEFINITIONS-END


def main():
    ap = argparse.ArgumentParser()
    ap.add_argument("--keep", action="store_true", help="keep work directories")
    ap.add_argument("--idlc", default=IDLC)
    ap.add_argument("--probe", default=PROBE)
    ap.add_argument("--only", default=None)
    ap.add_argument("--valuations", type=int, default=4)
    ap.add_argument("--seed", type=int, default=0)
    ap.add_argument("--no-findings", action="store_true")
    ap.add_argument("--dump", action="store_true", help="print every record")
    ap.add_argument("-v", "--verbose", action="store_true")
    ap.add_argument("-j", "--jobs", type=int, default=min(8, os.cpu_count() or 2))
    a = ap.parse_args()
    if a.dump:
        a.jobs = 1
    import concurrent.futures
    pool = concurrent.futures.ThreadPoolExecutor(max_workers=max(1, a.jobs))

    def submit(cs, **kw):
        st = Counter()
        return pool.submit(lambda: run_case(cs, a, st, a.dump, **kw) + (st,))

    sel_cases = [cs for cs in CASES if not a.only or cs["id"] == a.only]
    sel_find = [] if a.no_findings else [fd for fd in FINDINGS if not a.only or fd["id"] == a.only]
    fut_cases = [submit(cs) for cs in sel_cases]
    # findings always run with the valuations their recorded symptoms were taken from
    fut_find = [submit(fd["case"], valuations=4, seed=0) for fd in sel_find]
    stats = Counter()
    failures = 0
    total = 0
    t_all = time.time()
    print("== Part 1: constructs the generated Java handles correctly")
    for cs, fut in zip(sel_cases, fut_cases):
        total += 1
        stage, probs, (tb, tr), wd, st = fut.result()
        stats.update(st)
        print(f"{'ok  ' if stage == 'ok' else 'FAIL'} {cs['id']:14s} build {tb:5.2f}s run {tr:5.2f}s"
              + (f"  [{wd}]" if a.keep else ""))
        if probs:
            failures += 1
            for p in probs[: (400 if a.verbose else 12)]:
                print("     - " + p)
            if len(probs) > 12 and not a.verbose:
                print(f"     ... {len(probs) - 12} more")
    need = ["zero_in_buf", "zero_out_cap", "short_out_buf", "null_in_obj", "nonnull_in_obj", "null_out_obj",
            "nonnull_out_obj", "optional", "err_calls", "ok_calls"]
    if not a.only:
        for k in need:
            if stats[k] == 0:
                print(f"FAIL coverage: no call exercised {k}")
                failures += 1
    print(f"\n{total - min(failures, total)}/{total} cases ok; {stats['calls']} calls checked "
          f"({stats['ok_calls']} ok-status, {stats['err_calls']} error-status, {stats['optional']} optional), "
          f"{stats['refs']} refs records")
    print("coverage: " + ", ".join(f"{k}={stats[k]}" for k in need))
    print("parameter kinds exercised: " + ", ".join(f"{k[5:]}={v}" for k, v in sorted(stats.items()) if k.startswith("kind:")))

    changed = 0
    nfind = 0
    if not a.no_findings:
        print("\n== Part 2: recorded findings (generated Java is wrong; must still reproduce)")
        for fd, fut in zip(sel_find, fut_find):
            nfind += 1
            stage, probs, (tb, tr), wd, _ = fut.result()
            text = "\n".join(probs)
            missing = [s for s in fd["symptoms"] if not re.search(s, text, re.S)]
            okf = stage == fd["stage"] and not missing
            if not okf and stage == "idlc" and fd.get("rejected") and re.search(fd["rejected"], text):
                print(f"n/a  {fd['id']:22s} [idlc] construct is rejected by this idlc ({fd['rejected']}): {fd['title']}")
                nfind -= 1
                continue
            print(f"{'conf' if okf else 'CHANGED'} {fd['id']:22s} [{stage}] {fd['title']}"
                  + (f"  [{wd}]" if a.keep else ""))
            if not okf or a.verbose:
                if stage != fd["stage"]:
                    print(f"     expected stage {fd['stage']}, got {stage}")
                for s in missing:
                    print(f"     symptom not seen: {s}")
                for p in probs[: (400 if a.verbose else 8)]:
                    print("     - " + p.replace("\n", "\n       "))
            if not okf:
                changed += 1
        print(f"\n{nfind - changed}/{nfind} findings confirmed")
    print(f"total {time.time() - t_all:.1f}s")
    return 1 if failures or changed else 0


if __name__ == "__main__":
    sys.exit(main())
