"""Concrete argument values for bench calls (see SPEC.md section 3).

plan_method(case, iface, owner, method, val, rng) -> dict
  {"ins":  {name: value}, "outs": {name: value}, "caps": {name: elements}, "status": int,
   "tokens_in": [..], "tokens_out": [..]}

Value representations (Python):
  prim      {"k":"prim","type":T,"hex":"…"}                         little-endian image
  small/big {"k":"struct","type":S,"leaves":[{"path":"a.b[1]","type":T,"hex":…}|{"path":…,"type":"object","obj":tok|None}]}
  buffer    {"k":"buf","elem":"uint8"|T|S,"esize":n,"len":elements,"hex":"…"}   (buffer, prim array, struct array)
  obj       {"k":"obj","obj":tok|None}
  objarr    {"k":"objarr","objs":[tok|None,…]}
canon(value) gives the canonical JSON-able form printed by callers/implementations.
"""
import random
from . import idl

FLOATS32 = ["0000803f", "000000c0", "00000000", "db0f4940", "cdcc8c3f", "ffff7f7f", "00000080"]
FLOATS64 = ["000000000000f03f", "00000000000000c0", "0000000000000000", "182d4454fb210940",
            "9a9999999999f13f", "ffffffffffffef7f", "0000000000000080"]

GENERIC_ERRORS = [1, 2, 5]


def _prim_hex(t, rng, salt):
    n = idl.PRIMS[t]
    if t == "float32":
        return rng.choice(FLOATS32)
    if t == "float64":
        return rng.choice(FLOATS64)
    mode = rng.randrange(6)
    if mode == 0:
        b = bytes(n)
    elif mode == 1:
        b = bytes([0xFF] * n)
    elif mode == 2:
        b = bytes([0] * (n - 1) + [0x80])
    elif mode == 3:
        b = bytes([1] + [0] * (n - 1))
    else:
        # distinct bytes per offset so that any mis-offset is visible
        b = bytes(((salt * 16 + i + 1 + rng.randrange(3) * 64) & 0xFF) or 0x5A for i in range(n))
    return b.hex()


class _Tok:
    def __init__(self, base):
        self.n = base
        self.made = []

    def new(self):
        self.n += 1
        self.made.append(self.n)
        return self.n


def _obj(rng, tok, allow_null=True, alias_pool=None):
    r = rng.random()
    if allow_null and r < 0.25:
        return None
    if alias_pool and r > 0.85:
        return rng.choice(alias_pool)
    t = tok.new()
    if alias_pool is not None:
        alias_pool.append(t)
    return t


def _struct_value(case, sname, rng, tok, salt, alias_pool):
    lv = []
    for i, (path, lt) in enumerate(idl.leaves(case, sname)):
        p = ".".join(path)
        if lt == "object":
            lv.append({"path": p, "type": "object", "obj": _obj(rng, tok, True, alias_pool)})
        else:
            lv.append({"path": p, "type": lt, "hex": _prim_hex(lt, rng, salt + i)})
    return {"k": "struct", "type": sname, "leaves": lv}


def _buf_value(case, p, rng, salt, length):
    t = p["type"]
    if t == "buffer":
        elem, es = "uint8", 1
    elif t in idl.PRIMS:
        elem, es = t, idl.PRIMS[t]
    else:
        elem, es = t, idl.type_size(case, t)
    if t in idl.PRIMS and t.startswith("float"):
        hx = "".join(_prim_hex(t, rng, salt + i) for i in range(length))
    elif t in idl.PRIMS or t == "buffer":
        hx = bytes(((salt * 7 + i * 3 + 1) & 0xFF) for i in range(length * es)).hex()
    else:
        # struct array (object-free structs only): leaves laid out back to back
        hx = ""
        for j in range(length):
            for i, (path, lt) in enumerate(idl.leaves(case, t)):
                hx += _prim_hex(lt, rng, salt + i + j)
    return {"k": "buf", "elem": elem, "esize": es, "len": length, "hex": hx}


def make_value(case, p, rng, tok, salt, alias_pool, length=None):
    kind = idl.param_kind(case, p)
    if kind == "prim":
        return {"k": "prim", "type": p["type"], "hex": _prim_hex(p["type"], rng, salt)}
    if kind in ("small", "big"):
        return _struct_value(case, p["type"], rng, tok, salt, alias_pool)
    if kind in ("buffer", "primarr", "structarr"):
        if length is None:
            length = rng.choice([0, 1, 2, 3, 5, 8, 17])
        return _buf_value(case, p, rng, salt, length)
    if kind == "obj":
        return {"k": "obj", "obj": _obj(rng, tok, True, alias_pool)}
    if kind == "objarr":
        return {"k": "objarr", "objs": [_obj(rng, tok, True, alias_pool) for _ in range(int(p["arr"]))]}
    raise ValueError(kind)


def plan_method(case, iface, owner, method, val, seed=0):
    rng = random.Random(f"{seed}/{case.get('id')}/{iface}/{owner}/{method['name']}/{val}")
    tin, tout = _Tok(0), _Tok(100)
    ins, outs, caps = {}, {}, {}
    pool = [] if val >= 1 else None           # aliasing of input objects from valuation 1 on
    errs = idl.flat_errors(case, iface)
    if val == 2 and rng.random() < 0.8:
        status = rng.choice([v for (_, _, v) in errs] + GENERIC_ERRORS) if errs else rng.choice(GENERIC_ERRORS)
    else:
        status = 0
    for i, p in enumerate(method["params"]):
        kind = idl.param_kind(case, p)
        if p["dir"] == "in":
            ins[p["name"]] = make_value(case, p, rng, tin, i + 1 + 3 * val, pool)
        else:
            if kind in ("buffer", "primarr", "structarr"):
                cap = rng.choice([0, 1, 2, 4, 9, 16])
                caps[p["name"]] = cap
                ln = rng.randrange(cap + 1) if cap else 0
                if val == 0:
                    ln = cap
                outs[p["name"]] = make_value(case, p, rng, tout, i + 40 + 3 * val, None, length=ln)
            else:
                outs[p["name"]] = make_value(case, p, rng, tout, i + 40 + 3 * val, None)
    return {"ins": ins, "outs": outs, "caps": caps, "status": status,
            "tokens_in": tin.made, "tokens_out": tout.made}


def canon_obj(t):
    return "null" if t is None else f"t{t}"


def canon(v):
    k = v["k"]
    if k == "prim":
        return v["hex"]
    if k == "struct":
        return [canon_obj(l["obj"]) if l["type"] == "object" else l["hex"] for l in v["leaves"]]
    if k == "buf":
        return {"len": v["len"], "hex": v["hex"]}
    if k == "obj":
        return canon_obj(v["obj"])
    if k == "objarr":
        return [canon_obj(t) for t in v["objs"]]
    raise ValueError(k)
