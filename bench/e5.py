"""E5 concurrency bench (property C20): build + run the multi-threaded stress program.

    build(workdir, idlc, *, idl_text=None, opt=True, variant="locked")
        -> {"ok": bool, "units": [{"unit", "cmd", "rc", "stderr"}], "binary": path,
            "variant": str, "workdir": path}
    run(build_result, *, threads=8, ops=2000, seed=1, objects=4, timeout=120, spin=None, lend=True)
        -> {"rc": int, "events": [...], "end": {...} | None, "stderr": str, "cmd": [...]}

build() never raises for a tool failure: every tool invocation (idlc, rustc) is a *unit*
{"unit", "cmd", "rc", "stderr"}; "ok" is the conjunction of rc == 0 (and of the patch unit below).

variant="locked"  the generated code is compiled exactly as idlc wrote it.
variant="nolock"  NEGATIVE CONTROL: a *copy* of the generated files is patched so that the skeleton's
                  `(*cx).inner.lock()` becomes `crate::nolock::steal(&(*cx).inner)` (lock taken only
                  to fetch the address, released before the method body runs).  Everything else --
                  stub, wrapper, retain/release, the stress program -- is identical.

Layout inside workdir:
    conc.idl        the IDL
    gen/            idlc --rust output (icounter.rs, ipair.rs)
    gen_nolock/     patched copy (variant="nolock" only)
    main.rs         instantiated bench/conc/main.rs.tmpl
    conc            the binary

run() returns the events exactly as printed by the program (JSON objects sorted by "seq"); the
final {"ev":"end",...} record is the last element of "events" and also available as "end".
The event format is documented in bench/NOTES_conc.md.

Usable as `from bench import e5` or as a plain module / script:
    python3 bench/e5.py [--variant nolock] [--threads N --ops N --seed N --objects N] > history.jsonl
"""
import json
import os
import re
import subprocess

HERE = os.path.dirname(os.path.abspath(__file__))
TEMPLATE = os.path.join(HERE, "conc", "main.rs.tmpl")
REPO_RUST_OBJECT = "/repo/tests/src/object/mod.rs"
DEFAULT_IDLC = "/verif/.cache/target/debug/idlc"

DEFAULT_IDL = """\
interface ICounter {
  method inc(in uint32 by, out uint64 total);
  method get(out uint64 total);
  method slow(in uint32 spins, out uint64 total);
};

interface IPair : ICounter {
  method both(in uint32 a, in uint32 b, out uint64 total);
};
"""

# number of `(*cx).inner.lock()` sites idlc emits: one per flattened method of each interface
# (ICounter: 3, IPair: 1 own + 3 inherited)
_LOCK_RE = re.compile(r"\(\s*\*\s*cx\s*\)\s*\.\s*inner\s*\.\s*lock\s*\(\s*\)")
_MODS = ("icounter", "ipair")


def _run(unit, cmd, cwd=None, timeout=300):
    env = dict(os.environ)
    env["RUST_BACKTRACE"] = "0"
    try:
        p = subprocess.run(cmd, cwd=cwd, stdout=subprocess.PIPE, stderr=subprocess.PIPE,
                           timeout=timeout, env=env)
        rc = p.returncode
        err = p.stderr.decode("utf-8", "replace")
        out = p.stdout.decode("utf-8", "replace")
        if out.strip():
            err = err + out
    except subprocess.TimeoutExpired:
        rc, err = -999, "timeout"
    except OSError as e:
        rc, err = -998, f"cannot execute: {e}"
    return {"unit": unit, "cmd": list(cmd), "rc": rc, "stderr": err}


def _write(path, text):
    os.makedirs(os.path.dirname(path), exist_ok=True)
    with open(path, "w") as fh:
        fh.write(text)


def _patch_nolock(gen, dst):
    """copy gen/*.rs to dst/ with the body lock removed; returns a unit"""
    os.makedirs(dst, exist_ok=True)
    total, detail = 0, []
    for mod in _MODS:
        src = os.path.join(gen, mod + ".rs")
        try:
            with open(src) as fh:
                text = fh.read()
        except OSError as e:
            return {"unit": "patch nolock", "cmd": ["<python>"], "rc": 1, "stderr": str(e)}
        text, n = _LOCK_RE.subn("crate::nolock::steal(&(*cx).inner)", text)
        total += n
        detail.append(f"{mod}.rs: {n} lock site(s) rewritten")
        _write(os.path.join(dst, mod + ".rs"), text)
    rc = 0 if total > 0 else 1
    msg = "; ".join(detail) + ("" if rc == 0 else " -- nothing to patch, generator changed?")
    return {"unit": "patch nolock", "cmd": ["<python>"], "rc": rc, "stderr": msg}


def build(workdir, idlc=DEFAULT_IDLC, *, idl_text=None, opt=True, variant="locked"):
    if variant not in ("locked", "nolock"):
        raise ValueError(f"unknown variant {variant!r}")
    workdir = os.path.abspath(workdir)
    os.makedirs(workdir, exist_ok=True)
    units = []
    binary = os.path.join(workdir, "conc")
    res = {"ok": False, "units": units, "binary": binary, "variant": variant, "workdir": workdir}

    idl_path = os.path.join(workdir, "conc.idl")
    _write(idl_path, DEFAULT_IDL if idl_text is None else idl_text)
    gen = os.path.join(workdir, "gen")
    os.makedirs(gen, exist_ok=True)
    for mod in _MODS:  # never compile a stale file of an earlier build
        try:
            os.remove(os.path.join(gen, mod + ".rs"))
        except OSError:
            pass
    u = _run("idlc --rust", [idlc, idl_path, "--rust", "-o", gen])
    units.append(u)
    if u["rc"] != 0:
        return res
    missing = [m for m in _MODS if not os.path.exists(os.path.join(gen, m + ".rs"))]
    if missing:
        units.append({"unit": "idlc output", "cmd": ["<python>"], "rc": 1,
                      "stderr": "missing generated file(s): " + ", ".join(m + ".rs" for m in missing)})
        return res

    gen_used = gen
    if variant == "nolock":
        gen_used = os.path.join(workdir, "gen_nolock")
        u = _patch_nolock(gen, gen_used)
        units.append(u)
        if u["rc"] != 0:
            return res

    with open(TEMPLATE) as fh:
        main_rs = fh.read()
    main_rs = (main_rs.replace("@OBJECT_MOD@", REPO_RUST_OBJECT)
                      .replace("@GEN_DIR@", gen_used)
                      .replace("@VARIANT@", variant))
    main_path = os.path.join(workdir, "main.rs")
    _write(main_path, main_rs)

    cmd = ["rustc", "--edition", "2021", "--cfg", 'feature="std"', "-C", "debuginfo=0"]
    if opt:
        # opt-level 2 without debug assertions: what a release build of a user crate would get
        cmd += ["-C", "opt-level=2"]
    else:
        cmd += ["-C", "opt-level=0", "-C", "debug-assertions=on"]
    cmd += ["--crate-name", "conc", main_path, "-o", binary]
    u = _run("rustc main.rs", cmd, cwd=workdir)
    units.append(u)
    res["ok"] = all(x["rc"] == 0 for x in units) and os.path.exists(binary)
    return res


def run(build_result, *, threads=8, ops=2000, seed=1, objects=4, timeout=120, spin=None, lend=True):
    cmd = [build_result["binary"], "--threads", str(threads), "--ops", str(ops),
           "--seed", str(seed), "--objects", str(objects), "--lend", "1" if lend else "0"]
    if spin is not None:
        cmd += ["--spin", str(spin)]
    env = dict(os.environ)
    env["RUST_BACKTRACE"] = "0"
    out = b""
    try:
        p = subprocess.run(cmd, stdout=subprocess.PIPE, stderr=subprocess.PIPE, timeout=timeout,
                           env=env)
        rc, out, err = p.returncode, p.stdout, p.stderr.decode("utf-8", "replace")
    except subprocess.TimeoutExpired as e:
        rc, out = -999, (e.stdout or b"")
        err = "timeout\n" + (e.stderr or b"").decode("utf-8", "replace")
    except OSError as e:
        rc, err = -998, f"cannot execute: {e}"
    events, bad = [], 0
    for line in out.decode("utf-8", "replace").splitlines():
        line = line.strip()
        if not line:
            continue
        try:
            events.append(json.loads(line))
        except ValueError:
            bad += 1
            err += f"unparsable output line: {line[:200]}\n"
    end = events[-1] if events and events[-1].get("ev") == "end" else None
    return {"rc": rc, "events": events, "end": end, "stderr": err, "cmd": cmd}


def _main(argv):
    import argparse
    import sys
    import tempfile
    ap = argparse.ArgumentParser(description="build and run the C20 stress program, print the history")
    ap.add_argument("--workdir")
    ap.add_argument("--idlc", default=DEFAULT_IDLC)
    ap.add_argument("--variant", default="locked", choices=("locked", "nolock"))
    ap.add_argument("--no-opt", action="store_true")
    ap.add_argument("--threads", type=int, default=8)
    ap.add_argument("--ops", type=int, default=2000)
    ap.add_argument("--seed", type=int, default=1)
    ap.add_argument("--objects", type=int, default=4)
    ap.add_argument("--spin", type=int)
    ap.add_argument("--no-lend", action="store_true")
    a = ap.parse_args(argv)
    tmp = None
    if a.workdir is None:
        tmp = tempfile.TemporaryDirectory(prefix="e5_")
        a.workdir = tmp.name
    try:
        b = build(a.workdir, a.idlc, opt=not a.no_opt, variant=a.variant)
        if not b["ok"]:
            for u in b["units"]:
                if u["rc"] != 0:
                    sys.stderr.write(f"[{u['unit']}] rc={u['rc']}\n{u['stderr']}\n")
            return 2
        r = run(b, threads=a.threads, ops=a.ops, seed=a.seed, objects=a.objects, spin=a.spin,
                lend=not a.no_lend)
        for e in r["events"]:
            sys.stdout.write(json.dumps(e, separators=(",", ":")) + "\n")
        sys.stderr.write(r["stderr"])
        return 0 if r["rc"] == 0 else 1
    finally:
        if tmp is not None:
            tmp.cleanup()


if __name__ == "__main__":
    import sys
    sys.exit(_main(sys.argv[1:]))
