#!/usr/bin/env python3
"""Self-test of the C side of the E2 bench (runtime + gen_c + e2), c -> c only.

    python3 /verif/bench/selftest_c.py [--quick] [--keep] [--idlc PATH] [--only CASEID] [-v]

For every case and configuration (gcc; gcc+ASan/UBSan; clang+ASan/UBSan; gcc untyped) it
builds and runs the bench and checks, per call:
  * `impl.ins` (minus outcap) == values.canon of the planned inputs, `outcap` == planned caps
  * `ret.status/outs/lenouts` == planned status / canon of planned outputs / planned lengths
    (optional methods: no impl record, status Object_ERROR_INVALID)
  * every `refs` record ends with count 0 and the token set is exactly what was planned
  * envelope op == flattened op id; the run ends with the `end` record, rc 0, empty stderr
Exit status 0 iff everything matched.
"""
import argparse
import os
import shutil
import sys
import tempfile
import time

sys.path.insert(0, os.path.dirname(os.path.dirname(os.path.abspath(__file__))))
from bench import e2, idl, values  # noqa: E402

IDLC = "/verif/.cache/target/debug/idlc"


# ------------------------------------------------------------------ case construction helpers

def P(d, t, n, arr=None):
    return {"dir": d, "type": t, "arr": arr, "name": n}


def IN(t, n, arr=None):
    return P("in", t, n, arr)


def OUT(t, n, arr=None):
    return P("out", t, n, arr)


def M(name, params, optional=False, doc=None):
    return {"k": "method", "name": name, "optional": optional, "doc": doc, "params": params}


def F(t, n, count=1):
    return {"type": t, "count": count, "name": n}


def S(name, *fields):
    return {"k": "struct", "name": name, "fields": list(fields)}


def I(name, members, base=None):
    return {"k": "interface", "name": name, "base": base, "members": members}


def E(name):
    return {"k": "error", "name": name}


def case(cid, nodes, extra_files=(), incdirs=()):
    return {"id": cid, "main": "main.idl", "incdirs": list(incdirs),
            "files": [{"path": "main.idl", "nodes": nodes}] + list(extra_files)}


U = "unbounded"

CASES = []

# 1. primitives in / out, alone and bundled (>= 2 per direction), every primitive type
CASES.append(case("prims", [
    I("IPrim", [
        E("E_ONE"), E("E_TWO"),
        M("in1", [IN("uint32", "x")]),
        M("out1", [OUT("uint32", "y")]),
        M("inout1", [IN("uint8", "x"), OUT("uint64", "y")]),
        M("in2", [IN("uint8", "a"), IN("uint32", "b")]),
        M("out2", [OUT("uint16", "a"), OUT("uint64", "b")]),
        M("mix", [IN("uint16", "a"), OUT("int8", "b"), IN("int64", "c"), OUT("int32", "d"),
                  IN("int16", "e"), OUT("uint8", "f")]),
        M("floats", [IN("float32", "f"), IN("float64", "d"), OUT("float64", "od"), OUT("float32", "of")]),
        M("alltypes", [IN(t, "i_" + t) for t in idl.PRIM_ORDER] + [OUT(t, "o_" + t) for t in idl.PRIM_ORDER]),
        M("nothing", []),
    ]),
]))

# 2. buffers and primitive arrays in / out (zero lengths are forced by coverage check below)
CASES.append(case("bufs", [
    I("IBuf", [
        E("E_BUF"),
        M("bin", [IN("buffer", "x")]),
        M("bout", [OUT("buffer", "y")]),
        M("binout", [IN("buffer", "x"), OUT("buffer", "y")]),
        M("b3", [IN("buffer", "x1"), IN("buffer", "x2"), OUT("buffer", "y1"), OUT("buffer", "y2"), IN("buffer", "x3")]),
        M("bprim", [IN("buffer", "x"), IN("uint32", "p"), OUT("buffer", "y"), OUT("uint16", "q")]),
        M("bbundle", [IN("buffer", "x"), IN("uint32", "p"), IN("uint8", "p2"), OUT("buffer", "y"),
                      OUT("uint16", "q"), OUT("uint64", "q2")]),
        M("arr16", [IN("uint16", "x", U), OUT("uint16", "y", U)]),
        M("arr64", [IN("uint64", "x", U), OUT("int64", "y", U)]),
        M("arrf", [IN("float32", "x", U), OUT("float64", "y", U)]),
        M("arrmix", [IN("uint8", "a", U), IN("int32", "b", U), OUT("uint32", "c", U), IN("buffer", "d"),
                     OUT("int8", "e", U)]),
    ]),
]))

# 3. small structs (sizes 1, 4, 8, 12, 16) alone and bundled; S12 only with <= 4-byte mates
SMALL = [
    S("S1", F("uint8", "a")),
    S("S4", F("uint16", "a"), F("uint8", "b", 2)),
    S("S8", F("uint32", "a"), F("uint16", "b"), F("int8", "c"), F("uint8", "d")),
    S("S12", F("uint32", "a", 3)),
    S("S16", F("uint64", "a"), F("uint32", "b"), F("uint16", "c", 2)),
    S("N8", F("S4", "in1"), F("S1", "in2", 4)),
]
CASES.append(case("small", SMALL + [
    I("ISmall", [
        E("E_S"),
        M("i1", [IN("S1", "x")]), M("o1", [OUT("S1", "y")]),
        M("i4", [IN("S4", "x")]), M("o4", [OUT("S4", "y")]),
        M("i8", [IN("S8", "x")]), M("o8", [OUT("S8", "y")]),
        M("i12", [IN("S12", "x")]), M("o12", [OUT("S12", "y")]),
        M("i16", [IN("S16", "x")]), M("o16", [OUT("S16", "y")]),
        M("n8", [IN("N8", "x"), OUT("N8", "y")]),
        M("b_1_4", [IN("S1", "a"), IN("S4", "b"), OUT("S4", "c"), OUT("S1", "d")]),
        M("b_8_16", [IN("S8", "a"), IN("S16", "b"), OUT("S16", "c"), OUT("S8", "d")]),
        M("b_12_p", [IN("S12", "a"), IN("uint32", "p"), OUT("S12", "c"), OUT("uint16", "q")]),
        M("b_16_p", [IN("S16", "a"), IN("uint64", "p"), IN("uint8", "p1"), OUT("uint64", "q"), OUT("S16", "c")]),
        M("b_all", [IN("S16", "a"), IN("S8", "b"), IN("S4", "c"), IN("S1", "d"),
                    OUT("S16", "oa"), OUT("S8", "ob"), OUT("S4", "oc"), OUT("S1", "od")]),
        M("b_buf", [IN("S4", "a"), IN("buffer", "buf"), IN("uint8", "p"), OUT("buffer", "obuf"), OUT("S8", "ob"),
                    OUT("uint32", "q")]),
    ]),
]))

# 4. big structs (> 16 bytes) in / out, nested, with arrays; struct arrays
BIG = [
    S("B24", F("uint64", "a"), F("uint32", "b"), F("uint32", "c"), F("uint64", "d")),
    S("In2", F("uint8", "a"), F("uint8", "b")),
    S("B40", F("uint8", "a", 2), F("In2", "c", 2), F("uint16", "d"), F("B24", "e"), F("float32", "f"),
      F("int32", "g")),
    S("S4", F("uint32", "inner")),
]
CASES.append(case("big", BIG + [
    I("IBig", [
        E("E_B"),
        M("bi", [IN("B24", "x")]), M("bo", [OUT("B24", "y")]),
        M("bio", [IN("B24", "x"), OUT("B40", "y")]),
        M("b2", [IN("B40", "x1"), IN("B24", "x2"), OUT("B24", "y1"), OUT("B40", "y2")]),
        M("bmix", [IN("S4", "s"), IN("uint32", "magic"), IN("B24", "big"), OUT("B24", "obig"),
                   OUT("uint8", "q"), IN("buffer", "buf")]),
        M("sa_in", [IN("B24", "x", U)]),
        M("sa_out", [OUT("B24", "y", U)]),
        M("sa_io", [IN("B40", "x", U), OUT("In2", "y", U), IN("S4", "z", U)]),
    ]),
]))

# 5. objects: generic and typed, in / out, arrays
CASES.append(case("objs", [
    I("IOther", [M("ping", [])]),
    I("IObj", [
        E("E_O"),
        M("gi", [IN("interface", "x")]), M("go", [OUT("interface", "y")]),
        M("ti", [IN("IOther", "x")]), M("to", [OUT("IOther", "y")]),
        M("self", [IN("IObj", "x"), OUT("IObj", "y")]),
        M("many", [IN("interface", "ga"), IN("IOther", "tb"), OUT("interface", "gc"), IN("IObj", "sd"),
                   OUT("IOther", "te"), OUT("IObj", "sf")]),
        M("withdata", [IN("uint32", "p"), IN("IOther", "o"), OUT("buffer", "buf"), OUT("IOther", "oo"),
                       IN("buffer", "ib"), OUT("uint16", "q")]),
        M("ai", [IN("IOther", "x", 3)]),
        M("ao", [OUT("IOther", "y", 3)]),
        M("aio", [IN("IOther", "x", 3), OUT("IObj", "y", 3)]),
        M("ai_g", [IN("interface", "x", 2), IN("uint8", "p"), OUT("uint32", "q")]),
    ]),
]))

# 6. big structs containing objects (like ObjInStruct of /repo/tests/idl/ITest.idl); only the
#    shapes whose slot order is canonical (see NOTES_c.md for the ones that are not)
CASES.append(case("objstruct", [
    I("IT", [M("ping", [])]),
    S("OS", F("uint32", "p1", 4), F("IT", "first_obj"), F("uint32", "p2", 4), F("IT", "should_be_empty"),
      F("uint32", "p3", 4), F("IT", "second_obj")),
    S("OG", F("uint64", "a", 2), F("interface", "g"), F("uint32", "b", 4)),
    I("IOS", [
        E("E_OS"),
        M("os_in", [IN("OS", "x")]),
        M("os_out", [OUT("OS", "y")]),
        M("og_in", [IN("OG", "x")]),
        M("og_out", [OUT("OG", "y")]),
        M("os_in_obj", [IN("OS", "x"), IN("IT", "o")]),
        M("os_out_obj", [OUT("OS", "y"), OUT("IT", "o")]),
        M("data_then_os", [IN("buffer", "b"), IN("OS", "x")]),
    ]),
]))

# 7. inheritance (three levels), optional methods, errors on every level, docs, include
CASES.append(case("inherit", [
    {"k": "include", "path": "types.idl"},
    I("IBase", [
        E("E_BASE"),
        M("b0", [IN("uint32", "x"), OUT("uint32", "y")]),
        M("bopt", [IN("uint8", "z")], optional=True),
        M("b1", [IN("T8", "t"), OUT("buffer", "buf")]),
    ]),
    I("IMid", [
        E("E_MID"), E("E_MID2"),
        M("m0", [IN("IBase", "o"), OUT("IMid", "p")], doc="  * documented method\n  "),
        M("mopt", [IN("uint32", "x"), OUT("uint32", "y")], optional=True),
    ], base="IBase"),
    I("ILeaf", [
        E("E_LEAF"),
        M("l0", [IN("TBig", "t"), OUT("TBig", "u"), IN("uint16", "k")]),
        M("l1", [IN("ILeaf", "me"), IN("IBase", "base"), OUT("IMid", "mid")]),
    ], base="IMid"),
], extra_files=[{"path": "inc/types.idl", "nodes": [
    {"k": "const", "type": "uint32", "name": "K", "value": "0x10"},
    S("T8", F("uint32", "a"), F("uint32", "b")),
    S("TBig", F("uint64", "a"), F("T8", "t", 2), F("uint8", "z", 8)),
]}], incdirs=["inc"]))

# 8. upstream's own ITest1 surface minus objects_in_struct (non-canonical slot order)
CASES.append(case("itest", [
    S("F1", F("uint32", "a")),
    S("SingleEncapsulated", F("uint32", "inner")),
    S("Collection", F("uint64", "a"), F("uint32", "b"), F("uint32", "c"), F("uint64", "d")),
    S("F2", F("uint8", "a"), F("uint8", "b")),
    S("ArrInStruct", F("uint8", "a", 2), F("F2", "c", 2), F("uint16", "d")),
    {"k": "const", "type": "uint32", "name": "SUCCESS_FLAG", "value": "0xdead"},
    I("ITest1", [
        E("CUSTOM_1"), E("CUSTOM_ME_ARE_TWO"), E("MISMATCH"),
        M("test_f1", [IN("uint32", "a"), OUT("uint32", "b")]),
        M("in_struct", [IN("Collection", "input")]),
        M("out_struct", [OUT("Collection", "output")]),
        M("in_small_struct", [IN("SingleEncapsulated", "input")]),
        M("out_small_struct", [OUT("SingleEncapsulated", "output")]),
        M("single_primitive_in", [IN("buffer", "unused"), OUT("buffer", "unused2"), IN("uint32", "input")]),
        M("single_primitive_out", [IN("buffer", "unused"), OUT("buffer", "unused2"), OUT("uint32", "output")]),
        M("multiple_primitive", [IN("buffer", "unused"), OUT("buffer", "unused2"), IN("uint16", "input"),
                                 OUT("uint16", "output"), IN("interface", "unused3"), OUT("interface", "unused4"),
                                 IN("uint32", "input2"), OUT("uint64", "output2"), OUT("buffer", "unused5")]),
        M("primitive_plus_struct_in", [IN("SingleEncapsulated", "encapsulated"), IN("uint32", "magic")]),
        M("primitive_plus_struct_out", [OUT("SingleEncapsulated", "encapsulated"), OUT("uint32", "magic")]),
        M("primitive_array_in_struct", [OUT("ArrInStruct", "input_a"), OUT("uint32", "input_b")]),
        M("bundled_with_unbundled", [IN("SingleEncapsulated", "bundled"), IN("uint32", "magic"),
                                     IN("Collection", "unbundled")]),
        M("struct_array_in", [IN("Collection", "s_in", U)]),
        M("struct_array_out", [OUT("Collection", "s_out", U)]),
        M("well_documented_method", [IN("uint32", "foo"), OUT("uint32", "bar")],
          doc="  * This documentation serves a purpose.\n  *\n  "),
        M("test_obj_array_in", [IN("ITest1", "o_in", 3), OUT("uint32", "a")]),
        M("test_obj_array_out", [OUT("ITest1", "out", 3), OUT("uint32", "a")]),
        M("unimplemented", [IN("uint32", "foo")], optional=True),
    ]),
    I("ITest2", [E("my_custom_error"), M("entrypoint", [IN("ITest1", "o")])]),
]))


# ------------------------------------------------------------------ checking

def plan_tokens(plan):
    tin = set()

    def walk(v, acc):
        k = v["k"]
        if k == "obj" and v["obj"] is not None:
            acc.add(v["obj"])
        elif k == "objarr":
            acc.update(t for t in v["objs"] if t is not None)
        elif k == "struct":
            acc.update(l["obj"] for l in v["leaves"] if l["type"] == "object" and l["obj"] is not None)

    for v in plan["ins"].values():
        walk(v, tin)
    tout = set()
    if plan["status"] == 0:
        for v in plan["outs"].values():
            walk(v, tout)
    return tin, tout


def check_run(b, r, stats):
    """returns list of problem strings"""
    probs = []
    if r["rc"] != 0:
        probs.append(f"exit code {r['rc']} (last call {r['last_call']})")
    if r["stderr"].strip():
        probs.append("stderr not empty: " + r["stderr"][:1500])
    if r["junk"]:
        probs.append(f"non-JSON stdout lines: {r['junk'][:3]}")
    if not r["records"] or r["records"][-1].get("ev") != "end":
        probs.append("no end record")
    calls = {(c["iface"], c["method"]): c for c in b["plan"]["calls"]}
    groups = e2.split_calls(r["records"])
    expected = len(calls) * b["plan"]["valuations"] * len(b["plan"]["langs"]) ** 2
    if len(groups) != expected:
        probs.append(f"{len(groups)} call groups, expected {expected}")
    for g in groups:
        c = g["call"]
        where = f"{c['iface']}.{c['method']} val {c['val']} {c['stub']}->{c['skel']}"
        pc = calls[(c["iface"], c["method"])]
        plan = pc["vals"][c["val"]]
        by = {}
        for rec in g["records"]:
            by.setdefault(rec["ev"], []).append(rec)
        stats["calls"] += 1
        for ev in ("envelope", "reply", "ret"):
            if len(by.get(ev, [])) != 1:
                probs.append(f"{where}: {len(by.get(ev, []))} {ev} records")
        if by.get("envelope") and by["envelope"][0]["op"] != pc["op"]:
            probs.append(f"{where}: op {by['envelope'][0]['op']} != {pc['op']}")
        ret = (by.get("ret") or [{}])[0]
        impls = by.get("impl", [])
        if pc["optional"]:
            stats["optional"] += 1
            if impls:
                probs.append(f"{where}: optional method reached an implementation")
            if ret.get("status") != 2 or ret.get("outs") != {} or ret.get("lenouts") != {}:
                probs.append(f"{where}: optional method ret {ret}")
            exp_tok = plan_tokens(plan)[0]
        else:
            if len(impls) != 1:
                probs.append(f"{where}: {len(impls)} impl records")
            else:
                ins = dict(impls[0]["ins"])
                outcap = ins.pop("outcap", None)
                want = {n: values.canon(v) for n, v in plan["ins"].items()}
                if ins != want:
                    probs.append(f"{where}: impl ins {ins} != planned {want}")
                if list(ins.keys()) != [p["name"] for p in pc["params"] if p["dir"] == "in"]:
                    probs.append(f"{where}: impl ins key order {list(ins.keys())}")
                if outcap != plan["caps"]:
                    probs.append(f"{where}: outcap {outcap} != planned {plan['caps']}")
            if ret.get("status") != plan["status"]:
                probs.append(f"{where}: status {ret.get('status')} != planned {plan['status']}")
            if plan["status"] == 0:
                stats["ok_calls"] += 1
                want = {n: values.canon(v) for n, v in plan["outs"].items()}
                if ret.get("outs") != want:
                    probs.append(f"{where}: outs {ret.get('outs')} != planned {want}")
                wl = {n: v["len"] for n, v in plan["outs"].items() if v["k"] == "buf"}
                if ret.get("lenouts") != wl:
                    probs.append(f"{where}: lenouts {ret.get('lenouts')} != planned {wl}")
            else:
                stats["err_calls"] += 1
                if ret.get("outs") != {} or ret.get("lenouts") != {}:
                    probs.append(f"{where}: outputs reported on error: {ret}")
            tin, tout = plan_tokens(plan)
            exp_tok = tin | tout
        refs = by.get("refs", [])
        for rr in refs:
            stats["refs"] += 1
            if rr["count"] != 0:
                probs.append(f"{where}: token {rr['token']} ends with count {rr['count']} "
                             f"(retains {rr['retains']}, releases {rr['releases']})")
        got_tok = sorted(rr["token"] for rr in refs)
        if got_tok != sorted(exp_tok):
            probs.append(f"{where}: refs tokens {got_tok} != planned {sorted(exp_tok)}")
        # coverage statistics
        for v in plan["ins"].values():
            if v["k"] == "buf" and v["len"] == 0:
                stats["zero_in_buf"] += 1
            if v["k"] == "obj":
                stats["null_in_obj" if v["obj"] is None else "nonnull_in_obj"] += 1
        if plan["status"] == 0 and not pc["optional"]:
            for n, v in plan["outs"].items():
                if v["k"] == "buf" and plan["caps"][n] == 0:
                    stats["zero_out_cap"] += 1
                if v["k"] == "buf" and v["len"] < plan["caps"][n]:
                    stats["short_out_buf"] += 1
                if v["k"] == "obj":
                    stats["null_out_obj" if v["obj"] is None else "nonnull_out_obj"] += 1
        if len(set(exp_tok)) < sum(1 for _ in _all_in_tokens(plan)):
            stats["aliased_in_obj"] += 1
    return probs


def _all_in_tokens(plan):
    for v in plan["ins"].values():
        if v["k"] == "obj" and v["obj"] is not None:
            yield v["obj"]
        elif v["k"] == "objarr":
            yield from (t for t in v["objs"] if t is not None)
        elif v["k"] == "struct":
            yield from (l["obj"] for l in v["leaves"] if l["type"] == "object" and l["obj"] is not None)


CONFIGS = [
    ("gcc", dict(cc="gcc")),
    ("gcc+san", dict(cc="gcc", sanitize=True)),
    ("clang+san", dict(cc="clang", sanitize=True)),
    ("gcc untyped", dict(cc="gcc", typed=False)),
]


def main():
    ap = argparse.ArgumentParser()
    ap.add_argument("--quick", action="store_true", help="gcc configuration only")
    ap.add_argument("--keep", action="store_true", help="keep work directories")
    ap.add_argument("--idlc", default=IDLC)
    ap.add_argument("--only", default=None)
    ap.add_argument("--valuations", type=int, default=4)
    ap.add_argument("-v", "--verbose", action="store_true")
    a = ap.parse_args()
    from collections import Counter
    stats = Counter()
    failures = 0
    total = 0
    configs = CONFIGS[:1] if a.quick else CONFIGS
    t_all = time.time()
    for cs in CASES:
        if a.only and cs["id"] != a.only:
            continue
        for cname, kw in configs:
            wd = tempfile.mkdtemp(prefix=f"e2c-{cs['id']}-", dir="/tmp")
            total += 1
            try:
                t0 = time.time()
                b = e2.build(cs, wd, a.idlc, langs=("c",), valuations=a.valuations, **kw)
                t1 = time.time()
                probs = []
                if not b["ok"]:
                    for u in b["units"]:
                        if u["rc"] != 0:
                            probs.append(f"unit {u['unit']} rc {u['rc']}: {u['stderr'][:2000]}")
                else:
                    r = e2.run(b)
                    probs = check_run(b, r, stats)
                t2 = time.time()
                status = "ok  " if not probs else "FAIL"
                print(f"{status} {cs['id']:10s} {cname:12s} build {t1 - t0:5.2f}s run {t2 - t1:5.2f}s"
                      + (f"  [{wd}]" if a.keep else ""))
                if probs:
                    failures += 1
                    for p in probs[: (200 if a.verbose else 12)]:
                        print("     - " + p)
                    if len(probs) > 12 and not a.verbose:
                        print(f"     ... {len(probs) - 12} more")
            finally:
                if not a.keep:
                    shutil.rmtree(wd, ignore_errors=True)
    # only_compile mode (C11 helper): every unit incl. the trivial user TUs compiles, no binary
    if not a.only:
        wd = tempfile.mkdtemp(prefix="e2c-oc-", dir="/tmp")
        total += 1
        try:
            b = e2.build(CASES[-1], wd, a.idlc, langs=("c",), only_compile=True)
            names = [u["unit"] for u in b["units"]]
            okc = b["ok"] and b["binary"] is None and any(n.startswith("cc user_c_") for n in names)
            print(("ok  " if okc else "FAIL") + " only_compile units: " + ", ".join(names))
            failures += 0 if okc else 1
            if not okc:
                for u in b["units"]:
                    if u["rc"] != 0:
                        print("     - ", u["unit"], u["stderr"][:1500])
        finally:
            if not a.keep:
                shutil.rmtree(wd, ignore_errors=True)
    # coverage the selftest promises
    need = ["zero_in_buf", "zero_out_cap", "short_out_buf", "null_in_obj", "nonnull_in_obj", "null_out_obj",
            "nonnull_out_obj", "optional", "err_calls", "ok_calls", "aliased_in_obj"]
    if not a.only:
        for k in need:
            if stats[k] == 0:
                print(f"FAIL coverage: no call exercised {k}")
                failures += 1
    print(f"\n{total - failures if failures <= total else 0}/{total} builds ok; "
          f"{stats['calls']} calls checked ({stats['ok_calls']} ok-status, {stats['err_calls']} error-status, "
          f"{stats['optional']} optional), {stats['refs']} refs records; {time.time() - t_all:.1f}s")
    print("coverage: " + ", ".join(f"{k}={stats[k]}" for k in need))
    return 1 if failures else 0


if __name__ == "__main__":
    sys.exit(main())
