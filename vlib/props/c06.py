"""C06 — struct sizes and field offsets assumed by the compiler equal the target layouts."""
import concurrent.futures as cf
import os
import re
import subprocess

from bench import idl
from .. import common as C
from .. import engines as E
from .. import gen
from .. import findings as F
from .numbering import finish

RUST_KW = {"type", "fn", "match", "loop", "self", "mod", "use", "impl", "trait", "struct", "enum", "ref", "move", "box"}


def packed(case, sname):
    """(offsets by field name, size) the compiler assumes: summed sizes of the fields before"""
    st = idl.struct_table(case)
    off, offs = 0, {}
    for f in st[sname]["fields"]:
        offs[f["name"]] = off
        off += idl.type_size(case, f["type"]) * f.get("count", 1)
    return offs, off


def c_align(case, t):
    st = idl.struct_table(case)
    if t in idl.PRIMS:
        return idl.PRIMS[t]
    if t == "interface" or t in idl.iface_table(case):
        return 8
    return max(c_align(case, f["type"]) for f in st[t]["fields"])


def natural(case, sname):
    """the SysV layout, evaluated independently (used for the known-finding classifier only)"""
    st = idl.struct_table(case)
    off, offs = 0, {}
    for f in st[sname]["fields"]:
        a = c_align(case, f["type"])
        off = (off + a - 1) // a * a
        offs[f["name"]] = off
        off += natural(case, f["type"])[1] * f.get("count", 1) if f["type"] in st else idl.type_size(case, f["type"]) * f.get("count", 1)
    a = c_align(case, sname)
    return offs, (off + a - 1) // a * a


def c_probe(case, structs, header, is_cpp):
    lines = ["#include <stdio.h>", "#include <stddef.h>", f'#include "{header}"', "int main(void) {"]
    st = idl.struct_table(case)
    for s in structs:
        lines.append(f'  printf("{s} size %zu\\n", sizeof({s}));')
        for f in st[s]["fields"]:
            lines.append(f'  printf("{s} off {f["name"]} %zu\\n", offsetof({s}, {f["name"]}));')
    lines += ["  return 0;", "}"]
    return "\n".join(lines) + "\n"


def rust_probe(case, structs, gen_dir, mods):
    st = idl.struct_table(case)
    lines = ["#![allow(unused, nonstandard_style)]", '#[path = "/repo/tests/src/object/mod.rs"] pub mod object;',
             "pub mod interfaces {"]
    for m in mods:
        lines.append(f'    pub mod {m} {{ include!("{gen_dir}/{m}.rs"); }}')
    lines += ["}", "fn main() {"]
    for s in structs:
        lines.append(f'    println!("{s} size {{}}", std::mem::size_of::<crate::interfaces::main::r#{s}>());')
        for f in st[s]["fields"]:
            fname = "r#" + f["name"]
            lines.append(f'    println!("{s} off {f["name"]} {{}}", std::mem::offset_of!(crate::interfaces::main::r#{s}, {fname}));')
    lines.append("}")
    return "\n".join(lines) + "\n"


def parse_probe(out):
    res = {}
    for l in out.splitlines():
        p = l.split()
        if len(p) == 3 and p[1] == "size":
            res.setdefault(p[0], {"offs": {}})["size"] = int(p[2])
        elif len(p) == 4 and p[1] == "off":
            res.setdefault(p[0], {"offs": {}})["offs"][p[2]] = int(p[3])
    return res


def run_tool(cmd, cwd=None):
    p = subprocess.run(cmd, capture_output=True, text=True, cwd=cwd)
    return p.returncode, p.stdout, p.stderr


def run(ctx, prop):
    gate = C.lean_gate(prop, ctx.tier)
    ctx.setup()
    n = {"quick": 6, "thorough": 60}[ctx.tier]
    opts = gen.Opts(max_files=1, max_structs=9, max_ifaces=1, max_methods=2, max_params=3, obj_structs=True,
                    small_obj_structs=True, nested=True, typed_objects=True, obj_arrays=False, float_consts=False)
    listed = {k["id"]: k for k in F.load(prop)}
    known_seen = {}
    oracle_fail, disagree, samples = [], [], []
    hist = {"structs": 0, "compilers": 0, "with_objects": 0, "nested": 0, "arrays": 0}
    distinct = set()
    toolchains = [("gcc", "c"), ("clang", "c"), ("g++", "cpp"), ("clang++", "cpp"), ("rustc", "rust")]
    def raw_case(k):
        """structs with random, unrepaired field lists: most are misaligned and must be rejected;
        whatever is accepted must still lay out without padding"""
        rng = ctx.rng
        nodes = []
        for j in range(rng.randint(1, 3)):
            fields = []
            for q in range(rng.randint(1, 5)):
                r = rng.random()
                if r < 0.7 or not nodes:
                    t = rng.choice(idl.PRIM_ORDER)
                elif r < 0.85:
                    t = rng.choice(nodes)["name"]
                else:
                    t = "interface"
                fields.append({"type": t, "count": rng.choice([1, 1, 1, 2, 3, 5]), "name": f"g{j}_{q}"})
            nodes.append({"k": "struct", "name": f"R{j}", "fields": fields})
        return {"id": f"C06-raw-{ctx.seed}-{k}", "files": [{"path": "main.idl", "nodes": nodes}], "main": "main.idl", "incdirs": []}

    def permuted_case(k):
        """field permutations of padding-free structs: the total size is unchanged, only interior
        alignment can break"""
        rng = ctx.rng
        sizes = [1, 2, 4, 8]
        names = {1: ["uint8", "int8"], 2: ["uint16", "int16"], 4: ["uint32", "int32", "float32"], 8: ["uint64", "int64", "float64"]}
        nodes = []
        for j in range(3):
            fs = sorted((rng.choice(sizes) for _ in range(rng.randint(3, 6))), reverse=True)
            while sum(fs) % max(fs):
                fs.append(1)
            rng.shuffle(fs)
            nodes.append({"k": "struct", "name": f"Q{j}", "fields": [{"type": rng.choice(names[s_]), "count": 1, "name": f"q{j}_{q}"} for q, s_ in enumerate(fs)]})
        return {"id": f"C06-perm-{ctx.seed}-{k}", "files": [{"path": "main.idl", "nodes": nodes}], "main": "main.idl", "incdirs": []}

    work = [("valid", gen.gen_case(ctx.rng, opts, cid=f"C06-{ctx.seed}-{i}")) for i in range(n)]
    # fixed: every struct shape of the coverage corpora (objects at the front / middle / only in
    # nested structs, arrays of nested structs) and chains nested 4 deep with array counts > 1
    # at alternating levels
    for cov in (gen.coverage_case("C06-coverage"), gen.coverage_case2("C06-coverage2"), gen.nesting_case(4, 0, cid="C06-nest"),
                gen.nesting_case(3, 0, cid="C06-nest")):
        cov = dict(cov)
        cov.pop("langs", None)
        work.append(("valid", cov))
    deep = [{"k": "struct", "name": "Pt", "fields": [{"type": "uint16", "count": 1, "name": "x"}, {"type": "uint16", "count": 1, "name": "y"}]},
            {"k": "struct", "name": "Cell", "fields": [{"type": "Pt", "count": 1, "name": "pos"}, {"type": "uint32", "count": 1, "name": "colour"}]},
            {"k": "struct", "name": "Row", "fields": [{"type": "Cell", "count": 3, "name": "cells"}]},
            {"k": "struct", "name": "Grid", "fields": [{"type": "Row", "count": 2, "name": "rows"}, {"type": "Pt", "count": 2, "name": "corner"}]},
            {"k": "interface", "name": "IGrid", "base": None, "members": [
                {"k": "method", "name": "set", "optional": False, "doc": None, "params": [{"dir": "in", "type": "Grid", "arr": None, "name": "g"}, {"dir": "out", "type": "Row", "arr": None, "name": "r"}]}]}]
    work.append(("valid", {"id": "C06-deep", "files": [{"path": "main.idl", "nodes": deep}], "main": "main.idl", "incdirs": []}))
    # sizes no test could allocate: members of 2^31 and 2^32 bytes and more (declarations only;
    # sizeof / offsetof / size_of are compile-time facts)
    huge = [{"k": "struct", "name": "Blk", "fields": [{"type": "uint8", "count": 65535, "name": "data"}, {"type": "uint8", "count": 1, "name": "last"}]},
            {"k": "struct", "name": "HalfPlane", "fields": [{"type": "Blk", "count": 32768, "name": "rows"}, {"type": "uint64", "count": 1, "name": "seq"}]},
            {"k": "struct", "name": "Plane", "fields": [{"type": "Blk", "count": 65535, "name": "rows"}, {"type": "Blk", "count": 1, "name": "spare"}]},
            {"k": "struct", "name": "Cube", "fields": [{"type": "Plane", "count": 2, "name": "planes"}, {"type": "uint64", "count": 1, "name": "seq"}]},
            {"k": "struct", "name": "Wide", "fields": [{"type": "uint64", "count": 65535, "name": "a"}, {"type": "Cube", "count": 3, "name": "cubes"}, {"type": "uint32", "count": 2, "name": "tail"}]}]
    work.append(("valid", {"id": "C06-huge", "files": [{"path": "main.idl", "nodes": huge}], "main": "main.idl", "incdirs": []}))
    # degenerate shapes the grammar refuses today (a struct without members has size 0 in C and
    # Rust and size 1 in C++): if ever accepted, the layouts must still agree
    work.append(("raw", {"id": "C06-empty", "main": "main.idl", "incdirs": [], "files": [{"path": "main.idl", "nodes": [
        {"k": "struct", "name": "Tag", "fields": []},
        {"k": "struct", "name": "Hdr", "fields": [{"type": "Tag", "count": 1, "name": "kind"}, {"type": "uint32", "count": 1, "name": "len"}]}]}]}))
    # the last test of the verifier (size divisible by the widest alignment) when the widest
    # alignment comes from a nested struct or an object member only
    _sf = lambda t, n, c=1: {"type": t, "count": c, "name": n}
    for k_, (fields_out, _ok) in enumerate(((["In8:i", "uint32:x"], False), (["In8:i", "uint32:x", "uint32:y"], True),
                                             (["Hold:h", "uint64:z"], False), (["Hold:h", "uint64:z", "uint64:w"], True),
                                             (["uint32:x", "uint32:y", "In8:i", "uint16:t"], False))):
        work.append(("raw", {"id": f"C06-nested-align-{k_}", "main": "main.idl", "incdirs": [], "files": [{"path": "main.idl", "nodes": [
            {"k": "struct", "name": "In8", "fields": [_sf("uint64", "a")]},
            {"k": "struct", "name": "Hold", "fields": [_sf("interface", "o")]},
            {"k": "struct", "name": "OutN", "fields": [_sf(f_.split(":")[0], f_.split(":")[1]) for f_ in fields_out]}]}]}))
    work += [("raw", permuted_case(i)) for i in range({"quick": 60, "thorough": 1500}[ctx.tier])]
    work += [("raw", raw_case(i)) for i in range({"quick": 150, "thorough": 3000}[ctx.tier])]
    hist["raw_rejected"] = 0
    hist["raw_accepted"] = 0
    for origin, case in work:
        # methods taking an object-bearing struct of <= 16 bytes by value make the generated Rust
        # module fail to compile (finding of C01/C11, nothing to do with layout): the layout
        # probes need the struct definitions only
        for f_ in case["files"]:
            for n_ in f_["nodes"]:
                if n_["k"] == "interface":
                    n_["members"] = [m_ for m_ in n_["members"] if m_["k"] != "method" or not F.CLASSIFIERS["smallObjStruct"](case, m_)]
        structs = [x["name"] for x in case["files"][0]["nodes"] if x["k"] == "struct"]
        if not structs:
            continue
        with C.Scratch() as tmp:
            root, out = os.path.join(tmp, "src"), os.path.join(tmp, "out")
            os.makedirs(out)
            idl.render_case(case, root)
            model, impl = E.e1(ctx, case, root)
            ctx.bump("evaluations")
            if E.verdict_of(model) != E.verdict_of(impl) or E.lines_with(model, "struct", "stype") != E.lines_with(impl, "struct", "stype"):
                a, b = C.diff_facts(E.lines_with(model, "struct", "stype"), E.lines_with(impl, "struct", "stype"))
                disagree.append({"case": case, "only_model": a[:5], "only_impl": b[:5]})
            if origin == "raw":
                # the library entry point (build scripts) must take the same decision: a struct
                # that needs padding is refused there too
                from .validation import lib_verdict
                lv = lib_verdict(ctx, case, root)
                hist["lib_checked"] = hist.get("lib_checked", 0) + 1
                if (lv == "ok") != (E.verdict_of(impl) == "accept"):
                    oracle_fail.append({"case": case, "failures": [{"error": "command-line and library entry points disagree on a struct layout",
                                                                    "cli": E.verdict_of(impl), "lib": lv}]})
            if E.verdict_of(impl) != "accept":
                if origin == "raw":
                    hist["raw_rejected"] += 1
                else:
                    oracle_fail.append({"case": case, "failures": [{"error": "valid structs rejected", "facts": impl[:3]}]})
                continue
            if origin == "raw":
                hist["raw_accepted"] += 1
            assumed = {}
            for l in E.lines_with(impl, "struct"):
                p = l.split()
                assumed[p[1]] = int(p[2].split("=")[1])
            res = E.emit_all(ctx, case, root, out, backends=("c", "cpp", "rust"))
            if any(rc != 0 for rc, _, _ in res.values()):
                oracle_fail.append({"case": case, "failures": [{"error": "idlc failed", "rc": {b: r[0] for b, r in res.items()}}]})
                continue
            open(os.path.join(tmp, "pc.c"), "w").write(c_probe(case, structs, "main.h", False))
            open(os.path.join(tmp, "pp.cpp"), "w").write(c_probe(case, structs, "main.hpp", True))
            rsdir = os.path.join(out, "main-rust")
            mods = sorted(f[:-3] for f in os.listdir(rsdir) if f.endswith(".rs"))
            open(os.path.join(tmp, "pr.rs"), "w").write(rust_probe(case, structs, rsdir, mods))
            jobs = {
                "gcc": ["gcc", "-I/repo/tests/c", "-I" + out, "-o", os.path.join(tmp, "p_gcc"), os.path.join(tmp, "pc.c")],
                "clang": ["clang", "-I/repo/tests/c", "-I" + out, "-o", os.path.join(tmp, "p_clang"), os.path.join(tmp, "pc.c")],
                "g++": ["g++", "-I/repo/tests/c", "-I/repo/tests/cpp", "-I" + out, "-o", os.path.join(tmp, "p_g++"), os.path.join(tmp, "pp.cpp")],
                "clang++": ["clang++", "-I/repo/tests/c", "-I/repo/tests/cpp", "-I" + out, "-o", os.path.join(tmp, "p_clang++"), os.path.join(tmp, "pp.cpp")],
                "rustc": ["rustc", "--edition", "2021", "--cfg", 'feature="std"', "-A", "warnings", "-o", os.path.join(tmp, "p_rustc"), os.path.join(tmp, "pr.rs")],
            }
            with cf.ThreadPoolExecutor(max_workers=5) as ex:
                built = dict(zip(jobs, ex.map(run_tool, jobs.values())))
            for tool, (rc, so, se) in built.items():
                hist["compilers"] += 1
                if rc != 0:
                    oracle_fail.append({"case": case, "failures": [{"error": f"layout probe does not compile with {tool}", "stderr": se[-400:]}]})
                    continue
                rc2, so2, _ = run_tool([os.path.join(tmp, "p_" + tool)])
                got = parse_probe(so2)
                for s in structs:
                    offs, size = packed(case, s)
                    g = got.get(s, {})
                    bad = []
                    if g.get("size") != size:
                        bad.append({"error": "sizeof differs from the summed member sizes", "expected": size, "got": g.get("size")})
                    if g.get("offs") != offs:
                        bad.append({"error": "member offsets differ from the summed sizes of the members before", "expected": offs, "got": g.get("offs")})
                    if assumed.get(s) != size:
                        bad.append({"error": "size assumed by the compiler differs from the packed size", "assumed": assumed.get(s), "packed": size})
                    for x in bad:
                        oracle_fail.append({"case": {"id": case["id"], "struct": idl.render_node(idl.struct_table(case)[s])},
                                            "failures": [dict(x, tool=tool)]})
                    distinct.add((tool, tuple((f["type"] if f["type"] in idl.PRIMS else "S", f.get("count", 1) > 1) for f in idl.struct_table(case)[s]["fields"])))
            st = idl.struct_table(case)
            for s in structs:
                hist["structs"] += 1
                hist["with_objects"] += idl.struct_has_objects(case, s)
                hist["nested"] += any(f["type"] in st for f in st[s]["fields"])
                hist["arrays"] += any(f.get("count", 1) > 1 for f in st[s]["fields"])
            if len(samples) < 3:
                samples.append({"struct": idl.render_node(st[structs[-1]]), "packed": packed(case, structs[-1])})
    # ---- repaired defect (fix 7e13aff): a struct of an included file used only as a parameter
    # type must be verified like the others; its former witness has to be refused now
    import glob
    import json
    for fpath in sorted(glob.glob(os.path.join(C.VERIF, "corpus", "regress", "k06_*.json"))):
        w = json.load(open(fpath))
        with C.Scratch() as tmp:
            root = os.path.join(tmp, "src")
            idl.render_case(w, root)
            rc, err = E.run_idlc(ctx, root, w["main"], w.get("incdirs", []), "c-skel", os.path.join(tmp, "o.h"))
            ctx.bump("evaluations")
            s = w["struct"]
            if rc == 0 and natural(w, s) != packed(w, s):
                oracle_fail.append({"case": w, "failures": [{"error": "a struct that needs padding (declared in an included file, used as a parameter type) was accepted and emitted",
                                                             "natural": natural(w, s), "assumed": packed(w, s)}]})
    # the same for every position of the using method inside the interface and for inherited
    # methods (members of other kinds before it, an included base interface that starts with a
    # constant / an error)
    def _mm(nm_, ps_):
        return {"k": "method", "name": nm_, "optional": False, "doc": None, "params": ps_}
    recp = lambda d_: [{"dir": d_, "type": "Rec", "arr": None, "name": "r"}]
    rec = {"k": "struct", "name": "Rec", "fields": [{"type": "uint8", "count": 1, "name": "tag"}, {"type": "uint32", "count": 1, "name": "value"}]}
    layouts = {
        "after-error": [{"k": "error", "name": "NOT_FOUND"}, _mm("put", recp("in"))],
        "after-const": [{"k": "const", "type": "uint32", "name": "LIMIT", "value": "3"}, _mm("first", []), _mm("get", recp("out"))],
        "between": [_mm("first", []), {"k": "error", "name": "E1"}, {"k": "const", "type": "uint8", "name": "K1", "value": "1"},
                    _mm("arr", [{"dir": "in", "type": "Rec", "arr": "unbounded", "name": "rs"}]), {"k": "error", "name": "E2"}],
    }
    for lab, members in layouts.items():
        for inherited in (False, True):
            if inherited:
                files = [{"path": "main.idl", "nodes": [{"k": "include", "path": "base.idl"}, {"k": "interface", "name": "IUse", "base": "IBaseRec", "members": [_mm("own", [])]}]},
                         {"path": "base.idl", "nodes": [{"k": "include", "path": "rec.idl"}, {"k": "interface", "name": "IBaseRec", "base": None, "members": members}]},
                         {"path": "rec.idl", "nodes": [rec]}]
            else:
                files = [{"path": "main.idl", "nodes": [{"k": "include", "path": "rec.idl"}, {"k": "interface", "name": "IUse", "base": None, "members": members}]},
                         {"path": "rec.idl", "nodes": [rec]}]
            w = {"id": f"C06-param-{lab}-{int(inherited)}", "files": files, "main": "main.idl", "incdirs": []}
            with C.Scratch() as tmp:
                root = os.path.join(tmp, "src")
                idl.render_case(w, root)
                rc, err = E.run_idlc(ctx, root, "main.idl", [], "c-skel", os.path.join(tmp, "o.h"))
                model, impl = E.e1(ctx, w, root)
                ctx.bump("evaluations")
                if (E.verdict_of(model) == "accept") != (rc == 0):
                    disagree.append({"case": w, "model": E.verdict_of(model), "cli_exit": rc})
                if rc == 0:
                    oracle_fail.append({"case": w, "failures": [{"error": "a struct that needs padding (declared in an included file, used as a parameter type) was accepted and emitted",
                                                                 "natural": natural(w, "Rec"), "assumed": packed(w, "Rec")}]})
    # ---- known findings (none at present): witnesses
    for w in F.witness_cases(prop):
        with C.Scratch() as tmp:
            root = os.path.join(tmp, "src")
            idl.render_case(w, root)
            rc, err = E.run_idlc(ctx, root, w["main"], w.get("incdirs", []), "c-skel", os.path.join(tmp, "o.h"))
            ctx.bump("evaluations")
            s = w["struct"]
            pads = natural(w, s) != packed(w, s)
            if rc == 0 and pads:
                if "K06-includedStructUnchecked" in listed:
                    known_seen["K06-includedStructUnchecked"] = f"{s}: natural {natural(w, s)} vs assumed {packed(w, s)}"
                else:
                    oracle_fail.append({"case": w, "failures": [{"error": "a struct that needs padding was accepted and emitted",
                                                                 "natural": natural(w, s), "assumed": packed(w, s)}]})
    # ---- "the size it ... checks in skeletons": the guard literals of the emitted C and C++
    # skeletons (object-bearing structs in both directions included) against the model
    from .c04 import static_guard_pass
    from .bench_props import split_padded
    static_guard_pass(ctx, split_padded(gen.coverage_case("C06-guards"))[0], oracle_fail, disagree, hist)
    known_lines = []
    for kid, k in listed.items():
        if kid in known_seen:
            known_lines.append(f"{kid}: {k['what']} [{known_seen[kid]}]")
        else:
            oracle_fail.append({"case": {"id": "known-finding-stale"}, "failures": [{"kind": "stale", "finding": kid}]})
    return finish(ctx, prop, gate, oracle_fail, disagree, samples, len(distinct), hist, known=known_lines,
                  rule="generated accepted struct sets (all primitive widths, fixed arrays, nesting, object fields generic and typed); the types "
                       "emitted by the real compiler for C, C++ and Rust are compiled with gcc, clang, g++, clang++ and rustc into probes printing "
                       "sizeof/offsetof (size_of/offset_of!) of every struct and member; compared with the packed layout and with the size the "
                       "compiler assumes (StructInner::size from the probe facts, equal to the model); distinct = distinct (toolchain, field-shape list)",
                  extra={"engines": ["E1 facts", "compiled layout probes (5 toolchains)"]})
