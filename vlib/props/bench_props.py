"""C01 (round trip), C03 (wire bytes), C05 (reference counts): executed generated code, 3x3 matrix."""
import json
import os

from bench import idl
from .. import common as C
from .. import benchlib as B
from .. import gen
from .. import findings as F
from .numbering import finish


def bench_opts(rng):
    return gen.Opts(max_files=2, max_structs=4, max_ifaces=3, max_depth=2, max_methods=4, max_params=6,
                    obj_structs=True, small_obj_structs=False, dup_struct_fields=False, obj_arrays=True,
                    mix_inarr_outobj=False, two_obj_arrays=False, pad_bundles=False, optional=True,
                    typed_objects=True, docs=False, float_consts=False)


def fix_for_cpp(case):
    """the C++ backend cannot compile generic object arrays (`interface[n]`): give them a type"""
    ifs = list(idl.iface_table(case))
    for f in case["files"]:
        for n in f["nodes"]:
            if n["k"] != "interface":
                continue
            for m in n["members"]:
                if m["k"] == "method":
                    for p in m["params"]:
                        if p["type"] == "interface" and p.get("arr") is not None:
                            p["type"] = n["name"]
    return case


def method_classes(case, m, sections=None):
    """known-finding classifiers that apply to a method. The two ORDER findings describe a
    non-canonical slot sequence: when the model's slot sequence for this very method is
    canonical (`sections` sorted, e.g. an object-bearing struct that is the last buffer) the
    construct is present but the finding does not apply and nothing is excused."""
    out = set()
    for k in ("ooBeforeOi", "embeddedObjOrder", "smallObjStruct"):
        if F.CLASSIFIERS[k](case, m):
            out.add(k)
    if sections is not None and list(sections) == sorted(sections):
        out -= {"ooBeforeOi", "embeddedObjOrder"}
    # bundle whose natural C layout has interior padding
    for d in ("in", "out"):
        smalls = [p for p in m["params"] if p["dir"] == d and idl.param_kind(case, p) in ("prim", "small")]
        if len(smalls) > 1:
            sizes = sorted((idl.type_size(case, p["type"]) for p in smalls), reverse=True)
            off = 0
            for s in sizes:
                al = s if s in (1, 2, 4, 8) else (8 if s % 8 == 0 else 4 if s % 4 == 0 else 2 if s % 2 == 0 else 1)
                if off % min(al, 8) != 0:
                    out.add("bundlePadding")
                off += s
    return out


def split_padded(case):
    """[case without the methods whose bundles the C side reads through a padded struct,
    case with only those methods (or None)]: under the sanitizers such a call is a memory error
    by itself (finding bundlePadding) and ends the run"""
    import copy as _copy
    rest, padded = _copy.deepcopy(case), _copy.deepcopy(case)
    any_padded = False
    for cc, keep_padded in ((rest, False), (padded, True)):
        for f_ in cc["files"]:
            for n_ in f_["nodes"]:
                if n_["k"] == "interface":
                    ms = []
                    for m_ in n_["members"]:
                        is_p = m_["k"] == "method" and "bundlePadding" in method_classes(case, m_)
                        any_padded = any_padded or is_p
                        if m_["k"] != "method" or is_p == keep_padded:
                            ms.append(m_)
                    n_["members"] = ms
    padded["id"] = case["id"] + "-padded"
    return rest, (padded if any_padded else None)


KNOWN = {
    "C01": {"K01-embeddedObjOrder": "embeddedObjOrder", "K01-smallObjStruct": "smallObjStruct", "K01-ooBeforeOi": "ooBeforeOi",
            "K01-bundlePadding": "bundlePadding"},
    "C03": {"K03-embeddedObjOrder": "embeddedObjOrder", "K03-smallObjStruct": "smallObjStruct", "K03-ooBeforeOi": "ooBeforeOi",
            "K03-bundlePadding": "bundlePadding"},
    "C05": {"K05-embeddedObjOrder": "embeddedObjOrder", "K05-smallObjStruct": "smallObjStruct", "K05-ooBeforeOi": "ooBeforeOi"},
}


def run(ctx, prop):
    gate = C.lean_gate(prop, ctx.tier)
    ctx.setup()
    n = {"quick": 6, "thorough": 60}[ctx.tier]
    listed = {k["id"]: k for k in F.load(prop)}
    known_seen = {}
    oracle_fail, disagree, samples = [], [], []
    hist = {"cases": 0, "calls": 0, "calls_ok": 0, "build_failures": 0, "pairs": {}, "error_status_calls": 0, "object_calls": 0}
    distinct = set()
    cases = []
    for w in F.witness_cases(prop):
        cases.append(("witness", w))
    cases.append(("gen", gen.coverage_case(f"{prop}-coverage")))
    cases.append(("gen", gen.coverage_case2(f"{prop}-coverage2")))
    cases.append(("gen", gen.coverage_case3(f"{prop}-coverage3")))
    for i in range(n):
        c = fix_for_cpp(gen.gen_case(ctx.rng, bench_opts(ctx.rng), cid=f"{prop}-{ctx.seed}-{i}"))
        cases.append(("gen", c))
    # under the sanitizers (thorough tier) a bundle the C side reads through a padded struct is a
    # memory error by itself (finding bundlePadding of C01/C03/C04) and ends the run: such
    # methods go into a case of their own so that everything else is still executed
    if ctx.tier == "thorough":
        split = []
        for origin, case in cases:
            if origin != "gen":
                split.append((origin, case))
                continue
            rest, padded = split_padded(case)
            any_padded = padded is not None
            split.append((origin, rest))
            if any_padded and prop in ("C01", "C03"):
                split.append((origin, padded))
        cases = split
    for origin, case in cases:
        with C.Scratch() as tmp:
            langs = ("c", "cpp", "rust")
            if case.get("langs"):
                langs = tuple(case["langs"])
            b, r, used = B.build_and_run(ctx, case, os.path.join(tmp, "w"), langs=langs,
                                         valuations=3, sanitize=(ctx.tier == "thorough"))
            hist["cases"] += 1
            ctx.bump("evaluations")
            if not b["ok"]:
                hist["build_failures"] += 1
                fu = B.failed_units(b)
                if origin == "gen":
                    # a generated valid case that does not build is C11's finding; here it is a
                    # harness-visible fact: retry without C++ to keep the C and Rust pairings
                    b, r, used = B.build_and_run(ctx, case, os.path.join(tmp, "w2"), langs=("c", "rust"), valuations=3)
                    if not b["ok"]:
                        oracle_fail.append({"case": case, "failures": [{"error": "generated code does not build", "units": fu[:3]}]})
                        continue
                else:
                    known_or = [k for k, cl in KNOWN[prop].items() if k in listed and case.get("classifier") == cl]
                    if known_or:
                        known_seen[known_or[0]] = "does not build: " + fu[0]["unit"]
                    else:
                        oracle_fail.append({"case": case, "failures": [{"error": "witness does not build", "units": fu[:3]}]})
                    continue
            if r["rc"] != 0 or not any(x.get("ev") == "end" for x in r["records"]):
                rec = {"error": "bench binary crashed or did not finish", "rc": r["rc"], "last_call": r.get("last_call"),
                       "stderr": r.get("stderr", "")[-300:]}
                cls = None
                if r.get("last_call"):
                    mo = B.method_of(case, r["last_call"]["iface"], r["last_call"]["method"])
                    if mo:
                        cls = method_classes(case, mo[1])
                hit = [k for k, cl in KNOWN[prop].items() if k in listed and cls and cl in cls]
                if hit:
                    known_seen[hit[0]] = rec["error"]
                else:
                    oracle_fail.append({"case": case, "failures": [rec]})
            for a in B.analyse(ctx, case, b, r):
                call = a["call"]
                hist["calls"] += 1
                pair = f"{call['stub']}->{call['skel']}"
                hist["pairs"][pair] = hist["pairs"].get(pair, 0) + 1
                owner, m, op = B.method_of(case, call["iface"], call["method"])
                mw = None
                if not a["pc"].get("optional"):
                    mw = B.model_wire(ctx, case, call["iface"], m, a["plan"])
                secs = [int(x) for x in mw["sections"].split(",") if x] if mw and "sections" in mw else None
                cls = method_classes(case, m, secs)
                if call["stub"] == "rust" and call["skel"] == "rust":
                    cls -= {"bundlePadding"}       # the finding is about the C and C++ sides only
                if a["plan"]["status"] != 0:
                    hist["error_status_calls"] += 1
                if a["plan"]["tokens_in"] or a["plan"]["tokens_out"]:
                    hist["object_calls"] += 1
                fails = []
                if prop == "C01":
                    fails = B.identity_failures(a)
                elif prop == "C05":
                    fails = B.refcount_failures(a)
                    if a["ret"] is not None and a["plan"]["status"] != 0 and a["ret"].get("outs"):
                        objs = [v for v in a["ret"]["outs"].values() if isinstance(v, str) and v.startswith("t")]
                        if objs:
                            fails.append({"error": "caller adopted an output object on a failed call", "objects": objs})
                # correspondence with the Lean reference encoder (all three properties; C03's oracle)
                dis = []
                if mw is not None:
                    dis = B.envelope_vs_model(a, mw, op)
                if prop == "C03":
                    # the bytes stubs put on the wire and skeletons accept: a disagreement with the
                    # reference encoding, or a call that one backend's skeleton refuses / mis-reads
                    # although another backend's stub produced it (sizes of output buffers included)
                    fails = B.identity_failures(a) + dis
                    dis = []
                key = (tuple(sorted((p["dir"], idl.param_kind(case, p)) for p in m["params"])), pair)
                distinct.add(key)
                if not fails and not dis:
                    hist["calls_ok"] += 1
                for f_ in fails:
                    hit = [k for k, cl in KNOWN[prop].items() if k in listed and cl in cls]
                    if hit:
                        known_seen.setdefault(hit[0], f"{pair} {call['iface']}.{call['method']}: {f_['error']}")
                    else:
                        oracle_fail.append({"case": {"id": case["id"], "method": idl.render_member(m).strip(), "call": call,
                                                     "structs": [idl.render_node(x) for f0 in case["files"] for x in f0["nodes"] if x["k"] == "struct"][:6]},
                                            "failures": [f_]})
                for d_ in dis:
                    if cls & {"ooBeforeOi", "embeddedObjOrder", "smallObjStruct", "bundlePadding"}:
                        continue        # inside a known-finding class (of C01/C03) the envelope differs from the reference by definition
                    disagree.append({"case": {"id": case["id"], "method": idl.render_member(m).strip(), "call": call}, "difference": d_})
                if len(samples) < 4 and a["env"] and len(m["params"]) >= 3:
                    samples.append({"call": call, "method": idl.render_member(m).strip(), "envelope": a["env"], "impl": a["impl"], "ret": a["ret"]})
    if prop == "C05":
        # in-process calls: the skeleton sees the caller's own argument array, including what the
        # output object slots held on entry (a re-used proxy's object, garbage if a stub left the
        # slot uninitialised); implementations fill output slots with the usual replace idiom
        os.environ["BENCH_KEEP_OO"] = "1"
        try:
            rest_, _p = split_padded(gen.coverage_case("C05-inprocess"))
            with C.Scratch() as tmp:
                b_, r_, _u = B.build_and_run(ctx, rest_, os.path.join(tmp, "w"), langs=("c", "cpp", "rust"), valuations=3, sanitize=(ctx.tier == "thorough"))
                ctx.bump("evaluations")
                if b_["ok"] and r_ is not None:
                    if r_["rc"] != 0 or not any(x.get("ev") == "end" for x in r_["records"]):
                        lc_ = r_.get("last_call") or {}
                        mo_ = B.method_of(rest_, lc_.get("iface"), lc_.get("method")) if lc_ else None
                        if not (mo_ and (method_classes(rest_, mo_[1]) & set(KNOWN[prop].values()))):
                            oracle_fail.append({"case": {"id": rest_["id"], "mode": "in-process (output slots keep their initial content)", "last_call": lc_},
                                                "failures": [{"error": "crash of a well-formed in-process call", "rc": r_["rc"], "stderr": r_.get("stderr", "")[-300:]}]})
                    for a_ in B.analyse(ctx, rest_, b_, r_):
                        owner_, m_, _op = B.method_of(rest_, a_["call"]["iface"], a_["call"]["method"])
                        if method_classes(rest_, m_) & set(KNOWN[prop].values()):
                            continue
                        hist["inprocess_calls"] = hist.get("inprocess_calls", 0) + 1
                        for f_ in B.refcount_failures(a_):
                            oracle_fail.append({"case": {"id": rest_["id"], "mode": "in-process (output slots keep their initial content)",
                                                         "method": idl.render_member(m_).strip(), "call": a_["call"]}, "failures": [f_]})
        finally:
            os.environ.pop("BENCH_KEEP_OO", None)
    if prop == "C05":
        # --no-typed-objects changes only the spelling of object types: the counts stay balanced
        rest_u, _pu = split_padded(gen.coverage_case("C05-untyped"))
        with C.Scratch() as tmp:
            b_, r_, _u = B.build_and_run(ctx, rest_u, os.path.join(tmp, "w"), langs=("c", "cpp", "rust"), valuations=2, typed=False)
            ctx.bump("evaluations")
            if b_["ok"] and r_ is not None:
                for a_ in B.analyse(ctx, rest_u, b_, r_):
                    owner_, m_, _op = B.method_of(rest_u, a_["call"]["iface"], a_["call"]["method"])
                    secs_u = None
                    if not a_["pc"].get("optional"):
                        mw_u = B.model_wire(ctx, rest_u, a_["call"]["iface"], m_, a_["plan"])
                        secs_u = [int(x) for x in mw_u["sections"].split(",") if x] if mw_u and "sections" in mw_u else None
                    if method_classes(rest_u, m_, secs_u) & set(KNOWN[prop].values()):
                        continue
                    hist["untyped_calls"] = hist.get("untyped_calls", 0) + 1
                    bad_ = B.refcount_failures(a_)
                    if a_["plan"]["status"] == 0 and a_["ret"] is not None and a_["ret"].get("status") == 0:
                        bad_ += [f_ for f_ in B.identity_failures(a_) if "output" in f_.get("error", "")]
                    for f_ in bad_:
                        oracle_fail.append({"case": {"id": rest_u["id"], "mode": "--no-typed-objects", "method": idl.render_member(m_).strip(), "call": a_["call"]},
                                            "failures": [f_]})
    if prop == "C03":
        # the bytes a skeleton ACCEPTS: fixed-size slots (bundles in particular) at exactly the
        # prescribed size and no other, for every skeleton backend
        from .c04 import exact_size_pass
        rest_, _p = split_padded(gen.coverage_case("C03-exact"))
        exact_size_pass(ctx, rest_, oracle_fail, hist, excused_classes=("smallObjStruct", "bundlePadding"))
    # ---- process history (vlib/history.py): a compilation must not depend on what the same
    # process compiled before (same names with other shapes, same paths with other content, a
    # compilation that failed half-way in between)
    from .. import history as H_
    H_.history_pass(ctx, oracle_fail, hist)
    known_lines = []
    for kid, k in listed.items():
        if kid in known_seen:
            known_lines.append(f"{kid}: {k['what']} [e.g. {known_seen[kid]}]")
        else:
            oracle_fail.append({"case": {"id": "known-finding-stale"}, "failures": [{"kind": "stale", "finding": kid}]})
    hist["pairs"] = dict(sorted(hist["pairs"].items()))
    return finish(ctx, prop, gate, oracle_fail, disagree, samples, len(distinct), hist, known=known_lines,
                  rule="generated accepted file sets (1-2 files, hierarchies, every parameter kind outside the known-finding classes) plus the "
                       "known-finding witnesses; for each: the real idlc output for C, C++ and Rust (stub and skeleton) is compiled with upstream's "
                       "flags together with generated callers and implementations and linked into one process; every method is called for 3 "
                       "valuations (boundary values, zero-length buffers, null/aliased objects, error returns) through all 9 stub x skeleton "
                       "pairings over a recording copying transport; distinct = distinct (parameter-kind multiset, pairing)",
                  extra={"engines": ["E2 bench 3x3", "Lean reference encoder (wire requests)"]})
