"""C09 (validation is sound) and C10 (validation is complete)."""
import copy
import os
import random

from bench import idl
from .. import common as C
from .. import engines as E
from .. import gen
from .. import inject
from .. import findings as F
from .numbering import finish, corpus_cases


def real_verdicts(ctx, case, root, tmp, backends=("c",), ub=False, flags=()):
    """exit status of the real command-line binary per backend; accept iff exit 0"""
    out = {}
    for b in backends:
        o = os.path.join(tmp, f"out-{b}")
        if b in ("rust", "java"):
            os.makedirs(o, exist_ok=True)
        extra = list(flags) + (["--allow-undefined-behavior"] if ub else [])
        rc, err = E.run_idlc(ctx, root, case["main"], case.get("incdirs", []), b, o, extra=extra)
        out[b] = (rc, err)
    return out


def lib_verdict(ctx, case, root):
    # lib.rs: the caller's include list is used as is (the main file's directory is NOT appended)
    inc = " ".join(case.get("incdirs", []) + ["."])
    r = ctx.probe.ask(f"libgen {root} {case['main']} {inc}")
    for l in r:
        if l.startswith("lib "):
            return l.split()[1]
        if l.startswith("crash"):
            return "crash"
    return "none"


# ----------------------------------------------------------------- C09 classifiers (label based)

STRUCT_RULES = {"misaligned-struct", "struct-cycle", "dup-field", "undefined-field-type"}
IFACE_LEVEL = {"dup-method", "dup-const-error", "unbounded-objarr", "objarr-plus-obj", "two-objarr",
               "objstruct-array", "bounded-data-array", "undefined-param-type", "undefined-base", "iface-cycle",
               "dup-param"}


def c09_classify(label, entry):
    r = label["rule"]
    if r == "dup-toplevel-crosskind":
        return "K09-crossKindDuplicate"
    if r in STRUCT_RULES and not label.get("reachable", True):
        return "K09-includedStructUnchecked"
    if r in IFACE_LEVEL and not label.get("in_main_chain", True):
        return "K09-includedIfaceUnchecked"
    if r == "dup-param" and label.get("where") == "included":
        return "K09-dupParamIncluded"
    if r == "two-objarr" and entry == "cli":
        return "K09-secondObjArray"
    if r == "objstruct-array" and label.get("dir") == "in" and label.get("small") and entry == "cli":
        return "K09-inSmallObjStructArray"
    if entry == "lib" and r in inject.IFACE_RULES:
        return "K09-libNoIfaceVerify"
    return None


def chain_family():
    """fixed: every parameter rule (and the duplicate rules that span a hierarchy) violated at
    every level of a three-level chain whose upper levels live in included files
    (main.idl: ILeaf : IMid; mid.idl: IMid : IRoot; root.idl: IRoot) — all three are in the
    chain of a main-file interface, so every one of them has to be refused"""
    def P(d, t, n, arr=None):
        return {"dir": d, "type": t, "arr": arr, "name": n}

    def M(name, params):
        return {"k": "method", "name": name, "optional": False, "doc": None, "params": params}
    rules = {
        "objarr-plus-obj": lambda d: [P(d, "IItem", "items", 4), P(d, "IItem", "owner")],
        "two-objarr": lambda d: [P(d, "IItem", "xs", 2), P(d, "interface", "ys", 3)],
        "two-objarr-1": lambda d: [P(d, "IItem", "xs", 2), P(d, "IItem", "ys", 1)],
        "two-objarr-1b": lambda d: [P(d, "IItem", "xs", 1), P(d, "uint32", "mid"), P(d, "IItem", "ys", 1)],
        "objarr1-plus-obj": lambda d: [P(d, "IItem", "items", 1), P(d, "IItem", "owner")],
        "unbounded-objarr": lambda d: [P(d, "IItem", "xs", "unbounded")],
        "bounded-data-array": lambda d: [P(d, "uint32", "xs", 4)],
        "objstruct-array": lambda d: [P(d, "ZHold", "hs", "unbounded")],
        "dup-param": lambda d: [P(d, "uint32", "same"), P("in" if d == "out" else "out", "uint16", "same")],
    }
    out = []
    for rule, mk in rules.items():
        for level in range(3):
            for d in ("in", "out"):
                lv = [{"k": "interface", "name": nm_, "base": b_, "members": [M(f"ok{i_}", [P("in", "uint32", "x")])]}
                      for i_, (nm_, b_) in enumerate((("IRoot", None), ("IMid", "IRoot"), ("ILeaf", "IMid")))]
                lv[level]["members"].append(M("zviol", mk(d)))
                item = {"k": "interface", "name": "IItem", "base": None, "members": []}
                hold = {"k": "struct", "name": "ZHold", "fields": [{"type": "IItem", "count": 1, "name": "o"}, {"type": "uint64", "count": 2, "name": "a"}]}
                files = [{"path": "main.idl", "nodes": [{"k": "include", "path": "mid.idl"}, lv[2]]},
                         {"path": "mid.idl", "nodes": [{"k": "include", "path": "root.idl"}, lv[1]]},
                         {"path": "root.idl", "nodes": [item, hold, lv[0]]}]
                case = {"id": f"C09-chain-{rule}-{level}-{d}", "files": files, "main": "main.idl", "incdirs": []}
                where = "main" if level == 2 else "included"
                rule = {"two-objarr-1": "two-objarr", "two-objarr-1b": "two-objarr", "objarr1-plus-obj": "objarr-plus-obj"}.get(rule, rule)
                out.append((case, {"rule": rule, "where": where, "iface": lv[level]["name"], "in_main_chain": True, "dir": d,
                                   "level": level, "small": False, "family": "chain"}))
    # constants one step outside their range, in every spelling, at file scope, inside an
    # interface of the main file and inside a base interface of an included file
    for bits in (8, 16, 32, 64):
        for signed in (True, False):
            t = ("int" if signed else "uint") + str(bits)
            hi = (1 << (bits - 1)) - 1 if signed else (1 << bits) - 1
            lo = -(1 << (bits - 1)) if signed else 0
            lits = [str(hi + 1), hex(hi + 1), str(lo - 1), "-" + hex(-(lo - 1))]
            for li, lit in enumerate(lits):
                place = ("file", "interface", "included-base")[(bits // 8 + li + int(signed)) % 3]
                const = {"k": "const", "type": t, "name": "ZRANGE", "value": lit}
                if place == "file":
                    files = [{"path": "main.idl", "nodes": [const, {"k": "interface", "name": "IK", "base": None, "members": []}]}]
                elif place == "interface":
                    files = [{"path": "main.idl", "nodes": [{"k": "interface", "name": "IK", "base": None, "members": [const]}]}]
                else:
                    files = [{"path": "main.idl", "nodes": [{"k": "include", "path": "lim.idl"}, {"k": "interface", "name": "IK", "base": "ILim", "members": []}]},
                             {"path": "lim.idl", "nodes": [{"k": "interface", "name": "ILim", "base": None, "members": [const]}]}]
                out.append(({"id": f"C09-range-{t}-{li}", "files": files, "main": "main.idl", "incdirs": []},
                            {"rule": "const-range", "type": t, "value": lit, "where": "main" if place != "included-base" else "included",
                             "scope": place, "in_main_chain": True, "family": "range"}))
    # out-of-range hexadecimal literals that contain every two-character pattern `0d` (d any hex
    # digit, either case): no part of the digit string may be taken for a prefix or a separator
    k_ = 0
    for t, nhex, neg in (("uint8", 2, False), ("uint16", 4, False), ("uint32", 8, False), ("int8", 2, True), ("int16", 4, True)):
        for dch in "0123456789abcdefABCDEF":
            digits = "1" + "0" + dch + "7" * max(0, nhex - 2)
            lit = ("-0x" if neg else "0x") + digits
            k_ += 1
            place = ("file", "interface", "included-base")[k_ % 3]
            const = {"k": "const", "type": t, "name": "ZHEX", "value": lit}
            if place == "file":
                files = [{"path": "main.idl", "nodes": [const, {"k": "interface", "name": "IK", "base": None, "members": []}]}]
            elif place == "interface":
                files = [{"path": "main.idl", "nodes": [{"k": "interface", "name": "IK", "base": None, "members": [const]}]}]
            else:
                files = [{"path": "main.idl", "nodes": [{"k": "include", "path": "lim.idl"}, {"k": "interface", "name": "IK", "base": "ILim", "members": []}]},
                         {"path": "lim.idl", "nodes": [{"k": "interface", "name": "ILim", "base": None, "members": [const]}]}]
            out.append(({"id": f"C09-hexpat-{t}-{dch}", "files": files, "main": "main.idl", "incdirs": []},
                        {"rule": "const-range", "type": t, "value": lit, "where": "main" if place != "included-base" else "included",
                         "scope": place, "in_main_chain": True, "family": "range"}))
    # duplicates across levels: a method / error of the leaf repeats a name of the root
    for kind in ("dup-method", "dup-const-error"):
        lv = [{"k": "interface", "name": nm_, "base": b_, "members": []} for nm_, b_ in (("IRoot", None), ("IMid", "IRoot"), ("ILeaf", "IMid"))]
        if kind == "dup-method":
            lv[0]["members"].append(M("same", []))
            lv[2]["members"].append(M("same", [P("in", "uint8", "x")]))
        else:
            lv[0]["members"].append({"k": "error", "name": "ZSAME"})
            lv[2]["members"].append({"k": "const", "type": "uint8", "name": "ZSAME", "value": "1"})
        files = [{"path": "main.idl", "nodes": [{"k": "include", "path": "mid.idl"}, lv[2]]},
                 {"path": "mid.idl", "nodes": [{"k": "include", "path": "root.idl"}, lv[1]]},
                 {"path": "root.idl", "nodes": [lv[0]]}]
        out.append(({"id": f"C09-chain-{kind}", "files": files, "main": "main.idl", "incdirs": []},
                    {"rule": kind, "where": "main", "iface": "ILeaf", "in_main_chain": True, "inherited": True, "family": "chain"}))
    return out


def run_c09(ctx, prop):
    gate = C.lean_gate(prop, ctx.tier)
    ctx.setup()
    n = {"quick": 140, "thorough": 1500}[ctx.tier]
    opts = gen.Opts(max_files=3, max_ifaces=3, max_methods=3, max_params=4, max_structs=3)
    oracle_fail, disagree, samples = [], [], []
    known_seen, hist, distinct = {}, {}, set()
    listed = {k["id"]: k for k in F.load(prop)}
    work = []
    for w in F.witness_cases(prop):
        work.append((w["case"], w["label"]))
    for i in range(n):
        base = gen.gen_case(ctx.rng, opts, cid=f"C09-{ctx.seed}-{i}")
        inj = ctx.rng.choice(inject.INJECTORS)
        r = inj(base, ctx.rng)
        if r is None:
            continue
        work.append(r)
    work += chain_family()
    for case, label in work:
        rule = label["rule"]
        with C.Scratch() as tmp:
            root = os.path.join(tmp, "src")
            idl.render_case(case, root)
            ub_variants = [False, True] if rule == "const-range" else [False]
            for ub in ub_variants:
                ctx.bump("evaluations")
                backends = ["c"]
                if ctx.tier == "thorough" or ctx.rng.random() < 0.3:
                    backends = ["c", "c-skel", "cpp", "cpp-skel", "rust", "java"]
                rv = real_verdicts(ctx, case, root, tmp, backends=backends, ub=ub)
                model_cli, impl_cli = E.e1(ctx, case, root, "cli", ub=ub)
                vm, vp = E.verdict_of(model_cli), E.verdict_of(impl_cli)
                vp = "reject" if vp == "crash" else vp
                vm = "reject" if vm != "accept" else vm
                cli_accept = {b: rc == 0 for b, (rc, _) in rv.items()}
                # correspondence: model vs staged replay vs the real binary (C backend decides;
                # other backends may add their own fatal paths, looked at by C10)
                if vm != vp or (vm == "accept") != cli_accept["c"]:
                    disagree.append({"case": case, "label": label, "ub": ub, "model": vm, "probe": vp,
                                     "cli_exit": {b: rc for b, (rc, _) in rv.items()}})
                # library entry point (Rust backend only; always without undefined behaviour)
                lib_obs = None
                if not ub:
                    model_lib = ctx.driver.ask("facts lib " + idl.case_tokens(dict(case, incdirs=case.get("incdirs", []) + ["."])))
                    vml = "accept" if E.verdict_of(C.canon_facts(model_lib)) == "accept" else "reject"
                    lib_obs = lib_verdict(ctx, case, root)
                    vl = "accept" if lib_obs == "ok" else "reject"
                    if vml != vl:
                        disagree.append({"case": case, "label": label, "entry": "lib", "model": vml, "lib": lib_obs})
                # oracle: a violation must be refused everywhere (const range: unless UB allowed)
                must_reject = not (rule == "const-range" and ub)
                obs = [("cli", any(cli_accept.values()))]
                if lib_obs is not None:
                    obs.append(("lib", lib_obs == "ok"))
                for entry, accepted in obs:
                    if must_reject and accepted:
                        k = c09_classify(label, entry)
                        if k and k in listed:
                            known_seen.setdefault(k, {"label": label, "entry": entry})
                        else:
                            oracle_fail.append({"case": case, "failures": [{"entry": entry, "label": label,
                                                "error": "accepted although it violates a documented restriction",
                                                "cli_exit": {b: rc for b, (rc, _) in rv.items()}, "lib": lib_obs}]})
                    if not must_reject and entry == "cli" and not accepted:
                        oracle_fail.append({"case": case, "failures": [{"entry": entry, "label": label,
                                            "error": "rejected although --allow-undefined-behavior was given"}]})
            hist[rule] = hist.get(rule, 0) + 1
            distinct.add((rule, label.get("where"), label.get("dir"), label.get("variant"), label.get("inherited"),
                          label.get("in_main_chain"), label.get("reachable")))
            if len(samples) < 4:
                samples.append({"label": label, "main": idl.render_file(next(f for f in case["files"] if f["path"] == case["main"]))[-600:]})
    known_lines = []
    for kid, k in listed.items():
        if kid in known_seen:
            known_lines.append(f"{kid}: {k['what']} [e.g. {known_seen[kid]['label']['rule']} via {known_seen[kid]['entry']}]")
        else:
            oracle_fail.append({"case": {"id": "known-finding-stale"}, "failures": [
                {"kind": "stale", "finding": kid, "note": "listed finding did not reproduce on its witness"}]})
    return finish(ctx, prop, gate, oracle_fail, disagree, samples, len(distinct), hist, known=known_lines,
                  rule="malformed stream: a valid generated file set with exactly one injected violation of one rule "
                       "(20 injectors, vlib/inject.py) at a random position; verdict taken from the real idlc exit status, "
                       "from idlc::Language::generate (library entry) and from the staged replay; non-trivial/distinct = "
                       "distinct (rule, position context) classes",
                  extra={"engines": ["E1 facts", "E4 cli", "lib entry in-process"]})


# ----------------------------------------------------------------- C10

def permute_decls(case, rng):
    c = copy.deepcopy(case)
    for f in c["files"]:
        incs = [n for n in f["nodes"] if n["k"] == "include"]
        rest = [n for n in f["nodes"] if n["k"] != "include"]
        rng.shuffle(rest)
        f["nodes"] = incs + rest
    return c


def redistribute(case, rng):
    """move every declaration into the main file (the include closure stays the same)"""
    c = copy.deepcopy(case)
    main = next(f for f in c["files"] if f["path"] == c["main"])
    for f in c["files"]:
        if f is main:
            continue
        moved = [n for n in f["nodes"] if n["k"] != "include"]
        f["nodes"] = [n for n in f["nodes"] if n["k"] == "include"]
        main["nodes"] += moved
    return c


def has_obj_struct(case):
    return any(idl.struct_has_objects(case, s) for s in idl.struct_table(case))


def run_c10(ctx, prop):
    gate = C.lean_gate(prop, ctx.tier)
    ctx.setup()
    n = {"quick": 45, "thorough": 500}[ctx.tier]
    opts = gen.Opts(max_files=4, max_ifaces=4, max_methods=4, max_params=6, max_structs=4,
                    small_obj_structs=True, mix_inarr_outobj=True, pad_bundles=True)
    oracle_fail, disagree, samples = [], [], []
    hist = {"variants": 0, "java_skipped": 0}
    distinct = set()
    flagsets = [[], ["--no-typed-objects"], ["--allow-undefined-behavior"]]
    fixed = [gen.nesting_case(d, k, cid="C10-nest") for d in (2, 3, 4) for k in range(0, d + 1)]
    def _named(fname, order):
        iface = {"k": "interface", "name": "IClock", "base": None, "members": [
            {"k": "method", "name": "now", "optional": False, "doc": None, "params": [{"dir": "out", "type": "uint64", "arr": None, "name": "t"}]}]}
        extra = [{"k": "struct", "name": "Tick", "fields": [{"type": "uint64", "count": 1, "name": "n"}]},
                 {"k": "const", "type": "uint32", "name": "HZ", "value": "100"}]
        nodes = {"only": [iface], "iface-first": [iface] + extra, "iface-last": extra + [iface]}[order]
        return {"id": f"C10-named-{fname}-{order}", "files": [{"path": fname, "nodes": nodes}], "main": fname, "incdirs": []}
    fixed += [_named(fn, o) for fn in ("IClock.idl", "iclock.idl", "clock.idl") for o in ("only", "iface-first", "iface-last")]
    # argument counts exactly at the limit are legal, whatever else the method carries
    def _P(d_, t_, n_, a_=None):
        return {"dir": d_, "type": t_, "arr": a_, "name": n_}
    for d_, od_ in (("in", "out"), ("out", "in")):
        for filler in (("buffer", None), ("uint32", "unbounded")):
            for same, other in ((0, 1), (0, 2), (2, 0), (2, 2), (0, 0)):
                nfill = 15 - (1 if same >= 2 else 0)
                ps_ = [_P(d_, filler[0], f"f{i_}", filler[1]) for i_ in range(nfill)]
                ps_ += [_P(d_, "uint16", f"v{i_}") for i_ in range(same)]
                ps_ += [_P(od_, "uint8", f"w{i_}") for i_ in range(other)]
                fixed.append({"id": f"C10-limit-{d_}-{filler[0]}-{same}-{other}", "main": "main.idl", "incdirs": [], "files": [{"path": "main.idl", "nodes": [
                    {"k": "interface", "name": "ILimit", "base": None, "members": [{"k": "method", "name": "full", "optional": False, "doc": None, "params": ps_}]}]}]})
        fixed.append({"id": f"C10-limit-{d_}-objs", "main": "main.idl", "incdirs": [], "files": [{"path": "main.idl", "nodes": [
            {"k": "interface", "name": "ILimit", "base": None, "members": [{"k": "method", "name": "full", "optional": False, "doc": None,
             "params": [_P(d_, "interface", f"o{i_}") for i_ in range(15)] + [_P(od_, "interface", "z", 15), _P("in", "uint32", "x")]}]}]}]})
    # the same file name in several directories, reached by bare name, ./ and dir/ spellings
    def _st2(nm_):
        return {"k": "struct", "name": nm_, "fields": [{"type": "uint64", "count": 1, "name": "v"}]}
    fixed.append({"id": "C10-samename-0", "main": "main.idl", "incdirs": [], "files": [
        {"path": "main.idl", "nodes": [{"k": "include", "path": "hal/ihal.idl"}, {"k": "include", "path": "types.idl"},
                                       {"k": "interface", "name": "ICam", "base": None, "members": [{"k": "method", "name": "cfg", "optional": False, "doc": None,
                                        "params": [_P("in", "Settings", "s"), _P("in", "HalCaps", "c")]}]}]},
        {"path": "types.idl", "nodes": [_st2("Settings")]},
        {"path": "hal/ihal.idl", "nodes": [{"k": "include", "path": "./types.idl"}, {"k": "interface", "name": "IHal", "base": None, "members": []}]},
        {"path": "hal/types.idl", "nodes": [_st2("HalCaps")]}]})
    fixed.append({"id": "C10-samename-1", "main": "main.idl", "incdirs": [], "files": [
        {"path": "main.idl", "nodes": [{"k": "include", "path": "types.idl"}, {"k": "include", "path": "a/u.idl"}, {"k": "include", "path": "b/u.idl"},
                                       {"k": "interface", "name": "IAll", "base": None, "members": [{"k": "method", "name": "all", "optional": False, "doc": None,
                                        "params": [_P("in", "Settings", "s"), _P("in", "TA", "a"), _P("out", "TB", "b")]}]}]},
        {"path": "types.idl", "nodes": [_st2("Settings")]},
        {"path": "a/u.idl", "nodes": [{"k": "include", "path": "inc/t.idl"}]}, {"path": "a/inc/t.idl", "nodes": [_st2("TA")]},
        {"path": "b/u.idl", "nodes": [{"k": "include", "path": "inc/t.idl"}]}, {"path": "b/inc/t.idl", "nodes": [_st2("TB")]}]})
    # a file reached through an earlier include is included again, in every position of the
    # include list (diamond onto a non-leaf file, followed / preceded by further includes)
    import itertools
    def _st(nm_, dep=None):
        return {"k": "struct", "name": nm_, "fields": ([{"type": dep, "count": 1, "name": "d"}] if dep else []) + [{"type": "uint64", "count": 1, "name": "v"}]}
    for k_, order in enumerate(itertools.permutations(["a.idl", "c.idl", "d.idl"])):
        files_ = [{"path": "main.idl", "nodes": [{"k": "include", "path": x} for x in order] + [
                      {"k": "interface", "name": "IUseAll", "base": None, "members": [
                          {"k": "method", "name": "use", "optional": False, "doc": None,
                           "params": [{"dir": "in", "type": "SA", "arr": None, "name": "a"}, {"dir": "in", "type": "SD", "arr": None, "name": "d"}]}]}]},
                  {"path": "a.idl", "nodes": [{"k": "include", "path": "c.idl"}, _st("SA", "SC")]},
                  {"path": "c.idl", "nodes": [{"k": "include", "path": "e.idl"}, _st("SC", "SE")]},
                  {"path": "e.idl", "nodes": [_st("SE")]},
                  {"path": "d.idl", "nodes": [_st("SD")]}]
        fixed.append({"id": f"C10-diamond-{k_}", "files": files_, "main": "main.idl", "incdirs": []})
    # names that differ by case only are different names (the documented restriction forbids
    # actual duplicates): constants, errors and methods, within one interface and along a chain
    # that crosses an include
    fixed.append({"id": "C10-case-variants", "main": "main.idl", "incdirs": [], "files": [
        {"path": "main.idl", "nodes": [
            {"k": "include", "path": "ibase.idl"},
            {"k": "interface", "name": "IDeviceC", "base": "IBaseC", "members": [
                {"k": "error", "name": "TIMEOUT"}, {"k": "error", "name": "busy"},
                {"k": "const", "type": "uint32", "name": "version", "value": "1"},
                {"k": "const", "type": "uint32", "name": "VERSION", "value": "0x10"},
                {"k": "method", "name": "Reset", "optional": False, "doc": None, "params": []},
                {"k": "method", "name": "reset", "optional": False, "doc": None, "params": [{"dir": "in", "type": "uint8", "arr": None, "name": "Level"}, {"dir": "in", "type": "uint8", "arr": None, "name": "level"}]}]}]},
        {"path": "ibase.idl", "nodes": [
            {"k": "interface", "name": "IBaseC", "base": None, "members": [
                {"k": "const", "type": "uint32", "name": "Timeout", "value": "5"}, {"k": "error", "name": "BUSY"},
                {"k": "method", "name": "RESET", "optional": False, "doc": None, "params": []}]}]}]})
    fixed.append({"id": "C10-same-const-names", "main": "main.idl", "incdirs": [], "files": [
        {"path": "main.idl", "nodes": [
            {"k": "include", "path": "other.idl"},
            {"k": "const", "type": "uint32", "name": "LIMIT", "value": "3"},
            {"k": "interface", "name": "IReaderN", "base": None, "members": [{"k": "const", "type": "uint32", "name": "VERSION", "value": "1"}, {"k": "error", "name": "FAILED"},
                                                                              {"k": "method", "name": "read", "optional": False, "doc": None, "params": []}]},
            {"k": "interface", "name": "IWriterN", "base": None, "members": [{"k": "const", "type": "uint32", "name": "VERSION", "value": "2"}, {"k": "error", "name": "FAILED"},
                                                                              {"k": "method", "name": "read", "optional": False, "doc": None, "params": []}]}]},
        {"path": "other.idl", "nodes": [
            {"k": "interface", "name": "IOtherN", "base": None, "members": [{"k": "const", "type": "uint16", "name": "VERSION", "value": "9"}, {"k": "error", "name": "FAILED"}]}]}]})
    for i in range(n + len(fixed)):
        base = fixed[i] if i < len(fixed) else gen.gen_case(ctx.rng, opts, cid=f"C10-{ctx.seed}-{i}")
        if i >= len(fixed) and i % 3 == 0:
            # file named after one of its interfaces, interfaces before or after the file-level
            # declarations as generated
            gen.name_main_after_iface(base, ctx.rng)
        variants = [("orig", base), ("permuted", permute_decls(base, ctx.rng)), ("merged", redistribute(base, ctx.rng)),
                    ("commented", base)]
        for vname, case in variants:
            with C.Scratch() as tmp:
                root = os.path.join(tmp, "src")
                idl.render_case(case, root)
                if vname == "commented":
                    # ordinary comments at random token gaps the grammar admits (inside array
                    # brackets, around `:`, between attribute and method, ...): still valid
                    from .c14 import tokenize, with_trivia, pst_ok
                    for f_ in case["files"]:
                        fp = os.path.join(root, f_["path"])
                        for _ in range(8):
                            text = open(fp).read()
                            toks, tail = tokenize(text)
                            if not toks:
                                break
                            gap = ctx.rng.randint(0, len(toks))
                            new_text = with_trivia(toks, tail, gap, ctx.rng.choice([" /* note, with: punctuation; */ ", " // line note\n", "/**/"]))
                            open(fp, "w").write(new_text)
                            if not pst_ok(ctx, fp):
                                open(fp, "w").write(text)
                ctx.bump("evaluations")
                hist["variants"] += 1
                backends = ["c", "c-skel", "cpp", "cpp-skel", "rust"]
                if has_obj_struct(case):
                    hist["java_skipped"] += 1       # the documented unsupported construct
                else:
                    backends.append("java")
                flags = ctx.rng.choice(flagsets)
                mk = None
                if ctx.rng.random() < 0.3:
                    mk = os.path.join(tmp, "marking.txt")
                    open(mk, "w").write("Confidential\nline two\n")
                    flags = flags + ["--marking", mk]
                rv = real_verdicts(ctx, case, root, tmp, backends=backends, flags=flags)
                if vname == "orig":
                    # the same command line given relative to the invocation directory (the parent
                    # of the tree): input, every -I, the marking file and the output
                    import subprocess as _sp
                    os.makedirs(os.path.join(tmp, "gen"), exist_ok=True)
                    open(os.path.join(tmp, "mark.txt"), "w").write("Relative marking\n")
                    for b_ in ("c", "cpp-skel", "rust"):
                        o_rel = os.path.join("gen", "rel-" + b_)
                        if b_ == "rust":
                            os.makedirs(os.path.join(tmp, o_rel), exist_ok=True)
                        cmd_ = [ctx.idlc["debug"], os.path.join("src", case["main"])] + E.BACKENDS[b_] + ["--marking", "mark.txt"]
                        for d_ in case.get("incdirs", []):
                            cmd_ += ["-I", os.path.join("src", d_)]
                        cmd_ += ["-o", o_rel]
                        p_ = _sp.run(cmd_, stdout=_sp.PIPE, stderr=_sp.PIPE, cwd=tmp, env=C.ENV, timeout=60)
                        ctx.bump("evaluations")
                        if p_.returncode != rv[b_][0]:
                            oracle_fail.append({"case": case, "failures": [{"variant": "relative invocation", "backend": b_,
                                                "error": "the same valid command line is refused when its paths are given relative to the invocation directory",
                                                "rc": p_.returncode, "rc_with_absolute_paths": rv[b_][0], "stderr": p_.stderr.decode("utf-8", "replace")[-300:]}]})
                model_cli, impl_cli = E.e1(ctx, case, root, "cli")
                vm, vp = E.verdict_of(model_cli), E.verdict_of(impl_cli)
                if vm != vp or (vm == "accept") != (rv["c"][0] == 0):
                    disagree.append({"case": case, "variant": vname, "model": vm, "probe": vp,
                                     "cli_exit": {b: rc for b, (rc, _) in rv.items()}})
                bad = {b: (rc, err[-300:]) for b, (rc, err) in rv.items() if rc != 0}
                if bad:
                    oracle_fail.append({"case": case, "failures": [{"variant": vname, "flags": flags,
                                        "error": "a valid file set was rejected", "rejected_by": bad}]})
                else:
                    for b in backends:
                        o = os.path.join(tmp, f"out-{b}")
                        if not os.path.exists(o) or (os.path.isfile(o) and os.path.getsize(o) == 0):
                            oracle_fail.append({"case": case, "failures": [{"variant": vname, "error": f"exit 0 but no output for {b}"}]})
                distinct.add((vname, len(case["files"]), tuple(sorted(n["k"] for f in case["files"] for n in f["nodes"]))))
                if len(samples) < 3 and vname == "permuted":
                    samples.append({"variant": vname, "flags": flags, "main": idl.render_file(case["files"][0])[:800]})
    return finish(ctx, prop, gate, oracle_fail, disagree, samples, len(distinct), hist,
                  rule="valid stream: generated file sets over the full grammar (all primitive types, boundary constants in decimal "
                       "and hex, arrays, nested structs, hierarchies, attributes, documentation, every parameter kind), each run as "
                       "generated, with declarations permuted, and with all declarations merged into the main file, for 5-6 backends "
                       "under a random flag set; distinct = distinct (variant, declaration multiset)",
                  extra={"engines": ["E1 facts", "E4 cli"]})


def debug_dump(ctx, prop):
    """developer helper: run C09 and print a summary of failures by class"""
