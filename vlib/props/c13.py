"""C13 — output is deterministic and independent of location and path spelling."""
import os
import shutil
import subprocess

from bench import idl
from .. import common as C
from .. import engines as E
from .. import gen
from .numbering import finish

BACKENDS = ["c", "c-skel", "cpp", "cpp-skel", "rust", "java"]


def run_variant(ctx, main_arg, inc_args, backend, outpath, cwd, extra=()):
    cmd = [ctx.idlc["debug"], main_arg] + E.BACKENDS[backend] + list(extra)
    for d in inc_args:
        cmd += ["-I", d]
    cmd += ["-o", outpath]
    p = subprocess.run(cmd, stdout=subprocess.PIPE, stderr=subprocess.PIPE, env=C.ENV, cwd=cwd, timeout=60)
    return p.returncode


def snapshot(path):
    if os.path.isdir(path):
        return {fn: open(os.path.join(path, fn), "rb").read() for fn in sorted(os.listdir(path))}
    if os.path.exists(path):
        return {"<file>": open(path, "rb").read()}
    return {}


def boundary_case(rng, n):
    """n structs chained so that the struct graph has n nodes (hash-table growth boundaries)"""
    nodes = []
    for i in range(n):
        fields = [{"type": "uint64", "count": 1, "name": "a"}]
        if i > 0:
            fields.append({"type": f"T{rng.randrange(i)}", "count": 1, "name": "b"})
        if i > 1 and rng.random() < 0.5:
            fields.append({"type": f"T{rng.randrange(i)}", "count": 1, "name": "c"})
        nodes.append({"k": "struct", "name": f"T{i}", "fields": fields})
    rng.shuffle(nodes)
    ifs = [{"k": "interface", "name": f"IH{i}", "base": (f"IH{i-1}" if i and rng.random() < 0.6 else None),
            "members": [{"k": "method", "name": f"h{i}", "optional": False, "doc": None,
                         "params": [{"dir": "in", "type": f"T{rng.randrange(n)}", "arr": None, "name": "x"}]}]}
           for i in range(rng.choice([1, 7, 8, 9]))]
    return {"id": f"hash{n}", "files": [{"path": "main.idl", "nodes": nodes + ifs}], "main": "main.idl", "incdirs": []}


def run(ctx, prop):
    gate = C.lean_gate(prop, ctx.tier)
    ctx.setup()
    n = {"quick": 14, "thorough": 150}[ctx.tier]
    opts = gen.Opts(max_files=3, max_ifaces=4, max_methods=4, max_params=5, max_structs=5,
                    small_obj_structs=True, mix_inarr_outobj=True, pad_bundles=True)
    cases = [gen.gen_case(ctx.rng, opts, cid=f"C13-{ctx.seed}-{i}") for i in range(n)]
    for k in ([7, 8, 15, 29] if ctx.tier == "quick" else [3, 4, 7, 8, 14, 15, 16, 28, 29, 30, 57, 58]):
        cases.append(boundary_case(ctx.rng, k))
    # the same bare name in several -I directories (and next to the main file): which one is
    # taken must be a function of the command line only
    for k, dirs in enumerate((["inc_a", "inc_b"], ["inc_b", "inc_a"], ["inc_a", "inc_b", "inc_c"], ["inc_c", "inc_a"])):
        files = [{"path": "main.idl", "nodes": [{"k": "include", "path": "common.idl"},
                  {"k": "interface", "name": "IUse", "base": "IBase", "members": [
                      {"k": "method", "name": "use", "optional": False, "doc": None, "params": [{"dir": "in", "type": "Common", "arr": None, "name": "c"}]}]}]}]
        for j, d in enumerate(["inc_a", "inc_b", "inc_c"] + (["."] if k % 2 else [])):
            files.append({"path": os.path.normpath(os.path.join(d, "common.idl")), "nodes": [
                {"k": "struct", "name": "Common", "fields": [{"type": "uint32", "count": j + 1, "name": f"from_{j}"}]},
                {"k": "interface", "name": "IBase", "base": None, "members": [{"k": "error", "name": f"E{j}"}] + [
                    {"k": "method", "name": f"m{q}", "optional": False, "doc": None, "params": []} for q in range(j + 1)]}]})
        cases.append({"id": f"C13-ambiguous-{k}", "files": files, "main": "main.idl", "incdirs": dirs})
    # a main file with several includes (orders of whatever a backend derives from the include
    # list must not depend on the hash seed); no object structs, so Java runs as well
    for k, nin in enumerate((2, 3, 5)):
        files = [{"path": "main.idl", "nodes": [{"k": "include", "path": f"part{j}.idl"} for j in range(nin)] + [
            {"k": "interface", "name": "ITop", "base": "IPart0", "members": [
                {"k": "method", "name": "all", "optional": False, "doc": None,
                 "params": [{"dir": "in", "type": f"SP{j}", "arr": None, "name": f"p{j}"} for j in range(nin)]}]}]}]
        for j in range(nin):
            files.append({"path": f"part{j}.idl", "nodes": [
                {"k": "struct", "name": f"SP{j}", "fields": [{"type": "uint32", "count": j + 1, "name": "v"}]},
                {"k": "const", "type": "uint16", "name": f"KP{j}", "value": str(j)},
                {"k": "interface", "name": f"IPart{j}", "base": None, "members": [
                    {"k": "method", "name": f"part{j}", "optional": False, "doc": None, "params": []}]}]})
        cases.append({"id": f"C13-multi-include-{k}", "files": files, "main": "main.idl", "incdirs": []})
    # interface names that differ by case only share one output file in the Rust backend (a listed
    # finding of C19): WHICH of them the file holds must still be the same on every run
    cases.append({"id": "C13-casefold", "main": "main.idl", "incdirs": [], "files": [{"path": "main.idl", "nodes": [
        {"k": "interface", "name": "IWidget", "base": None, "members": [
            {"k": "method", "name": "paint", "optional": False, "doc": None, "params": [{"dir": "in", "type": "uint32", "arr": None, "name": "colour"}]}]},
        {"k": "interface", "name": "IWIDGET", "base": None, "members": [
            {"k": "method", "name": "resize", "optional": False, "doc": None, "params": [{"dir": "in", "type": "uint16", "arr": None, "name": "w"}, {"dir": "out", "type": "uint16", "arr": None, "name": "h"}]}]},
        {"k": "interface", "name": "Iwidget", "base": None, "members": [
            {"k": "method", "name": "hide", "optional": False, "doc": None, "params": []}]}]}]})
    oracle_fail, disagree, samples = [], [], []
    hist = {"runs": 0, "cases": 0, "variants_per_backend": 0}
    distinct = set()
    for case in cases:
        with C.Scratch() as tmp:
            rootA = os.path.join(tmp, "locA", "src")
            rootB = os.path.join(tmp, "elsewhere", "deeper", "x", "src2")
            idl.render_case(case, rootA)
            shutil.copytree(rootA, rootB, symlinks=True)
            link = os.path.join(tmp, "lnk")
            os.symlink(rootA, link)
            inc = case.get("incdirs", [])
            has_obj_struct = any(idl.struct_has_objects(case, s) for s in idl.struct_table(case))
            backends = [b for b in BACKENDS if not (b == "java" and has_obj_struct)]
            hist["cases"] += 1
            # location independence of the pipeline facts (probe) and agreement with the model
            mA, iA = E.e1(ctx, case, rootA)
            _, iB = E.e1(ctx, case, rootB)
            ctx.bump("evaluations")
            if iA != iB:
                a, b = C.diff_facts(iA, iB)
                oracle_fail.append({"case": case, "failures": [{"error": "facts of the real pipeline depend on the location of the tree",
                                                                "only_A": a[:5], "only_B": b[:5]}]})
            if E.verdict_of(mA) != E.verdict_of(iA) or (E.verdict_of(mA) == "accept" and mA != iA):
                a, b = C.diff_facts(mA, iA)
                disagree.append({"case": case, "only_model": a[:6], "only_impl": b[:6]})
            # the library entry point (build scripts) on different spellings of the same file:
            # direct, through a symlinked directory, through a symlink to the file itself that
            # lives in another directory, with redundant components
            lib_dir = os.path.join(tmp, "libexport")
            os.makedirs(lib_dir, exist_ok=True)
            lib_flink = os.path.join(lib_dir, "main.idl")
            if not os.path.lexists(lib_flink):
                os.symlink(os.path.join(rootA, "main.idl"), lib_flink)
            lib_inc = [os.path.join(rootA, d) for d in inc] + [rootA]
            lib_res = []
            for lab, mp in (("direct", os.path.join(rootA, "main.idl")), ("symlinked-dir", os.path.join(link, "main.idl")),
                            ("symlinked-file", lib_flink), ("redundant", os.path.join(rootA, ".", "..", "src", "main.idl")),
                            ("relocated", os.path.join(rootB, "main.idl"))):
                incs_ = lib_inc if lab != "relocated" else [os.path.join(rootB, d) for d in inc] + [rootB]
                ans = ctx.probe.ask("libgen2 " + mp + " " + " ".join(incs_))
                lib_res.append((lab, [l for l in ans if l.startswith("lib")]))
                hist["lib_runs"] = hist.get("lib_runs", 0) + 1
            for lab, res_ in lib_res[1:]:
                if res_ != lib_res[0][1]:
                    oracle_fail.append({"case": case, "failures": [{"error": "the library entry point gives different output for another spelling of the same input path",
                                                                    "spelling": lab, "reference": lib_res[0][1][:4], "got": res_[:4]}]})
                    break
            for b in backends:
                variants = []
                # (label, main argument, -I arguments, cwd)
                variants.append(("rel-cwd-root", "main.idl", inc, rootA))
                variants.append(("rel-cwd-root-again", "main.idl", inc, rootA))
                # the main FILE reached through a symbolic link that lives in another directory
                flink_dir = os.path.join(tmp, "export")
                os.makedirs(flink_dir, exist_ok=True)
                flink = os.path.join(flink_dir, "main.idl")
                if not os.path.lexists(flink):
                    os.symlink(os.path.join(rootA, "main.idl"), flink)
                variants.append(("file-symlink", flink, [os.path.join(rootA, d) for d in inc], tmp))
                if case["id"].startswith(("C13-ambiguous", "C13-multi-include", "C13-casefold")):
                    for rep in range(12 if case["id"] == "C13-casefold" else 6):
                        variants.append((f"repeat-{rep}", "main.idl", inc, rootA))
                variants.append(("rel-cwd-root-third", "./main.idl", ["./" + d for d in inc], rootA))
                variants.append(("abs-cwd-slash", os.path.join(rootA, "main.idl"), [os.path.join(rootA, d) for d in inc], "/"))
                variants.append(("relocated", os.path.join(rootB, "main.idl"), [os.path.join(rootB, d) for d in inc], tmp))
                variants.append(("redundant", os.path.join(rootA, ".", "..", "src", "main.idl"),
                                 [os.path.join(rootA, d, ".") + "/" for d in inc], tmp))
                variants.append(("symlinked", os.path.join(link, "main.idl"), [os.path.join(link, d) for d in inc], tmp))
                variants.append(("rel-from-parent", os.path.join("src", "main.idl"), [os.path.join("src", d) for d in inc],
                                 os.path.dirname(rootA)))
                snaps = []
                # the same flags for every run of a (case, backend): half of the time with a marking
                # file (one more input whose handling must not depend on anything else)
                extra = []
                if (hist["cases"] + len(b)) % 2 == 0:
                    mkf = os.path.join(tmp, "marking.txt")
                    open(mkf, "w").write("Confidential\nDo not distribute\n")
                    extra = ["--marking", mkf]
                for k, (label, main_arg, inc_args, cwd) in enumerate(variants):
                    out = os.path.join(tmp, f"out-{b}-{k}")
                    if b in ("rust", "java"):
                        os.makedirs(out, exist_ok=True)
                    elif k % 3 == 1:
                        # what the target held before must not matter: a longer, unrelated file
                        with open(out, "w") as fh_:
                            fh_.write("/* stale */\n" * 20000)
                    if k % 3 == 2 and snaps and snaps[0][1] == 0:
                        # ... nor files of the right names and the right sizes with other bytes
                        for fn_, data_ in snaps[0][2].items():
                            stale_ = bytes((c_ ^ 1) if 48 <= c_ < 58 else c_ for c_ in data_)
                            tgt_ = out if fn_ == "<file>" else os.path.join(out, fn_)
                            with open(tgt_, "wb") as fh_:
                                fh_.write(stale_)
                    rc = run_variant(ctx, main_arg, inc_args, b, out, cwd, extra=extra)
                    hist["runs"] += 1
                    snaps.append((label, rc, snapshot(out)))
                hist["variants_per_backend"] = len(variants)
                ref = snaps[0]
                for label, rc, snap in snaps[1:]:
                    if rc != ref[1] or snap != ref[2]:
                        diff_names = sorted(set(snap) ^ set(ref[2])) or [k for k in snap if snap[k] != ref[2].get(k)]
                        oracle_fail.append({"case": case, "failures": [{"backend": b, "variant": label, "rc": rc, "ref_rc": ref[1],
                                                                        "error": "output differs from the reference run",
                                                                        "differing": diff_names[:5]}]})
                        break
                distinct.add((case["id"], b))
            if len(samples) < 3:
                samples.append({"case": case["id"], "files": [f["path"] for f in case["files"]], "backends": backends})
    # ---- "no matter how often it is run": also in ONE process (vlib/history.py)
    from .. import history as H_
    H_.history_pass(ctx, oracle_fail, hist)
    return finish(ctx, prop, gate, oracle_fail, disagree, samples, len(distinct), hist,
                  rule="every accepted generated file set (plus struct/interface graphs sized around hash-table growth boundaries) is compiled "
                       "8 times per backend in fresh processes (fresh SipHash keys): three times from the tree root with relative paths, with "
                       "absolute paths from /, from a relocated copy at a different depth, with redundant path components and trailing "
                       "slashes, through a symlink to the tree, and relative from the parent directory; names and bytes of all outputs "
                       "are compared; non-trivial/distinct = distinct (case, backend)",
                  extra={"engines": ["E1 facts at two locations", "E4 cli"]})
