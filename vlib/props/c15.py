"""C15 — appending to an interface or file never disturbs existing methods' ABI."""
import copy
import os
import re

from bench import idl
from .. import common as C
from .. import engines as E
from .. import gen
from .. import extract as X
from . import c02 as S
from .numbering import finish


def append_revision(rng, case, opts, rev):
    """one append-only step: members appended at the end of some interfaces, new top-level
    declarations added anywhere (after the includes) in some files; returns (case', touched)"""
    c = copy.deepcopy(case)
    nm = gen.Namer()
    nm.n = {"m": 1000 * rev, "p": 1000 * rev, "K": 1000 * rev, "E": 1000 * rev, "S": 1000 * rev, "I": 1000 * rev, "f": 1000 * rev}
    touched = set()
    structs = []
    ifaces = list(idl.iface_table(c))
    for f in c["files"]:
        for n in f["nodes"]:
            if n["k"] == "interface" and rng.random() < 0.5:
                for _ in range(rng.randint(1, 3)):
                    r = rng.random()
                    # names that coincide with what a backend derives from a method name
                    # (`<I>_OP_<m>` in C) are ordinary identifiers of the IDL
                    own_methods = [m["name"] for m in n["members"] if m["k"] == "method"]
                    taken = {m["name"] for m in n["members"]}
                    odd = "OP_" + rng.choice(own_methods) if own_methods and rng.random() < 0.3 else None
                    if odd in taken:
                        odd = None
                    if r < 0.25:
                        n["members"].append({"k": "error", "name": odd or nm.new("E")})
                    elif r < 0.4:
                        n["members"].append({"k": "const", "type": "uint32", "name": odd or nm.new("K"), "value": str(rng.randrange(100))})
                    else:
                        n["members"].append(gen.gen_method(rng, nm, opts, structs, ifaces))
                touched.add(n["name"])
        if rng.random() < 0.5:
            k = 0
            while k < len(f["nodes"]) and f["nodes"][k]["k"] == "include":
                k += 1
            pos = rng.randint(k, len(f["nodes"]))
            what = rng.choice(["const", "struct", "iface"])
            if what == "const":
                f["nodes"].insert(pos, {"k": "const", "type": "uint16", "name": nm.new("K"), "value": "7"})
            elif what == "struct":
                f["nodes"].insert(pos, {"k": "struct", "name": nm.new("S"), "fields": [{"type": "uint32", "count": 2, "name": nm.new("f")}]})
            else:
                # a new, unrelated interface; its methods may well be called like existing ones
                # of other interfaces (open/close/get ...): interface scopes are separate
                ms = [gen.gen_method(rng, nm, opts, structs, ifaces) for _ in range(rng.randint(1, 3))]
                old_names = sorted({m["name"] for ff in c["files"] for x in ff["nodes"] if x["k"] == "interface"
                                    for m in x["members"] if m["k"] == "method"})
                for m in ms:
                    if old_names and rng.random() < 0.7:
                        cand = rng.choice(old_names)
                        if cand not in {x["name"] for x in ms}:
                            m["name"] = cand
                f["nodes"].insert(pos, {"k": "interface", "name": nm.new("I"), "base": None, "members": ms})
    return c, touched


def stable_owners(case_old, touched, iface):
    """owners (root first) whose old members must keep everything: up to and including the
    first interface of the chain that got members appended"""
    ch = [l["name"] for l in idl.chain(case_old, iface)]
    out = []
    for o in ch:
        out.append(o)
        if o in touched:
            break
    return out


def method_fragments(res, stem, iface, case):
    """{(backend, method): text} of the generated code of each own method of iface"""
    out = {}
    if res["c"][0] == 0:
        for m, b in S.c_stub_functions(res["c"][1][stem + ".h"], iface).items():
            out[("c", m)] = b
    if res["c-skel"][0] == 0:
        txt = res["c-skel"][1][stem + "_invoke.h"]
        blk = re.search(r"#define %s_DEFINE_INVOKE\(func, prefix, type\)(.*?)(?=#define \w+_DEFINE_INVOKE|\Z)" % re.escape(iface), txt, re.S)
        if blk:
            ms = list(re.finditer(r"case (\w+?)_OP_(\w+): \{", blk.group(1)))
            for i, m in enumerate(ms):
                end = ms[i + 1].start() if i + 1 < len(ms) else len(blk.group(1))
                lines = []
                for ln in blk.group(1)[m.start():end].splitlines():
                    lines.append(ln)
                    if ln.rstrip(" \\") == "            }":      # closing brace of the case block
                        break
                out[("c-skel", m.group(1) + "." + m.group(2))] = "\n".join(lines)
    if res["rust"][0] == 0:
        txt = res["rust"][1].get(iface.lower() + ".rs", "")
        head = txt.split('unsafe extern "C" fn invoke(')[0]
        ms = list(re.finditer(r"^    pub fn r#(\w+)\(\s*&self", head, re.M))
        for i, m in enumerate(ms):
            end = ms[i + 1].start() if i + 1 < len(ms) else len(head)
            lines = []
            for ln in head[m.start():end].splitlines():
                lines.append(ln)
                if ln == "    }":                               # closing brace of the method
                    break
            out[("rust", m.group(1))] = "\n".join(lines)
    return out


def run(ctx, prop):
    gate = C.lean_gate(prop, ctx.tier)
    ctx.setup()
    n = {"quick": 14, "thorough": 150}[ctx.tier]
    opts = gen.Opts(max_files=2, max_ifaces=4, max_methods=4, max_params=5, max_structs=3, max_depth=3)
    oracle_fail, disagree, samples = [], [], []
    hist = {"revisions": 0, "facts_compared": 0, "fragments_compared": 0}
    distinct = set()
    for i in range(n + 4):
        case = gen.gen_case(ctx.rng, opts, cid=f"C15-{ctx.seed}-{i}") if i < n else \
            gen.big_iface_case(ctx.rng, cid=f"C15-big-{ctx.seed}-{i}", grouped=(i % 2 == 1))
        prev = None
        for rev in range(ctx.rng.randint(3, 5)):
            if rev > 0:
                case, touched = append_revision(ctx.rng, case, opts, rev)
            with C.Scratch() as tmp:
                root, out = os.path.join(tmp, "src"), os.path.join(tmp, "out")
                os.makedirs(out)
                idl.render_case(case, root)
                model, impl = E.e1(ctx, case, root)
                ctx.bump("evaluations")
                hist["revisions"] += 1
                vm, vi = E.verdict_of(model), E.verdict_of(impl)
                keys = ("op", "err", "method")
                if vm != vi or E.lines_with(model, *keys) != E.lines_with(impl, *keys):
                    a, b = C.diff_facts(E.lines_with(model, *keys), E.lines_with(impl, *keys))
                    disagree.append({"case": case, "model": vm, "impl": vi, "only_model": a[:5], "only_impl": b[:5]})
                if vi != "accept":
                    break
                res = E.emit_all(ctx, case, root, out, backends=("c", "c-skel", "rust"))
                main = next(f for f in case["files"] if f["path"] == case["main"])
                frags = {}
                for nd in main["nodes"]:
                    if nd["k"] == "interface":
                        frags[nd["name"]] = method_fragments(res, "main", nd["name"], case)
                # the op-code macros of the C stub as the C compiler evaluates them (not as the text
                # reads): every flattened method of every main-file interface must have its MIR id
                if res["c"][0] == 0:
                    hdr = os.path.join(out, "main.h")
                    # the macro is named after the interface that DECLARES the method (a derived
                    # interface's stubs use the owner's macros); owners declared in this file only
                    here = {nd["name"] for nd in main["nodes"] if nd["k"] == "interface"}
                    wanted = sorted({(owner, m["name"], op) for nd in main["nodes"] if nd["k"] == "interface"
                                     for owner, m, op in idl.flat_methods(case, nd["name"]) if owner in here})
                    if wanted:
                        # only the preprocessor lines of the header, in order (definitions, their
                        # guards and redefinitions): independent of the declarations around them
                        pp, cont = [], False
                        for ln in open(hdr).read().split("\n"):
                            st_ = ln.lstrip()
                            if cont or (st_.startswith("#") and not st_.startswith("#include")):
                                pp.append(ln)
                                cont = ln.rstrip().endswith("\\")
                        open(os.path.join(tmp, "ops_defs.h"), "w").write("\n".join(pp) + "\n")
                        src = ['#include <stdio.h>', '#include <stdint.h>', '#include "ops_defs.h"', "int main(void) {"]
                        src += [f'  printf("{I} {mn} %ld\\n", (long)({I}_OP_{mn}));' for I, mn, _ in wanted]
                        src += ["  return 0;", "}"]
                        open(os.path.join(tmp, "ops.c"), "w").write("\n".join(src) + "\n")
                        cp = C.run(["gcc", "-w", "-I", tmp, os.path.join(tmp, "ops.c"), "-o", os.path.join(tmp, "ops")])
                        if cp.returncode != 0:
                            hist["ops_probe_failed"] = hist.get("ops_probe_failed", 0) + 1
                        if cp.returncode == 0:
                            got = {tuple(l.split()[:2]): int(l.split()[2]) for l in C.run([os.path.join(tmp, "ops")]).stdout.splitlines() if len(l.split()) == 3}
                            hist["compiled_ops"] = hist.get("compiled_ops", 0) + len(got)
                            bad_ops = [(I, mn, op, got.get((I, mn))) for I, mn, op in wanted if got.get((I, mn)) != op]
                            if bad_ops:
                                oracle_fail.append({"case": case, "failures": [{"error": "an op-code macro of the C stub evaluates to something else than the method's op-code",
                                                                                "revision": rev, "examples": bad_ops[:4]}]})
                cur = {"case": case, "facts": impl, "frags": frags}
                if prev is not None:
                    for I in [x["name"] for x in next(f for f in prev["case"]["files"] if f["path"] == prev["case"]["main"])["nodes"] if x["k"] == "interface"]:
                        owners = stable_owners(prev["case"], touched, I)
                        old = [l for l in E.lines_with(prev["facts"], *keys) if l.split(" ")[1] == I and l.split(" ")[2] in owners]
                        new = set(E.lines_with(impl, *keys))
                        hist["facts_compared"] += len(old)
                        missing = [l for l in old if l not in new]
                        if missing:
                            oracle_fail.append({"case": case, "failures": [{"error": "facts of a pre-existing member changed after an append-only revision",
                                                                            "iface": I, "missing": missing[:5], "revision": rev}]})
                        # generated code of old own methods of I (when I's own chain prefix is stable)
                        if owners and owners[-1] == I or I not in touched and set(owners) == {l["name"] for l in idl.chain(prev["case"], I)}:
                            for key, text in prev["frags"].get(I, {}).items():
                                hist["fragments_compared"] += 1
                                if frags.get(I, {}).get(key) != text:
                                    oracle_fail.append({"case": case, "failures": [{"error": "generated code of a pre-existing method changed",
                                                                                    "iface": I, "fragment": list(key), "revision": rev}]})
                                    break
                        distinct.add((case["id"], rev, I))
                prev = cur
        if len(samples) < 3:
            samples.append({"case": case["id"], "final_main": idl.render_file(case["files"][0])[:700]})
    # ---- scripted histories: revisions that ADD declarations whose names coincide with words the
    # grammar also uses elsewhere (a struct called `buffer`), or that supply something the first
    # revision only named (a base interface declared later, in an included file). Whatever of the
    # first revision is accepted must keep its numbers and its generated code.
    _P = lambda d, t, n, a=None: {"dir": d, "type": t, "arr": a, "name": n}
    _M = lambda nm, ps: {"k": "method", "name": nm, "optional": False, "doc": None, "params": ps}
    store1 = {"k": "interface", "name": "IStoreR", "base": None, "members": [
        {"k": "error", "name": "NOT_FOUND"}, _M("put", [_P("in", "uint32", "key"), _P("in", "buffer", "value")]),
        _M("get", [_P("in", "uint32", "key"), _P("out", "buffer", "value")])]}
    store2 = dict(store1, members=store1["members"] + [_M("erase", [_P("in", "uint32", "key")])])
    scripted = []
    for nm in ("buffer", "Buffer", "interface", "object", "Object"):
        st_ = {"k": "struct", "name": nm, "fields": [{"type": "uint64", "count": 1, "name": "addr"}, {"type": "uint32", "count": 2, "name": "len"}]}
        scripted.append((f"keyword-struct-{nm}",
                         {"id": "C15-s1", "main": "main.idl", "incdirs": [], "files": [{"path": "main.idl", "nodes": [store1]}]},
                         {"id": "C15-s2", "main": "main.idl", "incdirs": [], "files": [{"path": "main.idl", "nodes": [st_, store2]}]}))
        scripted.append((f"keyword-struct-included-{nm}",
                         {"id": "C15-s1", "main": "main.idl", "incdirs": [], "files": [{"path": "main.idl", "nodes": [{"k": "include", "path": "t.idl"}, store1]},
                                                                                         {"path": "t.idl", "nodes": [{"k": "const", "type": "uint8", "name": "TK", "value": "1"}]}]},
                         {"id": "C15-s2", "main": "main.idl", "incdirs": [], "files": [{"path": "main.idl", "nodes": [{"k": "include", "path": "t.idl"}, store2]},
                                                                                         {"path": "t.idl", "nodes": [{"k": "const", "type": "uint8", "name": "TK", "value": "1"}, st_]}]}))
    dev = {"k": "interface", "name": "IDeviceR", "base": "IServiceR", "members": [
        {"k": "error", "name": "BUSY"}, _M("reset", []), _M("open", [_P("in", "uint32", "id"), _P("out", "uint32", "v")]), _M("close", [])]}
    svc = {"k": "interface", "name": "IServiceR", "base": None, "members": [{"k": "error", "name": "TIMEOUT"}, _M("ping", []), _M("version", [_P("out", "uint32", "v")])]}
    common1 = {"path": "common.idl", "nodes": [{"k": "const", "type": "uint8", "name": "CK", "value": "1"}]}
    scripted.append(("base-supplied-later",
                     {"id": "C15-b1", "main": "main.idl", "incdirs": [], "files": [{"path": "main.idl", "nodes": [{"k": "include", "path": "common.idl"}, dev]}, common1]},
                     {"id": "C15-b2", "main": "main.idl", "incdirs": [], "files": [{"path": "main.idl", "nodes": [{"k": "include", "path": "common.idl"}, dev]},
                                                                                     {"path": "common.idl", "nodes": common1["nodes"] + [svc]}]}))
    for label, r1, r2 in scripted:
        snaps = []
        for rv_ in (r1, r2):
            with C.Scratch() as tmp:
                root, out = os.path.join(tmp, "src"), os.path.join(tmp, "out")
                os.makedirs(out)
                idl.render_case(rv_, root)
                res = E.emit_all(ctx, rv_, root, out, backends=("c", "c-skel", "rust"))
                ctx.bump("evaluations")
                ok = res["c"][0] == 0
                fr = {}
                if ok:
                    for nd in rv_["files"][0]["nodes"]:
                        if nd["k"] == "interface":
                            fr[nd["name"]] = method_fragments(res, "main", nd["name"], rv_)
                snaps.append((ok, fr))
        hist["scripted_histories"] = hist.get("scripted_histories", 0) + 1
        if snaps[0][0] and snaps[1][0]:
            for I, old in snaps[0][1].items():
                for key, text in old.items():
                    hist["fragments_compared"] += 1
                    if snaps[1][1].get(I, {}).get(key) != text:
                        oracle_fail.append({"case": {"id": "C15-scripted", "history": label, "rev1": idl.render_file(r1["files"][0])[:400],
                                                     "rev2_adds": label}, "failures": [
                            {"error": "generated code (op-code, counts, signature or marshalling) of a pre-existing method changed although the revision only added declarations",
                             "iface": I, "fragment": list(key)}]})
                        break
            distinct.add(("scripted", label))
    return finish(ctx, prop, gate, oracle_fail, disagree, samples, len(distinct), hist,
                  rule="random append-only histories of 3-5 revisions (members appended at the end of random interfaces of a hierarchy; constants, "
                       "structs and interfaces inserted at random file-level positions); after each revision the op/err/method facts of the real "
                       "pipeline for every pre-existing member of an interface and its ancestors (up to the first appended ancestor) and the "
                       "generated C stub, C skeleton and Rust stub fragments of every pre-existing method are compared with the previous "
                       "revision; distinct = distinct (history, revision, interface)",
                  extra={"engines": ["E1 facts", "E4 emitted text fragments"]})
