"""C02 — canonical envelope: op, counts, BI/BO/OI/OO order, counts <= 15."""
import itertools
import os
import re

from bench import idl
from .. import common as C
from .. import engines as E
from .. import extract as X
from .. import gen
from .. import findings as F
from .numbering import finish, corpus_cases

# ----------------------------------------------------------------- shape alphabet

PRELUDE = [
    {"k": "struct", "name": "S4", "fields": [{"type": "uint32", "count": 1, "name": "a"}]},
    {"k": "struct", "name": "S16", "fields": [{"type": "uint64", "count": 2, "name": "a"}]},
    {"k": "struct", "name": "B24", "fields": [{"type": "uint64", "count": 3, "name": "a"}]},
    {"k": "struct", "name": "OB", "fields": [{"type": "uint64", "count": 2, "name": "a"},
                                              {"type": "interface", "count": 1, "name": "o"}]},
    {"k": "struct", "name": "SO", "fields": [{"type": "interface", "count": 1, "name": "o"}]},
    {"k": "interface", "name": "IT", "base": None, "members": []},
]

LETTERS = {
    "buf": ("buffer", None), "u8": ("uint8", None), "u32": ("uint32", None), "u64": ("uint64", None),
    "arr": ("uint16", "unbounded"), "s4": ("S4", None), "s16": ("S16", None), "b24": ("B24", None),
    "sarr": ("B24", "unbounded"), "obj": ("interface", None), "tobj": ("IT", None),
    "oarr": ("interface", 2), "ob": ("OB", None), "so": ("SO", None),
}


def valid_combo(combo):
    """the interface-verifier rules, restated: no object array together with a single object
    in the same direction (two arrays are *accepted* by the code, kept out here)"""
    for d in ("in", "out"):
        arrs = sum(1 for (dd, l) in combo if dd == d and l == "oarr")
        vals = sum(1 for (dd, l) in combo if dd == d and l in ("obj", "tobj"))
        if arrs and vals or arrs > 1:
            return False
    return True


def enum_methods(maxlen, letters):
    al = [(d, l) for d in ("in", "out") for l in letters]
    n = 0
    for k in range(0, maxlen + 1):
        for combo in itertools.product(al, repeat=k):
            if not valid_combo(combo):
                continue
            n += 1
            params = [{"dir": d, "type": LETTERS[l][0], "arr": LETTERS[l][1], "name": f"p{i}"}
                      for i, (d, l) in enumerate(combo)]
            yield {"k": "method", "name": f"m{n}", "optional": False, "doc": None, "params": params}


def pack_cases(methods, per=120, prefix="enum"):
    out, cur = [], []
    for m in methods:
        cur.append(m)
        if len(cur) == per:
            out.append(cur)
            cur = []
    if cur:
        out.append(cur)
    cases = []
    for i, ms in enumerate(out):
        nodes = [dict(n) for n in PRELUDE] + [{"k": "interface", "name": "IE", "base": None, "members": ms}]
        cases.append({"id": f"{prefix}{i}", "files": [{"path": "main.idl", "nodes": nodes}], "main": "main.idl", "incdirs": []})
    return cases


# ----------------------------------------------------------------- independent oracle (the Mink rule)

def embedded_objects(case, t):
    return sum(1 for _, lt in idl.leaves(case, t) if lt == "object")


def mink_counts(case, method):
    """counts prescribed by the marshalling rule, computed from the declaration alone"""
    res = {}
    for d in ("in", "out"):
        smalls = bufs = objs = 0
        for p in method["params"]:
            if p["dir"] != d:
                continue
            k = idl.param_kind(case, p)
            if k in ("prim", "small"):
                smalls += 1
            elif k in ("buffer", "primarr", "structarr", "big"):
                bufs += 1
            elif k == "obj":
                objs += 1
            elif k == "objarr":
                objs += int(p["arr"])
            if k in ("small", "big"):
                objs += embedded_objects(case, p["type"])
        res[d] = (bufs + (1 if smalls else 0), objs)
    return (res["in"][0], res["out"][0], res["in"][1], res["out"][1])


# ----------------------------------------------------------------- per-method extraction from emitted text

def c_stub_functions(text, iface):
    out = {}
    for m in re.finditer(r"^static inline int32_t\s+%s_(\w+)\(Object self.*?^\}" % re.escape(iface), text, re.S | re.M):
        out[m.group(1)] = m.group(0)
    return out


def c_stub_slots(body):
    m = re.search(r"ObjectArg a\[\] = \{(.*?)^\s*\};", body, re.S | re.M)
    if not m:
        return []
    slots = []
    for line in m.group(1).splitlines():
        line = line.strip()
        if line.startswith("{.bi"):
            slots.append(0)
        elif line.startswith("{.b "):
            # inputs reach `.b` only as the input bundle (`&i`) or a lone primitive (`&x_val`)
            slots.append(0 if re.search(r"\{\s*&(?:i|\w+_val)\s*,", line) else 1)
        elif line.startswith("{.o"):
            slots.append(3 if ("Object_NULL" in line or "{ NULL, NULL }" in line) else 2)
    return slots


def first_pack(seg):
    w = X.pack_words(seg)
    if w:
        return w[0]
    if re.search(r"(?:Object_invoke|invoke)\([^;]*,\s*0,\s*0\)", seg):
        return (0, 0, 0, 0)
    return None


def segments(text, pattern):
    """{name: segment text} splitting text at each match of pattern (group 1 = name)"""
    ms = list(re.finditer(pattern, text, re.M))
    out = {}
    for i, m in enumerate(ms):
        end = ms[i + 1].start() if i + 1 < len(ms) else len(text)
        out.setdefault(m.group(1), text[m.start():end])
    return out


def method_packs(res, stem, iface):
    """{backend: {method: pack tuple}} for the methods of `iface` (own methods)"""
    out = {}
    if res["c"][0] == 0:
        fns = c_stub_functions(res["c"][1][stem + ".h"], iface)
        out["c"] = {m: first_pack(b) for m, b in fns.items() if m not in ("release", "retain")}
    if res["c-skel"][0] == 0:
        txt = res["c-skel"][1][stem + "_invoke.h"]
        blk = re.search(r"#define %s_DEFINE_INVOKE\(func, prefix, type\)(.*?)(?=#define \w+_DEFINE_INVOKE|\Z)" % re.escape(iface), txt, re.S)
        segs = segments(blk.group(1), r"case %s_OP_(\w+): \{" % re.escape(iface)) if blk else {}
        out["c-skel"] = {m: first_pack(s) for m, s in segs.items()}
    if res["cpp"][0] == 0:
        cls = X.cpp_classes(res["cpp"][1][stem + ".hpp"]).get(iface, "")
        segs = segments(cls, r"^    virtual int32_t (\w+)\(")
        out["cpp"] = {m: first_pack(s) for m, s in segs.items()}
    if res["cpp-skel"][0] == 0:
        cls = X.cpp_classes(res["cpp-skel"][1][stem + "_invoke.hpp"]).get(iface + "ImplBase", "")
        segs = segments(cls, r"case OP_(\w+): \{")
        out["cpp-skel"] = {m: first_pack(s) for m, s in segs.items()}
    if res["rust"][0] == 0:
        txt = res["rust"][1].get(iface.lower() + ".rs", "")
        head = txt.split('unsafe extern "C" fn invoke(')[0]
        segs = segments(head, r"pub fn r#(\w+)\(\s*&self")
        out["rust"] = {m: first_pack(s) for m, s in segs.items()}
        tail = txt.split('unsafe extern "C" fn invoke(')[1] if 'unsafe extern "C" fn invoke(' in txt else ""
        arms = list(re.finditer(r"^        (\d+) => \{", tail, re.M))
        rs = {}
        for i, a in enumerate(arms):
            end = arms[i + 1].start() if i + 1 < len(arms) else len(tail)
            seg = tail[a.end():end]
            c = re.search(r"cx\s*\.r#(\w+)\(", seg)
            if c:
                rs[c.group(1)] = first_pack(seg)
        out["rust-skel"] = rs
    return out


# ----------------------------------------------------------------- the check

def check_case(ctx, case, st):
    """E1 correspondence + oracle on the emitted text of one case"""
    with C.Scratch() as tmp:
        root, out = os.path.join(tmp, "src"), os.path.join(tmp, "out")
        os.makedirs(out)
        idl.render_case(case, root)
        model, impl = E.e1(ctx, case, root)
        ctx.bump("evaluations")
        vm, vi = E.verdict_of(model), E.verdict_of(impl)
        fm, fi = E.lines_with(model, "method"), E.lines_with(impl, "method")
        if vm != vi or fm != fi:
            a, b = C.diff_facts(fm, fi)
            st["disagree"].append({"case": case, "model_verdict": vm, "impl_verdict": vi,
                                   "only_model": a[:6], "only_impl": b[:6]})
        if vi != "accept":
            st["hist"]["rejected"] += 1
            return
        raw_model = ctx.driver.ask("facts cli " + idl.case_tokens(case))
        model_slots = {}
        for l in raw_model:
            if l.startswith("#slots "):
                parts = l.split(" ")
                model_slots[(parts[1], parts[3])] = [int(x) for x in parts[4].split(",")] if len(parts) > 4 and parts[4] else []
        res = E.emit_all(ctx, case, root, out, backends=("c", "c-skel", "cpp", "cpp-skel", "rust"))
        for b, (rc, files, err) in res.items():
            if rc != 0:
                st["oracle_fail"].append({"case": case, "failures": [{"kind": "emit", "where": b, "error": f"idlc exit {rc}", "stderr": err[-300:]}]})
                return
        for n in next(f for f in case["files"] if f["path"] == case["main"])["nodes"]:
            if n["k"] != "interface":
                continue
            I = n["name"]
            packs = method_packs(res, "main", I)
            fns = c_stub_functions(res["c"][1]["main.h"], I)
            for m in n["members"]:
                if m["k"] != "method":
                    continue
                st["hist"]["methods"] += 1
                name = m["name"]
                exp = mink_counts(case, m)
                fails = []
                got = {b: packs.get(b, {}).get(name) for b in ("c", "c-skel", "cpp", "cpp-skel", "rust", "rust-skel")}
                if any(v != exp for v in got.values()):
                    fails.append({"kind": "counts", "expected": exp, "got": {b: v for b, v in got.items()}})
                slots = c_stub_slots(fns.get(name, ""))
                secs = tuple(slots.count(k) for k in range(4))
                if slots != sorted(slots) or secs != exp:
                    fails.append({"kind": "sections", "c_stub_slots": slots, "expected_counts": exp})
                if max(exp) > 15:
                    fails.append({"kind": "bound", "counts": exp, "note": "accepted although a class exceeds 15"})
                # correspondence of the emitted argument array with the model's walk
                ms = model_slots.get((I, name))
                if ms is not None and ms != slots:
                    st["disagree"].append({"case": {"id": case["id"], "method": idl.render_member(m)},
                                           "model_slots": ms, "c_stub_slots": slots})
                key = (tuple(sorted((p["dir"], idl.param_kind(case, p)) for p in m["params"])))
                if len(m["params"]) >= 2:
                    st["distinct"].add(key)
                if fails:
                    cls = F.classify("C02", case, m, fails)
                    if cls["unexplained"]:
                        st["oracle_fail"].append({"case": {"id": case["id"], "idl": idl.render_member(m),
                                                           "prelude": [idl.render_node(x) for x in case["files"][0]["nodes"] if x["k"] == "struct"]},
                                                  "failures": cls["unexplained"]})
                    for k in cls["known"]:
                        st["known"].setdefault(k, idl.render_member(m).strip())
                if len(st["samples"]) < 4 and len(m["params"]) >= 3:
                    st["samples"].append({"method": idl.render_member(m).strip(), "counts": exp, "c_stub_slots": slots})


def run(ctx, prop):
    gate = C.lean_gate(prop, ctx.tier)
    ctx.setup()
    st = {"disagree": [], "oracle_fail": [], "known": {}, "distinct": set(), "samples": [],
          "hist": {"methods": 0, "rejected": 0}}
    cases = [c for c in corpus_cases(prop)]
    cases += F.witness_cases(prop)
    letters = list(LETTERS)
    if ctx.tier == "quick":
        cases += pack_cases(enum_methods(2, letters), prefix="enum2-")
        nrand = 25
    else:
        cases += pack_cases(enum_methods(2, letters), prefix="enum2-")
        cases += pack_cases(enum_methods(3, [l for l in letters if l not in ("u8", "tobj", "sarr")]), per=400, prefix="enum3-")
        nrand = 250
    opts = gen.Opts(max_params=10, big_counts=False, small_obj_structs=True, mix_inarr_outobj=True,
                    two_obj_arrays=False, pad_bundles=True, max_ifaces=3)
    for i in range(nrand):
        cases.append(gen.gen_case(ctx.rng, opts, cid=f"C02-{ctx.seed}-{i}"))
    for case in cases:
        check_case(ctx, case, st)
    # ---- the bound: a method is accepted exactly when every class fits its 4-bit field
    def one_method(params):
        nodes = [dict(n) for n in PRELUDE] + [{"k": "interface", "name": "IB", "base": None, "members": [
            {"k": "method", "name": "mb", "optional": False, "doc": None, "params": params}]}]
        return {"id": "bound", "files": [{"path": "main.idl", "nodes": nodes}], "main": "main.idl", "incdirs": []}
    P = lambda d, t, a, n: {"dir": d, "type": t, "arr": a, "name": n}
    bound_cases = []
    for n in (14, 15, 16, 17, 255, 256):
        bound_cases.append([P("in", "buffer", None, f"b{i}") for i in range(n)])
        bound_cases.append([P("out", "uint16", "unbounded", f"b{i}") for i in range(n)])
        bound_cases.append([P("in", "buffer", None, f"b{i}") for i in range(n - 1)] + [P("in", "uint8", None, "s1"), P("in", "S4", None, "s2")])
        if n <= 256:
            bound_cases.append([P("in", "interface", n, "oa")])
            bound_cases.append([P("out", "IT", n, "oa"), P("in", "uint32", None, "x")])
        bound_cases.append([P("in", "OB", None, f"o{i}") for i in range(min(n, 20))])
    # systematically: every buffer-class filler in either direction, with 0/1/2 bundled values
    # of the same direction (they add ONE buffer) and with/without a small value in the other
    # direction; single objects and object arrays around the bound
    for d, od in (("in", "out"), ("out", "in")):
        for n in (14, 15, 16):
            for filler in (("buffer", None), ("uint32", "unbounded"), ("OB", None)):
                for same in (0, 1, 2):
                    for other in (0, 1):
                        ps = [P(d, filler[0], filler[1], f"f{i}") for i in range(n)]
                        ps += [P(d, "uint16", None, f"v{i}") for i in range(same)]
                        ps += [P(od, "uint8", None, "w0")] * other
                        if filler[0] == "OB" and n > 15:
                            continue
                        bound_cases.append(ps)
            bound_cases.append([P(d, "interface", None, f"o{i}") for i in range(n)])
            bound_cases.append([P(d, "IT", None, f"o{i}") for i in range(n - 1)] + [P(od, "interface", None, "z"), P(od, "interface", None, "z2")])
    # two ways of contributing to one class at once (objects in struct fields plus an object
    # array; fifteen buffers plus a lone small value), shared with C04 and C16 (vlib/bounds.py)
    from .. import bounds as BD
    bound_cases += BD.extra_lists()
    one_method = BD.one_method
    for params in bound_cases:
        case = one_method(params)
        exp = mink_counts(case, case["files"][0]["nodes"][-1]["members"][0])
        with C.Scratch() as tmp:
            root = os.path.join(tmp, "src")
            idl.render_case(case, root)
            rc, err = E.run_idlc(ctx, root, "main.idl", [], "c", os.path.join(tmp, "o.h"))
            if max(exp) > 15 and len(params) <= 40:
                # the decision must not depend on the backend flags: skeleton-only, C++ and Rust runs
                for mode in ("c-skel", "cpp-skel", "rust"):
                    o2 = os.path.join(tmp, "o-" + mode)
                    if mode == "rust":
                        os.makedirs(o2, exist_ok=True)
                    rc2, _ = E.run_idlc(ctx, root, "main.idl", [], mode, o2)
                    ctx.bump("evaluations")
                    if rc2 == 0:
                        st["oracle_fail"].append({"case": {"id": "bound", "counts": exp, "params": len(params), "backend": mode}, "failures": [
                            {"kind": "bound", "error": "accepted although a class exceeds 15 (with these backend flags only)", "cli_exit": rc2}]})
            model, impl = E.e1(ctx, case, root)
            ctx.bump("evaluations")
            vm = E.verdict_of(model) == "accept"
            if vm != (rc == 0) or vm != (E.verdict_of(impl) == "accept"):
                st["disagree"].append({"case": {"id": "bound", "counts": exp}, "model_accepts": vm, "cli_exit": rc})
            if (max(exp) <= 15) != (rc == 0):
                st["oracle_fail"].append({"case": {"id": "bound", "counts": exp, "params": len(params)}, "failures": [
                    {"kind": "bound", "error": "accepted although a class exceeds 15" if rc == 0 else "rejected although every class fits",
                     "cli_exit": rc, "stderr": err[-200:]}]})
    # ---- the envelopes the compiled stubs of all three backends really hand to the transport
    # (coverage corpus: every parameter kind in both directions), against the counts and the
    # op of the model; the transport walks the argument array by the counts word, so a stub
    # that pushes fewer or more slots than it announces is seen as a memory error (ASan)
    from .. import benchlib as B
    from .bench_props import method_classes
    for cov in (gen.coverage_case("C02-coverage"), gen.coverage_case2("C02-coverage2"), gen.coverage_case3("C02-coverage3")):
        # bundles that the C side reads through a padded struct (finding of C01/C03/C04, a memory
        # error under ASan by itself) say nothing about the envelope: leave those methods out
        for f_ in cov["files"]:
            for n_ in f_["nodes"]:
                if n_["k"] == "interface":
                    n_["members"] = [m_ for m_ in n_["members"] if m_["k"] != "method" or "bundlePadding" not in method_classes(cov, m_)]
        with C.Scratch() as tmp:
            langs = tuple(cov.get("langs", ("c", "cpp", "rust")))
            b, r, used = B.build_and_run(ctx, cov, os.path.join(tmp, "w"), langs=langs, valuations=1, sanitize=True)
            ctx.bump("evaluations")
            if not b["ok"]:
                st["oracle_fail"].append({"case": {"id": cov["id"]}, "failures": [{"kind": "build", "error": "generated code of the coverage corpus does not build", "units": B.failed_units(b)[:2]}]})
                continue
            crashed = r["rc"] != 0 or not any(x.get("ev") == "end" for x in r["records"])
            seen_methods = set()
            for a in B.analyse(ctx, cov, b, r):
                call = a["call"]
                owner, m, op = B.method_of(cov, call["iface"], call["method"])
                if a["pc"].get("optional") or a["env"] is None:
                    continue
                mw = B.model_wire(ctx, cov, call["iface"], m, a["plan"])
                secs = [int(x) for x in mw.get("sections", "").split(",") if x]
                counts = tuple(int(x) for x in mw["counts"].split(","))
                kword = counts[0] | (counts[1] << 4) | (counts[2] << 8) | (counts[3] << 12)
                st["hist"]["bench_envelopes"] = st["hist"].get("bench_envelopes", 0) + 1
                seen_methods.add((call["stub"], call["method"]))
                bad = []
                if a["env"]["op"] != op:
                    bad.append({"kind": "bench-op", "error": "the stub sent a different op", "expected": op, "got": a["env"]["op"]})
                if a["env"]["k"] != kword:
                    bad.append({"kind": "bench-counts", "error": "the stub sent a different counts word", "expected": kword, "got": a["env"]["k"]})
                if secs == sorted(secs) and not F.CLASSIFIERS["smallObjStruct"](cov, m):
                    d = [x for x in B.envelope_vs_model(a, mw, op) if "objects differ" in x["error"] or "no envelope" in x["error"]]
                    bad += [dict(x, kind="bench-objects") for x in d]
                for x in bad:
                    st["oracle_fail"].append({"case": {"id": cov["id"], "method": idl.render_member(m).strip(), "stub": call["stub"]}, "failures": [x]})
            if crashed:
                lc = r.get("last_call") or {}
                mo = B.method_of(cov, lc.get("iface"), lc.get("method")) if lc else None
                # the three listed order findings make the transport misread the array: excuse only those
                excused = mo is not None and any(F.CLASSIFIERS[k](cov, mo[1]) for k in ("ooBeforeOi", "embeddedObjOrder", "smallObjStruct")) and \
                    [int(x) for x in B.model_wire(ctx, cov, lc["iface"], mo[1], next(c for c in b["plan"]["calls"] if c["iface"] == lc["iface"] and c["method"] == lc["method"])["vals"][lc.get("val", 0)]).get("sections", "0").split(",") if x] != sorted([int(x) for x in B.model_wire(ctx, cov, lc["iface"], mo[1], next(c for c in b["plan"]["calls"] if c["iface"] == lc["iface"] and c["method"] == lc["method"])["vals"][lc.get("val", 0)]).get("sections", "0").split(",") if x])
                if not excused:
                    st["oracle_fail"].append({"case": {"id": cov["id"], "last_call": lc}, "failures": [
                        {"kind": "bench-crash", "error": "walking the argument array by the announced counts is a memory error / crash", "rc": r["rc"], "stderr": r.get("stderr", "")[-400:]}]})
    # ---- the bound holds for inherited methods too, wherever the ancestor is declared: a derived
    # interface re-emits the methods of its ancestors with their counts
    for n in (15, 16):
        for d in ("in", "out"):
            for place in ("same-file", "included", "included-twice-removed"):
                wide = {"k": "method", "name": "wide", "optional": False, "doc": None,
                        "params": [P(d, "buffer", None, f"b{i}") for i in range(n)] + [P("out" if d == "in" else "in", "uint32", None, "x")]}
                root_i = {"k": "interface", "name": "IRootB", "base": None, "members": [wide]}
                mid_i = {"k": "interface", "name": "IMidB", "base": "IRootB", "members": []}
                leaf_i = {"k": "interface", "name": "ILeafB", "base": "IMidB", "members": [
                    {"k": "method", "name": "own", "optional": False, "doc": None, "params": []}]}
                if place == "same-file":
                    files = [{"path": "main.idl", "nodes": [root_i, mid_i, leaf_i]}]
                elif place == "included":
                    files = [{"path": "main.idl", "nodes": [{"k": "include", "path": "base.idl"}, leaf_i]},
                             {"path": "base.idl", "nodes": [root_i, mid_i]}]
                else:
                    files = [{"path": "main.idl", "nodes": [{"k": "include", "path": "mid.idl"}, leaf_i]},
                             {"path": "mid.idl", "nodes": [{"k": "include", "path": "root.idl"}, mid_i]},
                             {"path": "root.idl", "nodes": [root_i]}]
                case = {"id": f"bound-inherited-{n}-{d}-{place}", "files": files, "main": "main.idl", "incdirs": []}
                with C.Scratch() as tmp:
                    root = os.path.join(tmp, "src")
                    idl.render_case(case, root)
                    rc, err = E.run_idlc(ctx, root, "main.idl", [], "c", os.path.join(tmp, "o.h"))
                    model, impl = E.e1(ctx, case, root)
                    ctx.bump("evaluations")
                    vm = E.verdict_of(model) == "accept"
                    if vm != (rc == 0) or vm != (E.verdict_of(impl) == "accept"):
                        st["disagree"].append({"case": {"id": case["id"]}, "model_accepts": vm, "cli_exit": rc})
                    if (n <= 15) != (rc == 0):
                        st["oracle_fail"].append({"case": {"id": case["id"]}, "failures": [
                            {"kind": "bound", "error": "accepted although an inherited method needs 16 arguments of one class" if rc == 0 else "rejected although every class fits",
                             "cli_exit": rc, "stderr": err[-200:]}]})
    # every listed finding must still reproduce on the real code (else the list is stale)
    known_lines = []
    for k in F.load("C02"):
        if k["id"] in st["known"]:
            known_lines.append(f"{k['id']}: {k['what']} [e.g. {st['known'][k['id']]}]")
        else:
            st["oracle_fail"].append({"case": {"id": "known-finding-stale"}, "failures": [
                {"kind": "stale", "finding": k["id"], "note": "listed finding did not reproduce on its witness"}]})
    return finish(ctx, prop, gate, st["oracle_fail"], st["disagree"], st["samples"], len(st["distinct"]), st["hist"],
                  known=known_lines,
                  rule="bounded-exhaustive enumeration of all methods of <= 2 (quick) / <= 3 (thorough) letters of the "
                       "parameter-shape alphabet (2 directions x 14 kinds) plus seeded random long signatures; "
                       "non-trivial = at least two parameters; distinct = distinct multisets of (direction, kind)",
                  extra={"engines": ["E0 tables", "E1 facts", "E4 emitted text (C/C++/Rust stub and skeleton)"]})
