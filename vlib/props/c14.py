"""C14 — edits and flags without interface meaning do not change what is generated."""
import os
import re

from bench import idl
from .. import common as C
from .. import engines as E
from .. import gen
from .. import findings as F
from .numbering import finish

TOKEN_RE = re.compile(r'/\*\*.*?\*/|"[^"]*"|#\[\w+\]|[A-Za-z_][A-Za-z0-9_]*|-?0x[0-9a-fA-F]+|-?\d+(?:\.\d+)?|[{}()\[\];:,=]', re.S)
TRIVIA = [" ", "\t", "\n", "// c\n", "/* c */", "/* a\n b */", "/*é中*/", "//\n", "/** c */", "/**/", "/***/", "/// c\n"]


def tokenize(text):
    """[(ws_before, token)], trailing ws"""
    out, pos = [], 0
    for m in TOKEN_RE.finditer(text):
        out.append((text[pos:m.start()], m.group(0)))
        pos = m.end()
    return out, text[pos:]


def with_trivia(toks, tail, gap, trivia):
    parts = []
    for i, (ws, t) in enumerate(toks):
        parts.append(ws)
        if i == gap:
            parts.append(trivia)
        parts.append(t)
    parts.append(tail)
    if gap == len(toks):
        parts.append(trivia)
    return "".join(parts)


def gap_context(toks, gap):
    prev = toks[gap - 1][1] if gap > 0 else "^"
    nxt = toks[gap][1] if gap < len(toks) else "$"
    return prev, nxt


def gen_hashes(ctx, root, main="main.idl"):
    r = ctx.probe.ask(f"gen 0 {root} {main}")
    if not r or r[0] != "accept":
        return None if (r and r[0] == "reject") else "crash"
    return {l.split()[1]: l.split()[2] for l in r[1:] if l.startswith("gen ")}


def pst_ok(ctx, path):
    r = ctx.probe.ask(f"pst {path}")
    return bool(r) and r[0].startswith("pst ok")


def classify_gap(toks, gap):
    """the token gaps where pst.rs decodes positionally without skipping COMMENT pairs
    (DESIGN Appendix B): inside `function` before the name, inside param / const /
    struct_field / iname / error / bounded_array, and between `struct`/`interface` and the name"""
    return "K14-commentInLeaf"


def strip_comments(text, lang):
    text = re.sub(r"/\*.*?\*/", "", text, flags=re.S)
    text = re.sub(r"//[^\n]*", "", text)
    return "\n".join(l.rstrip() for l in text.splitlines() if l.strip())


def expected_marking(marking, style):
    if marking == "":
        return ""
    lines = marking.split("\n")
    if lines and lines[-1] == "":
        lines = lines[:-1]
    lines = [l[:-1] if l.endswith("\r") else l for l in lines]
    if style == "java":
        return "/*\n" + "".join(f"* {l}\n" for l in lines) + "*/\n\n"
    return "".join(f"// {l}\n" for l in lines) + "\n"


def run(ctx, prop):
    gate = C.lean_gate(prop, ctx.tier)
    ctx.setup()
    nprog = {"quick": 3, "thorough": 25}[ctx.tier]
    opts = gen.Opts(max_files=1, max_ifaces=2, max_methods=3, max_params=3, max_structs=2, docs=True)
    listed = {k["id"]: k for k in F.load(prop)}
    known_seen = {}
    oracle_fail, disagree, samples = [], [], []
    hist = {"variants": 0, "not_admitted": 0, "identical": 0, "doc_variants": 0, "marking_runs": 0, "flag_runs": 0}
    distinct = set()
    progs = [gen.gen_case(ctx.rng, opts, cid=f"C14-{ctx.seed}-{i}") for i in range(nprog)]
    # fixed: unrelated interfaces whose methods share names, each with documentation of its own
    # (whatever is keyed by a method's name alone must not carry text from one to the other)
    def _dm(name, doc, params):
        return {"k": "method", "name": name, "optional": False, "doc": doc, "params": params}
    _p = lambda d, t, n: {"dir": d, "type": t, "arr": None, "name": n}
    progs.insert(0, {"id": "C14-samenames", "main": "main.idl", "incdirs": [], "files": [{"path": "main.idl", "nodes": [
        {"k": "interface", "name": "IStoreD", "base": None, "members": [
            _dm("open", "Opens the STORE by key.", [_p("in", "uint32", "key")]),
            _dm("close", "Closes the STORE.", [])]},
        {"k": "interface", "name": "IChannelD", "base": None, "members": [
            _dm("open", "Opens the CHANNEL on a port.", [_p("in", "uint16", "port"), _p("out", "uint32", "handle")]),
            _dm("close", None, []),
            _dm("flush", "Flushes the CHANNEL.", []),
            _dm("peers", None, [{"dir": "in", "type": "IStoreD", "arr": 2, "name": "a"}, {"dir": "out", "type": "IStoreD", "arr": 3, "name": "b"}]),
            _dm("anyobjs", None, [{"dir": "in", "type": "interface", "arr": 2, "name": "a"}, {"dir": "out", "type": "interface", "arr": 2, "name": "b"}])]}]}]})
    for case in progs:
        text = idl.render_file(case["files"][0])
        toks, tail = tokenize(text)
        with C.Scratch() as tmp:
            root = os.path.join(tmp, "src")
            os.makedirs(root)
            mainp = os.path.join(root, "main.idl")
            open(mainp, "w").write(text)
            base = gen_hashes(ctx, root)
            ctx.bump("evaluations")
            if not isinstance(base, dict):
                oracle_fail.append({"case": {"idl": text[:400]}, "failures": [{"error": "baseline program rejected"}]})
                continue
            # ---- (a) trivia at every token gap (exhaustive per program)
            # `/** c */` on one line and `/**/` are ORDINARY comments (documentation needs a line
            # break after `/**`) although they begin like documentation
            kinds = TRIVIA if ctx.tier == "thorough" else [" ", "\n", "// c\n", "/* c */", "/*é*/", "/** c */", "/**/"]
            # comments whose TEXT looks like comment syntax: a block comment ends at the first `*/`
            # whatever it contains, a line comment at the line break. Where the plain `/* c */` is
            # admitted these are admitted too (judged against that, not against the parser alone)
            kinds = list(kinds) + ["/* a /* b */", "/* // */", "// /* c\n", "/* * / */", "// c\r", "// c\r\n"]
            for gap in range(len(toks) + 1):
                plain_ok = None
                for tr in kinds:
                    open(mainp, "w").write(with_trivia(toks, tail, gap, tr))
                    hist["variants"] += 1
                    admitted = pst_ok(ctx, mainp)
                    if tr == "/* c */":
                        plain_ok = admitted
                    if not admitted:
                        if plain_ok and tr in ("/* a /* b */", "/* // */", "// /* c\n", "/* * / */", "// c\r", "// c\r\n"):
                            oracle_fail.append({"case": {"idl": with_trivia(toks, tail, gap, tr)[:600]}, "failures": [
                                {"error": "an ordinary comment is refused where the plain comment `/* c */` is admitted", "trivia": tr,
                                 "between": list(gap_context(toks, gap))}]})
                        hist["not_admitted"] += 1
                        continue
                    h = gen_hashes(ctx, root)
                    ctx.bump("evaluations")
                    if h == base:
                        hist["identical"] += 1
                    else:
                        is_comment = tr.strip().startswith("/")
                        k = "K14-commentInLeaf" if is_comment else None
                        prev, nxt = gap_context(toks, gap)
                        rec = {"error": "output changed (or input rejected) after inserting trivia the grammar admits",
                               "trivia": tr, "between": [prev, nxt], "result": "rejected" if h is None else ("crash" if h == "crash" else "different output")}
                        if k in listed:
                            known_seen.setdefault(k, rec)
                        else:
                            oracle_fail.append({"case": {"idl": with_trivia(toks, tail, gap, tr)[:600]}, "failures": [rec]})
                    distinct.add(("trivia", gap_context(toks, gap), tr))
            open(mainp, "w").write(text)
            # ---- (b) documentation comments: only comment text of the next method may change
            outs = {}
            for b in ("c", "c-skel", "cpp", "rust", "java"):
                o = os.path.join(tmp, "doc0-" + b)
                if b in ("rust", "java"):
                    os.makedirs(o)
                rc, _ = E.run_idlc(ctx, root, "main.idl", [], b, o)
                outs[b] = (rc, _read(o))
            # documentation in front of a member that is not a method has no method to attach to:
            # the output must not change at all
            in_iface = 0
            for j, (ws, t) in enumerate(toks):
                if t in ("error", "const") and j > 0 and toks[j - 1][1] in ("{", ";"):
                    newtoks = toks[:j] + [(ws, "/**\n * ZDOCMARK orphan text\n */"), ("\n  ", t)] + toks[j + 1:]
                    open(mainp, "w").write("".join(w + x for w, x in newtoks) + tail)
                    hist["doc_variants"] += 1
                    if pst_ok(ctx, mainp):
                        for b in ("c", "cpp", "rust", "java"):
                            if outs[b][0] != 0:
                                continue
                            o = os.path.join(tmp, f"odoc{j}-{b}")
                            if b in ("rust", "java"):
                                os.makedirs(o)
                            rc, err = E.run_idlc(ctx, root, "main.idl", [], b, o)
                            if rc != 0 or _read(o) != outs[b][1]:
                                oracle_fail.append({"case": {"idl": open(mainp).read()[:600]}, "failures": [
                                    {"error": "documentation in front of a non-method member changed the output", "backend": b, "rc": rc,
                                     "marker_in_output": "ZDOCMARK" in _read(o)}]})
                        distinct.add(("orphan-doc", t))
            for j, (ws, t) in enumerate(toks):
                if t != "method" and not t.startswith("#["):
                    continue
                if t == "method" and j > 0 and toks[j - 1][1].startswith("#["):
                    continue
                docs = ["/**\n * added doc\n */", "/**\nno stars here\n  */", "/**\n * éè unicode\n * second\n */"]
                if not any(k[0] == "doc" for k in distinct):
                    # first documented position of the run: multi-byte characters at every byte
                    # column around the closing asterisk's column, asterisk-less and starred lines
                    for close in (0, 1, 2, 3, 5):
                        for off in range(0, 6):
                            ch = "Ü" if (close + off) % 2 == 0 else "日"
                            docs.append("/**\n" + " " * off + ch + "bergibt x — y\n" + " " * close + "*/")
                    docs += ["/** ünï single line */", "/**\n\t* tab — dash\n\t*/", "/**\n * a\n\n *\n * Ω\n */"]
                for doc in docs:
                    newtoks = toks[:j] + [(ws, doc), ("\n  ", t)] + toks[j + 1:]
                    open(mainp, "w").write("".join(w + x for w, x in newtoks) + tail)
                    hist["doc_variants"] += 1
                    if not pst_ok(ctx, mainp):
                        continue
                    for b in ("c", "c-skel", "cpp", "rust", "java"):
                        if outs[b][0] != 0:
                            continue
                        o = os.path.join(tmp, f"doc{j}-{b}-{hist['doc_variants']}")
                        if b in ("rust", "java"):
                            os.makedirs(o)
                        rc, err = E.run_idlc(ctx, root, "main.idl", [], b, o)
                        new = _read(o)
                        lang = "rust" if b == "rust" else "c"
                        # correspondence with the Lean model of documentation.rs: the emitted comment
                        # is exactly the model's rendering of the text pst.rs keeps (raw[2..len-1])
                        if rc == 0 and b in ("c", "cpp", "rust", "java") and re.match(r"/\*\*\r?\n", doc):   # `/** x */` on one line is an ordinary comment
                            window = doc.strip()[2:-1].encode("utf-8")
                            style = {"c": "c", "cpp": "c", "rust": "rust", "java": "java"}[b]
                            ans = ctx.driver.ask(f"doc {style} {window.hex()}")
                            ctx.bump("driver_requests")
                            hist["doc_model_checks"] = hist.get("doc_model_checks", 0) + 1
                            if ans and ans[0].startswith("ok "):
                                want = bytes.fromhex(ans[0][3:]).decode("utf-8", "replace")
                                flat = lambda t_: "\n".join(x.strip() for x in t_.split("\n"))
                                # trim_end of the real code also removes non-ASCII white space; the
                                # texts generated here end lines in ASCII only
                                if flat(want) not in flat(new):
                                    disagree.append({"case": {"idl": open(mainp).read()[:400]}, "backend": b,
                                                     "model_rendering": want[:300], "note": "the model's rendering of the documentation is not in the output"})
                            elif ans and ans[0] == "panic":
                                disagree.append({"case": {"idl": open(mainp).read()[:400]}, "backend": b, "note": "model: renderDoc panics, real: exit 0"})
                        if rc != 0 or strip_comments(new, lang) != strip_comments(outs[b][1], lang):
                            oracle_fail.append({"case": {"idl": open(mainp).read()[:600]}, "failures": [
                                {"error": "a documentation comment changed more than comment text", "backend": b, "rc": rc}]})
                        elif "added doc" in doc and "added doc" not in new and b in ("c", "cpp", "rust", "java"):
                            oracle_fail.append({"case": {"idl": open(mainp).read()[:600]}, "failures": [
                                {"error": "the documentation text of a method does not appear in the output (other text may have taken its place)", "backend": b}]})
                        elif "added doc" in doc and "added doc" in new:
                            # ... and the text sits on the method that immediately follows it in the IDL
                            mname = next((x for _, x in toks[j:] if x not in ("method",) and not x.startswith("#[")), None)
                            for occ in [m_.start() for m_ in re.finditer("added doc", new)]:
                                rest = new[occ:].split("\n")[1:]
                                code = next((ln for ln in rest if ln.strip() and not ln.strip().startswith(("*", "/*", "//", "#[", "@"))), "")
                                if mname and mname not in code:
                                    oracle_fail.append({"case": {"idl": open(mainp).read()[:600]}, "failures": [
                                        {"error": "documentation text is attached to something else than the method that follows it", "backend": b,
                                         "method": mname, "next_code_line": code.strip()[:120]}]})
                                    break
                    distinct.add(("doc", j))
                break_after = True
            open(mainp, "w").write(text)
            # ---- (d) marking only prepends a comment block
            for marking in ["Confidential\nline two\n", "single", "a\r\nb\r\n", "tr*/icky\n",
                            "// Copyright (c) Example\nAll rights reserved.\nint x;\n", "/* boxed */\nplain line\n"]:
                mk = os.path.join(tmp, "mk.txt")
                open(mk, "w", newline="").write(marking)
                for b, style in (("c", "c"), ("cpp-skel", "c"), ("rust", "rust"), ("java", "java")):
                    if outs.get(b if b in outs else "c", (1, ""))[0] != 0 and b in outs:
                        continue
                    o = os.path.join(tmp, f"mk-{b}-{hist['marking_runs']}")
                    o0 = os.path.join(tmp, f"mk0-{b}-{hist['marking_runs']}")
                    for d in (o, o0):
                        if b in ("rust", "java"):
                            os.makedirs(d)
                    rc, _ = E.run_idlc(ctx, root, "main.idl", [], b, o, extra=["--marking", mk])
                    rc0, _ = E.run_idlc(ctx, root, "main.idl", [], b, o0)
                    hist["marking_runs"] += 1
                    if rc0 != 0:
                        continue
                    withm, without = _files(o), _files(o0)
                    exp = expected_marking(marking, style)
                    ok = rc == 0 and set(withm) == set(without) and all(withm[k] == exp + without[k] for k in without)
                    lexes = not (style == "java" and "*/" in marking)
                    if not ok or not lexes:
                        rec = {"error": "marking does more than prepend a comment block" if ok else "output with marking is not marking + output",
                               "backend": b, "marking": marking}
                        if not lexes and "K14-javaMarkingTerminator" in listed:
                            known_seen.setdefault("K14-javaMarkingTerminator", rec)
                        else:
                            oracle_fail.append({"case": {"idl": text[:300]}, "failures": [rec]})
                    # and back: the same command without the marking, into the SAME target, gives
                    # the unmarked output again (nothing of the longer run is left behind)
                    if rc == 0 and style == "c":
                        rc_b, _ = E.run_idlc(ctx, root, "main.idl", [], b, o)
                        if rc_b != 0 or _files(o) != without:
                            oracle_fail.append({"case": {"idl": text[:300]}, "failures": [
                                {"error": "re-running without the marking into the same target does not give the unmarked output", "backend": b}]})
                    distinct.add(("marking", b, marking))
            # ---- (e) --no-typed-objects changes only the spelling of object types in C signatures
            ifnames = list(idl.iface_table(case))
            for b in ("c", "c-skel"):
                o1, o2 = os.path.join(tmp, f"t-{b}"), os.path.join(tmp, f"u-{b}")
                rc1, _ = E.run_idlc(ctx, root, "main.idl", [], b, o1)
                rc2, _ = E.run_idlc(ctx, root, "main.idl", [], b, o2, extra=["--no-typed-objects"])
                hist["flag_runs"] += 1
                if rc1 != 0 or rc2 != 0:
                    if rc1 != rc2:
                        oracle_fail.append({"case": {"idl": text[:300]}, "failures": [{"error": "--no-typed-objects changes the verdict"}]})
                    continue
                typed, untyped = open(o1).read(), open(o2).read()
                norm = typed
                for nme in sorted(ifnames, key=len, reverse=True):
                    # the interface name used as a type: followed by a declarator, not by `_`
                    norm = re.sub(r"\b%s\b(?=\s*(?:\*|\(|\w))(?!_)" % re.escape(nme), "Object", norm)
                # the typedef that introduces the typed name is part of the spelling
                norm = re.sub(r"^typedef Object \w+;\n", "", norm, flags=re.M)
                unt = re.sub(r"^typedef Object \w+;\n", "", untyped, flags=re.M)
                if _sig_norm(norm) != _sig_norm(unt):
                    diff = _first_diff(_sig_norm(norm), _sig_norm(unt))
                    rec = {"error": "--no-typed-objects changes more than object type names", "backend": b, "first_difference": diff}
                    if "const" in diff[0] and "const" not in diff[1] and "K14-untypedDropsConst" in listed:
                        known_seen.setdefault("K14-untypedDropsConst", rec)
                    else:
                        oracle_fail.append({"case": {"idl": text[:400]}, "failures": [rec]})
                distinct.add(("flag", b))
        if len(samples) < 2:
            samples.append({"program": text[:500], "tokens": len(toks)})
    for w in F.witness_cases(prop):
        pass
    known_lines = []
    for kid, k in listed.items():
        if kid in known_seen:
            known_lines.append(f"{kid}: {k['what']} [e.g. {known_seen[kid].get('between') or known_seen[kid].get('backend')}]")
        elif k.get("must_reproduce", True):
            oracle_fail.append({"case": {"id": "known-finding-stale"}, "failures": [{"kind": "stale", "finding": kid}]})
    return finish(ctx, prop, gate, oracle_fail, disagree, samples, len(distinct), hist, known=known_lines,
                  rule="per generated program: every trivia kind (space, tab, newline, // and /* */ comments, non-ASCII comment) inserted at EVERY "
                       "token gap in turn (exhaustive per program); placements pest rejects are not counted; all 8 generated outputs (hashes from "
                       "the in-process generators) must equal the baseline; documentation comments added before every method (3 styles) and "
                       "outputs compared after comment stripping; 4 marking texts x 4 backends compared with marking-block + unmarked output; "
                       "typed vs untyped C outputs compared after renaming object types; distinct = distinct (kind, token context)",
                  extra={"engines": ["pest tree of the current grammar (probe)", "in-process generators (probe gen)", "E4 cli"]})


def _read(o):
    if os.path.isdir(o):
        return "\n".join(open(os.path.join(o, f), errors="replace").read() for f in sorted(os.listdir(o)))
    return open(o, errors="replace").read() if os.path.exists(o) else ""


def _files(o):
    if os.path.isdir(o):
        return {f: open(os.path.join(o, f), newline="").read() for f in sorted(os.listdir(o))}
    return {"<file>": open(o, newline="").read()} if os.path.exists(o) else {}


def _sig_norm(t):
    return "\n".join(re.sub(r"[ \t]+", " ", l).rstrip() for l in t.splitlines() if l.strip())


def _first_diff(a, b):
    la, lb = a.splitlines(), b.splitlines()
    for x, y in zip(la, lb):
        if x != y:
            return (x.strip()[:160], y.strip()[:160])
    return ("<length>", "<length>")
