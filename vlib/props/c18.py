"""C18 — Java proxies and skeletons agree with each other and with the wire model."""
import copy
import os

from bench import idl, e3, values
from .. import common as C
from .. import benchlib as B
from .. import engines as E
from .. import gen
from .. import findings as F
from .numbering import finish


def supported(case, m):
    """the constructs on which the Java backend is expected to work (everything else is a
    listed known finding or the documented unsupported construct)"""
    st = idl.struct_table(case)
    out_users = 0
    for p in m["params"]:
        k = idl.param_kind(case, p)
        t = p["type"]
        if k in ("small", "big"):
            s = st[t]
            if idl.struct_has_objects(case, t) or any(f.get("count", 1) != 1 for f in s["fields"]):
                return False
        if k == "structarr":
            return False
        if p["dir"] == "out" and k in ("prim", "small", "big"):
            out_users += 1
    return True


def java_case(rng, cid):
    opts = gen.Opts(max_files=1, max_structs=4, max_ifaces=3, max_depth=2, max_methods=5, max_params=6,
                    obj_structs=False, nested=False, obj_arrays=True, consts=False, docs=False, struct_arrays=False)
    c = gen.gen_case(rng, opts, cid=cid)
    st = idl.struct_table(c)
    for f in c["files"]:
        for n in f["nodes"]:
            if n["k"] == "struct":
                for fl in n["fields"]:
                    fl["count"] = 1
                    fl.pop("force_array", None)
        # structs were generated aligned with arrays; with counts reset they may be misaligned: rebuild simple ones
    for f in c["files"]:
        for n in f["nodes"]:
            if n["k"] == "struct":
                sizes = sorted((idl.PRIMS[fl["type"]] for fl in n["fields"] if fl["type"] in idl.PRIMS), reverse=True) or [4]
                prim_by_size = {1: "uint8", 2: "int16", 4: "uint32", 8: "uint64"}
                fields, total = [], 0
                for i, s in enumerate(sizes[:4]):
                    fields.append({"type": prim_by_size[s], "count": 1, "name": f"{n['name'].lower()}f{i}"})
                    total += s
                mx = max(sizes[:4])
                while total % mx:
                    fields.append({"type": "uint8", "count": 1, "name": f"{n['name'].lower()}p{total}"})
                    total += 1
                n["fields"] = fields
                n["_al"] = mx
    # some structs get a struct-typed member (an earlier, already rebuilt struct of this file)
    prim_by_size = {1: "uint8", 2: "int16", 4: "uint32", 8: "uint64"}
    for f in c["files"]:
        seen = []
        for n in f["nodes"]:
            if n["k"] == "struct":
                if seen and rng.random() < 0.5:
                    e = rng.choice(seen)
                    n["fields"] = [{"type": e["name"], "count": 1, "name": n["name"].lower() + "in"},
                                   {"type": prim_by_size[e["_al"]], "count": 1, "name": n["name"].lower() + "tail"}]
                    n["_al"] = e["_al"]
                seen.append(n)
    for f in c["files"]:
        for n in f["nodes"]:
            n.pop("_al", None)
    for f in c["files"]:
        for n in f["nodes"]:
            if n["k"] == "interface":
                n["members"] = [m for m in n["members"] if m["k"] != "method" or supported(c, m)]
    return c


def java_coverage_case(cid="C18-coverage"):
    """fixed: struct nesting two levels deep with a coinciding member name, two small structs in
    one bundle, an out struct followed by buffers, several buffers per direction, objects in both
    directions with different counts, primitive arrays of every element type"""
    def P(d, t, n, arr=None):
        return {"dir": d, "type": t, "arr": arr, "name": n}

    def M(name, params):
        return {"k": "method", "name": name, "optional": False, "doc": None, "params": params}

    def S(name, fields):
        return {"k": "struct", "name": name, "fields": [{"type": t, "count": 1, "name": n} for t, n in fields]}
    nodes = [S("Inner", [("uint32", "x"), ("uint32", "y")]),
             S("Mid", [("Inner", "n"), ("uint32", "z"), ("uint32", "w")]),
             S("Outer", [("Inner", "n"), ("Mid", "m")]),
             S("Deep", [("uint64", "id"), ("Outer", "o"), ("uint64", "tail")]),
             {"k": "interface", "name": "IDemo", "base": None, "members": [
                 M("put", [P("in", "Outer", "o")]), M("get", [P("out", "Outer", "o")]),
                 M("deep", [P("in", "Deep", "d"), P("out", "Deep", "e")]),
                 M("mid_small", [P("in", "Mid", "m"), P("in", "uint16", "k"), P("out", "Mid", "r"), P("out", "uint8", "q")]),
                 M("span", [P("in", "Inner", "from"), P("in", "Inner", "to"), P("out", "uint32", "len")]),
                 M("span_out", [P("in", "uint32", "seed"), P("out", "Inner", "a"), P("out", "Inner", "b")]),
                 M("origin_then_read", [P("out", "Inner", "origin"), P("out", "buffer", "data"), P("out", "buffer", "more")]),
                 M("two_bufs", [P("in", "buffer", "a"), P("in", "buffer", "b"), P("in", "uint32", "x"), P("in", "buffer", "c"), P("out", "buffer", "d")]),
                 M("split", [P("in", "IDemo", "parent"), P("in", "uint32", "n"), P("out", "IDemo", "first"), P("out", "IDemo", "second")]),
                 M("open", [P("in", "uint32", "id"), P("out", "interface", "handle")]),
                 M("read", [P("in", "uint32", "first"), P("in", "uint32", "count"), P("out", "uint32", "data", "unbounded")]),
             ] + [M(f"arr_{t}", [P("in", t, "a", "unbounded"), P("out", t, "b", "unbounded")]) for t in ("uint8", "int16", "uint32", "int64", "float32", "float64")]}]
    return {"id": cid, "files": [{"path": "main.idl", "nodes": nodes}], "main": "main.idl", "incdirs": []}


def run(ctx, prop):
    gate = C.lean_gate(prop, ctx.tier)
    ctx.setup()
    n = {"quick": 8, "thorough": 60}[ctx.tier]
    listed = {k["id"]: k for k in F.load(prop)}
    known_seen = {}
    oracle_fail, disagree, samples = [], [], []
    hist = {"cases": 0, "calls": 0, "calls_ok": 0, "exceptions": 0, "kinds": {}}
    distinct = set()
    work = [("witness", w) for w in F.witness_cases(prop)]
    # inputs of defects that were repaired in /repo: they must keep working
    import glob
    import json
    for fpath in sorted(glob.glob(os.path.join(C.VERIF, "corpus", "regress", "k18_*.json"))):
        rc_ = json.load(open(fpath))
        rc_.pop("finding", None)
        work.append(("gen", rc_))
    work.append(("gen", java_coverage_case()))
    for i in range(n):
        work.append(("gen", java_case(ctx.rng, f"C18-{ctx.seed}-{i}")))
    for origin, case in work:
        with C.Scratch() as tmp:
            root = os.path.join(tmp, "src")
            idl.render_case(case, root)
            model, impl = E.e1(ctx, case, root)
            ctx.bump("evaluations")
            hist["cases"] += 1
            if E.verdict_of(impl) != "accept":
                if origin == "gen":
                    oracle_fail.append({"case": case, "failures": [{"error": "generated case rejected", "facts": impl[:2]}]})
                continue
            real_counts = {}
            for l in E.lines_with(impl, "method"):
                p = l.split()
                real_counts[(p[1], p[3])] = tuple(int(x) for x in p[5].split("=")[1].split(","))
            b = e3.build(case, os.path.join(tmp, "w"), ctx.idlc["debug"], valuations=3, seed=ctx.seed)
            fails_case = []
            if not b["ok"]:
                fails_case.append({"error": "Java output does not build", "units": [{"unit": u["unit"], "stderr": u["stderr"][-300:]} for u in b["units"] if u["rc"] != 0][:2]})
            else:
                r = e3.run(b, timeout=120)
                if r["rc"] != 0 or not any(x.get("ev") == "end" for x in r["records"]):
                    fails_case.append({"error": "Java bench crashed", "rc": r["rc"], "stderr": r.get("stderr", "")[-300:]})
                plans = {(c["iface"], c["method"]): c for c in b["plan"]["calls"]}
                groups, cur = [], None
                for x in r["records"]:
                    if x.get("ev") == "call":
                        cur = {"call": x, "recs": []}
                        groups.append(cur)
                    elif cur is not None:
                        cur["recs"].append(x)
                for g in groups:
                    call = g["call"]
                    pc = plans[(call["iface"], call["method"])]
                    plan = pc["vals"][call["val"]]
                    owner, m, op = B.method_of(case, call["iface"], call["method"])
                    hist["calls"] += 1
                    env = next((x for x in g["recs"] if x["ev"] == "envelope"), None)
                    impl_r = next((x for x in g["recs"] if x["ev"] == "impl"), None)
                    reply = next((x for x in g["recs"] if x["ev"] == "reply"), None)
                    ret = next((x for x in g["recs"] if x["ev"] == "ret"), None)
                    exc = [x for x in g["recs"] if x["ev"] == "exception"]
                    fails = []
                    if exc:
                        hist["exceptions"] += 1
                        fails.append({"error": "generated Java code threw", "exception": exc[0].get("class"), "where": exc[0].get("where"), "message": exc[0].get("message")})
                    a = {"call": call, "pc": pc, "plan": plan, "env": None, "impl": impl_r, "reply": reply, "ret": ret, "refs": []}
                    if not exc:
                        fails += B.identity_failures(a)
                    if env is not None and not pc.get("optional"):
                        want = real_counts.get((call["iface"], call["method"]))
                        got = (len(env.get("bi") or []), len(env.get("boSizes") or []), len(env.get("oi") or []), env.get("oo") or 0)
                        if want is not None and got != want:
                            fails.append({"error": "partition differs from the counts of the C-family backends", "expected": want, "got": got})
                        mw = B.model_wire(ctx, case, call["iface"], m, plan)
                        mb, mo, _ = B.parse_slots(mw.get("req", ""))
                        if [x or "" for x in (env.get("bi") or [])] != mb:
                            fails.append({"error": "input buffer bytes differ from the reference encoding", "real": (env.get("bi") or [])[:3], "model": mb[:3]})
                        if list(env.get("oi") or []) != mo:
                            fails.append({"error": "input objects differ from the reference encoding", "real": env.get("oi"), "model": mo})
                        if reply is not None and plan["status"] == 0 and reply.get("status") == 0:
                            pb, po, _ = B.parse_slots(mw.get("rep", ""))
                            if [x or "" for x in (reply.get("bo") or [])] != pb:
                                fails.append({"error": "output buffer bytes differ from the reference encoding", "real": (reply.get("bo") or [])[:3], "model": pb[:3]})
                            if list(reply.get("oo") or []) != po:
                                fails.append({"error": "output objects differ from the reference encoding", "real": reply.get("oo"), "model": po})
                        if int(mw.get("op", -1)) != env["op"]:
                            fails.append({"error": "op differs", "real": env["op"], "model": mw.get("op")})
                    for p in m["params"]:
                        k = (p["dir"], idl.param_kind(case, p))
                        hist["kinds"][f"{k[0]}-{k[1]}"] = hist["kinds"].get(f"{k[0]}-{k[1]}", 0) + 1
                    distinct.add(tuple(sorted((p["dir"], idl.param_kind(case, p)) for p in m["params"])))
                    if not fails:
                        hist["calls_ok"] += 1
                    for x in fails:
                        fails_case.append(dict(x, method=idl.render_member(m).strip(), val=call["val"]))
                    if len(samples) < 3 and env is not None and len(m["params"]) >= 3 and not fails:
                        samples.append({"method": idl.render_member(m).strip(), "envelope": env, "reply": reply})
            if fails_case:
                kid = case.get("finding")
                if origin == "witness" and kid in listed:
                    known_seen[kid] = fails_case[0]["error"] + (": " + str(fails_case[0].get("exception") or (fails_case[0].get("units") or [{}])[0].get("stderr", "")[-120:]))
                else:
                    oracle_fail.append({"case": case if origin == "gen" else {"id": case["id"]}, "failures": fails_case[:4]})
    known_lines = []
    for kid, k in listed.items():
        if kid in known_seen:
            known_lines.append(f"{kid}: {k['what']} [{' '.join(known_seen[kid].split())[:200]}]")
        else:
            oracle_fail.append({"case": {"id": "known-finding-stale"}, "failures": [{"kind": "stale", "finding": kid}]})
    hist["kinds"] = dict(sorted(hist["kinds"].items()))
    return finish(ctx, prop, gate, oracle_fail, disagree, samples, len(distinct), hist, known=known_lines,
                  rule="generated methods over the constructs the Java backend supports (every primitive in/out alone and bundled, untyped buffers, "
                       "primitive arrays of every element type in both directions, flat and nested structs small and big, several out bundle users, generic and typed objects, one object array per direction, inheritance, "
                       "optional methods, errors) are driven through the generated Proxy and MinkObject classes (javac + java, minimal stand-in "
                       "for the Mink runtime API under bench/java-runtime) over a recording copying IMinkObject; partition lengths are compared "
                       "with the counts of the real C-family pipeline, bytes and objects with the Lean reference encoder, delivered and "
                       "returned values with the caller's; distinct = distinct parameter-kind multisets",
                  extra={"engines": ["E3 Java bench", "E1 facts (counts)", "Lean reference encoder"]})
