"""C07 (method op-codes) and C08 (error codes): Lean theorems about the numbering walk +
correspondence (E1 facts) + the emitted numbers of all four backends (text extraction)."""
import json
import os
import time

from bench import idl
from .. import common as C
from .. import engines as E
from .. import extract as X
from .. import gen


def expected_ops(case, iface):
    return {(owner, m["name"]): op for owner, m, op in idl.flat_methods(case, iface)}


def expected_errs(case, iface):
    return {(owner, name): v for owner, name, v in idl.flat_errors(case, iface)}


def main_ifaces(case, path=None):
    path = path or case["main"]
    f = next(f for f in case["files"] if f["path"] == path)
    return [n["name"] for n in f["nodes"] if n["k"] == "interface"]


def has_obj_struct(case):
    return any(idl.struct_has_objects(case, s) for s in idl.struct_table(case))


def oracle_facts(mode, case, impl):
    """the property statement evaluated on what the real pipeline computed (probe facts),
    against an expectation computed directly from the declarations (independent of the model)"""
    bad = []
    pre = "op" if mode == "ops" else "err"
    got = {}
    for l in E.lines_with(impl, pre):
        _, I, owner, name, v = l.split()
        got.setdefault(I, {})[(owner, name)] = int(v)
    for I in main_ifaces(case):
        exp = expected_ops(case, I) if mode == "ops" else expected_errs(case, I)
        if got.get(I, {}) != exp:
            bad.append({"where": "mir", "iface": I, "expected": _j(exp), "got": _j(got.get(I, {}))})
        vals = sorted(exp.values())
        base = 0 if mode == "ops" else 10
        assert vals == list(range(base, base + len(vals)))
    return bad


def _j(d):
    return {f"{a}.{b}": v for (a, b), v in sorted(d.items())}


def oracle_emitted(mode, ctx, case, root, out):
    """numbers in the generated text of every backend equal the expected ones"""
    bad = []
    java_ok = not has_obj_struct(case)
    ifnames = list(idl.iface_table(case))
    for f in case["files"]:
        ifs = [n["name"] for n in f["nodes"] if n["k"] == "interface"]
        if not ifs:
            continue
        backends = ["c", "c-skel", "cpp", "cpp-skel", "rust"] + (["java"] if java_ok else [])
        # an included file compiled on its own: the tree root joins the search path (for the
        # main file its directory, the root, is appended by the compiler itself)
        sub = dict(case, incdirs=case.get("incdirs", []) + ["."]) if f["path"] != case["main"] else case
        res = E.emit_all(ctx, sub, root, out, backends=backends, file_rel=f["path"])
        stem = os.path.splitext(os.path.basename(f["path"]))[0]
        for b, (rc, files, err) in res.items():
            if rc != 0:
                bad.append({"where": b, "file": f["path"], "error": f"idlc exit {rc}", "stderr": err[-300:]})
        ctx.bump("emitted_units", len(res))
        for I in ifs:
            eo, ee = expected_ops(case, I), expected_errs(case, I)
            own_ops = {k: v for k, v in eo.items() if k[0] == I}
            own_errs = {k: v for k, v in ee.items() if k[0] == I}
            if mode == "ops":
                if res["c"][0] == 0:
                    g = {k: v for k, v in X.c_ops(res["c"][1][stem + ".h"]).items() if k[0] == I}
                    if g != own_ops:
                        bad.append({"where": "c-stub", "iface": I, "expected": _j(own_ops), "got": _j(g)})
                if res["c-skel"][0] == 0:
                    cases = X.c_skel_cases(res["c-skel"][1][stem + "_invoke.h"]).get(I)
                    exp = sorted(f"{o}_OP_{m}" for (o, m) in eo)
                    got = sorted(c for c in (cases or []) if not c.startswith("Object_OP_"))
                    if got != exp:
                        bad.append({"where": "c-skel", "iface": I, "expected": exp, "got": got})
                if res["cpp"][0] == 0:
                    g = {k: v for k, v in X.cpp_ops(res["cpp"][1][stem + ".hpp"]).items() if k[0] == I}
                    if g != own_ops:
                        bad.append({"where": "cpp-stub", "iface": I, "expected": _j(own_ops), "got": _j(g)})
                if res["cpp-skel"][0] == 0:
                    cases = X.cpp_skel_cases(res["cpp-skel"][1][stem + "_invoke.hpp"]).get(I)
                    if sorted(cases or []) != sorted(m for (_, m) in eo):
                        bad.append({"where": "cpp-skel", "iface": I, "expected": sorted(m for (_, m) in eo), "got": cases})
                if res["rust"][0] == 0:
                    txt = res["rust"][1].get(I.lower() + ".rs", "")
                    g = X.rust_stub_ops(txt)
                    if g != {m: v for (_, m), v in own_ops.items()}:
                        bad.append({"where": "rust-stub", "iface": I, "expected": _j(own_ops), "got": g})
                    arms = X.rust_skel_arms(txt)
                    exp = {v: m for (_, m), v in eo.items()}
                    if arms != exp:
                        bad.append({"where": "rust-skel", "iface": I, "expected": exp, "got": arms})
                if java_ok and res["java"][0] == 0:
                    ji = X.java_ints(res["java"][1].get(I + ".java", ""))
                    g = {k[len(I) + 4:]: v for k, v in ji.items() if k.startswith(I + "_OP_")}
                    exp = {m: v for (_, m), v in eo.items()}
                    if g != exp:
                        bad.append({"where": "java", "iface": I, "expected": exp, "got": g})
            else:
                flat = {n: v for (_, n), v in ee.items()}
                # int32 constants are emitted with the same INT32_C(...) wrapper as errors
                const_names = {m["name"] for lvl in idl.chain(case, I) for m in lvl["members"] if m["k"] == "const"}
                if res["c"][0] == 0:
                    g = {k[1]: v for k, v in X.c_errors(res["c"][1][stem + ".h"], ifnames).items() if k[0] == I and k[1] not in const_names}
                    if g != flat:
                        bad.append({"where": "c", "iface": I, "expected": flat, "got": g})
                if res["cpp"][0] == 0:
                    g = {k[1]: v for k, v in X.cpp_errors(res["cpp"][1][stem + ".hpp"]).items() if k[0] == I and k[1] not in const_names}
                    if g != flat:
                        bad.append({"where": "cpp", "iface": I, "expected": flat, "got": g})
                if res["rust"][0] == 0:
                    g = X.rust_errors(res["rust"][1].get(I.lower() + ".rs", ""))
                    if g != {n: v for (_, n), v in own_errs.items()}:
                        bad.append({"where": "rust", "iface": I, "expected": _j(own_errs), "got": g})
                if java_ok and res["java"][0] == 0:
                    ji = X.java_ints(res["java"][1].get(I + ".java", ""))
                    names = set(flat)
                    g = {k[len(I) + 1:]: v for k, v in ji.items()
                         if k.startswith(I + "_") and k[len(I) + 1:] in names}
                    if g != flat:
                        bad.append({"where": "java", "iface": I, "expected": flat, "got": g})
    return bad


def corpus_cases(prop):
    d = os.path.join(C.VERIF, "corpus")
    out = []
    for fn in sorted(os.listdir(d)) if os.path.isdir(d) else []:
        if fn.endswith(".json"):
            c = json.load(open(os.path.join(d, fn)))
            if prop in c.get("props", [prop]):
                out.append(c["case"])
    return out


def boundary_case(n):
    ms = [{"k": "method", "name": f"m{i}", "optional": False, "doc": None, "params": []} for i in range(n)]
    return {"id": f"bound{n}", "files": [{"path": "main.idl", "nodes": [
        {"k": "interface", "name": "IBig", "base": None, "members": ms}]}], "main": "main.idl", "incdirs": []}


def run(ctx, prop):
    mode = "ops" if prop == "C07" else "errs"
    gate = C.lean_gate(prop, ctx.tier)
    ctx.setup()
    n_cases = {"quick": 60, "thorough": 600}[ctx.tier]
    opts = gen.Opts(max_ifaces=5, max_depth=4, max_methods=5, max_params=3)
    cases = corpus_cases(prop)
    from .validation import permute_decls
    for i in range(n_cases):
        c_ = gen.gen_case(ctx.rng, opts, cid=f"{prop}-{ctx.seed}-{i}")
        if i % 2:
            # declarations in any order the front end accepts (a base may come after its derived
            # interface): numbers depend on the hierarchy, not on the position in the file
            c_ = permute_decls(c_, ctx.rng)
            c_["id"] = f"{prop}-{ctx.seed}-{i}-permuted"
        cases.append(c_)
    for i in range(4):
        cases.append(gen.big_iface_case(ctx.rng, cid=f"{prop}-big-{ctx.seed}-{i}", grouped=(i % 2 == 1)))
    oracle_fail, disagree = [], []
    samples, distinct = [], set()
    hist = {"depth>=2": 0, "depth>=3": 0, "multi_file": 0, "errors": 0, "methods": 0, "rejected": 0}
    pre = "op" if mode == "ops" else "err"
    for case in cases:
        with C.Scratch() as tmp:
            root = os.path.join(tmp, "src")
            out = os.path.join(tmp, "out")
            os.makedirs(out)
            idl.render_case(case, root)
            model, impl = E.e1(ctx, case, root)
            ctx.bump("evaluations")
            vm, vi = E.verdict_of(model), E.verdict_of(impl)
            fm, fi = E.lines_with(model, pre), E.lines_with(impl, pre)
            if vm != vi or fm != fi:
                a, b = C.diff_facts(fm, fi)
                disagree.append({"case": case, "model_verdict": vm, "impl_verdict": vi,
                                 "only_model": a[:10], "only_impl": b[:10]})
            if vi != "accept":
                hist["rejected"] += 1
                # generated cases are valid by construction: a rejection is looked at by C10;
                # here it only matters that model and implementation agree
                continue
            bad = oracle_facts(mode, case, impl) + oracle_emitted(mode, ctx, case, root, out)
            if bad:
                oracle_fail.append({"case": case, "failures": bad[:6]})
            depth = max((len(idl.chain(case, I)) for I in idl.iface_table(case)), default=0)
            hist["depth>=2"] += depth >= 2
            hist["depth>=3"] += depth >= 3
            hist["multi_file"] += len(case["files"]) > 1
            nm = sum(len(idl.flat_methods(case, I)) for I in main_ifaces(case))
            ne = sum(len(idl.flat_errors(case, I)) for I in main_ifaces(case))
            hist["methods"] += nm
            hist["errors"] += ne
            key = tuple(sorted(fi))
            if (nm if mode == "ops" else ne) >= 2 and depth >= 2:
                distinct.add(key)
            if len(samples) < 3 and depth >= 2:
                samples.append({"main": idl.render_file(next(f for f in case["files"] if f["path"] == case["main"]))[:1500],
                                "facts": fi[:12]})
    # a name declared as an error (or constant) anywhere up the chain cannot be declared again
    # further down: it would get a second value in the derived interface (C08 only)
    if mode == "errs":
        for dist in (1, 2, 3):
            for kind in ("error", "const"):
                lv = [{"k": "interface", "name": f"IR{i}", "base": (f"IR{i - 1}" if i else None),
                       "members": [{"k": "error", "name": f"E_{i}_A"}, {"k": "method", "name": f"m{i}", "optional": False, "doc": None, "params": []}]}
                      for i in range(dist + 1)]
                lv[-1]["members"].append({"k": "error", "name": "E_0_A"} if kind == "error" else {"k": "const", "type": "uint32", "name": "E_0_A", "value": "3"})
                case = {"id": f"redeclared-{kind}-{dist}", "files": [{"path": "main.idl", "nodes": lv}], "main": "main.idl", "incdirs": []}
                with C.Scratch() as tmp:
                    root = os.path.join(tmp, "src")
                    idl.render_case(case, root)
                    rc, err = E.run_idlc(ctx, root, "main.idl", [], "c", os.path.join(tmp, "o.h"))
                    ctx.bump("evaluations")
                    if rc == 0:
                        oracle_fail.append({"case": {"id": case["id"]}, "failures": [{"where": "cli", "error": f"an error name of an ancestor {dist} level(s) up was declared again and accepted: it has two values in the derived interface"}]})
    # the upper bound through the real command-line binary (C07 only)
    if mode == "ops":
        for n, want in ((16384, 0), (16385, None)):
            case = boundary_case(n)
            with C.Scratch() as tmp:
                root = os.path.join(tmp, "src")
                idl.render_case(case, root)
                rc, err = E.run_idlc(ctx, root, "main.idl", [], "c", os.path.join(tmp, "o.h"), timeout=300)
                ctx.bump("evaluations")
                if n == 16384:
                    if rc != 0:
                        oracle_fail.append({"case": {"id": case["id"], "note": "interface with exactly 0x4000 methods"},
                                            "failures": [{"where": "cli", "error": f"rejected rc={rc}", "stderr": err[-200:]}]})
                    else:
                        ops = X.c_ops(open(os.path.join(tmp, "o.h")).read())
                        if sorted(ops.values()) != list(range(16384)):
                            oracle_fail.append({"case": {"id": case["id"]}, "failures": [{"where": "c-stub", "error": "ids are not 0..0x3FFF"}]})
                else:
                    if rc == 0:
                        oracle_fail.append({"case": {"id": case["id"], "note": "interface with 0x4001 methods"},
                                            "failures": [{"where": "cli", "error": "accepted: an op-code above 0x3FFF was handed out"}]})
        # the same bound over a hierarchy: the limit is on the flattened count, wherever the
        # levels split it (two and three levels, one and two files)
        def chain_case(parts, two_files):
            nodes, base, k = [], None, 0
            for li, cnt in enumerate(parts):
                ms = [{"k": "method", "name": f"m{k + i}", "optional": False, "doc": None, "params": []} for i in range(cnt)]
                k += cnt
                nodes.append({"k": "interface", "name": f"IL{li}", "base": base, "members": ms})
                base = f"IL{li}"
            if two_files:
                return {"id": "chain-" + "-".join(map(str, parts)) + "-2f", "main": "main.idl", "incdirs": [],
                        "files": [{"path": "main.idl", "nodes": [{"k": "include", "path": "base.idl"}] + nodes[1:]},
                                  {"path": "base.idl", "nodes": nodes[:1]}]}
            return {"id": "chain-" + "-".join(map(str, parts)), "main": "main.idl", "incdirs": [], "files": [{"path": "main.idl", "nodes": nodes}]}
        for parts, two_files, accept in (((16384, 1), True, False), ((16383, 1), False, True), ((8192, 8192, 1), False, False),
                                         ((8192, 8191, 1), True, True), ((1, 16384), False, False)):
            case = chain_case(parts, two_files)
            with C.Scratch() as tmp:
                root = os.path.join(tmp, "src")
                idl.render_case(case, root)
                rc, err = E.run_idlc(ctx, root, "main.idl", [], "c", os.path.join(tmp, "o.h"), timeout=300)
                ctx.bump("evaluations")
                if accept and rc != 0:
                    oracle_fail.append({"case": {"id": case["id"]}, "failures": [{"where": "cli", "error": f"a hierarchy with exactly 0x4000 flattened methods was rejected rc={rc}", "stderr": err[-200:]}]})
                if not accept and rc == 0:
                    oracle_fail.append({"case": {"id": case["id"]}, "failures": [{"where": "cli", "error": "accepted: a hierarchy with 0x4001 flattened methods got an op-code above 0x3FFF"}]})
                if accept and rc == 0:
                    ops = X.c_ops(open(os.path.join(tmp, "o.h")).read())
                    top = f"IL{len(parts) - 1}"
                    vals = sorted(v for (i_, m_), v in ops.items() if i_ == top) if ops and isinstance(next(iter(ops)), tuple) else sorted(ops.values())
                    if max(vals) != 16383:
                        oracle_fail.append({"case": {"id": case["id"]}, "failures": [{"where": "c-stub", "error": "largest id is not 0x3FFF", "max": max(vals)}]})
    if mode == "ops":
        # ---- the op-code a method HAS is the one its skeleton answers to: the compiled skeletons of
        # all three backends (coverage corpus: 3-level hierarchy, optional methods left out by the
        # implementor next to methods of the same shape) are called through every stub; for every op
        # exactly the method of that op may be entered, and an op nobody implements enters nothing
        from .. import benchlib as B
        from .bench_props import split_padded
        cov, _padded = split_padded(gen.coverage_case("C07-coverage"))
        with C.Scratch() as tmp:
            b, r, used = B.build_and_run(ctx, cov, os.path.join(tmp, "w"), langs=("c", "cpp", "rust"), valuations=1)
            ctx.bump("evaluations")
            if b["ok"]:
                n_calls = 0
                for a_ in B.analyse(ctx, cov, b, r):
                    call = a_["call"]
                    n_calls += 1
                    mo = B.method_of(cov, call["iface"], call["method"])
                    if a_["impl"] is not None and (a_["impl"].get("method") != call["method"] or a_["pc"].get("optional")):
                        oracle_fail.append({"case": {"id": cov["id"], "call": call}, "failures": [
                            {"where": f"{call['skel']}-skeleton dispatch", "error": "the op-code of one method entered the implementation of another "
                             "(or of a method the implementor left out)", "op": mo[2] if mo else None, "entered": a_["impl"].get("method")}]})
                    if a_["env"] is not None and mo and a_["env"]["op"] != mo[2]:
                        oracle_fail.append({"case": {"id": cov["id"], "call": call}, "failures": [
                            {"where": f"{call['stub']}-stub", "error": "the stub sent another op-code than the numbering prescribes", "expected": mo[2], "got": a_["env"]["op"]}]})
                hist["dispatch_calls"] = n_calls
            else:
                hist["dispatch_calls"] = 0
                oracle_fail.append({"case": {"id": cov["id"]}, "failures": [
                    {"where": "compiled skeletons", "error": "the generated stubs and skeletons of the coverage corpus do not build, so no op-code "
                     "reaches any method", "units": B.failed_units(b)[:2]}]})
    # ---- process history (vlib/history.py): a compilation must not depend on what the same
    # process compiled before (same names with other shapes, same paths with other content, a
    # compilation that failed half-way in between)
    from .. import history as H_
    H_.history_pass(ctx, oracle_fail, hist)
    return finish(ctx, prop, gate, oracle_fail, disagree, samples, len(distinct), hist)


def finish(ctx, prop, gate, oracle_fail, disagree, samples, n_distinct, hist, known=None, extra=None,
           rule=None):
    """common tail of every check: classify, print, write evidence, return the exit code"""
    known = known or []
    violations = 0
    rc = 0
    for k in known:
        print(f"KNOWN-FINDING: property={prop} {k}")
    if oracle_fail:
        violations = len(oracle_fail)
        path = C.write_replay(prop, {"kind": "oracle-failure", "property": prop, "first": oracle_fail[0],
                                     "count": len(oracle_fail), "seed": ctx.seed,
                                     "more": [f["failures"] for f in oracle_fail[1:12]]})
        print(f"VIOLATION property={prop} replay={path}")
        rc = 1
    elif gate["broken"] or disagree:
        violations = 1
        path = C.write_replay(prop, {"kind": "proof-or-correspondence-broken", "property": prop,
                                     "broken_obligations": gate["broken"], "lean_output": gate.get("detail", ""),
                                     "first_disagreement": disagree[0] if disagree else None,
                                     "disagreements": len(disagree), "seed": ctx.seed,
                                     "search": "the property oracle held on every generated input of this run"})
        print(f"VIOLATION property={prop} replay={path} no-failing-input-found")
        rc = 1
    cov = {
        "obligations": gate["obligations"], "discharged": gate["obligations"] - len(gate["broken"]) if not gate["broken"] else gate["discharged"],
        "checker_cmd": "lake build <modules> && lake env lean <audit file with #print axioms>" + (" && lake env leanchecker <modules>" if ctx.tier == "thorough" else ""),
        "trusted_base": C.TRUSTED_BASE,
        "axioms_per_obligation": gate["axioms"],
        "evaluations": ctx.stats.get("evaluations", 0),
        "distinct_nontrivial": n_distinct,
        "rule": rule or "seeded type-directed generator of IDL file sets (vlib/gen.py); a case is non-trivial when it has an inheritance chain of depth >= 2 with >= 2 numbered members; distinct = distinct fact sets",
        "samples": samples or [{"note": "no sample collected"}],
        "histogram": hist,
        "model_vs_impl_disagreements": len(disagree),
        "oracle_failures": len(oracle_fail),
        "stats": ctx.stats,
        "lean_build_s": round(gate["build_s"], 1),
        "tables_exhaustive": True,
    }
    if extra:
        cov.update(extra)
    C.write_evidence(prop, ctx.tier, ctx.seed, cov,
                     ["model = hand-written Lean mirror of the code (lean/MinkModel), tied by regenerated tables (kernel-checked) and sampled correspondence",
                      "numbers in generated text are extracted with regular expressions (vlib/extract.py)"],
                     time.time() - ctx.t0, violations)
    return rc
