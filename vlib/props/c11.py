"""C11 — generated code builds warning-clean in every backend (checked by the real compilers)."""
import copy
import os

from bench import idl, e2, e3
from .. import common as C
from .. import engines as E
from .. import gen
from .. import findings as F
from .bench_props import fix_for_cpp
from .numbering import finish


def c11_opts():
    return gen.Opts(max_files=2, max_structs=4, max_ifaces=3, max_depth=3, max_methods=4, max_params=6,
                    obj_structs=True, small_obj_structs=False, dup_struct_fields=False, obj_arrays=True,
                    mix_inarr_outobj=False, pad_bundles=True, optional=True, typed_objects=True, docs=True,
                    float_consts=False, consts=True)


def java_subset(case):
    """restrict a case to what the Java backend is documented / known to support so that its
    compile result is meaningful: no objects in structs, no arrays other than uint8/int8 input
    arrays, no struct arrays, no fixed-array struct members, out struct only alone"""
    c = copy.deepcopy(case)
    st = idl.struct_table(c)
    bad_structs = {s for s in st if idl.struct_has_objects(c, s) or any(f.get("count", 1) != 1 or f["type"] in st for f in st[s]["fields"])}
    for f in c["files"]:
        for n in f["nodes"]:
            if n["k"] != "interface":
                continue
            ms = []
            for m in n["members"]:
                if m["k"] == "const":
                    continue            # constants: C17
                if m["k"] != "method":
                    ms.append(m)
                    continue
                ok = True
                outs_small = 0
                for p in m["params"]:
                    k = idl.param_kind(c, p)
                    if p["type"] in bad_structs:
                        ok = False
                    if k in ("structarr",) or (k == "primarr" and not (p["dir"] == "in" and p["type"] in ("uint8", "int8"))):
                        ok = False
                    if k == "objarr":
                        ok = False
                    if p["dir"] == "out" and k in ("big", "small", "prim"):
                        outs_small += 1
                    if p["dir"] == "in" and k == "small" and any(ff["type"] in st for ff in st[p["type"]]["fields"]):
                        ok = False
                if any(idl.param_kind(c, p) == "big" and p["dir"] == "out" for p in m["params"]) and outs_small > 1:
                    ok = False
                if ok:
                    ms.append(m)
            n["members"] = ms
        f["nodes"] = [n for n in f["nodes"] if not (n["k"] == "struct" and n["name"] in bad_structs) and n["k"] != "const"]
    # the Java backend copies include strings verbatim into `extends …`: use bare names
    dirs = sorted({idl._dir_of(f["path"]) for f in c["files"]} - {"."})
    for f in c["files"]:
        for n in f["nodes"]:
            if n["k"] == "include":
                n["path"] = os.path.basename(n["path"])
    c["incdirs"] = sorted(set(c.get("incdirs", [])) | set(dirs))
    c.pop("fsmodel", None)
    return c


def run(ctx, prop):
    gate = C.lean_gate(prop, ctx.tier)
    ctx.setup()
    n = {"quick": 4, "thorough": 50}[ctx.tier]
    listed = {k["id"]: k for k in F.load(prop)}
    known_seen = {}
    oracle_fail, disagree, samples = [], [], []
    hist = {"cases": 0, "units": 0, "units_failed": 0, "configs": {}}
    distinct = set()
    work = [("witness", w) for w in F.witness_cases(prop)]
    work.append(("gen", gen.coverage_case("C11-coverage")))
    work.append(("gen", gen.coverage_case3("C11-coverage3")))
    work.append(("gen", gen.coverage_case2("C11-coverage2")))
    # inputs of repaired defects (fixes 373fee2, c29f3ed): must build warning-clean now
    import glob
    import json
    for fpath in sorted(glob.glob(os.path.join(C.VERIF, "corpus", "regress", "k11_*.json"))):
        rc_ = json.load(open(fpath))
        rc_.pop("finding", None)
        work.append(("gen", rc_))
    # the usual Mink naming, in both spellings of the file name, with file-level declarations
    # the interface uses (the Rust backend merges the interface into the file-level module)
    for fname in ("ishape.idl", "IShape.idl", "Ishape.idl"):
        nodes = [{"k": "const", "type": "uint32", "name": "SHAPE_MAX", "value": "16"},
                 {"k": "struct", "name": "Point", "fields": [{"type": "uint32", "count": 1, "name": "x"}, {"type": "uint32", "count": 1, "name": "y"}]},
                 {"k": "interface", "name": "IShape", "base": None, "members": [
                     {"k": "method", "name": "move_to", "optional": False, "doc": None, "params": [{"dir": "in", "type": "Point", "arr": None, "name": "to"}, {"dir": "out", "type": "Point", "arr": None, "name": "was"}]},
                     {"k": "method", "name": "outline", "optional": False, "doc": None, "params": [{"dir": "out", "type": "Point", "arr": "unbounded", "name": "pts"}]}]},
                 {"k": "interface", "name": "IOther", "base": "IShape", "members": [
                     {"k": "method", "name": "area", "optional": False, "doc": None, "params": [{"dir": "out", "type": "uint64", "arr": None, "name": "a"}]}]}]
        work.append(("gen", {"id": f"C11-named-{fname}", "files": [{"path": fname, "nodes": nodes}], "main": fname, "incdirs": [], "no_java": True}))
    # array members longer than 32 elements (beyond what derive-style helpers of the target
    # languages cover), alone, nested and as parameters
    _f = lambda t, c, n: {"type": t, "count": c, "name": n}
    _pp = lambda d, t, n, a=None: {"dir": d, "type": t, "arr": a, "name": n}
    work.append(("gen", {"id": "C11-wide-arrays", "main": "main.idl", "incdirs": [], "files": [{"path": "main.idl", "nodes": [
        {"k": "struct", "name": "WrappedKey", "fields": [_f("uint32", 1, "version"), _f("uint32", 1, "length"), _f("uint8", 40, "blob")]},
        {"k": "struct", "name": "Cells", "fields": [_f("uint32", 33, "cells"), _f("uint16", 70, "s")]},
        {"k": "struct", "name": "Ring", "fields": [_f("WrappedKey", 64, "keys"), _f("uint64", 1, "head")]},
        {"k": "interface", "name": "IKeyStore", "base": None, "members": [
            {"k": "method", "name": "store", "optional": False, "doc": None, "params": [_pp("in", "WrappedKey", "k"), _pp("out", "uint32", "slot")]},
            {"k": "method", "name": "load", "optional": False, "doc": None, "params": [_pp("in", "uint32", "slot"), _pp("out", "WrappedKey", "k")]},
            {"k": "method", "name": "cells", "optional": False, "doc": None, "params": [_pp("in", "Cells", "c"), _pp("out", "Ring", "r")]},
            {"k": "method", "name": "many", "optional": False, "doc": None, "params": [_pp("in", "WrappedKey", "ks", "unbounded"), _pp("out", "Cells", "cs", "unbounded")]}]}]}]}))
    # an include written with a directory part: the generated headers mirror the tree, stub and
    # skeleton headers of the including file must name the included headers the same way
    work.append(("gen", {"id": "C11-subdir-include", "main": "IService.idl", "incdirs": [], "no_java": True, "files": [
        {"path": "IService.idl", "nodes": [
            {"k": "include", "path": "common/ITypes.idl"},
            {"k": "interface", "name": "IService", "base": "ITypesBase", "members": [
                {"k": "method", "name": "query", "optional": False, "doc": None, "params": [_pp("in", "TKey", "k"), _pp("out", "TVal", "v")]}]}]},
        {"path": "common/ITypes.idl", "nodes": [
            {"k": "struct", "name": "TKey", "fields": [_f("uint32", 2, "id")]},
            {"k": "struct", "name": "TVal", "fields": [_f("uint64", 3, "v")]},
            {"k": "interface", "name": "ITypesBase", "base": None, "members": [
                {"k": "error", "name": "T_FAIL"},
                {"k": "method", "name": "version", "optional": False, "doc": None, "params": [_pp("out", "uint32", "v")]}]}]}]}))
    # float constants written without a fraction, negative ones included (C and C++ float
    # constants are a listed finding, so this case is compiled for Rust only)
    work.append(("gen", {"id": "C11-whole-float-consts", "main": "main.idl", "incdirs": [], "no_java": True, "langs": ["rust"], "files": [{"path": "main.idl", "nodes": [
        {"k": "const", "type": "float64", "name": "OFFSET", "value": "-3"}, {"k": "const", "type": "float32", "name": "GAIN", "value": "7"},
        {"k": "const", "type": "float32", "name": "NEG", "value": "-10"}, {"k": "const", "type": "float64", "name": "ZEROF", "value": "0"},
        {"k": "interface", "name": "IConstsF", "base": None, "members": [
            {"k": "const", "type": "float64", "name": "BIAS", "value": "-10"}, {"k": "const", "type": "float32", "name": "HALF", "value": "-0.5"},
            {"k": "method", "name": "m", "optional": False, "doc": None, "params": []}]}]}]}))
    def no_int64_min(case):
        """the most negative int64 literal does not compile warning-clean in C/C++ (known finding
        K11-int64MinConst, re-confirmed by its witness on every run): generated cases use the
        next value so that one drawn boundary constant does not mask everything else in its file"""
        for f_ in case["files"]:
            for n_ in f_["nodes"]:
                for c_ in ([n_] if n_["k"] == "const" else [m_ for m_ in n_.get("members", []) if m_["k"] == "const"]):
                    if c_["type"] == "int64" and c_["value"].lower() in ("-9223372036854775808", "-0x8000000000000000"):
                        c_["value"] = "-9223372036854775807"
        return case
    for i in range(n):
        work.append(("gen", no_int64_min(fix_for_cpp(gen.gen_case(ctx.rng, c11_opts(), cid=f"C11-{ctx.seed}-{i}")))))
    configs = [("gcc", "g++", True), ("clang", "clang++", True), ("gcc", "g++", False)]
    if ctx.tier == "thorough":
        configs.append(("clang", "clang++", False))
    for origin, case in work:
        hist["cases"] += 1
        with C.Scratch() as tmp:
            root = os.path.join(tmp, "src")
            idl.render_case(case, root)
            model, impl = E.e1(ctx, case, root)
            ctx.bump("evaluations")
            if E.verdict_of(model) != E.verdict_of(impl):
                disagree.append({"case": case, "model": E.verdict_of(model), "impl": E.verdict_of(impl)})
            if E.verdict_of(impl) != "accept":
                if origin == "gen":
                    oracle_fail.append({"case": case, "failures": [{"error": "generated valid case rejected", "facts": impl[:2]}]})
                continue
            failed = []
            wl = case.get("langs")
            if case.get("java_only"):
                jb = e3.build(case, os.path.join(tmp, "wj"), ctx.idlc["debug"], valuations=1, seed=ctx.seed)
                for u in jb["units"]:
                    hist["units"] += 1
                    if u["rc"] != 0:
                        failed.append({"config": "javac", "unit": u["unit"], "stderr": u["stderr"][-500:]})
            os.environ["BENCH_STALE_TARGETS"] = "1"     # headers are regenerated over longer stale files
            for ci, (cc, cxx, typed) in enumerate(configs):
                if case.get("java_only"):
                    break
                if origin == "witness" and ci > 0:
                    break
                langs = tuple(wl) if wl else ("c", "cpp", "rust")
                b = e2.build(case, os.path.join(tmp, f"w{ci}"), ctx.idlc["debug"], langs=langs, cc=cc, cxx=cxx, typed=typed,
                             valuations=1, seed=ctx.seed, only_compile=True)
                key = f"{cc}/{cxx}/{'typed' if typed else 'untyped'}"
                hist["configs"][key] = hist["configs"].get(key, 0) + 1
                for u in b["units"]:
                    hist["units"] += 1
                    if u["rc"] != 0:
                        hist["units_failed"] += 1
                        failed.append({"config": key, "unit": u["unit"], "stderr": u["stderr"][-500:]})
                    distinct.add((key, u["unit"].split()[0]))
            # Java: on the subset the backend supports
            jc = java_subset(case)
            if origin == "gen" and not case.get("no_java") and any(n_["k"] == "interface" and n_["members"] for f in jc["files"] for n_ in f["nodes"]):
                jb = e3.build(jc, os.path.join(tmp, "wj"), ctx.idlc["debug"], valuations=1, seed=ctx.seed)
                for u in jb["units"]:
                    hist["units"] += 1
                    if u["rc"] != 0:
                        hist["units_failed"] += 1
                        failed.append({"config": "javac", "unit": u["unit"], "stderr": u["stderr"][-500:]})
                    distinct.add(("javac", u["unit"].split()[0]))
            if failed:
                kid = case.get("finding")
                if origin == "witness" and kid in listed:
                    known_seen[kid] = failed[0]["unit"] + ": " + (failed[0]["stderr"].strip().splitlines() or ["?"])[0][:160]
                else:
                    oracle_fail.append({"case": case, "failures": [{"error": "generated code does not build warning-clean", "units": failed[:4]}]})
            elif origin == "witness":
                pass
            if len(samples) < 3 and origin == "gen":
                samples.append({"case": case["id"], "files": [f["path"] for f in case["files"]], "failed_units": len(failed)})
    known_lines = []
    for kid, k in listed.items():
        if kid in known_seen:
            known_lines.append(f"{kid}: {k['what']} [{known_seen[kid]}]")
        else:
            oracle_fail.append({"case": {"id": "known-finding-stale"}, "failures": [{"kind": "stale", "finding": kid}]})
    return finish(ctx, prop, gate, oracle_fail, disagree, samples, len(distinct), hist, known=known_lines,
                  rule="generated accepted file sets (1-2 files with includes, hierarchies up to depth 4, every parameter kind, documentation, "
                       "optional methods, integer constants) are generated for C, C++ and Rust (stub and skeleton) and compiled with gcc/g++ and "
                       "clang/clang++ under upstream's flags (-Wall -Wextra -Wno-unused-parameter -Werror, C++ also "
                       "-Wno-missing-field-initializers), typed and untyped, each with a conforming user unit that includes stub and skeleton "
                       "of every file (generated headers include the generated headers of their includes); Rust through rustc with upstream's "
                       "crate layout; Java (on the subset the backend supports) through javac against the stand-in runtime API; "
                       "distinct = distinct (toolchain configuration, unit kind)",
                  extra={"engines": ["E2 only_compile", "E3 javac"], "not_modelled": "static semantics of C, C++, Rust, Java"})
