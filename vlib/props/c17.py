"""C17 — constants reach every backend with their exact value and declared type."""
import concurrent.futures as cf
import os
import re
import struct
import subprocess

from bench import idl
from .. import common as C
from .. import engines as E
from .. import findings as F
from .numbering import finish

INTS = {"uint8": (8, False), "uint16": (16, False), "uint32": (32, False), "uint64": (64, False),
        "int8": (8, True), "int16": (16, True), "int32": (32, True), "int64": (64, True)}
FLOATS = {"float32": 32, "float64": 64}
RUST_T = {"uint8": "u8", "uint16": "u16", "uint32": "u32", "uint64": "u64", "int8": "i8", "int16": "i16",
          "int32": "i32", "int64": "i64", "float32": "f32", "float64": "f64"}
JAVA_W = {"byte": 8, "char": 16, "int": 32, "long": 64, "float": 32, "double": 64, "short": 16}


def rng_of(t):
    bits, signed = INTS[t]
    return (-(1 << (bits - 1)), (1 << (bits - 1)) - 1) if signed else (0, (1 << bits) - 1)


def math_value(lit):
    neg = lit.startswith("-")
    body = lit[1:] if neg else lit
    v = int(body[2:], 16) if body.startswith("0x") else int(body, 10)
    return -v if neg else v


def form_of(lit):
    body = lit.lstrip("-")
    if body.startswith("0x"):
        return "neghex" if lit.startswith("-") else "hex"
    if "." in body:
        return "fraction"
    if len(body) > 1 and body.startswith("0"):
        return "leading-zero"
    return "decimal"


def int_literals(t, rng):
    lo, hi = rng_of(t)
    vals = {lo, lo + 1, hi, hi - 1, 0, 1, rng.randint(lo, hi), rng.randint(0, hi)}
    if lo < 0:
        vals.add(-1)
    out = []
    for v in sorted(vals):
        out.append(str(v))
        out.append(("-" if v < 0 else "") + hex(abs(v)))
        if 0 < v < 1000:
            out.append("0" + str(v))
    return list(dict.fromkeys(out))


def out_of_range(t):
    lo, hi = rng_of(t)
    out = [str(hi + 1), str(lo - 1), hex(hi + 1)]
    if lo == 0:
        out += ["-0", "-0x1"]
    else:
        out.append("-" + hex(-lo + 1))
    return out


# ----------------------------------------------------------------- per-language probes

def extract_decl(text, name, lang):
    pats = {"c": r"^#define\s+(?:\w+_)?%s\s+.*$", "cpp": r"^\s*static const \w+ %s = .*;$",
            "rust": r"^pub const %s: \w+ = .*;$", "java": r"^\s*\w+ (?:\w+_)?%s = .*;$"}
    m = re.search(pats[lang] % re.escape(name), text, re.M)
    return m.group(0).strip() if m else None


def probe_c(decl, tmp, k):
    macro = decl.split()[1]
    src = f"""#include <stdio.h>
#include <stdint.h>
{decl}
#define TN(x) _Generic((x), signed char:"i8", unsigned char:"u8", short:"i16", unsigned short:"u16", int:"i32", unsigned:"u32", long:"i64", unsigned long:"u64", long long:"i64", unsigned long long:"u64", float:"f32", double:"f64", default:"?")
int main(void) {{
  __typeof__({macro}) v = {macro};
  if (TN({macro})[0] == 'f') {{ double d = (double)v; unsigned long long b; __builtin_memcpy(&b, &d, 8); printf("%s f %llx\\n", TN({macro}), b); }}
  else if (TN({macro})[0] == 'i') printf("%s s %lld\\n", TN({macro}), (long long)v);
  else printf("%s u %llu\\n", TN({macro}), (unsigned long long)v);
  return 0; }}
"""
    p = os.path.join(tmp, f"pc{k}.c")
    open(p, "w").write(src)
    exe = os.path.join(tmp, f"pc{k}")
    r = subprocess.run(["gcc", "-Wall", "-Wextra", "-Werror", "-o", exe, p], capture_output=True, text=True)
    if r.returncode != 0:
        return {"compile_error": r.stderr.strip().splitlines()[0][:200] if r.stderr.strip() else "error"}
    o = subprocess.run([exe], capture_output=True, text=True).stdout.split()
    return {"type": o[0], "value": _val(o)}


def _val(o):
    if o[1] == "f":
        return ("float", struct.unpack("<d", struct.pack("<Q", int(o[2], 16)))[0])
    return int(o[2])


def probe_cpp(decl, tmp, k):
    name = re.search(r"static const \w+ (\w+) =", decl).group(1)
    src = f"""#include <cstdio>
#include <cstdint>
#include <cstring>
#include <type_traits>
{decl}
int main() {{
  typedef std::remove_cv<decltype({name})>::type T;
  if (std::is_floating_point<T>::value) {{ double d = (double){name}; unsigned long long b; std::memcpy(&b, &d, 8); std::printf("%c%zu f %llx\\n", 'f', sizeof(T) * 8, b); }}
  else if (std::is_signed<T>::value) std::printf("i%zu s %lld\\n", sizeof(T) * 8, (long long){name});
  else std::printf("u%zu u %llu\\n", sizeof(T) * 8, (unsigned long long){name});
  return 0; }}
"""
    p = os.path.join(tmp, f"pp{k}.cpp")
    open(p, "w").write(src)
    exe = os.path.join(tmp, f"pp{k}")
    r = subprocess.run(["g++", "-Wall", "-Wextra", "-Werror", "-o", exe, p], capture_output=True, text=True)
    if r.returncode != 0:
        lines = [l for l in r.stderr.splitlines() if "error" in l or "warning" in l]
        return {"compile_error": (lines[0] if lines else "error")[:200]}
    o = subprocess.run([exe], capture_output=True, text=True).stdout.split()
    return {"type": o[0], "value": _val(o)}


def probe_rust(decl, tmp, k):
    name = re.search(r"pub const (\w+):", decl).group(1)
    src = f"""#![allow(dead_code)]
{decl}
fn show<T: std::fmt::Debug>(v: &T) -> String {{ format!("{{}} {{:?}}", std::any::type_name::<T>(), v) }}
fn main() {{ println!("{{}}", show(&{name})); }}
"""
    p = os.path.join(tmp, f"pr{k}.rs")
    open(p, "w").write(src)
    exe = os.path.join(tmp, f"pr{k}")
    r = subprocess.run(["rustc", "--edition", "2021", "-o", exe, p], capture_output=True, text=True)
    if r.returncode != 0:
        lines = [l for l in r.stderr.splitlines() if l.startswith("error")]
        return {"compile_error": (lines[0] if lines else "error")[:200]}
    o = subprocess.run([exe], capture_output=True, text=True).stdout.split()
    v = o[1]
    return {"type": o[0], "value": ("float", float(v)) if o[0] in ("f32", "f64") else int(v)}


def probe_java_all(decls, tmp):
    """decls: {k: declaration line}; returns {k: result}"""
    d = os.path.join(tmp, "jv")
    os.makedirs(d, exist_ok=True)
    res = {}
    names = {}
    for k, decl in decls.items():
        m = re.match(r"(\w+) (\w+) = (.*);", decl)
        names[k] = (m.group(1), m.group(2))
        open(os.path.join(d, f"W{k}.java"), "w").write(f"public interface W{k} {{ {decl} }}\n")
    bad = set()
    for _ in range(6):          # javac reports lexical errors first, type errors in a later pass
        good = [os.path.join(d, f"W{k}.java") for k in decls if k not in bad]
        if not good:
            break
        r = subprocess.run(["javac", "-d", d] + good, capture_output=True, text=True)
        if r.returncode == 0:
            break
        found = False
        for m in re.finditer(r"W(\d+)\.java:\d+: error: (.*)", r.stderr):
            if int(m.group(1)) not in bad:
                found = True
                bad.add(int(m.group(1)))
                res[int(m.group(1))] = {"compile_error": m.group(2)[:200]}
        if not found:
            break
    lines = []
    for k in decls:
        if k in bad:
            continue
        carrier, name = names[k]
        expr = f"W{k}.{name}"
        if carrier == "char":
            lines.append(f'System.out.println("{k} char " + (int){expr});')
        elif carrier in ("float", "double"):
            lines.append(f'System.out.println("{k} {carrier} " + Long.toHexString(Double.doubleToLongBits((double){expr})));')
        else:
            lines.append(f'System.out.println("{k} {carrier} " + {expr});')
    open(os.path.join(d, "Main.java"), "w").write("public class Main { public static void main(String[] a) {\n" + "\n".join(lines) + "\n} }\n")
    subprocess.run(["javac", "-cp", d, "-d", d, os.path.join(d, "Main.java")], capture_output=True, text=True)
    o = subprocess.run(["java", "-cp", d, "Main"], capture_output=True, text=True).stdout
    for l in o.splitlines():
        k, carrier, v = l.split()
        if carrier in ("float", "double"):
            res[int(k)] = {"type": carrier, "value": ("float", struct.unpack("<d", struct.pack("<Q", int(v, 16)))[0])}
        else:
            res[int(k)] = {"type": carrier, "value": int(v)}
    return res


# ----------------------------------------------------------------- expectation and classification

def judge(lang, t, lit, r):
    """returns None if the constant is right in this language, else a failure record"""
    if r is None:
        return {"error": "declaration not found in the output"}
    if "compile_error" in r:
        return {"error": "does not compile", "detail": r["compile_error"]}
    if t in INTS:
        bits, signed = INTS[t]
        want = math_value(lit)
        if r["value"] != want:
            return {"error": "wrong value", "expected": want, "got": r["value"]}
        if lang == "cpp" and r["type"] != ("i" if signed else "u") + str(bits):
            return {"error": "wrong type", "got": r["type"]}
        # C: the <stdint.h> constant macros give the promoted least type; for 32 and 64 bits that
        # is the declared width and signedness
        if lang == "c" and bits >= 32 and r.get("type") not in (None, "?") and r["type"] != ("i" if signed else "u") + str(bits):
            return {"error": "wrong type", "got": r["type"], "expected": ("i" if signed else "u") + str(bits)}
        if lang == "rust" and r["type"] != RUST_T[t]:
            return {"error": "wrong type", "got": r["type"]}
        if lang == "java" and JAVA_W.get(r["type"]) != bits:
            return {"error": "wrong width", "got": r["type"]}
        return None
    # the mathematical value of the IDL literal (a hex literal denotes its integer value)
    want = float(math_value(lit)) if form_of(lit) in ("hex", "neghex") else float(lit)
    if t == "float32":
        want = f32_nearest(lit) if form_of(lit) not in ("hex", "neghex") else struct.unpack("<f", struct.pack("<f", want))[0]
    got = r["value"][1] if isinstance(r["value"], tuple) else float(r["value"])
    if t == "float32":
        # probes print an f32 either widened to double or in its shortest decimal form
        got = struct.unpack("<f", struct.pack("<f", got))[0]
    if got != want:
        return {"error": "wrong value", "expected": want, "got": got}
    if lang == "rust" and r["type"] != RUST_T[t]:
        return {"error": "wrong type", "got": r["type"]}
    return None


def f32_nearest(lit):
    """the float32 nearest to the mathematical value of a decimal literal, rounded ONCE (ties to
    even), by exact rational arithmetic — not through a double, which rounds twice"""
    from fractions import Fraction
    x = Fraction(lit)
    c = struct.unpack("<f", struct.pack("<f", float(x)))[0]
    if c != c or c in (float("inf"), float("-inf")):
        return c
    bits = struct.unpack("<I", struct.pack("<f", c))[0]
    best = None
    for b_ in (bits - 1, bits, bits + 1):
        if b_ < 0 or (b_ & 0x7F800000) == 0x7F800000:
            continue
        v = struct.unpack("<f", struct.pack("<I", b_ & 0xFFFFFFFF))[0]
        key = (abs(Fraction(v) - x), b_ & 1)
        if best is None or key < best[0]:
            best = (key, v)
    return best[1]


def f32_halfway_literals():
    """decimal literals a hair above and below the midpoint of two adjacent float32 values: a
    conversion that goes through a double first lands on the wrong neighbour"""
    from fractions import Fraction
    from decimal import Decimal, getcontext
    getcontext().prec = 90
    out = []
    for base, k in ((Fraction(1), 1), (Fraction(1), 3), (Fraction(2), 5), (Fraction(1, 4), 7)):
        ulp = base / 2 ** 23
        mid = base + ulp * k / 2
        for delta in (Fraction(1, 10 ** 30), -Fraction(1, 10 ** 30)):
            v = mid + delta
            d = Decimal(v.numerator) / Decimal(v.denominator)
            out.append(format(d, "f"))
    return out


def classify(lang, t, lit):
    f = form_of(lit)
    if t in FLOATS:
        if f in ("hex", "neghex"):
            return "K17-hexFloat"
        if lang in ("c", "cpp"):
            return "K17-cFloatMacro"
        if lang == "rust" and f != "fraction":
            return "K17-rustIntForFloat"
        if lang == "java" and t == "float32":
            return "K17-javaCarrier"
        if lang == "java" and f != "fraction" and abs(float(lit)) > 2 ** 31 - 1:
            return "K17-javaCarrier"        # a whole-number literal beyond int is not a valid Java literal without suffix
        if f == "leading-zero" and lang == "java":
            return "K17-octal"
        return None
    v = math_value(lit)
    bits, signed = INTS[t]
    if f == "leading-zero" and lang in ("c", "cpp", "java"):
        return "K17-octal"
    if lang in ("c", "cpp"):
        if signed and bits >= 32 and v == -(1 << (bits - 1)):
            return "K17-cSignedMin"
        return None
    if lang == "java":
        carrier_lo, carrier_hi = {8: (-128, 127), 16: (0, 65535), 32: (-2**31, 2**31 - 1), 64: (-2**31, 2**31 - 1)}[bits]
        if f in ("hex", "neghex") and bits >= 32 and abs(v) <= 0xFFFFFFFF and not (carrier_lo <= v <= carrier_hi):
            return "K17-javaCarrier"
        if not (carrier_lo <= v <= carrier_hi):
            return "K17-javaCarrier"
        return None
    return None


def run(ctx, prop):
    gate = C.lean_gate(prop, ctx.tier)
    ctx.setup()
    oracle_fail, disagree, samples = [], [], []
    hist = {"range_checks": 0, "constants_probed": 0, "compile_errors": 0}
    listed = {k["id"]: k for k in F.load(prop)}
    known_seen = {}
    distinct = set()
    # ---- (1) range check through the real binary and the model, all boundary literals
    rows = []
    for t in INTS:
        for lit in int_literals(t, ctx.rng):
            rows.append((t, lit, True))
        for lit in out_of_range(t):
            rows.append((t, lit, False))
    for t in FLOATS:
        for lit in ["0.0", "1.5", "-2.25", "3", "100.125"]:
            rows.append((t, lit, True))
        rows.append((t, "1" + "0" * (39 if t == "float32" else 309), False))
    if ctx.tier == "quick":
        rows = ctx.rng.sample(rows, 70)
    for t, lit, in_range in rows:
        # where the constant sits: the compiled file or an included one, file scope or inside an
        # interface (own, or a base interface the compiled file derives from: inherited constants
        # are emitted again)
        scope = ctx.rng.choice(["file", "interface", "included-file", "included-base"])
        const = {"k": "const", "type": t, "name": "KX", "value": lit}
        if scope == "file":
            files = [{"path": "main.idl", "nodes": [const]}]
        elif scope == "interface":
            files = [{"path": "main.idl", "nodes": [{"k": "interface", "name": "IK", "base": None, "members": [const]}]}]
        elif scope == "included-file":
            files = [{"path": "main.idl", "nodes": [{"k": "include", "path": "limits.idl"}, {"k": "interface", "name": "IK", "base": None, "members": []}]},
                     {"path": "limits.idl", "nodes": [const]}]
        else:
            files = [{"path": "main.idl", "nodes": [{"k": "include", "path": "limits.idl"}, {"k": "interface", "name": "IK", "base": "ILimits", "members": []}]},
                     {"path": "limits.idl", "nodes": [{"k": "interface", "name": "ILimits", "base": None, "members": [const]}]}]
        case = {"id": f"range-{t}-{lit}-{scope}", "files": files, "main": "main.idl", "incdirs": []}
        with C.Scratch() as tmp:
            root = os.path.join(tmp, "src")
            idl.render_case(case, root)
            for ub in (False, True):
                rc, err = E.run_idlc(ctx, root, "main.idl", [], "c", os.path.join(tmp, "o.h"),
                                     extra=["--allow-undefined-behavior"] if ub else [])
                model, impl = E.e1(ctx, case, root, "cli", ub=ub)
                ctx.bump("evaluations")
                hist["range_checks"] += 1
                vm = E.verdict_of(model) == "accept"
                if vm != (rc == 0) or vm != (E.verdict_of(impl) == "accept"):
                    disagree.append({"case": case, "ub": ub, "model_accepts": vm, "cli_exit": rc, "probe": E.verdict_of(impl)})
                if not ub:
                    # the library entry point (build scripts) never allows undefined behaviour
                    from .validation import lib_verdict
                    lv = lib_verdict(ctx, case, root)
                    if (lv == "ok") != in_range:
                        oracle_fail.append({"case": case, "failures": [{"error": "range decision of the library entry point differs from the mathematical range",
                                                                        "type": t, "literal": lit, "lib": lv}]})
                want_accept = in_range or ub
                if want_accept != (rc == 0):
                    oracle_fail.append({"case": case, "failures": [{"error": "range decision differs from the mathematical range",
                                                                    "type": t, "literal": lit, "ub": ub, "cli_exit": rc}]})
            distinct.add(("range", t, form_of(lit), in_range, scope))
    # ---- (2) value and type of every emitted constant in every backend
    consts = []
    for t in list(INTS) + list(FLOATS):
        lits = int_literals(t, ctx.rng) if t in INTS else ["0.0", "1.5", "-2.25", "3", "0x10", "100.125", "007.5",
                                                            "0.1", "3.141592653589793", "16777217.0", "-0.000001", "1234567.890625",
                                                            "9223372036854775808", "18446744073709551616", "-9223372036854775809",
                                                            "340282346638528859811704183484516925440"]
        if t in INTS:
            lits += [x for x in ("5", "1000", "-2", "0x7B") if rng_of(t)[0] <= math_value(x) <= rng_of(t)[1] and x not in lits]
        pick = lits if ctx.tier == "thorough" else ctx.rng.sample(lits, min(len(lits), 7))
        if t == "float32":
            pick = list(pick) + f32_halfway_literals()
        for lit in pick:
            consts.append((t, lit))
    # witnesses of the listed known findings are probed on every run
    for w in [("int64", "-9223372036854775808"), ("int32", "-0x80000000"), ("uint8", "010"), ("uint8", "200"),
              ("float32", "1.5"), ("float32", "3"), ("float64", "0x10"), ("uint64", "18446744073709551615")]:
        if w not in consts:
            consts.append(w)
    members, top = [], []
    for i, (t, lit) in enumerate(consts):
        node = {"k": "const", "type": t, "name": f"KV{i}", "value": lit}
        (members if i % 3 == 0 else top).append(node)
    case = {"id": "values", "files": [{"path": "main.idl", "nodes": top + [
        {"k": "interface", "name": "IBaseK", "base": None, "members": members},
        {"k": "interface", "name": "IDerK", "base": "IBaseK", "members": []}]}], "main": "main.idl", "incdirs": []}
    with C.Scratch() as tmp:
        root, out = os.path.join(tmp, "src"), os.path.join(tmp, "out")
        os.makedirs(out)
        idl.render_case(case, root)
        res = E.emit_all(ctx, case, root, out, backends=("c", "cpp", "rust", "java"))
        texts = {"c": "\n".join(res["c"][1].values()), "cpp": "\n".join(res["cpp"][1].values()),
                 "rust": "\n".join(res["rust"][1].values()), "java": "\n".join(res["java"][1].values())}
        for b, (rc, _, err) in res.items():
            if rc != 0:
                oracle_fail.append({"case": {"id": "values"}, "failures": [{"error": f"idlc {b} exit {rc}", "stderr": err[-200:]}]})
        jobs = {}
        java_decls = {}
        with cf.ThreadPoolExecutor(max_workers=16) as ex:
            for i, (t, lit) in enumerate(consts):
                for lang, fn in (("c", probe_c), ("cpp", probe_cpp), ("rust", probe_rust)):
                    decl = extract_decl(texts[lang], f"KV{i}", lang)
                    jobs[(lang, i)] = ex.submit(fn, decl, tmp, f"{lang}{i}") if decl else None
                jd = extract_decl(texts["java"], f"KV{i}", "java")
                if jd:
                    java_decls[i] = jd
            results = {k: (f.result() if f else None) for k, f in jobs.items()}
        jres = probe_java_all(java_decls, tmp)
        for i in range(len(consts)):
            results[("java", i)] = jres.get(i)
        for (lang, i), r in sorted(results.items()):
            t, lit = consts[i]
            hist["constants_probed"] += 1
            fail = judge(lang, t, lit, r)
            distinct.add((lang, t, form_of(lit)))
            if fail:
                if "compile" in fail["error"]:
                    hist["compile_errors"] += 1
                k = classify(lang, t, lit)
                if k and k in listed:
                    known_seen.setdefault(k, f"{lang}: const {t} = {lit} -> {fail['error']}")
                else:
                    oracle_fail.append({"case": {"id": "values", "const": f"const {t} KV{i} = {lit};"},
                                        "failures": [dict(fail, lang=lang)]})
            elif len(samples) < 6:
                samples.append({"lang": lang, "const": f"const {t} = {lit}", "observed": r})
    known_lines = []
    for kid, k in listed.items():
        if kid in known_seen:
            known_lines.append(f"{kid}: {k['what']} [e.g. {known_seen[kid]}]")
        else:
            oracle_fail.append({"case": {"id": "known-finding-stale"}, "failures": [{"kind": "stale", "finding": kid}]})
    return finish(ctx, prop, gate, oracle_fail, disagree, samples, len(distinct), hist, known=known_lines,
                  rule="(1) every integer type x {min, min+1, -1, 0, 1, max-1, max, random} x {decimal, hex, negative hex, leading zeros} and "
                       "just-out-of-range literals, file and interface scope, with and without --allow-undefined-behavior: exit status vs the "
                       "mathematical range and vs the model; (2) one constant per (type, literal form) emitted for C, C++, Rust, Java; the emitted "
                       "declaration of each constant is compiled alone with gcc/g++ (-Wall -Wextra -Werror), rustc and javac in a probe that prints "
                       "its value and type; distinct = distinct (language, type, literal form)",
                  extra={"engines": ["E0 literal table (kernel-checked)", "E4 cli", "compiled value/type probes"]})
