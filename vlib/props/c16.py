"""C16 — the compiler is total and memory-safe on arbitrary input; debug and release agree."""
import os
import resource
import subprocess

from bench import idl
from .. import common as C
from .. import engines as E
from .. import gen
from .. import findings as F
from .numbering import finish

TIME_LIMIT = 60     # generous: the claim is termination, not speed; the debug build is quadratic in the number of structs
STACK = 8 * 1024 * 1024
MEM = 4 * 1024 * 1024 * 1024


def _limits():
    resource.setrlimit(resource.RLIMIT_STACK, (STACK, STACK))
    resource.setrlimit(resource.RLIMIT_AS, (MEM, MEM))
    resource.setrlimit(resource.RLIMIT_CORE, (0, 0))


def run_bin(binary, path, backend, out, extra=()):
    cmd = [binary, path] + E.BACKENDS[backend] + list(extra) + ["-o", out]
    try:
        p = subprocess.run(cmd, stdout=subprocess.PIPE, stderr=subprocess.PIPE, timeout=TIME_LIMIT,
                           env=C.ENV, preexec_fn=_limits)
        return p.returncode, p.stderr
    except subprocess.TimeoutExpired:
        return "timeout", b""


def read_out(out):
    if os.path.isdir(out):
        return {f: open(os.path.join(out, f), "rb").read() for f in sorted(os.listdir(out))}
    return {"<file>": open(out, "rb").read()} if os.path.exists(out) else {}


def mutate(rng, data):
    data = bytearray(data)
    for _ in range(rng.choice([1, 1, 2, 4])):
        if not data:
            break
        k = rng.randrange(6)
        i = rng.randrange(len(data))
        if k == 0:
            del data[i:i + rng.randint(1, 6)]
        elif k == 1:
            data[i:i] = rng.choice([b"{", b"}", b";", b"(", b")", b"[", b"]", b"/*", b"*/", b"//", b"\"", b"0x", b"-", b",",
                                    b"interface ", b"struct ", b"method ", b"include \"", b"#[optional]", b"const ", b"[0]",
                                    b"[65536]", b"[99999999999999999999]", b"\xff\xfe", b"\x00", b"\xc3\x28", b"/**\n"])
        elif k == 2:
            data[i] = rng.randrange(256)
        elif k == 3:
            j = rng.randrange(len(data))
            a, b = min(i, j), max(i, j)
            data[a:a] = data[a:min(b, a + 40)]
        elif k == 4:
            j = min(len(data), i + rng.randint(1, 30))
            seg = data[i:j]
            del data[i:j]
            p = rng.randrange(len(data) + 1)
            data[p:p] = seg
        else:
            data[i:i + 1] = str(rng.choice([0, 1, 15, 16, 255, 256, 65535, 65536, 2**31, 2**32, 2**63, 2**64, 10**30])).encode()
    return bytes(data)


def special_inputs(rng):
    out = []
    out.append(("empty", b""))
    out.append(("only-comment", b"// nothing\n"))
    out.append(("unterminated-comment", b"/* never closed\nstruct S { uint8 a; };\n"))
    out.append(("invalid-utf8", b"struct S { uint8 a; };\n\xff\xfe\xfd interface I {};\n"))
    out.append(("nul", b"struct S { uint8 a; };\x00\n"))
    out.append(("long-ident", b"struct " + b"A" * 200000 + b" { uint8 a; };\ninterface I { method m(in " + b"A" * 200000 + b" x); };\n"))
    out.append(("many-structs", b"".join(b"struct S%d { uint32 a; uint32 b; };\n" % i for i in range(2000))))
    out.append(("many-methods", b"interface I {\n" + b"".join(b"  method m%d(in uint32 a, out uint64 b);\n" % i for i in range(3000)) + b"};\n"))
    for n in (b"0", b"1", b"65535", b"65536", b"65537", b"65540", b"70000", b"131071", b"131073", b"4294967295", b"4294967296", b"4294967297",
              b"4295032833", b"18446744073709551617", b"99999999999999999999", b"00000000000000000007", b"065536"):
        out.append((f"field-array-{n.decode()}", b"struct S { uint8[" + n + b"] a; };\ninterface I { method m(in S s); };\n"))
        out.append((f"objarr-{n.decode()}", b"interface I { method m(in I[" + n + b"] s); };\n"))
    # nesting to the stated bound: depth 32 chain; fan-out 2 to depth 12
    chain = b"struct N0 { uint64 a; };\n" + b"".join(b"struct N%d { N%d a; };\n" % (i, i - 1) for i in range(1, 33))
    out.append(("nest-chain-32", chain + b"interface I { method m(in N32 x, out N32 y); };\n"))
    dia = b"struct D0 { uint64 a; };\n" + b"".join(b"struct D%d { D%d a; D%d b; };\n" % (i, i - 1, i - 1) for i in range(1, 13))
    out.append(("nest-diamond-12", dia + b"interface I { method m(in D12 x); };\n"))
    out.append(("size-overflow", b"struct A { uint64[65535] a; };\nstruct B { A[65535] a; };\nstruct C { B[65535] a; };\nstruct D { C[65535] a; };\n"
                                 b"struct E { D[65535] a; };\ninterface I { method m(in E e); };\n"))
    # struct sizes around 2^31 and 2^32 bytes (size arithmetic narrower than usize)
    for rows in (4096, 4097, 8192, 8193, 8200, 16385):
        out.append((f"size-rows-{rows}", b"struct Row { uint64[65535] px; };\nstruct Frame { Row[%d] rows; uint64 stamp; };\n"
                                          b"interface I { method m(in Frame f, out Frame g); };\n" % rows))
    out.append(("case-fold-ifaces", b"interface Logger { method log(in uint32 level, in buffer msg); };\ninterface LOGGER { method flush(); };\n"))
    out.append(("case-fold-struct-iface", b"struct Foo { uint32 a; };\ninterface FOO { method m(in Foo f); };\ninterface foo { method n(); };\n"))
    out.append(("self-cycle", b"struct S { S a; };\n"))
    out.append(("rho-cycle-1", b"struct Outer { Inner i; };\nstruct Inner { Inner again; };\n"))
    out.append(("rho-cycle-2", b"struct Header { uint64 a; Node n; };\nstruct Node { Link l; };\nstruct Link { Node back; };\n"))
    out.append(("rho-cycle-3", b"struct Link { Node back; };\nstruct Node { Link l; };\nstruct Header { Node n; };\ninterface I { method m(in Header h); };\n"))
    out.append(("iface-rho", b"interface A : B {};\ninterface B : C {};\ninterface C : B {};\n"))
    out.append(("deep-parens", b"interface I { method m(" + b"in uint8 a, " * 5000 + b"in uint8 z); };\n"))
    # counters of the code generators around the u8 boundary, distinct names (each slot class and
    # the members of a bundle are counted separately)
    for n in (15, 16, 255, 256, 257, 300, 513):
        for lab, decl, par in (("bundled-in", b"", b"in uint8 a%d"), ("bundled-out", b"", b"out uint16 a%d"),
                               ("small-struct-in", b"struct P { uint32 x; uint32 y; };\n", b"in P a%d"),
                               ("small-struct-out", b"struct P { uint32 x; uint32 y; };\n", b"out P a%d"),
                               ("buffers-in", b"", b"in buffer a%d"), ("objects-out", b"", b"out interface a%d"),
                               ("big-struct-in", b"struct Q { uint64 x; uint64 y; uint64 z; };\n", b"in Q a%d")):
            out.append((f"many-{lab}-{n}", decl + b"interface I { method m(" + b", ".join(par % i for i in range(n)) + b"); };\n"))
    out.append(("huge-const", b"const uint64 K = " + b"9" * 5000 + b";\n"))
    out.append(("huge-float", b"const float64 K = " + b"9" * 5000 + b".5;\n"))
    out.append(("doc-only", b"/**\n * doc\n */\n"))
    out.append(("doc-weird", b"interface I {\n/**\n\xc3\xa9\xc3\xa9*/\n method m();\n};\n"))
    return out


def run(ctx, prop):
    gate = C.lean_gate(prop, ctx.tier)
    ctx.setup(profiles=("debug", "release"))
    nvalid = {"quick": 12, "thorough": 150}[ctx.tier]
    nmut = {"quick": 150, "thorough": 4000}[ctx.tier]
    opts = gen.Opts(max_files=1, max_ifaces=3, max_methods=4, max_params=5, max_structs=4,
                    small_obj_structs=True, mix_inarr_outobj=True, pad_bundles=True)
    listed = {k["id"]: k for k in F.load(prop)}
    known_seen = {}
    oracle_fail, disagree, samples = [], [], []
    hist = {"valid": 0, "mutants": 0, "special": 0, "accepted": 0, "rejected": 0}
    distinct = set()
    inputs = []
    seeds = []
    for i in range(nvalid):
        c = gen.gen_case(ctx.rng, opts, cid=f"C16-{ctx.seed}-{i}")
        text = idl.render_file(c["files"][0]).encode()
        seeds.append(text)
        inputs.append(("valid", text, c))
    for i in range(nmut):
        inputs.append(("mutant", mutate(ctx.rng, ctx.rng.choice(seeds)), None))
    for name, data in special_inputs(ctx.rng):
        inputs.append((name, data, None))
    backends_all = ["c", "c-skel", "cpp", "cpp-skel", "rust", "java"]
    plan = []
    for kind, data, case in inputs:
        backends = backends_all if kind != "mutant" else [ctx.rng.choice(backends_all)]
        if kind not in ("valid", "mutant"):
            backends = ["c", "rust"]
        plan.append((kind, data, case, backends))

    def one(item):
        kind, data, case, backends = item
        fails, accepted, rejected, evals, keys = [], 0, 0, 0, []
        with C.Scratch() as tmp:
            path = os.path.join(tmp, "main.idl")
            open(path, "wb").write(data)
            for b in backends:
                res = {}
                for prof in ("debug", "release"):
                    out = os.path.join(tmp, f"o-{prof}-{b}")
                    if b in ("rust", "java"):
                        os.makedirs(out, exist_ok=True)
                    rc, err = run_bin(ctx.idlc[prof], path, b, out)
                    res[prof] = (rc, err, read_out(out) if rc == 0 else {})
                evals += 1
                bad = []
                for prof, (rc, err, files) in res.items():
                    if rc == "timeout":
                        bad.append({"error": f"{prof} build did not terminate within {TIME_LIMIT}s"})
                    elif rc < 0 or rc in (134, 139, 132, 136, 137, 138):
                        bad.append({"error": f"{prof} build crashed (signal / abort)", "rc": rc, "stderr": err[-200:].decode("utf-8", "replace")})
                    elif rc != 0 and not err.strip():
                        bad.append({"error": f"{prof} build failed without a diagnostic on stderr", "rc": rc})
                    elif rc == 0 and not files and b not in ("rust", "java"):
                        # the multi-file backends legitimately write nothing for a file without declarations
                        bad.append({"error": f"{prof} build exited 0 without output"})
                d, r = res["debug"], res["release"]
                if (d[0] == 0) != (r[0] == 0):
                    bad.append({"error": "debug and release builds disagree on accept/reject", "debug_rc": d[0], "release_rc": r[0],
                                "debug_stderr": d[1][-200:].decode("utf-8", "replace") if isinstance(d[1], bytes) else ""})
                elif d[0] == 0 and d[2] != r[2]:
                    bad.append({"error": "debug and release builds wrote different bytes"})
                if kind == "valid" and d[0] != 0 and not (b == "java" and any(idl.struct_has_objects(case, s) for s in idl.struct_table(case))):
                    bad.append({"error": "valid program rejected", "rc": d[0]})
                # boundary numerals: an array bound outside 1..=65535 has to be refused (it cannot be
                # represented; emitting output for it is "silently emits output for input it should
                # have refused"), one inside must not be refused for its size
                if kind.startswith("field-array-") or kind.startswith("objarr-"):
                    nval = int(kind.rsplit("-", 1)[1])
                    if not (1 <= nval <= 65535) and d[0] == 0:
                        bad.append({"error": "array bound outside 1..=65535 accepted: output emitted for input that has to be refused", "bound": nval})
                    if kind.startswith("field-array-") and 1 <= nval <= 65535 and d[0] != 0 and b != "java":
                        bad.append({"error": "array bound inside 1..=65535 refused", "bound": nval, "rc": d[0]})
                if d[0] == 0:
                    accepted += 1
                else:
                    rejected += 1
                for x in bad:
                    fails.append((kind, b, x))
                keys.append((kind if kind != "mutant" else "mutant-" + str(d[0] == 0), b))
        return fails, accepted, rejected, evals, keys

    import concurrent.futures as cf
    with cf.ThreadPoolExecutor(max_workers=12) as ex:
        results = list(ex.map(one, plan))
    for (kind, data, case, backends), (fails, acc, rej, evals, keys) in zip(plan, results):
        hist["accepted"] += acc
        hist["rejected"] += rej
        ctx.bump("evaluations", evals)
        for k in keys:
            distinct.add(k)
        for kind_, b, x in fails:
            k = "K16-sizeOverflow" if (kind_ == "size-overflow" and "disagree" in x["error"]) else None
            if k and k in listed:
                known_seen[k] = x
            else:
                oracle_fail.append({"case": {"kind": kind_, "backend": b, "input": data[:300].decode("utf-8", "replace")},
                                    "failures": [x]})
        hist["valid" if kind == "valid" else "mutants" if kind == "mutant" else "special"] += 1
        if len(samples) < 4 and kind == "mutant":
            samples.append({"kind": kind, "input": data[:200].decode("utf-8", "replace")})
    # the model's verdict on the valid programs (correspondence) is covered by C10; here the
    # cyclic-struct-in-include crash is re-confirmed as a known finding
    with C.Scratch() as tmp:
        open(os.path.join(tmp, "inc.idl"), "w").write("struct CY { CY2 a; };\nstruct CY2 { CY a; };\n")
        open(os.path.join(tmp, "main.idl"), "w").write('include "inc.idl"\ninterface I { method m(in CY x); };\n')
        for prof in ("debug", "release"):
            rc, err = run_bin(ctx.idlc[prof], os.path.join(tmp, "main.idl"), "c", os.path.join(tmp, "o.h"))
            ctx.bump("evaluations")
            crashed = rc == "timeout" or (isinstance(rc, int) and (rc < 0 or rc in (134, 139)))
            if crashed or rc == 0:
                # repaired (fix 7e13aff): refused with a diagnostic, no stack overflow
                oracle_fail.append({"case": {"kind": "included-cycle"}, "failures": [
                    {"error": f"{prof} build " + ("crashed on" if crashed else "accepted") + " a cyclic struct of an included file used as a parameter type", "rc": rc}]})
    # ---- file trees (several files): include cycles closed through `../`, `./` and nested
    # spellings must be refused with a diagnostic on both profiles; valid multi-include sets
    # must give the same bytes on both profiles for every backend, run after run
    trees = {
        "cycle-dotdot": ({"main.idl": 'include "sub/types.idl"\ninterface I { method m(); };\n',
                          "sub/types.idl": 'include "../all.idl"\nstruct T { uint64 a; };\n', "all.idl": 'include "sub/types.idl"\n'}, False),
        "cycle-dot": ({"main.idl": 'include "./a.idl"\n', "a.idl": 'include "./d/b.idl"\nstruct A { uint8 a; };\n',
                       "d/b.idl": 'include "../a.idl"\nstruct B { uint8 a; };\n'}, False),
        "cycle-deep-dotdot": ({"main.idl": 'include "x/y/z.idl"\n', "x/y/z.idl": 'include "../../x/w.idl"\n', "x/w.idl": 'include "y/../y/z.idl"\n'}, False),
        "range-in-include": ({"main.idl": 'include "limits.idl"\ninterface ISlots : ILimits { method m(); };\n',
                              "limits.idl": 'const uint8 MAX_SLOTS = 256;\nconst int16 LOWEST = -40000;\ninterface ILimits { const uint32 VERSION = 0x1FFFFFFFF; method v(); };\n'}, False),
        "multi-include": ({"main.idl": 'include "ialpha.idl"\ninclude "ibeta.idl"\ninclude "igamma.idl"\ninclude "sub/idelta.idl"\n'
                                       'interface IAll : IAlpha { method all(in SB b, out SG g); };\n',
                           "ialpha.idl": 'interface IAlpha { method a(); };\n', "ibeta.idl": 'struct SB { uint32 v; };\ninterface IBeta { method b(in SB s); };\n',
                           "igamma.idl": 'struct SG { uint64 v; };\nconst uint16 KG = 7;\n', "sub/idelta.idl": 'interface IDelta { method d(); };\n'}, True),
    }
    for tname, (tree, valid) in trees.items():
        with C.Scratch() as tmp:
            for rel, text_ in tree.items():
                os.makedirs(os.path.dirname(os.path.join(tmp, rel)), exist_ok=True)
                open(os.path.join(tmp, rel), "w").write(text_)
            for b in (["c", "cpp-skel", "rust", "java"] if valid else ["c", "rust"]):
                outs_ = []
                for rep in range(3 if valid else 1):
                    for prof in ("debug", "release"):
                        o_ = os.path.join(tmp, f"o-{b}-{prof}-{rep}")
                        if b in ("rust", "java"):
                            os.makedirs(o_, exist_ok=True)
                        rc, err = run_bin(ctx.idlc[prof], os.path.join(tmp, "main.idl"), b, o_)
                        ctx.bump("evaluations")
                        crashed = rc == "timeout" or (isinstance(rc, int) and (rc < 0 or rc in (134, 139)))
                        if crashed:
                            oracle_fail.append({"case": {"kind": "tree-" + tname, "backend": b}, "failures": [{"error": f"{prof} build crashed / did not terminate", "rc": rc, "stderr": err[-200:].decode("utf-8", "replace")}]})
                        elif valid != (rc == 0):
                            oracle_fail.append({"case": {"kind": "tree-" + tname, "backend": b}, "failures": [{"error": f"{prof} build " + ("rejected a valid file set" if valid else "accepted a file set that has to be refused (cyclic include graph / out-of-range constant in an included file)"), "rc": rc}]})
                        outs_.append(read_out(o_) if rc == 0 else None)
                if valid and any(o != outs_[0] for o in outs_):
                    oracle_fail.append({"case": {"kind": "tree-" + tname, "backend": b}, "failures": [{"error": "debug and release builds (or repeated runs) wrote different bytes for the same file set"}]})
                distinct.add(("tree-" + tname, b))
    # ---- struct sizes at the machine word (fix 32d1f86; theorem C16.accepted_sizes_fit): chains of
    # T[65535] over each primitive width; the model and the real passes must take the same
    # decision (E1), the debug and the release binary must agree with them, and nothing whose
    # mathematical size reaches 2^64 may be accepted
    def size_chain(prim, depth, two=False, tail=None):
        nodes = [{"k": "struct", "name": "L1", "fields": [{"type": prim, "count": 65535, "name": "a"}]}]
        for d_ in range(2, depth + 1):
            nodes.append({"k": "struct", "name": f"L{d_}", "fields": [{"type": f"L{d_ - 1}", "count": 65535, "name": "a"}]})
        if two:
            nodes.append({"k": "struct", "name": "Two", "fields": [{"type": f"L{depth}", "count": 1, "name": "a"}, {"type": f"L{depth}", "count": 1, "name": "b"}]})
        if tail:
            nodes.append({"k": "struct", "name": "Tail", "fields": [{"type": f"L{depth}", "count": tail, "name": "a"}]})
        return {"id": f"C16-size-{prim}-{depth}-{int(two)}-{tail}", "files": [{"path": "main.idl", "nodes": nodes}], "main": "main.idl", "incdirs": []}
    width = {"uint8": 1, "uint16": 2, "uint32": 4, "uint64": 8}
    fam = []
    for prim, w in width.items():
        for depth in (2, 3, 4, 5):
            fam.append((size_chain(prim, depth), w * 65535 ** depth))
        fam.append((size_chain(prim, 3, two=True), 2 * w * 65535 ** 3))
        fam.append((size_chain(prim, 3, tail=65535 // w), (65535 // w) * w * 65535 ** 3))
        if 65535 // w + 3 <= 65535:
            fam.append((size_chain(prim, 3, tail=65535 // w + 3), (65535 // w + 3) * w * 65535 ** 3))
    fam.append((size_chain("uint8", 4, two=True), 2 * 65535 ** 4))
    hist["size_limit_cases"] = len(fam)
    for case, math_size in fam:
        with C.Scratch() as tmp:
            root = os.path.join(tmp, "src")
            idl.render_case(case, root)
            model, impl = E.e1(ctx, case, root)
            ctx.bump("evaluations")
            mv, iv = E.verdict_of(model), E.verdict_of(impl)
            if mv != iv:
                disagree.append({"case": case, "only_model": model[:2], "only_impl": impl[:2]})
            rcs = {}
            for prof in ("debug", "release"):
                rc, err = run_bin(ctx.idlc[prof], os.path.join(root, "main.idl"), "c", os.path.join(tmp, f"o-{prof}.h"))
                rcs[prof] = rc
                ctx.bump("evaluations")
            fits = math_size < 2 ** 64
            for prof, rc in rcs.items():
                crashed = rc == "timeout" or (isinstance(rc, int) and (rc < 0 or rc in (134, 139)))
                if crashed:
                    oracle_fail.append({"case": {"kind": "size-limit", "id": case["id"]}, "failures": [{"error": f"{prof} build crashed on a struct of {math_size} bytes", "rc": rc}]})
                elif (rc == 0) != fits:
                    oracle_fail.append({"case": {"kind": "size-limit", "id": case["id"]}, "failures": [
                        {"error": f"{prof} build " + ("refused a struct whose size fits the machine word" if fits else "accepted a struct whose size does not fit the machine word"),
                         "size": str(math_size), "rc": rc}]})
            distinct.add(("size-limit", case["id"]))
    # ---- the shared over-limit family (vlib/bounds.py): methods that need more than 15 arguments
    # of one class — declared in the file or inherited from an included ancestor, with 16, 17 and
    # 256 arguments — must be refused by both builds; accepted ones overflow the u8 counters of the
    # generators (panic in debug, wrap-around in release)
    from .. import bounds as BD
    hist["over_limit_runs"] = BD.must_refuse_family(ctx, oracle_fail, profiles=("debug", "release"), modes=("c", "cpp-skel", "rust", "java"), label="C16-over-limit")
    ctx.bump("evaluations", hist["over_limit_runs"])
    # ---- targets that cannot be written (vlib/targets.py): exit 0 only with every expected file
    # written; otherwise a diagnostic, and — for refusals — an untouched output location
    from .. import targets as TG
    hist["target_runs"] = TG.target_family(ctx, oracle_fail, profiles=("debug", "release"))
    ctx.bump("evaluations", hist["target_runs"])
    known_lines = []
    for kid, k in listed.items():
        if kid in known_seen:
            known_lines.append(f"{kid}: {k['what']}")
        else:
            oracle_fail.append({"case": {"id": "known-finding-stale"}, "failures": [{"kind": "stale", "finding": kid}]})
    return finish(ctx, prop, gate, oracle_fail, disagree, samples, len(distinct), hist, known=known_lines,
                  rule="valid generated programs (all 6 backends), byte-level mutants of them (delete/insert/overwrite/duplicate/move/boundary "
                       "numerals, structural tokens, invalid UTF-8, NUL), and a fixed list of special inputs (empty, unterminated comment, 200k-char "
                       "identifier, 4000 structs, 3000 methods, array bounds 0/1/65535/65536/2^32/10^20, nesting depth 32, diamond depth 12, size "
                       "overflow, self-containing struct, 5000 parameters, 5000-digit constants), and chains of T[65535] whose sizes straddle 2^64 (model verdict = real "
                       "passes = debug binary = release binary, nothing of 2^64 bytes or more accepted); each run on the debug AND the release binary "
                       "built from the working tree under ulimit -s 8 MiB, -v 4 GiB and a 60 s limit; exit status, signal, stderr and output "
                       "bytes compared; distinct = distinct (input kind, backend)",
                  extra={"engines": ["E4 cli debug+release", "E1 facts (size-limit family)"], "stated_bounds": "struct nesting depth <= 32 (chain), <= 12 (fan-out 2)"})
