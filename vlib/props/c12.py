"""C12 — include resolution: first match in search order, relative paths, cycles, load-once."""
import os

from bench import idl
from .. import common as C
from .. import engines as E
from .numbering import finish


def gen_include_case(rng, cid, symlinks=False):
    dirs = ["."] + rng.sample(["d1", "d2", "d1/sub", "d3"], rng.randint(0, 4))
    names = ["a", "b", "c", "d"]
    n = rng.randint(1, 6)
    paths = ["main.idl"]
    tries = 0
    while len(paths) < n + 1 and tries < 50:
        tries += 1
        p = os.path.normpath(os.path.join(rng.choice(dirs), rng.choice(names) + ".idl"))
        if p not in paths:
            paths.append(p)
    dag = rng.random() < 0.55
    files = []
    links = []
    if symlinks and len(dirs) > 1:
        tgt = rng.choice(dirs[1:])
        links.append(("lnk", tgt))            # lnk -> <dir>  (relative symlink at the root)
    for i, p in enumerate(paths):
        incs = []
        for _ in range(rng.choice([0, 1, 1, 2, 3])):
            if dag:
                cands = paths[i + 1:]
            else:
                cands = paths
            if not cands:
                break
            r = rng.random()
            if r < 0.06:
                incs.append("nosuch.idl" if rng.random() < 0.5 else "./nosuch/x.idl")
                continue
            t = rng.choice(cands)
            if rng.random() < 0.5:
                s = os.path.basename(t)                       # bare: goes through the search path
            else:
                s = os.path.relpath(t, os.path.dirname(p) or ".")
                if os.path.dirname(s) == "":
                    s = "./" + s
                if links and rng.random() < 0.3 and os.path.dirname(p) in ("", "."):
                    # the same file through the symlinked directory
                    ln, tg = links[0]
                    if t.startswith(tg + "/"):
                        s = ln + "/" + t[len(tg) + 1:]
            incs.append(s)
        nodes = [{"k": "include", "path": s} for s in incs]
        nodes.append({"k": "struct", "name": f"M{i}", "fields": [{"type": "uint8", "count": 1, "name": "a"}]})
        files.append({"path": p, "nodes": nodes})
    inc_pool = [d for d in dirs if d != "."] + ([links[0][0]] if links else [])
    incdirs = rng.sample(inc_pool, rng.randint(0, len(inc_pool)))
    if rng.random() < 0.3:
        incdirs.insert(rng.randint(0, len(incdirs)), ".")     # the main directory listed explicitly, anywhere
    spell = []
    for d in incdirs:
        r = rng.random()
        spell.append(d if r < 0.6 else ("./" + d if r < 0.8 else os.path.join(d, "..", os.path.basename(d)) if d != "." else "."))
    return {"id": cid, "files": files, "main": "main.idl", "incdirs": spell, "dirs": dirs, "symlinks": links}


def fs_oracle(case, root):
    """the two oracle tables of the model, read from the real file system"""
    root = os.path.realpath(root)

    def canon(p):
        rp = os.path.realpath(p)
        return os.path.relpath(rp, root) if os.path.isfile(rp) else None

    strings = {n["path"] for f in case["files"] for n in f["nodes"] if n["k"] == "include"}
    lookup, rel = [], []
    search = list(case["incdirs"]) + ["."]
    for d in dict.fromkeys(search):
        for s in sorted(strings):
            if os.path.dirname(s) == "":
                t = canon(os.path.join(root, d, s))
                if t:
                    lookup.append((d, s, t))
    for f in case["files"]:
        fd = os.path.dirname(f["path"]) or "."
        for s in sorted(strings):
            if os.path.dirname(s) != "":
                t = canon(os.path.join(root, fd, s))
                if t:
                    rel.append((fd, s, t))
    return {"incdirs": list(case["incdirs"]), "lookup": lookup, "rel": sorted(set(rel))}


def expected(case, fsm):
    """the property statement evaluated directly: first match in search order, relative
    resolution, reject iff unresolvable or cyclic, load set = reachable files"""
    lk = {(d, s): t for d, s, t in reversed(fsm["lookup"])}
    rl = {(d, s): t for d, s, t in fsm["rel"]}
    files = {os.path.normpath(f["path"]): f for f in case["files"]}
    search = list(case["incdirs"]) + ["."]
    edges, unresolved = {}, False
    seen, todo = set(), ["main.idl"]
    while todo:
        p = todo.pop()
        if p in seen:
            continue
        seen.add(p)
        f = files[p]
        for n in f["nodes"]:
            if n["k"] != "include":
                continue
            s = n["path"]
            if os.path.dirname(s):
                t = rl.get((os.path.dirname(p) or ".", s))
            else:
                t = next((lk[(d, s)] for d in search if (d, s) in lk), None)
            if t is None:
                unresolved = True
                continue
            edges.setdefault(p, set()).add(t)
            todo.append(t)
    # cycle among reachable
    color = {}

    def dfs(u):
        color[u] = 1
        for v in edges.get(u, ()):
            if color.get(v) == 1:
                return True
            if color.get(v) is None and dfs(v):
                return True
        color[u] = 2
        return False
    cyc = dfs("main.idl")
    return {"reject": unresolved or cyc, "unresolved": unresolved, "cycle": cyc, "loaded": sorted(seen)}


def run(ctx, prop):
    gate = C.lean_gate(prop, ctx.tier)
    ctx.setup()
    n = {"quick": 250, "thorough": 3000}[ctx.tier]
    oracle_fail, disagree, samples = [], [], []
    hist = {"accept": 0, "reject_cycle": 0, "reject_unresolved": 0, "same_name_two_dirs": 0, "symlink": 0, "diamond": 0}
    distinct = set()
    def twin_case(k, spell, cyclic):
        """the SAME include text with a directory part used from two different directories: it
        names two different files (resolution is relative to the includer, never remembered by
        its text)"""
        def st(i):
            return {"k": "struct", "name": f"M{i}", "fields": [{"type": "uint8", "count": 1, "name": "a"}]}
        inner = {"inc": "inc/t.idl", "dot": "./t.idl", "up": "../shared/t.idl"}[spell]
        where = {"inc": ("a/inc/t.idl", "b/inc/t.idl"), "dot": ("a/t.idl", "b/t.idl"), "up": ("shared/t.idl", "x/shared/t.idl")}[spell]
        second_dir = "x/b" if spell == "up" else "b"
        paths = ["main.idl", "a/u.idl", f"{second_dir}/u.idl", where[0], where[1]]
        incs = {0: ["a/u.idl", f"{second_dir}/u.idl"], 1: [inner], 2: [inner], 3: [], 4: (["../u.idl"] if cyclic and spell != "up" and spell != "inc" else (["../../b/u.idl"] if cyclic and spell == "inc" else []))}
        files = [{"path": p_, "nodes": [{"k": "include", "path": x} for x in incs[i]] + [st(i)]} for i, p_ in enumerate(paths)]
        return {"id": f"C12-twin-{k}", "files": files, "main": "main.idl", "incdirs": [], "dirs": ["."], "symlinks": []}
    fixed = [twin_case(k, sp, cy) for k, (sp, cy) in enumerate([("inc", False), ("dot", False), ("up", False), ("dot", True), ("inc", True)])]
    for i in range(n + len(fixed)):
        case = fixed[i] if i < len(fixed) else gen_include_case(ctx.rng, f"C12-{ctx.seed}-{i}", symlinks=(i % 4 == 0))
        with C.Scratch() as tmp:
            root = os.path.join(tmp, "src")
            idl.render_case(case, root)
            fsm = fs_oracle(case, root)
            case["fsmodel"] = fsm
            exp = expected(case, fsm)
            ctx.bump("evaluations")
            rc, err = E.run_idlc(ctx, root, "main.idl", case["incdirs"], "c", os.path.join(tmp, "o.h"), timeout=30)
            model, impl = E.e1(ctx, case, root)
            vm, vp = E.verdict_of(model), E.verdict_of(impl)
            keys = ("verdict", "loaded", "toponodes", "sym")
            fm = [l for l in model if l.split(" ")[0] in keys and (vm == "accept" or not l.startswith("verdict"))]
            fi = [l for l in impl if l.split(" ")[0] in keys and (vp == "accept" or not l.startswith("verdict"))]
            if (vm == "accept") != (rc == 0) or (vm == "accept") != (vp == "accept") or (vm == "accept" and fm != fi):
                a, b = C.diff_facts(fm, fi)
                disagree.append({"case": case, "model": vm, "probe": vp, "cli_exit": rc, "only_model": a[:6], "only_impl": b[:6]})
            bad = []
            if rc not in (0, 101, 1, 2):
                bad.append({"error": f"abnormal termination rc={rc}", "stderr": err[-300:]})
            if exp["reject"] != (rc != 0):
                bad.append({"error": "verdict differs from the resolution rule", "expected": exp, "cli_exit": rc, "stderr": err[-300:]})
            if not exp["reject"] and vp == "accept":
                loaded = next((l.split(" ")[1:] for l in impl if l.startswith("loaded")), [])
                if sorted(loaded) != exp["loaded"]:
                    bad.append({"error": "load set differs from the files reachable under first-match resolution",
                                "expected": exp["loaded"], "got": sorted(loaded)})
                syms = sorted(l for l in impl if l.startswith("sym struct"))
                want = sorted(f"sym struct M{k} {os.path.normpath(f['path'])}" for k, f in enumerate(case["files"])
                              if os.path.normpath(f["path"]) in exp["loaded"])
                if syms != want:
                    bad.append({"error": "visible declarations differ from those of the reachable files", "expected": want, "got": syms})
            if bad:
                oracle_fail.append({"case": case, "failures": bad})
            if exp["reject"]:
                hist["reject_cycle" if exp["cycle"] else "reject_unresolved"] += 1
            else:
                hist["accept"] += 1
            bases = [os.path.basename(f["path"]) for f in case["files"]]
            hist["same_name_two_dirs"] += len(bases) != len(set(bases))
            hist["symlink"] += bool(case["symlinks"])
            distinct.add((exp["reject"], exp["cycle"], len(exp["loaded"]), tuple(case["incdirs"]), len(case["files"])))
            if len(samples) < 3 and len(case["files"]) > 3:
                samples.append({"files": {f["path"]: [n["path"] for n in f["nodes"] if n["k"] == "include"] for f in case["files"]},
                                "incdirs": case["incdirs"], "expected": exp})
    return finish(ctx, prop, gate, oracle_fail, disagree, samples, len(distinct), hist,
                  rule="random include graphs (1-7 files over up to 5 directories, the same file name in several directories, bare / ./ / ../ / "
                       "nested spellings, 45% arbitrary edges (cycles of any length, self-includes), unresolvable names, symlinked directories, "
                       "random permutations and spellings of the -I list) materialised on disk; the model's file-system oracle tables are read "
                       "from the real tree; distinct = distinct (verdict, cycle, load-set size, -I list, file count)",
                  extra={"engines": ["E1 facts", "E4 cli"]})
