"""C04 — skeletons refuse invocations they must not serve, before the implementation."""
import os

from bench import idl, e2
from .. import common as C
from .. import benchlib as B
from .. import gen
from .. import findings as F
from .bench_props import bench_opts, fix_for_cpp, method_classes, split_padded
from .c02 import mink_counts
from .numbering import finish


def pack(c):
    return c[0] | (c[1] << 4) | (c[2] << 8) | (c[3] << 12)


def unpack(k):
    return [(k >> s) & 15 for s in (0, 4, 8, 12)]


def model_skel(ctx, case, iface, mask, op, k, sizes):
    home = next(f["path"] for f in case["files"] for x in f["nodes"] if x["k"] == "interface" and x["name"] == iface)
    sub = case if home == case["main"] else dict(case, main=home, incdirs=list(case.get("incdirs", [])) + ["."], fsmodel=None)
    if any(m_.get("implemented") for f_ in case["files"] for n_ in f_["nodes"] if n_["k"] == "interface" for m_ in n_["members"]):
        # the model's question is "would the skeleton serve this envelope": an optional method
        # the user did implement is served like any other
        import copy as _copy
        sub = _copy.deepcopy(sub)
        for f_ in sub["files"]:
            for n_ in f_["nodes"]:
                if n_["k"] == "interface":
                    for m_ in n_["members"]:
                        if m_.get("implemented"):
                            m_["optional"] = False
    r = ctx.driver.ask(f"skel {idl.case_tokens(sub)} {iface} {1 if mask else 0} {op} {k} {len(sizes)} " + " ".join(map(str, sizes)))
    out = {}
    for l in r:
        a, _, b = l.partition(" ")
        out[a] = b
    return out


def perturbations(rng, op, k, sizes, guards, all_ops, tier):
    """[(label, op', k', sizes')] single and combined perturbations of a well-formed envelope"""
    out = [("baseline", op, k, list(sizes))]
    c = unpack(k)
    for cls in range(4):
        for delta in (-1, +1):
            v = c[cls] + delta
            if 0 <= v <= 15:
                c2 = list(c)
                c2[cls] = v
                out.append((f"counts[{cls}]{delta:+d}", op, pack(c2), None))
        for v in (0, 15):
            if c[cls] != v:
                c2 = list(c)
                c2[cls] = v
                out.append((f"counts[{cls}]={v}", op, pack(c2), None))
    # same total, different split between the classes
    shifts = []
    for a in range(4):
        for b_ in range(4):
            if a != b_ and c[a] > 0 and c[b_] < 15:
                c2 = list(c)
                c2[a] -= 1
                c2[b_] += 1
                shifts.append((f"counts shift {a}->{b_}", op, pack(c2), None))
    if c[0] != c[1]:
        shifts.append(("counts swap BI/BO", op, pack([c[1], c[0], c[2], c[3]]), None))
    if c[2] != c[3]:
        shifts.append(("counts swap OI/OO", op, pack([c[0], c[1], c[3], c[2]]), None))
    out += shifts
    for gi, gsz in guards:
        for nv, lab in ((0, "0"), (gsz - 1, "n-1"), (gsz + 1, "n+1"), (1 << 31, "2^31")):
            if nv < 0 or nv == gsz:
                continue
            s2 = list(sizes)
            if gi < len(s2):
                s2[gi] = nv
                out.append((f"size[{gi}]={lab}", op, k, s2))
    foreign = max(all_ops) + 1 if all_ops else 1
    # unknown method ids: next free one, the boundaries of the id space, and every single bit
    # of the 16-bit id set on top of a known op (an id that differs from a declared one in one
    # bit must still be unknown)
    ops2 = [(foreign, "foreign"), (0x3FFF, "0x3fff"), (0x4000, "0x4000"), (0x7FFF, "0x7fff"), (0x10000 | op, "modifier-bit")]
    ops2 += [(op | (1 << bit), f"bit{bit}") for bit in range(2, 16)]
    ops2 += [(0xFFFD, "0xfffd"), (0x8000, "0x8000")]
    for o2, lab in ops2:
        if (o2 & 0xFFFF) in (0xFFFE, 0xFFFF):
            continue                    # Object_OP_retain / Object_OP_release are defined operations
        if (o2 & 0xFFFF) not in all_ops and o2 not in all_ops:
            out.append((f"op={lab}", o2, k, list(sizes)))
    # a combined one: wrong counts AND wrong size AND foreign op
    if guards:
        s2 = list(sizes)
        if guards[0][0] < len(s2):
            s2[guards[0][0]] = guards[0][1] + 3
        out.append(("combined", op, k ^ 1, s2))
    if tier == "quick" and len(out) > 24:
        keep = [out[0]] + (rng.sample(shifts, min(3, len(shifts))) if shifts else [])
        # a size one off in either direction is the cheapest wrong envelope: always kept
        keep += [x for x in out if x[0].startswith("size[") and (x[0].endswith("=n+1") or x[0].endswith("=n-1"))]
        opsl = [x for x in out if x[0].startswith("op=")]
        keep += rng.sample(opsl, min(5, len(opsl)))
        rest = [x for x in out[1:] if x not in keep]
        out = keep + rng.sample(rest, max(0, 24 - len(keep)))
    res = []
    for lab, o2, k2, s2 in out:
        c2 = unpack(k2)
        nb = c2[0] + c2[1]
        if s2 is None:
            # re-shape the size list to the new number of buffer slots
            s2 = (list(sizes) + [8] * 32)[:nb]
        else:
            s2 = (list(s2) + [8] * 32)[:nb]
        res.append((lab, o2, k2, s2))
    return res


def exact_size_pass(ctx, case, fails, hist, excused_classes=()):
    """C03: a skeleton accepts a fixed-size buffer (a bundle in particular) only at exactly the
    prescribed size: every fixed-size slot of every method, one byte short, one byte and four
    bytes long, delivered to the compiled skeletons of all three backends, must be refused
    without entering the implementation"""
    with C.Scratch() as tmp:
        langs = ("c", "cpp", "rust")
        b = e2.build(case, os.path.join(tmp, "w"), ctx.idlc["debug"], langs=langs, valuations=1, seed=ctx.seed, sanitize=True)
        if not b["ok"]:
            return
        r = e2.run(b, timeout=120)
        good = {}
        for a in B.analyse(ctx, case, b, r):
            call = a["call"]
            if call["stub"] == "c" and a["env"] is not None and call["val"] == 0 and not a["pc"].get("optional"):
                mo_ = B.method_of(case, call["iface"], call["method"])
                mw_ = B.model_wire(ctx, case, call["iface"], mo_[1], a["plan"])
                secs_ = [int(x) for x in mw_.get("sections", "").split(",") if x]
                if secs_ != sorted(secs_) or (method_classes(case, mo_[1]) & set(excused_classes)):
                    continue
                sizes = [s_.get("size", 0) for s_ in a["env"]["slots"] if s_["c"] in ("bi", "bo")]
                good[(call["iface"], call["method"])] = (a["env"]["op"], a["env"]["k"], sizes)
        lines, meta = [], []
        for (iface, mname), (op, k, sizes) in sorted(good.items()):
            owner, m, _ = B.method_of(case, iface, mname)
            mw = model_skel(ctx, case, iface, True, op, k, sizes)
            guards = [tuple(int(x) for x in g.split(":")) for g in mw.get("guards", "").split()]
            for skel in langs:
                for gi, gsz in guards:
                    for nv in (gsz - 1, gsz + 1, gsz + 4):
                        if nv < 0 or gi >= len(sizes):
                            continue
                        s2 = list(sizes)
                        s2[gi] = nv
                        lines.append(f"{skel} {iface} {mname} {op} {k} {len(s2)} " + " ".join(map(str, s2)))
                        meta.append({"skel": skel, "iface": iface, "method": mname, "slot": gi, "prescribed": gsz, "delivered": nv, "m": m})
        if not lines:
            return
        pf = os.path.join(tmp, "perturb.txt")
        open(pf, "w").write("\n".join(lines) + "\n")
        r2 = e2.run(b, timeout=300, perturb_file=pf)
        groups, cur = [], None
        for x in r2["records"]:
            if x.get("ev") == "pcall":
                cur = {"recs": []}
                groups.append(cur)
            elif cur is not None:
                cur["recs"].append(x)
        for gi_, me in enumerate(meta):
            if gi_ >= len(groups):
                break
            g = groups[gi_]
            hist["exact_size_envelopes"] = hist.get("exact_size_envelopes", 0) + 1
            pert = next((x for x in g["recs"] if x.get("ev") == "perturb"), None)
            idx_p = g["recs"].index(pert) if pert in g["recs"] else len(g["recs"])
            entered = any(x.get("ev") == "impl" for x in g["recs"][:idx_p])
            status = pert["status"] if pert else None
            if pert is None or entered or status == 0:
                fails.append({"case": {"id": case["id"], "method": idl.render_member(me["m"]).strip()}, "failures": [
                    {"error": "a skeleton accepted a fixed-size buffer whose size is not the prescribed one" if pert is not None else
                              "a skeleton crashed on a fixed-size buffer of the wrong size",
                     "skeleton": me["skel"], "slot": me["slot"], "prescribed": me["prescribed"], "delivered": me["delivered"],
                     "implementation_entered": entered, "status": status}]})


HUGE_CASE = {"id": "C04-huge", "main": "main.idl", "incdirs": [], "files": [{"path": "main.idl", "nodes": [
    {"k": "struct", "name": "Page", "fields": [{"type": "uint8", "count": 65535, "name": "bytes"}, {"type": "uint8", "count": 1, "name": "last"}]},
    {"k": "struct", "name": "Image", "fields": [{"type": "Page", "count": 65535, "name": "pages"}, {"type": "Page", "count": 1, "name": "tail"},
                                                  {"type": "uint64", "count": 1, "name": "stamp"}]},
    {"k": "struct", "name": "Half", "fields": [{"type": "Page", "count": 32768, "name": "pages"}, {"type": "uint64", "count": 1, "name": "stamp"}]},
    {"k": "struct", "name": "S8", "fields": [{"type": "uint32", "count": 1, "name": "a"}, {"type": "uint32", "count": 1, "name": "b"}]},
    {"k": "interface", "name": "IStore", "base": None, "members": [
        {"k": "method", "name": "put", "optional": False, "doc": None, "params": [
            {"dir": "in", "type": "Image", "arr": None, "name": "img"}, {"dir": "in", "type": "uint32", "arr": None, "name": "x"}, {"dir": "in", "type": "S8", "arr": None, "name": "s"}]},
        {"k": "method", "name": "get", "optional": False, "doc": None, "params": [
            {"dir": "out", "type": "Image", "arr": None, "name": "img"}, {"dir": "out", "type": "uint16", "arr": None, "name": "y"}, {"dir": "out", "type": "uint8", "arr": None, "name": "z"}]},
        {"k": "method", "name": "half", "optional": False, "doc": None, "params": [
            {"dir": "in", "type": "Half", "arr": None, "name": "h"}, {"dir": "out", "type": "Half", "arr": None, "name": "g"}]}]}]}]}


def expected_guards(case, m):
    """the Mink rule restated for methods that have only fixed-size data parameters (no arrays,
    buffers or objects): per direction the bundle of all values of at most 16 bytes (when there
    are two or more) comes first, then every other parameter as a buffer of its own in
    declaration order; every such slot is guarded with its exact size. Pure arithmetic on the
    declaration — usable for structs the model cannot expand (2^32 bytes and more)."""
    slots = []
    for d in ("in", "out"):
        ps = [p for p in m["params"] if p["dir"] == d]
        for p in ps:
            if p.get("arr") is not None or idl.param_kind(case, p) not in ("prim", "small", "big"):
                return None
            if idl.struct_has_objects(case, p["type"]) if p["type"] in idl.struct_table(case) else False:
                return None
        small = [p for p in ps if idl.type_size(case, p["type"]) <= 16]
        bundled = small if len(small) >= 2 else []
        if bundled:
            slots.append(sum(idl.type_size(case, p["type"]) for p in bundled))
        for p in ps:
            if p not in bundled:
                slots.append(idl.type_size(case, p["type"]))
    return sorted(enumerate(slots))


def static_guard_pass(ctx, case, fails, disagree, hist, use_model=True):
    """the sizes the emitted C and C++ skeletons compare fixed-size slots with, read from the
    generated text, against the model's guards — for structs of any size, including those no
    test could allocate (2^31, 2^32 bytes and more)"""
    import re
    with C.Scratch() as tmp:
        root = os.path.join(tmp, "src")
        idl.render_case(case, root)
        from .. import engines as E_
        texts = {}
        for mode, fn in (("c-skel", "s.h"), ("cpp-skel", "s.hpp")):
            rc, err = E_.run_idlc(ctx, root, case["main"], case.get("incdirs", []), mode, os.path.join(tmp, fn))
            ctx.bump("evaluations")
            if rc != 0:
                fails.append({"case": {"id": case["id"]}, "failures": [{"error": f"valid file refused ({mode})", "rc": rc, "stderr": err[-200:]}]})
                return
            texts[mode] = open(os.path.join(tmp, fn)).read()
        for node in case["files"][0]["nodes"]:
            if node["k"] != "interface":
                continue
            iface = node["name"]
            for owner, m, op in idl.flat_methods(case, iface):
                if use_model:
                    k = pack(mink_counts(case, m))
                    nb = unpack(k)[0] + unpack(k)[1]
                    mw = model_skel(ctx, case, iface, True, op, k, [0] * nb)
                    want = sorted(tuple(int(x) for x in g.split(":")) for g in mw.get("guards", "").split())
                else:
                    want = expected_guards(case, m)
                    if want is None:
                        continue
                for mode, text in texts.items():
                    label = (r"case\s+%s_OP_%s\s*:" % (re.escape(owner), re.escape(m["name"]))) if mode == "c-skel" else (r"case\s+OP_%s\s*:" % re.escape(m["name"]))
                    # the block of THIS interface's dispatch: the first label after the interface's own macro / class
                    start = text.find(f"{iface}_DEFINE_INVOKE") if mode == "c-skel" else text.find(f"class {iface}ImplBase")
                    mm = re.search(label, text[max(start, 0):])
                    if not mm:
                        continue
                    seg = text[max(start, 0) + mm.end():]
                    nxt = re.search(r"\bcase\s+\w+\s*:|\bdefault\s*:", seg)
                    seg = seg[:nxt.start()] if nxt else seg
                    got = sorted((int(i_), int(n_)) for i_, n_ in re.findall(r"a\[(\d+)\]\.b\.size\s*!=\s*(\d+)", seg))
                    hist["static_guards"] = hist.get("static_guards", 0) + len(got)
                    if got != want:
                        fails.append({"case": {"id": case["id"], "method": idl.render_member(m).strip()}, "failures": [
                            {"error": "the size a skeleton compares a fixed-size slot with is not the size of the parameter",
                             "skeleton": mode, "emitted (slot, size)": got, "prescribed (slot, size)": want}]})


def run(ctx, prop):
    gate = C.lean_gate(prop, ctx.tier)
    ctx.setup()
    n = {"quick": 3, "thorough": 40}[ctx.tier]
    listed = {k["id"]: k for k in F.load(prop)}
    known_seen = {}
    oracle_fail, disagree, samples = [], [], []
    hist = {"cases": 0, "perturbed_calls": 0, "served": 0, "refused": 0, "invalid": 0, "followups_ok": 0, "by_skel": {}}
    distinct = set()
    cases = [("witness", w) for w in F.witness_cases(prop)]
    cases.append(("gen", gen.coverage_case("C04-coverage")))
    cases.append(("gen", gen.coverage_case3("C04-coverage3")))
    for i in range(n):
        cases.append(("gen", fix_for_cpp(gen.gen_case(ctx.rng, bench_opts(ctx.rng), cid=f"C04-{ctx.seed}-{i}"))))
    # this check always runs under the sanitizers: padded-bundle methods (finding bundlePadding,
    # a memory error by themselves) get a case of their own so that they cannot end the run of
    # everything declared after them
    split = []
    for origin, case in cases:
        if origin == "gen":
            rest, padded = split_padded(case)
            split.append((origin, rest))
            if padded is not None:
                split.append((origin, padded))
        else:
            split.append((origin, case))
    cases = split
    for origin, case in cases:
        with C.Scratch() as tmp:
            langs = ("c", "cpp", "rust")
            b = e2.build(case, os.path.join(tmp, "w"), ctx.idlc["debug"], langs=langs, valuations=1, seed=ctx.seed, sanitize=True)
            if not b["ok"]:
                langs = ("c", "rust")
                b = e2.build(case, os.path.join(tmp, "w2"), ctx.idlc["debug"], langs=langs, valuations=1, seed=ctx.seed, sanitize=True)
                if not b["ok"]:
                    if origin == "gen":
                        oracle_fail.append({"case": case, "failures": [{"error": "generated code does not build", "units": B.failed_units(b)[:2]}]})
                    continue
            hist["cases"] += 1
            r = e2.run(b, timeout=120)
            ctx.bump("evaluations")
            if r["rc"] != 0 or not any(x.get("ev") == "end" for x in r["records"]):
                # the well-formed calls themselves end in a memory error / crash (ASan build)
                lc = r.get("last_call") or {}
                mo_ = B.method_of(case, lc.get("iface"), lc.get("method")) if lc else None
                cls_ = method_classes(case, mo_[1]) if mo_ else set()
                hit = [kid for kid in listed if listed[kid]["classifier"] in cls_]
                rec = {"error": "a well-formed call through generated stub and skeleton is a memory error / crash under the sanitizers",
                       "rc": r["rc"], "last_call": lc, "stderr": r.get("stderr", "")[-400:]}
                if hit or (cls_ & {"ooBeforeOi", "embeddedObjOrder"}):
                    if hit:
                        known_seen.setdefault(hit[0], rec["error"])
                else:
                    oracle_fail.append({"case": {"id": case["id"], "method": idl.render_member(mo_[1]).strip() if mo_ else None}, "failures": [rec]})
            # well-formed envelopes as the C stub produced them
            good = {}
            for a in B.analyse(ctx, case, b, r):
                call = a["call"]
                if call["stub"] == langs[0] and a["env"] is not None and call["val"] == 0:
                    # a method whose argument array is not in canonical section order (the order
                    # findings of C01-C03) cannot be delivered by a transport that walks the array
                    # by its counts: there is no well-formed envelope to perturb
                    mo_ = B.method_of(case, call["iface"], call["method"])
                    if not a["pc"].get("optional"):
                        mw_ = B.model_wire(ctx, case, call["iface"], mo_[1], a["plan"])
                        secs_ = [int(x) for x in mw_.get("sections", "").split(",") if x]
                        if secs_ != sorted(secs_):
                            hist["skipped_noncanonical"] = hist.get("skipped_noncanonical", 0) + 1
                            continue
                    sizes = [s.get("size", 0) for s in a["env"]["slots"] if s["c"] in ("bi", "bo")]
                    good[(call["iface"], call["method"])] = (a["env"]["op"], a["env"]["k"], sizes, a["pc"].get("optional", False))
            lines, meta = [], []
            for (iface, mname), (op, k, sizes, optional) in sorted(good.items()):
                owner, m, _ = B.method_of(case, iface, mname)
                cls = method_classes(case, m)
                all_ops = [o for _, _, o in idl.flat_methods(case, iface)]
                mw = model_skel(ctx, case, iface, True, op, k, sizes)
                guards = [tuple(int(x) for x in g.split(":")) for g in mw.get("guards", "").split()]
                # guard indices are array indices; the size list covers the buffer slots, which
                # come first in a canonical envelope
                for skel in langs:
                    for lab, o2, k2, s2 in perturbations(ctx.rng, op, k, sizes, guards, all_ops, ctx.tier):
                        lines.append(f"{skel} {iface} {mname} {o2} {k2} {len(s2)} " + " ".join(map(str, s2)))
                        meta.append({"skel": skel, "iface": iface, "method": mname, "label": lab, "op": o2, "k": k2, "sizes": s2,
                                     "good": (op, k, sizes), "optional": optional, "classes": sorted(cls), "m": m})
            pf = os.path.join(tmp, "perturb.txt")
            open(pf, "w").write("\n".join(lines) + "\n")
            r2 = e2.run(b, timeout=300, perturb_file=pf)
            recs = r2["records"]
            # group: pcall, [impl]?, perturb, call(after_perturb), …
            groups, cur = [], None
            for x in recs:
                if x.get("ev") == "pcall":
                    cur = {"pcall": x, "recs": []}
                    groups.append(cur)
                elif cur is not None:
                    cur["recs"].append(x)
            crashed = r2["rc"] != 0 or not any(x.get("ev") == "end" for x in recs)
            for gi, me in enumerate(meta):
                if gi >= len(groups):
                    break
                g = groups[gi]
                hist["perturbed_calls"] += 1
                hist["by_skel"][me["skel"]] = hist["by_skel"].get(me["skel"], 0) + 1
                pert = next((x for x in g["recs"] if x.get("ev") == "perturb"), None)
                idx_p = g["recs"].index(pert) if pert in g["recs"] else len(g["recs"])
                entered = any(x.get("ev") == "impl" for x in g["recs"][:idx_p])
                status = pert["status"] if pert else None
                mw = model_skel(ctx, case, me["iface"], me["skel"] != "rust", me["op"], me["k"], me["sizes"])
                outcome = mw.get("outcome")
                hist[outcome if outcome in hist else "refused"] += 1
                # --- correspondence (inside a known-finding class the skeleton's behaviour is the
                # recorded defect, e.g. a sanitizer abort where the model says "served")
                in_known = any(listed[kid]["classifier"] in me["classes"] for kid in listed)
                if in_known:
                    pass
                elif outcome == "served" and not (entered and pert is not None):
                    disagree.append({"case": {"id": case["id"], "method": idl.render_member(me["m"]).strip()}, "perturbation": {k: me[k] for k in ("skel", "label", "op", "k", "sizes")},
                                     "model": outcome, "entered": entered, "status": status})
                if not in_known and outcome in ("refused", "invalid") and entered:
                    disagree.append({"case": {"id": case["id"], "method": idl.render_member(me["m"]).strip()}, "perturbation": {k: me[k] for k in ("skel", "label", "op", "k", "sizes")},
                                     "model": outcome, "entered": entered, "status": status})
                # --- oracle (independent of the model for counts / op / optional)
                bad = []
                want_counts = pack(mink_counts(case, me["m"]))
                gop, gk, gsizes = me["good"]
                ops = {o: mm for _, mm, o in idl.flat_methods(case, me["iface"])}
                mid = me["op"] & 0xFFFF if me["skel"] != "rust" else me["op"]
                must_refuse = None
                if mid not in ops:
                    must_refuse = "unknown op"
                elif ops[mid].get("optional") and not ops[mid].get("implemented"):
                    must_refuse = "optional not provided"
                elif me["k"] != pack(mink_counts(case, ops[mid])):
                    must_refuse = "counts differ"
                elif me["label"].startswith("size[") or me["label"] == "combined":
                    must_refuse = "fixed-size slot size differs"
                if pert is None:
                    bad.append({"error": "skeleton crashed on a perturbed envelope (no result record)"})
                elif must_refuse:
                    if entered:
                        bad.append({"error": f"implementation entered although {must_refuse}", "status": status})
                    if status == 0:
                        bad.append({"error": f"status 0 although {must_refuse}"})
                    if must_refuse == "optional not provided" and me["k"] == pack(mink_counts(case, ops[mid])) \
                            and not me["label"].startswith("size[") and status != 2:
                        bad.append({"error": "optional unimplemented method must give ERROR_INVALID", "status": status})
                # --- the object stays usable: the follow-up well-formed call is served normally
                follow = [x for x in g["recs"][idx_p + 1:]]
                fcall = next((x for x in follow if x.get("ev") == "call"), None)
                if fcall is not None:
                    fa = {"call": fcall, "pc": next(c for c in b["plan"]["calls"] if c["iface"] == me["iface"] and c["method"] == me["method"]),
                          "env": next((x for x in follow if x["ev"] == "envelope"), None),
                          "impl": next((x for x in follow if x["ev"] == "impl"), None),
                          "reply": next((x for x in follow if x["ev"] == "reply"), None),
                          "ret": next((x for x in follow if x["ev"] == "ret"), None),
                          "refs": [x for x in follow if x["ev"] == "refs"]}
                    fa["plan"] = fa["pc"]["vals"][0]
                    ff = B.identity_failures(fa)
                    if ff:
                        bad.append({"error": "the well-formed call after the perturbed one was not served normally", "detail": ff[0]})
                    else:
                        hist["followups_ok"] += 1
                    for rr in fa["refs"]:
                        if rr["count"] != 0:
                            bad.append({"error": "an object leaked or was over-released around a refused call", "token": rr["token"], "count": rr["count"]})
                for x in bad:
                    hit = [kid for kid in listed if any(cl in me["classes"] for cl in [listed[kid]["classifier"]])]
                    if hit:
                        known_seen.setdefault(hit[0], f"{me['skel']} {me['label']}: {x['error']}")
                    else:
                        oracle_fail.append({"case": {"id": case["id"], "method": idl.render_member(me["m"]).strip()},
                                            "failures": [dict(x, perturbation={k: me[k] for k in ("skel", "label", "op", "k", "sizes")})]})
                distinct.add((me["skel"], me["label"].split("=")[0].split("[")[0], tuple(sorted((p["dir"], idl.param_kind(case, p)) for p in me["m"]["params"]))))
                if len(samples) < 5 and me["label"] != "baseline":
                    samples.append({"perturbation": {k: me[k] for k in ("skel", "iface", "method", "label", "op", "k", "sizes")},
                                    "status": status, "implementation_entered": entered, "model": outcome})
            if crashed and len(groups) < len(meta):
                me = meta[len(groups) - 1] if groups else meta[0]
                rec = {"error": "bench binary crashed while delivering perturbed envelopes (memory access outside the described extents?)",
                       "rc": r2["rc"], "at": {k: me[k] for k in ("skel", "label", "op", "k", "sizes")}, "stderr": r2["stderr"][-500:]}
                hit = [kid for kid in listed if listed[kid]["classifier"] in me["classes"]]
                if hit:
                    known_seen.setdefault(hit[0], rec["error"])
                else:
                    oracle_fail.append({"case": {"id": case["id"], "method": idl.render_member(me["m"]).strip()}, "failures": [rec]})
    # ---- what a skeleton compares an envelope with is the counts word: a method whose counts do
    # not fit it must never reach a skeleton (an accepted one is emitted with a wrapped word, and
    # the skeleton then serves a malformed envelope as if it were well-formed): the shared
    # over-limit family must be refused in every backend mode
    # ---- the emitted guards themselves, incl. for structs too large to be exercised at run time
    static_guard_pass(ctx, HUGE_CASE, oracle_fail, disagree, hist, use_model=False)
    static_guard_pass(ctx, split_padded(gen.coverage_case("C04-guards"))[0], oracle_fail, disagree, hist)
    from .. import bounds as BD
    hist["over_limit_runs"] = BD.must_refuse_family(ctx, oracle_fail, modes=("c", "c-skel", "cpp-skel", "rust"), label="C04-over-limit")
    ctx.bump("evaluations", hist["over_limit_runs"])
    known_lines = []
    for kid, k in listed.items():
        if kid in known_seen:
            known_lines.append(f"{kid}: {k['what']} [e.g. {known_seen[kid]}]")
        else:
            oracle_fail.append({"case": {"id": "known-finding-stale"}, "failures": [{"kind": "stale", "finding": kid}]})
    return finish(ctx, prop, gate, oracle_fail, disagree, samples, len(distinct), hist, known=known_lines,
                  rule="for each method of generated file sets and each skeleton (C, C++, Rust; built with AddressSanitizer/UBSan): the well-formed "
                       "envelope recorded from a real stub call is perturbed — every counts nibble +-1 and set to 0/15, every guarded slot size "
                       "in {0, n-1, n+1, 2^31}, foreign / out-of-range / modifier-bit op-codes, a combined perturbation — and delivered "
                       "straight to the skeleton in an exact-size argument array with exact-size buffers; observed: status, whether the "
                       "implementation was entered, sanitizer faults; after each perturbed call a well-formed call to the same object must be "
                       "served normally; distinct = distinct (skeleton, perturbation kind, parameter-kind multiset)",
                  extra={"engines": ["E2 bench with perturbed envelopes (ASan/UBSan)", "Lean skeleton guard model (skel requests)"]})
